(* Proofs/HangulP.v — lemmas about Model/Hangul.v (property C12). *)
From Coq Require Import List NArith ZArith Bool Arith Lia ZifyBool ZifyN ZifyNat Permutation.
From RB Require Import Base.ListX Gen.HangulConsts Model.Hangul.
Import ListNotations.
Local Open Scope N_scope.
Ltac Zify.zify_post_hook ::= Z.div_mod_to_equations.
Arguments N.add : simpl never. Arguments N.sub : simpl never. Arguments N.mul : simpl never.
Arguments N.eqb : simpl never. Arguments N.leb : simpl never. Arguments N.ltb : simpl never.
Arguments N.min : simpl never. Arguments N.div : simpl never. Arguments N.modulo : simpl never.

Ltac unf_consts := unfold S_COUNT, N_COUNT, L_BASE, V_BASE, T_BASE, L_COUNT, V_COUNT, T_COUNT, S_BASE,
  U_S_COUNT, U_N_COUNT, U_L_BASE, U_V_BASE, U_T_BASE, U_L_COUNT, U_V_COUNT, U_T_COUNT, U_S_BASE in *.
Ltac unf_preds := unfold is_combining_l, is_combining_v, is_combining_t, is_combined_s, is_l, is_v, is_t,
  is_hangul_tone, in_ranges, is_combining_l_ranges, is_combining_v_ranges, is_combining_t_ranges,
  is_combined_s_ranges, is_l_ranges, is_v_ranges, is_t_ranges, is_hangul_tone_ranges, in_range in *;
  cbn [existsb fst snd] in *; unf_consts.
Ltac if_true := match goal with |- context [if ?c then _ else _] => let E := fresh "E" in assert (E : c = true) by lia; rewrite E; clear E end.
Ltac if_false := match goal with |- context [if ?c then _ else _] => let E := fresh "E" in assert (E : c = false) by lia; rewrite E; clear E end.

(* ================================================================== A. arithmetic *)

Lemma arith_shaper l v t : l < L_COUNT -> v < V_COUNT -> t < T_COUNT ->
  let s := compose_s (L_BASE + l) (V_BASE + v) t in
  s = 44032 + (l * 21 + v) * 28 + t /\ is_combined_s s = true /\
  lindex_of s = l /\ vindex_of s = v /\ tindex_of s = t.
Proof.
  intros Hl Hv Ht s. subst s. unfold compose_s, lindex_of, vindex_of, tindex_of, nindex_of. unf_preds.
  repeat split; lia.
Qed.

Lemma arith_unicode l v t : l < L_COUNT -> v < V_COUNT -> t < T_COUNT ->
  let s := compose_s (L_BASE + l) (V_BASE + v) t in
  u_compose_hangul (L_BASE + l) (V_BASE + v) = Some (s - t) /\
  (0 < t -> u_compose_hangul (s - t) (T_BASE + t) = Some s) /\
  u_decompose_hangul s = Some (if t =? 0 then (L_BASE + l, V_BASE + v) else (s - t, T_BASE + t)).
Proof.
  intros Hl Hv Ht s. subst s. unfold compose_s, u_compose_hangul, u_decompose_hangul. unf_consts.
  repeat split.
  - if_true. f_equal. lia.
  - intros Hp. if_false. if_true. f_equal. lia.
  - if_false. if_false. destruct (t =? 0) eqn:Et.
    + if_false. f_equal. f_equal; lia.
    + if_true. f_equal. f_equal; lia.
Qed.

(* every syllable is the image of exactly one triple: the decomposition indices are in range and recompose *)
Lemma arith_inverse s : is_combined_s s = true ->
  lindex_of s < L_COUNT /\ vindex_of s < V_COUNT /\ tindex_of s < T_COUNT /\
  compose_s (L_BASE + lindex_of s) (V_BASE + vindex_of s) (tindex_of s) = s.
Proof.
  unfold compose_s, lindex_of, vindex_of, tindex_of, nindex_of. unf_preds. intros H.
  repeat split; lia.
Qed.

(* ---- facts about the range predicates *)
Lemma combining_l_facts u : is_combining_l u = true ->
  is_l u = true /\ is_hangul_tone u = false /\ is_combined_s u = false /\ u - L_BASE < L_COUNT /\ u = L_BASE + (u - L_BASE).
Proof. unf_preds. lia. Qed.
Lemma combining_v_facts u : is_combining_v u = true -> is_v u = true /\ u - V_BASE < V_COUNT /\ u = V_BASE + (u - V_BASE).
Proof. unf_preds. lia. Qed.
Lemma combining_t_facts u : is_combining_t u = true ->
  is_t u = true /\ (u =? 0) = false /\ u - T_BASE < T_COUNT /\ 0 < u - T_BASE /\ u = T_BASE + (u - T_BASE).
Proof. unf_preds. lia. Qed.
Lemma is_l_facts u : is_l u = true -> is_hangul_tone u = false /\ is_combined_s u = false.
Proof. unf_preds. lia. Qed.
Lemma is_t_facts u : is_t u = true -> (u =? 0) = false.
Proof. unf_preds. lia. Qed.
Lemma combined_s_facts u : is_combined_s u = true -> is_hangul_tone u = false /\ is_l u = false.
Proof. unf_preds. lia. Qed.
(* the old-Hangul ranges named in the property are leading / vowel / trailing jamo that do not compose *)
Lemma old_l_facts u : (4447 >= u /\ u >= 4371) \/ (43360 <= u <= 43388) -> is_l u = true /\ is_combining_l u = false.
Proof. unf_preds. lia. Qed.
Lemma old_v_facts u : (4470 <= u <= 4519) \/ u = 4448 \/ (55216 <= u <= 55238) -> is_v u = true /\ is_combining_v u = false.
Proof. unf_preds. lia. Qed.
Lemma old_t_facts u : (4547 <= u <= 4607) \/ (55243 <= u <= 55291) -> is_t u = true /\ is_combining_t u = false.
Proof. unf_preds. lia. Qed.

(* ================================================================== B. flags do not touch cp / cluster / feature / ghost *)

Definition erase (x : info) : info := mkI (cp x) (cl x) (feat x) false (cont x).

Lemma erase_fields x y : erase x = erase y -> cp x = cp y /\ cl x = cl y /\ feat x = feat y /\ cont x = cont y.
Proof. unfold erase. intros H. injection H. auto. Qed.
Lemma erase_flag_if_ne c x : erase (flag_if_ne c x) = erase x.
Proof. unfold flag_if_ne. destruct (cl x =? c); reflexivity. Qed.
Lemma map_erase_flag_if_ne c l : map erase (map (flag_if_ne c) l) = map erase l.
Proof. induction l; cbn; [reflexivity|]. rewrite erase_flag_if_ne, IHl. reflexivity. Qed.
Lemma map_erase_flag_while s c l : map erase (flag_while_ne s c l) = map erase l.
Proof.
  induction l; cbn; [reflexivity|]. destruct (cl a =? s); [reflexivity|].
  cbn. rewrite erase_flag_if_ne, IHl. reflexivity.
Qed.
Lemma map_erase_slice lvl c l : map erase (set_glyph_flags_slice lvl c l) = map erase l.
Proof.
  unfold set_glyph_flags_slice. destruct l as [|f t]; [reflexivity|].
  destruct ((lvl =? LEVEL_CHARACTERS) || _).
  - apply map_erase_flag_if_ne.
  - destruct (c =? cl f).
    + rewrite map_rev, map_erase_flag_while, <- map_rev, rev_involutive. reflexivity.
    + apply map_erase_flag_while.
Qed.
Lemma map_erase_utb_in lvl n re : map erase (unsafe_to_break_in lvl n re) = map erase re.
Proof.
  unfold unsafe_to_break_in. destruct (length (firstn n re) <? 2)%nat; [reflexivity|].
  rewrite map_app, map_erase_slice, <- map_app, firstn_skipn. reflexivity.
Qed.
Lemma map_erase_utb_out lvl st ro : map erase (utb_from_out lvl st ro) = map erase ro.
Proof.
  unfold utb_from_out. rewrite map_app, map_rev, map_erase_slice, <- map_rev, rev_involutive, <- map_app, firstn_skipn.
  reflexivity.
Qed.

Lemma erase_set_cluster c x : erase (set_cluster c x) = mkI (cp x) c (feat x) false (cont x).
Proof.
  unfold set_cluster. destruct (cl x =? c) eqn:E; [|reflexivity]. apply N.eqb_eq in E. subst c. reflexivity.
Qed.
Lemma cl_set_cluster c x : cl (set_cluster c x) = c.
Proof. unfold set_cluster. destruct (cl x =? c) eqn:E; [apply N.eqb_eq in E; exact E|reflexivity]. Qed.
Lemma cp_set_cluster c x : cp (set_cluster c x) = cp x.
Proof. unfold set_cluster. destruct (cl x =? c); reflexivity. Qed.
Lemma feat_set_cluster c x : feat (set_cluster c x) = feat x.
Proof. unfold set_cluster. destruct (cl x =? c); reflexivity. Qed.
Lemma cont_set_cluster c x : cont (set_cluster c x) = cont x.
Proof. unfold set_cluster. destruct (cl x =? c); reflexivity. Qed.
Lemma set_cluster_same x : set_cluster (cl x) x = x.
Proof. unfold set_cluster. rewrite N.eqb_refl. reflexivity. Qed.

Lemma set_while_same k l : set_while k k l = l.
Proof.
  induction l; cbn; [reflexivity|]. destruct (cl a =? k) eqn:E; [|reflexivity].
  rewrite IHl. unfold set_cluster. rewrite E. reflexivity.
Qed.

(* an erased-equal list of known length has known shape *)
Lemma map_erase_2 X a b : map erase X = [erase a; erase b] ->
  exists a' b', X = [a'; b'] /\ erase a' = erase a /\ erase b' = erase b.
Proof.
  intros H. apply map_eq_cons in H. destruct H as (a' & X1 & -> & Ea & H).
  apply map_eq_cons in H. destruct H as (b' & X2 & -> & Eb & H). apply map_eq_nil in H. subst.
  eauto.
Qed.
Lemma map_erase_3 X a b c : map erase X = [erase a; erase b; erase c] ->
  exists a' b' c', X = [a'; b'; c'] /\ erase a' = erase a /\ erase b' = erase b /\ erase c' = erase c.
Proof.
  intros H. apply map_eq_cons in H. destruct H as (a' & X1 & -> & Ea & H).
  apply map_erase_2 in H. destruct H as (b' & c' & -> & ? & ?). eauto 8.
Qed.

(* ================================================================== C. the branches of one loop iteration *)

(* merge_out_clusters(start, end) with end == out_len, as every call of the Hangul shaper has it *)
Definition merge_tail (k : nat) (ro re : list info) : list info * list info :=
  let seg := firstn k ro in
  let older := skipn k ro in
  match seg with
  | [] => (ro, re)
  | e :: _ =>
      let c := min_cl (cl e) seg in
      (map (set_cluster c) seg ++ set_while (cl (last seg e)) c older, set_while (cl e) c re)
  end.

Lemma merge_out_tail lvl start end_ ro re :
  lvl <> LEVEL_CHARACTERS -> end_ = length ro -> (2 <= end_ - start)%nat ->
  merge_out_clusters lvl start end_ ro re = merge_tail (end_ - start) ro re.
Proof.
  intros Hl He Hk. unfold merge_out_clusters, merge_tail. apply N.eqb_neq in Hl. rewrite Hl.
  destruct (end_ - start <? 2)%nat eqn:E; [apply Nat.ltb_lt in E; lia|].
  subst end_. rewrite Nat.sub_diag. cbn [firstn skipn rev set_while_all].
  destruct (firstn (length ro - start) ro); reflexivity.
Qed.

Lemma upd_nth_app_l i f pre ro : (i < length pre)%nat -> upd_nth i f (pre ++ ro) = upd_nth i f pre ++ ro.
Proof.
  revert i. induction pre as [|x pre IH]; intros i Hi; cbn in Hi; [lia|].
  destruct i; cbn; [reflexivity|]. rewrite IH by lia. reflexivity.
Qed.
Lemma set_feat_out_app j f pre ro : (j < length pre)%nat ->
  set_feat_out (length ro + j) f (pre ++ ro) = upd_nth (length pre - 1 - j) (set_feat f) pre ++ ro.
Proof.
  intros Hj. unfold set_feat_out. rewrite app_length.
  replace (length pre + length ro - 1 - (length ro + j))%nat with (length pre - 1 - j)%nat by lia.
  apply upd_nth_app_l. lia.
Qed.

Lemma compose_s_add l v t : compose_s l v t = compose_s l v 0 + t.
Proof. unfold compose_s. lia. Qed.
Lemma lv_plus_t s t : is_combined_s s = true -> tindex_of s = 0 ->
  s + t = compose_s (L_BASE + lindex_of s) (V_BASE + vindex_of s) t.
Proof.
  intros Hs Ht. destruct (arith_inverse s Hs) as (_ & _ & _ & E). rewrite Ht in E.
  rewrite compose_s_add, E. reflexivity.
Qed.
Lemma not_is_t_not_combining u : is_t u = false -> is_combining_t u = false.
Proof. unf_preds. lia. Qed.

Definition no_t (suf : list info) : Prop := match suf with x :: _ => is_t (cp x) = false | [] => True end.

Ltac expose2 lvl a b a' b' :=
  match goal with |- context [set_glyph_flags_slice lvl ?c [a; b]] =>
    let X := fresh "X" in let EX := fresh "EX" in let HX := fresh "HX" in
    remember (set_glyph_flags_slice lvl c [a; b]) as X eqn:EX;
    assert (HX : map erase X = [erase a; erase b]) by (rewrite EX; apply map_erase_slice);
    clear EX; apply map_erase_2 in HX; destruct HX as (a' & b' & -> & ? & ?) end.
Ltac expose3 lvl a b c0 a' b' c' :=
  match goal with |- context [set_glyph_flags_slice lvl ?c [a; b; c0]] =>
    let X := fresh "X" in let EX := fresh "EX" in let HX := fresh "HX" in
    remember (set_glyph_flags_slice lvl c [a; b; c0]) as X eqn:EX;
    assert (HX : map erase X = [erase a; erase b; erase c0]) by (rewrite EX; apply map_erase_slice);
    clear EX; apply map_erase_3 in HX; destruct HX as (a' & b' & c' & -> & ? & ? & ?) end.
Ltac fields := repeat match goal with H : erase _ = erase _ |- _ => apply erase_fields in H; destruct H as (? & ? & ? & ?) end.

Ltac close_fields := unfold erase, set_cont; cbn [cp cl feat cont utb];
  rewrite ?cl_set_cluster, ?cp_set_cluster, ?feat_set_cluster, ?cont_set_cluster;
  unfold set_feat, with_cp; cbn [cp cl feat cont utb]; try reflexivity; f_equal; congruence.

Lemma andb4_false a b c d : b && c = false -> a && b && c && d = false.
Proof. intros H. rewrite <- (andb_assoc a b c), H, andb_false_r. reflexivity. Qed.
Lemma andb3_false a b c : b && c = false -> a && b && c = false.
Proof. intros H. rewrite <- (andb_assoc a b c), H, andb_false_r. reflexivity. Qed.

Section Branches.
Variables (has zw : N -> bool) (lvl : N) (nd : bool).
Notation STEP := (step has zw lvl nd).

Lemma erase_with_cp_set_cluster g c x y :
  cl y = cl x -> feat y = feat x -> cont y = cont x ->
  erase (with_cp g (set_cluster c y)) = mkI g c (feat x) false (cont x).
Proof.
  intros. unfold erase, with_cp. cbn. rewrite cl_set_cluster, feat_set_cluster, cont_set_cluster. congruence.
Qed.

(* ---------------- <L,V,T> of combining jamo, font has S: one glyph S, cluster = min (levels 0, 1) *)
Theorem compose_LVT ro L V T suf st en :
  is_combining_l (cp L) = true -> is_combining_v (cp V) = true -> is_combining_t (cp T) = true ->
  has (compose_s (cp L) (cp V) (cp T - T_BASE)) = true ->
  lvl <> LEVEL_CHARACTERS ->
  let c := N.min (N.min (cl L) (cl V)) (cl T) in
  exists s', STEP (mkS ro (L :: V :: T :: suf) st en) = Some s' /\
    map erase (rout s') = mkI (compose_s (cp L) (cp V) (cp T - T_BASE)) c (feat L) false (cont L)
                          :: map erase (set_while (cl L) c ro) /\
    rest s' = set_while (cl T) c suf /\ sstart s' = length ro /\ send s' = (length ro + 1)%nat.
Proof.
  intros HL HV HT Hhas Hlvl c.
  destruct (combining_l_facts _ HL) as (HL1 & HL2 & _).
  destruct (combining_v_facts _ HV) as (HV1 & _).
  destruct (combining_t_facts _ HT) as (HT1 & HT2 & _).
  unfold step, cur_cp. cbn [rout rest sstart send nth length].
  rewrite HL2, HL1. cbn [Nat.ltb Nat.leb andb]. rewrite HV1, HT1. cbn [andb]. rewrite HT2.
  rewrite HL, HV, HT, Hhas. cbn [andb orb].
  unfold unsafe_to_break_in. cbn [firstn length Nat.ltb Nat.leb skipn].
  expose3 lvl L V T L' V' T'. fields.
  cbn [app]. unfold replace_glyphs. cbn [length Nat.ltb Nat.leb]. unfold merge_clusters. cbn [Nat.ltb Nat.leb].
  apply N.eqb_neq in Hlvl. rewrite Hlvl.
  cbn [firstn skipn last map app min_cl fold_left].
  eexists. split; [reflexivity|]. cbn [bind rout rest sstart send fst snd map rev app].
  assert (Ec : N.min (N.min (N.min (cl L') (cl L')) (cl V')) (cl T') = c) by (subst c; lia).
  rewrite Ec.
  replace (cl L') with (cl L) by congruence. replace (cl T') with (cl T) by congruence.
  repeat split.
  - f_equal; [apply erase_with_cp_set_cluster; congruence|].
    destruct (cl L =? c) eqn:E1; cbn [negb]; [|reflexivity].
    apply N.eqb_eq in E1. rewrite E1, set_while_same. reflexivity.
  - destruct (c =? cl T) eqn:E1; cbn [negb]; [|reflexivity].
    apply N.eqb_eq in E1. rewrite <- E1, set_while_same. reflexivity.
Qed.

(* the same at level Characters: no cluster is changed, S carries the cluster of L *)
Theorem compose_LVT_characters ro L V T suf st en :
  is_combining_l (cp L) = true -> is_combining_v (cp V) = true -> is_combining_t (cp T) = true ->
  has (compose_s (cp L) (cp V) (cp T - T_BASE)) = true ->
  lvl = LEVEL_CHARACTERS ->
  exists s', STEP (mkS ro (L :: V :: T :: suf) st en) = Some s' /\
    map erase (rout s') = mkI (compose_s (cp L) (cp V) (cp T - T_BASE)) (cl L) (feat L) false (cont L) :: map erase ro /\
    rest s' = suf /\ sstart s' = length ro /\ send s' = (length ro + 1)%nat.
Proof.
  intros HL HV HT Hhas Hlvl.
  destruct (combining_l_facts _ HL) as (HL1 & HL2 & _).
  destruct (combining_v_facts _ HV) as (HV1 & _).
  destruct (combining_t_facts _ HT) as (HT1 & HT2 & _).
  unfold step, cur_cp. cbn [rout rest sstart send nth length].
  rewrite HL2, HL1. cbn [Nat.ltb Nat.leb andb]. rewrite HV1, HT1. cbn [andb]. rewrite HT2.
  rewrite HL, HV, HT, Hhas. cbn [andb orb].
  unfold unsafe_to_break_in. cbn [firstn length Nat.ltb Nat.leb skipn].
  expose3 lvl L V T L' V' T'.
  cbn [app]. unfold replace_glyphs. cbn [length Nat.ltb Nat.leb]. unfold merge_clusters. cbn [Nat.ltb Nat.leb].
  assert (Hl2 : (lvl =? LEVEL_CHARACTERS) = true) by (apply N.eqb_eq; exact Hlvl). rewrite Hl2.
  unfold unsafe_to_break_in. cbn [firstn length Nat.ltb Nat.leb skipn].
  expose3 lvl L' V' T' L2 V2 T2. fields.
  cbn [app skipn]. eexists. split; [reflexivity|]. cbn [bind rout rest sstart send fst snd map rev app].
  repeat split. f_equal. unfold erase, with_cp. cbn. f_equal; congruence.
Qed.

(* ---------------- <L,V> of combining jamo not followed by a trailing jamo, font has S *)
Theorem compose_LV ro L V suf st en :
  is_combining_l (cp L) = true -> is_combining_v (cp V) = true -> no_t suf ->
  has (compose_s (cp L) (cp V) 0) = true ->
  lvl <> LEVEL_CHARACTERS ->
  let c := N.min (cl L) (cl V) in
  exists s', STEP (mkS ro (L :: V :: suf) st en) = Some s' /\
    map erase (rout s') = mkI (compose_s (cp L) (cp V) 0) c (feat L) false (cont L)
                          :: map erase (set_while (cl L) c ro) /\
    rest s' = set_while (cl V) c suf /\ sstart s' = length ro /\ send s' = (length ro + 1)%nat.
Proof.
  intros HL HV Hsuf Hhas Hlvl c.
  destruct (combining_l_facts _ HL) as (HL1 & HL2 & _).
  destruct (combining_v_facts _ HV) as (HV1 & _).
  assert (Ht : ((2 <? length (L :: V :: suf))%nat && is_t (cp (nth 2 (L :: V :: suf) dflt))) = false).
  { destruct suf as [|x suf0]; cbn [length nth Nat.ltb Nat.leb andb]; [reflexivity|]. unfold no_t in Hsuf. rewrite Hsuf. reflexivity. }
  unfold step, cur_cp. cbn [rout rest sstart send]. rewrite Ht.
  cbn [nth length]. rewrite HL2, HL1. cbn [Nat.ltb Nat.leb andb]. rewrite HV1.
  rewrite N.eqb_refl. rewrite HL, HV, Hhas. cbn [andb orb].
  unfold unsafe_to_break_in. cbn [firstn length Nat.ltb Nat.leb skipn].
  expose2 lvl L V L' V'. fields.
  cbn [app]. unfold replace_glyphs. cbn [length Nat.ltb Nat.leb]. unfold merge_clusters. cbn [Nat.ltb Nat.leb].
  apply N.eqb_neq in Hlvl. rewrite Hlvl.
  cbn [firstn skipn last map app min_cl fold_left].
  eexists. split; [reflexivity|]. cbn [bind rout rest sstart send fst snd map rev app].
  assert (Ec : N.min (N.min (cl L') (cl L')) (cl V') = c) by (subst c; lia).
  rewrite Ec.
  replace (cl L') with (cl L) by congruence. replace (cl V') with (cl V) by congruence.
  repeat split.
  - f_equal; [apply erase_with_cp_set_cluster; congruence|].
    destruct (cl L =? c) eqn:E1; cbn [negb]; [|reflexivity].
    apply N.eqb_eq in E1. rewrite E1, set_while_same. reflexivity.
  - destruct (c =? cl V) eqn:E1; cbn [negb]; [|reflexivity].
    apply N.eqb_eq in E1. rewrite <- E1, set_while_same. reflexivity.
Qed.

(* ---------------- <L,V,T> that is not composed (old Hangul jamo, or the font lacks S): the jamo stay and are
   tagged ljmo / vjmo / tjmo; at level MonotoneGraphemes they are merged into one cluster *)
Theorem tagged_LVT_graphemes ro L V T suf st en :
  is_l (cp L) = true -> is_v (cp V) = true -> is_t (cp T) = true ->
  is_combining_l (cp L) && is_combining_v (cp V) && is_combining_t (cp T)
    && has (compose_s (cp L) (cp V) (cp T - T_BASE)) = false ->
  lvl = HANGUL_MERGE_LEVEL ->
  let c := N.min (N.min (cl L) (cl V)) (cl T) in
  exists s', STEP (mkS ro (L :: V :: T :: suf) st en) = Some s' /\
    map erase (rout s') = mkI (cp T) c TJMO false true :: mkI (cp V) c VJMO false true
                          :: mkI (cp L) c LJMO false (cont L) :: map erase (set_while (cl L) c ro) /\
    rest s' = set_while (cl T) c suf /\ sstart s' = length ro /\ send s' = (length ro + 3)%nat.
Proof.
  intros HL1 HV1 HT1 Hnc Hlvl c.
  destruct (is_l_facts _ HL1) as (HL2 & _). pose proof (is_t_facts _ HT1) as HT2.
  unfold step, cur_cp. cbn [rout rest sstart send nth length].
  rewrite HL2, HL1. cbn [Nat.ltb Nat.leb andb]. rewrite HV1, HT1. cbn [andb]. rewrite HT2. cbn [orb].
  rewrite Hnc.
  unfold unsafe_to_break_in. cbn [firstn length Nat.ltb Nat.leb skipn].
  expose3 lvl L V T L' V' T'. fields.
  cbn [app tag_next bind fst snd].
  assert (Hl0 : (lvl =? HANGUL_MERGE_LEVEL) = true) by (apply N.eqb_eq; exact Hlvl). rewrite Hl0.
  rewrite merge_out_tail; [| rewrite Hlvl; discriminate | cbn [length]; lia | lia].
  replace (length ro + 3 - length ro)%nat with 3%nat by lia.
  unfold merge_tail. cbn [firstn skipn last map app min_cl fold_left set_feat cl].
  eexists. split; [reflexivity|]. cbn [rout rest sstart send].
  assert (Ec : N.min (N.min (N.min (cl T') (cl T')) (cl V')) (cl L') = c) by (subst c; lia).
  rewrite Ec. replace (cl L') with (cl L) by congruence. replace (cl T') with (cl T) by congruence.
  repeat split.
  unfold mark_syl. cbn [Nat.sub firstn skipn map app].
  f_equal; [|f_equal; [|f_equal]]; unfold erase, set_cont, set_feat; cbn;
    rewrite ?cl_set_cluster, ?cp_set_cluster, ?feat_set_cluster, ?cont_set_cluster; cbn; f_equal; congruence.
Qed.

(* ... at the other cluster levels every jamo keeps its own cluster *)
Theorem tagged_LVT_characters ro L V T suf st en :
  is_l (cp L) = true -> is_v (cp V) = true -> is_t (cp T) = true ->
  is_combining_l (cp L) && is_combining_v (cp V) && is_combining_t (cp T)
    && has (compose_s (cp L) (cp V) (cp T - T_BASE)) = false ->
  lvl <> HANGUL_MERGE_LEVEL ->
  exists s', STEP (mkS ro (L :: V :: T :: suf) st en) = Some s' /\
    map erase (rout s') = mkI (cp T) (cl T) TJMO false true :: mkI (cp V) (cl V) VJMO false true
                          :: mkI (cp L) (cl L) LJMO false (cont L) :: map erase ro /\
    rest s' = suf /\ sstart s' = length ro /\ send s' = (length ro + 3)%nat.
Proof.
  intros HL1 HV1 HT1 Hnc Hlvl.
  destruct (is_l_facts _ HL1) as (HL2 & _). pose proof (is_t_facts _ HT1) as HT2.
  unfold step, cur_cp. cbn [rout rest sstart send nth length].
  rewrite HL2, HL1. cbn [Nat.ltb Nat.leb andb]. rewrite HV1, HT1. cbn [andb]. rewrite HT2. cbn [orb].
  rewrite Hnc.
  unfold unsafe_to_break_in. cbn [firstn length Nat.ltb Nat.leb skipn].
  expose3 lvl L V T L' V' T'. fields.
  cbn [app tag_next bind fst snd].
  apply N.eqb_neq in Hlvl. rewrite Hlvl.
  eexists. split; [reflexivity|]. cbn [rout rest sstart send].
  repeat split.
  unfold mark_syl. cbn [Nat.sub firstn skipn map app].
  f_equal; [|f_equal; [|f_equal]]; unfold erase, set_cont, set_feat; cbn; f_equal; congruence.
Qed.

(* ---------------- <L,V> that is not composed *)
Theorem tagged_LV_graphemes ro L V suf st en :
  is_l (cp L) = true -> is_v (cp V) = true -> no_t suf ->
  is_combining_l (cp L) && is_combining_v (cp V) && has (compose_s (cp L) (cp V) 0) = false ->
  lvl = HANGUL_MERGE_LEVEL ->
  let c := N.min (cl L) (cl V) in
  exists s', STEP (mkS ro (L :: V :: suf) st en) = Some s' /\
    map erase (rout s') = mkI (cp V) c VJMO false true :: mkI (cp L) c LJMO false (cont L)
                          :: map erase (set_while (cl L) c ro) /\
    rest s' = set_while (cl V) c suf /\ sstart s' = length ro /\ send s' = (length ro + 2)%nat.
Proof.
  intros HL1 HV1 Hsuf Hnc Hlvl c.
  destruct (is_l_facts _ HL1) as (HL2 & _).
  assert (Ht : ((2 <? length (L :: V :: suf))%nat && is_t (cp (nth 2 (L :: V :: suf) dflt))) = false).
  { destruct suf as [|x suf0]; cbn [length nth Nat.ltb Nat.leb andb]; [reflexivity|]. unfold no_t in Hsuf. rewrite Hsuf. reflexivity. }
  unfold step, cur_cp. cbn [rout rest sstart send]. rewrite Ht.
  cbn [nth length]. rewrite HL2, HL1. cbn [Nat.ltb Nat.leb andb]. rewrite HV1.
  rewrite N.eqb_refl. cbn [orb]. rewrite andb_true_r. rewrite Hnc.
  unfold unsafe_to_break_in. cbn [firstn length Nat.ltb Nat.leb skipn].
  expose2 lvl L V L' V'. fields.
  cbn [app tag_next bind fst snd].
  assert (Hl0 : (lvl =? HANGUL_MERGE_LEVEL) = true) by (apply N.eqb_eq; exact Hlvl). rewrite Hl0.
  rewrite merge_out_tail; [| rewrite Hlvl; discriminate | cbn [length]; lia | lia].
  replace (length ro + 2 - length ro)%nat with 2%nat by lia.
  unfold merge_tail. cbn [firstn skipn last map app min_cl fold_left set_feat cl].
  eexists. split; [reflexivity|]. cbn [rout rest sstart send].
  assert (Ec : N.min (N.min (cl V') (cl V')) (cl L') = c) by (subst c; lia).
  rewrite Ec. replace (cl L') with (cl L) by congruence. replace (cl V') with (cl V) by congruence.
  repeat split.
  unfold mark_syl. cbn [Nat.sub firstn skipn map app].
  f_equal; [|f_equal]; unfold erase, set_cont, set_feat; cbn;
    rewrite ?cl_set_cluster, ?cp_set_cluster, ?feat_set_cluster, ?cont_set_cluster; cbn; f_equal; congruence.
Qed.
(* ---------------- <LV,T>: LV syllable followed by a combining T, font has LVT: one glyph LV + (T - T_BASE) *)
Theorem compose_LV_T ro Sy T suf st en :
  is_combined_s (cp Sy) = true -> tindex_of (cp Sy) = 0 -> is_combining_t (cp T) = true ->
  has (cp Sy + (cp T - T_BASE)) = true ->
  lvl <> LEVEL_CHARACTERS ->
  let c := N.min (cl Sy) (cl T) in
  exists s', STEP (mkS ro (Sy :: T :: suf) st en) = Some s' /\
    map erase (rout s') = mkI (cp Sy + (cp T - T_BASE)) c (feat Sy) false (cont Sy)
                          :: map erase (set_while (cl Sy) c ro) /\
    rest s' = set_while (cl T) c suf /\ sstart s' = length ro /\ send s' = (length ro + 1)%nat.
Proof.
  intros HS Hti HT Hhas Hlvl c.
  destruct (combined_s_facts _ HS) as (HS1 & HS2).
  unfold step, cur_cp. cbn [rout rest sstart send nth length].
  rewrite HS1, HS2, HS. cbn [andb]. rewrite Hti. rewrite N.eqb_refl. cbn [Nat.ltb Nat.leb andb].
  rewrite HT, Hhas. cbn [andb].
  unfold replace_glyphs. cbn [length Nat.ltb Nat.leb]. unfold merge_clusters. cbn [Nat.ltb Nat.leb].
  apply N.eqb_neq in Hlvl. rewrite Hlvl.
  cbn [firstn skipn last map app min_cl fold_left].
  eexists. split; [reflexivity|]. cbn [bind rout rest sstart send fst snd map rev app].
  assert (Ec : N.min (N.min (cl Sy) (cl Sy)) (cl T) = c) by (subst c; lia).
  rewrite Ec.
  repeat split.
  - f_equal; [apply erase_with_cp_set_cluster; congruence|].
    destruct (cl Sy =? c) eqn:E1; cbn [negb]; [|reflexivity].
    apply N.eqb_eq in E1. rewrite E1, set_while_same. reflexivity.
  - destruct (c =? cl T) eqn:E1; cbn [negb]; [|reflexivity].
    apply N.eqb_eq in E1. rewrite <- E1, set_while_same. reflexivity.
Qed.

(* ---------------- <LVT> the font does not map, jamo mapped: L V T tagged, all in the cluster of the syllable *)
Theorem decompose_LVT ro Sy suf st en :
  is_combined_s (cp Sy) = true -> (tindex_of (cp Sy) =? 0) = false -> has (cp Sy) = false ->
  has (L_BASE + lindex_of (cp Sy)) = true -> has (V_BASE + vindex_of (cp Sy)) = true ->
  has (T_BASE + tindex_of (cp Sy)) = true ->
  exists s', STEP (mkS ro (Sy :: suf) st en) = Some s' /\
    map erase (rout s') = mkI (T_BASE + tindex_of (cp Sy)) (cl Sy) TJMO false true
                          :: mkI (V_BASE + vindex_of (cp Sy)) (cl Sy) VJMO false true
                          :: mkI (L_BASE + lindex_of (cp Sy)) (cl Sy) LJMO false (cont Sy) :: map erase ro /\
    rest s' = suf /\ sstart s' = length ro /\ send s' = (length ro + 3)%nat.
Proof.
  intros HS Hti Hno H0 H1 H2.
  destruct (combined_s_facts _ HS) as (HS1 & HS2).
  unfold step, cur_cp. cbn [rout rest sstart send nth length].
  rewrite HS1, HS2, HS. cbn [andb]. rewrite Hti, Hno, H0, H1, H2. cbn [andb orb negb].
  unfold replace_glyphs. cbn [length Nat.ltb Nat.leb]. unfold merge_clusters. cbn [Nat.ltb Nat.leb].
  cbn [bind fst snd map rev app skipn length Nat.add].
  change (with_cp (T_BASE + tindex_of (cp Sy)) Sy :: with_cp (V_BASE + vindex_of (cp Sy)) Sy
          :: with_cp (L_BASE + lindex_of (cp Sy)) Sy :: ro)
    with ([with_cp (T_BASE + tindex_of (cp Sy)) Sy; with_cp (V_BASE + vindex_of (cp Sy)) Sy;
           with_cp (L_BASE + lindex_of (cp Sy)) Sy] ++ ro).
  rewrite set_feat_out_app by (cbn; lia). cbn [length Nat.sub upd_nth app].
  match goal with |- context [set_feat_out (length ro + 1) ?f (?a :: ?b :: ?c :: ro)] =>
    change (a :: b :: c :: ro) with ([a; b; c] ++ ro) end.
  rewrite set_feat_out_app by (cbn; lia). cbn [length Nat.sub upd_nth app].
  change (match (length ro + 3)%nat with 0%nat => false | S m' => (length ro + 2 <=? m')%nat end)
    with (length ro + 2 <? length ro + 3)%nat.
  assert (Elt : (length ro + 2 <? length ro + 3)%nat = true) by (apply Nat.ltb_lt; lia). rewrite Elt.
  match goal with |- context [set_feat_out (length ro + 2) ?f (?a :: ?b :: ?c :: ro)] =>
    change (a :: b :: c :: ro) with ([a; b; c] ++ ro) end.
  rewrite set_feat_out_app by (cbn; lia). cbn [length Nat.sub upd_nth app].
  destruct (lvl =? HANGUL_MERGE_LEVEL) eqn:El.
  - apply N.eqb_eq in El.
    rewrite merge_out_tail; [| rewrite El; discriminate | cbn [length]; lia | lia].
    replace (length ro + 3 - length ro)%nat with 3%nat by lia.
    unfold merge_tail. cbn [firstn skipn last map app min_cl fold_left set_feat with_cp cl].
    replace (N.min (N.min (N.min (cl Sy) (cl Sy)) (cl Sy)) (cl Sy)) with (cl Sy) by lia.
    rewrite !set_while_same.
    eexists. split; [reflexivity|]. cbn [rout rest sstart send]. repeat split.
    unfold mark_syl. cbn [Nat.sub firstn skipn map app].
    f_equal; [|f_equal; [|f_equal]]; unfold erase, set_cont; cbn;
      rewrite ?cl_set_cluster, ?cp_set_cluster, ?feat_set_cluster, ?cont_set_cluster; reflexivity.
  - eexists. split; [reflexivity|]. cbn [rout rest sstart send]. repeat split.
Qed.

(* the lookahead of an LV syllable finds nothing to compose with *)
Definition no_lvt (Sy : info) (suf : list info) : Prop :=
  match suf with x :: _ => is_combining_t (cp x) && has (cp Sy + (cp x - T_BASE)) = false | [] => True end.

(* ---------------- <LV> the font does not map, jamo mapped: L V tagged (whatever follows) *)
Theorem decompose_LV ro Sy suf st en :
  is_combined_s (cp Sy) = true -> tindex_of (cp Sy) = 0 -> has (cp Sy) = false -> no_lvt Sy suf ->
  has (L_BASE + lindex_of (cp Sy)) = true -> has (V_BASE + vindex_of (cp Sy)) = true ->
  exists s', STEP (mkS ro (Sy :: suf) st en) = Some s' /\
    map erase (rout s') = mkI (V_BASE + vindex_of (cp Sy)) (cl Sy) VJMO false true
                          :: mkI (L_BASE + lindex_of (cp Sy)) (cl Sy) LJMO false (cont Sy) :: map erase ro /\
    map erase (rest s') = map erase suf /\ sstart s' = length ro /\ send s' = (length ro + 2)%nat.
Proof.
  intros HS Hti Hno Hlvt H0 H1.
  destruct (combined_s_facts _ HS) as (HS1 & HS2).
  unfold step, cur_cp. cbn [rout rest sstart send nth length].
  rewrite HS1, HS2, HS. cbn [andb]. rewrite Hti, Hno, H0, H1. rewrite N.eqb_refl. cbn [andb orb negb].
  (* the flags possibly set between LV and T do not matter; name the resulting buffer *)
  set (re1 := if (1 <? S (length suf))%nat && is_combining_t (cp (nth 0 suf dflt))
              then unsafe_to_break_in lvl 2 (Sy :: suf) else Sy :: suf).
  assert (Hre1 : exists Sy' suf', re1 = Sy' :: suf' /\ erase Sy' = erase Sy /\ map erase suf' = map erase suf).
  { subst re1. destruct (_ && _).
    - pose proof (map_erase_utb_in lvl 2 (Sy :: suf)) as E. cbn [map] in E.
      apply map_eq_cons in E. destruct E as (Sy' & suf' & EX & E1 & E2). rewrite EX. eauto.
    - eauto. }
  destruct Hre1 as (Sy' & suf' & Ere & ES & Esuf). apply erase_fields in ES. destruct ES as (ES1 & ES2 & ES3 & ES4).
  assert (Hc : ((1 <? S (length suf))%nat && is_combining_t (cp (nth 0 suf dflt))
                && has (cp Sy + (cp (nth 0 suf dflt) - T_BASE))) = false).
  { destruct suf as [|x suf0]; [reflexivity|]. cbn [nth length Nat.ltb Nat.leb andb]. exact Hlvt. }
  rewrite Hc. rewrite Ere.
  unfold replace_glyphs. cbn [length Nat.ltb Nat.leb]. unfold merge_clusters. cbn [Nat.ltb Nat.leb].
  cbn [bind fst snd map rev app skipn length Nat.add].
  match goal with |- context [set_feat_out (length ro + 0) ?f (?a :: ?b :: ro)] =>
    change (a :: b :: ro) with ([a; b] ++ ro) end.
  rewrite set_feat_out_app by (cbn; lia). cbn [length Nat.sub upd_nth app].
  match goal with |- context [set_feat_out (length ro + 1) ?f (?a :: ?b :: ro)] =>
    change (a :: b :: ro) with ([a; b] ++ ro) end.
  rewrite set_feat_out_app by (cbn; lia). cbn [length Nat.sub upd_nth app].
  change (match (length ro + 2)%nat with 0%nat => false | S m' => (length ro + 2 <=? m')%nat end)
    with (length ro + 2 <? length ro + 2)%nat.
  assert (Elt : (length ro + 2 <? length ro + 2)%nat = false) by (apply Nat.ltb_ge; lia). rewrite Elt.
  destruct (lvl =? HANGUL_MERGE_LEVEL) eqn:El.
  - apply N.eqb_eq in El.
    rewrite merge_out_tail; [| rewrite El; discriminate | cbn [length]; lia | lia].
    replace (length ro + 2 - length ro)%nat with 2%nat by lia.
    unfold merge_tail. cbn [firstn skipn last map app min_cl fold_left set_feat with_cp cl].
    replace (N.min (N.min (cl Sy') (cl Sy')) (cl Sy')) with (cl Sy') by lia.
    rewrite !set_while_same.
    eexists. split; [reflexivity|]. cbn [rout rest sstart send]. repeat split; [|exact Esuf].
    unfold mark_syl. cbn [Nat.sub firstn skipn map app].
    f_equal; [|f_equal]; close_fields.
  - eexists. split; [reflexivity|]. cbn [rout rest sstart send]. repeat split; [|exact Esuf].
    unfold mark_syl. cbn [Nat.sub firstn skipn map app].
    f_equal; [|f_equal]; close_fields.
Qed.
(* ---------------- <LV,T>, LV mapped by the font but LV+T not composable (T is an old trailing jamo, or the font
   lacks LVT): LV is decomposed and T joins the syllable: L V T tagged, one cluster at MonotoneGraphemes *)
Theorem decompose_LV_T ro Sy T suf st en :
  is_combined_s (cp Sy) = true -> tindex_of (cp Sy) = 0 -> is_t (cp T) = true -> has (cp Sy) = true ->
  is_combining_t (cp T) && has (cp Sy + (cp T - T_BASE)) = false ->
  has (L_BASE + lindex_of (cp Sy)) = true -> has (V_BASE + vindex_of (cp Sy)) = true ->
  lvl = HANGUL_MERGE_LEVEL ->
  let c := N.min (cl Sy) (cl T) in
  exists s', STEP (mkS ro (Sy :: T :: suf) st en) = Some s' /\
    map erase (rout s') = mkI (cp T) c TJMO false true
                          :: mkI (V_BASE + vindex_of (cp Sy)) c VJMO false true
                          :: mkI (L_BASE + lindex_of (cp Sy)) c LJMO false (cont Sy)
                          :: map erase (set_while (cl Sy) c ro) /\
    rest s' = set_while (cl T) c suf /\ sstart s' = length ro /\ send s' = (length ro + 3)%nat.
Proof.
  intros HS Hti HT Hhas Hnc H0 H1 Hlvl c.
  destruct (combined_s_facts _ HS) as (HS1 & HS2).
  unfold step, cur_cp. cbn [rout rest sstart send nth length].
  rewrite HS1, HS2, HS. cbn [andb]. rewrite Hti, Hhas, H0, H1, HT. rewrite N.eqb_refl.
  cbn [andb orb negb Nat.ltb Nat.leb].
  set (re1 := if is_combining_t (cp T) then unsafe_to_break_in lvl 2 (Sy :: T :: suf) else Sy :: T :: suf).
  assert (Hre1 : exists Sy' T', re1 = Sy' :: T' :: suf /\ erase Sy' = erase Sy /\ erase T' = erase T).
  { subst re1. destruct (is_combining_t (cp T)); [|eauto].
    unfold unsafe_to_break_in. cbn [firstn length Nat.ltb Nat.leb skipn].
    expose2 lvl Sy T Sy' T'. cbn [app]. eauto. }
  destruct Hre1 as (Sy' & T' & Ere & ES & ET). fields.
  rewrite Hnc. rewrite Ere.
  unfold replace_glyphs. cbn [length Nat.ltb Nat.leb]. unfold merge_clusters. cbn [Nat.ltb Nat.leb].
  cbn [bind fst snd map rev app skipn length Nat.add next_glyph].
  match goal with |- context [set_feat_out (length ro + 0) ?f (?a :: ?b :: ?c :: ro)] =>
    change (a :: b :: c :: ro) with ([a; b; c] ++ ro) end.
  rewrite set_feat_out_app by (cbn; lia). cbn [length Nat.sub upd_nth app].
  match goal with |- context [set_feat_out (length ro + 1) ?f (?a :: ?b :: ?c :: ro)] =>
    change (a :: b :: c :: ro) with ([a; b; c] ++ ro) end.
  rewrite set_feat_out_app by (cbn; lia). cbn [length Nat.sub upd_nth app].
  change (match (length ro + 3)%nat with 0%nat => false | S m' => (length ro + 2 <=? m')%nat end)
    with (length ro + 2 <? length ro + 3)%nat.
  assert (Elt : (length ro + 2 <? length ro + 3)%nat = true) by (apply Nat.ltb_lt; lia). rewrite Elt.
  match goal with |- context [set_feat_out (length ro + 2) ?f (?a :: ?b :: ?c :: ro)] =>
    change (a :: b :: c :: ro) with ([a; b; c] ++ ro) end.
  rewrite set_feat_out_app by (cbn; lia). cbn [length Nat.sub upd_nth app].
  assert (Hl0 : (lvl =? HANGUL_MERGE_LEVEL) = true) by (apply N.eqb_eq; exact Hlvl). rewrite Hl0.
  rewrite merge_out_tail; [| rewrite Hlvl; discriminate | cbn [length]; lia | lia].
  replace (length ro + 3 - length ro)%nat with 3%nat by lia.
  unfold merge_tail. cbn [firstn skipn last map app min_cl fold_left set_feat with_cp cl].
  assert (Ec : N.min (N.min (N.min (cl T') (cl T')) (cl Sy')) (cl Sy') = c) by (subst c; lia).
  rewrite Ec. replace (cl Sy') with (cl Sy) by congruence. replace (cl T') with (cl T) by congruence.
  eexists. split; [reflexivity|]. cbn [rout rest sstart send]. repeat split.
  unfold mark_syl. cbn [Nat.sub firstn skipn map app].
  f_equal; [|f_equal; [|f_equal]]; close_fields.
Qed.

(* ---------------- a syllable the font does not map whose jamo are not all mapped stays as it is *)
Theorem keep_unsupported ro Sy suf st en :
  is_combined_s (cp Sy) = true -> has (cp Sy) = false -> no_lvt Sy suf \/ (tindex_of (cp Sy) =? 0) = false ->
  has (L_BASE + lindex_of (cp Sy)) && has (V_BASE + vindex_of (cp Sy))
    && ((tindex_of (cp Sy) =? 0) || has (T_BASE + tindex_of (cp Sy))) = false ->
  exists s', STEP (mkS ro (Sy :: suf) st en) = Some s' /\
    map erase (rout s') = erase Sy :: map erase ro /\ map erase (rest s') = map erase suf /\
    sstart s' = length ro /\ send s' = en.
Proof.
  intros HS Hno Hlvt Hmiss.
  destruct (combined_s_facts _ HS) as (HS1 & HS2).
  unfold step, cur_cp. cbn [rout rest sstart send nth length].
  rewrite HS1, HS2, HS. cbn [andb]. rewrite Hno, Hmiss. cbn [negb orb andb].
  set (lvtc := (tindex_of (cp Sy) =? 0) && (1 <? S (length suf))%nat && is_combining_t (cp (nth 0 suf dflt))).
  assert (Hc : lvtc && has (cp Sy + (cp (nth 0 suf dflt) - T_BASE)) = false).
  { subst lvtc. destruct Hlvt as [Hlvt|Hlvt]; [|rewrite Hlvt; reflexivity].
    destruct suf as [|x suf0]; [cbn; rewrite andb_false_r; reflexivity|].
    cbn [nth length Nat.ltb Nat.leb andb]. unfold no_lvt in Hlvt.
    destruct (tindex_of (cp Sy) =? 0); [exact Hlvt|reflexivity]. }
  rewrite Hc.
  set (re1 := if lvtc then unsafe_to_break_in lvl 2 (Sy :: suf) else Sy :: suf).
  match goal with |- context [next_glyph ro ?r] => set (re2 := r) end.
  assert (Hre2 : map erase re2 = map erase (Sy :: suf)).
  { subst re2 re1. repeat match goal with |- context [if ?b then _ else _] => destruct b end; rewrite ?map_erase_utb_in; reflexivity. }
  cbn [map] in Hre2. apply map_eq_cons in Hre2. destruct Hre2 as (Sy' & suf' & -> & E1 & E2).
  cbn [next_glyph bind fst snd]. eexists. split; [reflexivity|]. cbn [rout rest sstart send map].
  rewrite E1. auto.
Qed.

(* ---------------- a syllable the font maps, not followed by a trailing jamo, is left alone *)
Theorem keep_supported ro Sy suf st en :
  is_combined_s (cp Sy) = true -> has (cp Sy) = true -> no_t suf ->
  STEP (mkS ro (Sy :: suf) st en) = Some (mkS (Sy :: ro) suf (length ro) (length ro + 1)).
Proof.
  intros HS Hhas Hsuf.
  destruct (combined_s_facts _ HS) as (HS1 & HS2).
  unfold step, cur_cp. cbn [rout rest sstart send nth length].
  rewrite HS1, HS2, HS. cbn [andb]. rewrite Hhas. cbn [negb orb andb].
  assert (Ht : ((1 <? S (length suf))%nat && is_t (cp (nth 0 suf dflt))) = false).
  { destruct suf as [|x suf0]; [reflexivity|]. cbn [nth length Nat.ltb Nat.leb andb]. exact Hsuf. }
  assert (Hct : ((1 <? S (length suf))%nat && is_combining_t (cp (nth 0 suf dflt))) = false).
  { destruct suf as [|x suf0]; [reflexivity|]. cbn [nth length Nat.ltb Nat.leb andb].
    apply not_is_t_not_combining. exact Hsuf. }
  rewrite (andb4_false _ _ _ _ Hct), (andb4_false _ _ _ _ Ht).
  rewrite ?(andb3_false _ _ _ Ht), ?(andb3_false _ _ _ Hct). cbn [andb]. reflexivity.
Qed.
End Branches.

(* ================================================================== D. tone marks *)

Lemma cp_erase l : map cp (map erase l) = map cp l.
Proof. rewrite map_map. reflexivity. Qed.
Lemma cps_of_erase l l' : map erase l = map erase l' -> map cp l = map cp l'.
Proof. intros H. rewrite <- (cp_erase l), H, cp_erase. reflexivity. Qed.
Lemma cps_set_while k c l : map cp (set_while k c l) = map cp l.
Proof.
  induction l; cbn; [reflexivity|]. destruct (cl a =? k); [|reflexivity].
  cbn. rewrite cp_set_cluster, IHl. reflexivity.
Qed.
Lemma cps_map_set_cluster c l : map cp (map (set_cluster c) l) = map cp l.
Proof. induction l; cbn; [reflexivity|]. rewrite cp_set_cluster, IHl. reflexivity. Qed.
Lemma cps_merge_tail k ro re :
  map cp (fst (merge_tail k ro re)) = map cp ro /\ map cp (snd (merge_tail k ro re)) = map cp re.
Proof.
  unfold merge_tail. destruct (firstn k ro) as [|e seg] eqn:E; [auto|]. cbn [fst snd].
  rewrite map_app, cps_map_set_cluster, !cps_set_while, <- E, <- map_app, firstn_skipn. auto.
Qed.
Lemma cps_merge_out lvl st end_ ro re : end_ = length ro ->
  map cp (fst (merge_out_clusters lvl st end_ ro re)) = map cp ro /\
  map cp (snd (merge_out_clusters lvl st end_ ro re)) = map cp re.
Proof.
  intros He. destruct (lvl =? LEVEL_CHARACTERS) eqn:El.
  - unfold merge_out_clusters. rewrite El. auto.
  - destruct (end_ - st <? 2)%nat eqn:Ek.
    + unfold merge_out_clusters. rewrite El, Ek. auto.
    + rewrite merge_out_tail; [apply cps_merge_tail| apply N.eqb_neq; exact El | exact He | apply Nat.ltb_ge in Ek; exact Ek].
Qed.
Lemma cps_mark_syl k l : map cp (mark_syl k l) = map cp l.
Proof.
  unfold mark_syl. rewrite map_app, map_map. cbn [set_cont cp].
  rewrite <- map_app, firstn_skipn. reflexivity.
Qed.
Lemma cps_rotate_tone k l :
  map cp (rotate_tone k l) = match map cp l with t :: r => firstn k r ++ t :: skipn k r | [] => [] end.
Proof.
  destruct l as [|t r]; [reflexivity|]. cbn [rotate_tone map].
  rewrite map_app, cps_mark_syl, map_app, firstn_map, skipn_map. cbn [map set_cont cp].
  rewrite <- app_assoc. reflexivity.
Qed.

Section Tone.
Variables (has zw : N -> bool) (lvl : N) (nd : bool).
Notation STEP := (step has zw lvl nd).

(* a tone mark right after a recognized syllable out[start..end), font shows it with a non-zero advance (or not at
   all): it is moved in front of the syllable; the other glyphs keep their order *)
Theorem tone_rotate ro tone suf st en :
  is_hangul_tone (cp tone) = true -> (st < en)%nat -> en = length ro -> zw (cp tone) = false ->
  exists s', STEP (mkS ro (tone :: suf) st en) = Some s' /\
    map cp (rout s') = map cp (firstn (en - st) ro) ++ cp tone :: map cp (skipn (en - st) ro) /\
    map cp (rest s') = map cp suf /\ sstart s' = length (rout s') /\ send s' = length (rout s').
Proof.
  intros Ht Hlt Hen Hzw.
  unfold step, cur_cp. cbn [rout rest sstart send nth]. rewrite Ht.
  assert (E1 : ((st <? en)%nat && (en =? length ro)%nat) = true).
  { apply andb_true_intro. split; [apply Nat.ltb_lt; exact Hlt | apply Nat.eqb_eq; exact Hen]. }
  rewrite E1, Hzw. cbn [next_glyph bind negb fst snd].
  set (ro1 := utb_from_out lvl st ro).
  assert (Hro1 : map cp ro1 = map cp ro) by (apply cps_of_erase, map_erase_utb_out).
  assert (Hl1 : length ro1 = length ro).
  { rewrite <- (map_length cp ro1), Hro1, map_length. reflexivity. }
  destruct (cps_merge_out lvl st (en + 1) (tone :: ro1) suf) as (Ha & Hb).
  { cbn [length]. lia. }
  destruct (merge_out_clusters lvl st (en + 1) (tone :: ro1) suf) as (ro2, re2). cbn [fst snd] in Ha, Hb.
  eexists. split; [reflexivity|]. cbn [rout rest sstart send].
  repeat split; [|exact Hb].
  rewrite cps_rotate_tone, Ha. cbn [map]. rewrite Hro1, firstn_map, skipn_map. reflexivity.
Qed.

(* the same in out-buffer order: the tone mark is inserted at index `start` *)
Corollary tone_rotate_forward ro tone suf st en :
  is_hangul_tone (cp tone) = true -> (st < en)%nat -> en = length ro -> zw (cp tone) = false ->
  exists s', STEP (mkS ro (tone :: suf) st en) = Some s' /\
    map cp (rev (rout s')) = map cp (firstn st (rev ro)) ++ cp tone :: map cp (skipn st (rev ro)) /\
    Permutation (map cp (rev (rout s'))) (map cp (rev ro) ++ [cp tone]).
Proof.
  intros Ht Hlt Hen Hzw. destruct (tone_rotate ro tone suf st en Ht Hlt Hen Hzw) as (s' & Hs & Hc & _).
  exists s'. split; [exact Hs|].
  assert (E : map cp (rev (rout s')) = map cp (firstn st (rev ro)) ++ cp tone :: map cp (skipn st (rev ro))).
  { rewrite map_rev, Hc, rev_app_distr. cbn [rev]. rewrite <- app_assoc. cbn [app].
    rewrite <- !map_rev. rewrite firstn_rev, skipn_rev.
    replace (length ro - st)%nat with (en - st)%nat by lia.
    replace (length ro - (en - st))%nat with st by lia. reflexivity. }
  split; [exact E|]. rewrite E.
  rewrite <- (firstn_skipn st (rev ro)) at 3. rewrite map_app, <- app_assoc.
  apply Permutation_app_head. apply Permutation_cons_append.
Qed.

(* zero-width tone mark: left where it is (it overstrikes the syllable) *)
Theorem tone_stays ro tone suf st en :
  is_hangul_tone (cp tone) = true -> (st < en)%nat -> en = length ro -> zw (cp tone) = true ->
  exists s', STEP (mkS ro (tone :: suf) st en) = Some s' /\
    map erase (rout s') = erase tone :: map erase ro /\ rest s' = suf.
Proof.
  intros Ht Hlt Hen Hzw.
  unfold step, cur_cp. cbn [rout rest sstart send nth]. rewrite Ht.
  assert (E1 : ((st <? en)%nat && (en =? length ro)%nat) = true).
  { apply andb_true_intro. split; [apply Nat.ltb_lt; exact Hlt | apply Nat.eqb_eq; exact Hen]. }
  rewrite E1, Hzw. cbn [next_glyph bind negb fst snd].
  eexists. split; [reflexivity|]. cbn [rout rest map]. rewrite map_erase_utb_out. auto.
Qed.

(* tone mark without a syllable before it: a dotted circle is inserted after it (before it when the mark has zero
   width) if the font has one and the buffer flag allows; both glyphs carry the mark's cluster *)
Theorem tone_no_base ro tone suf st en :
  is_hangul_tone (cp tone) = true -> ((st <? en)%nat && (en =? length ro)%nat) = false ->
  STEP (mkS ro (tone :: suf) st en) =
    if negb nd && has DOTTED_CIRCLE then
      if zw (cp tone)
      then Some (mkS (tone :: with_cp DOTTED_CIRCLE tone :: ro) suf (length ro + 2) (length ro + 2))
      else Some (mkS (with_cp DOTTED_CIRCLE tone :: tone :: ro) suf (length ro + 2) (length ro + 2))
    else Some (mkS (tone :: ro) suf (length ro + 1) (length ro + 1)).
Proof.
  intros Ht Hno.
  unfold step, cur_cp. cbn [rout rest sstart send nth]. rewrite Ht, Hno.
  destruct (negb nd && has DOTTED_CIRCLE).
  - unfold replace_glyphs, merge_clusters. cbn [length Nat.ltb Nat.leb].
    destruct (zw (cp tone)); cbn [negb map rev app bind fst snd skipn length];
      unfold with_cp at 1 2; destruct tone as [t1 t2 t3 t4 t5]; cbn [cp cl feat utb cont];
      rewrite ?Nat.add_succ_r, ?Nat.add_0_r; cbn [Nat.add]; repeat f_equal; lia.
  - cbn [next_glyph bind fst snd length]. rewrite Nat.add_1_r. reflexivity.
Qed.
End Tone.

(* ================================================================== E. the loop terminates and never hits an assert *)

Lemma len_of_erase l l' : map erase l = map erase l' -> length l = length l'.
Proof. intros H. rewrite <- (map_length erase l), H, map_length. reflexivity. Qed.
Lemma len_set_while k c l : length (set_while k c l) = length l.
Proof. induction l; cbn; [reflexivity|]. destruct (cl a =? k); cbn; [rewrite IHl|]; reflexivity. Qed.
Lemma len_utb_in lvl n re : length (unsafe_to_break_in lvl n re) = length re.
Proof. apply len_of_erase, map_erase_utb_in. Qed.
Lemma len_merge_clusters lvl n ro re : length (snd (merge_clusters lvl n ro re)) = length re.
Proof.
  unfold merge_clusters. destruct (n <? 2)%nat; [reflexivity|]. destruct re as [|f t]; [reflexivity|].
  destruct (lvl =? LEVEL_CHARACTERS); cbn [snd]; [apply len_utb_in|].
  rewrite app_length, map_length.
  assert (E : forall l, length (if negb (min_cl (cl f) (firstn n (f :: t)) =? cl (last (firstn n (f :: t)) f))
                                then set_while (cl (last (firstn n (f :: t)) f)) (min_cl (cl f) (firstn n (f :: t))) l else l) = length l).
  { intros l. destruct (negb _); [apply len_set_while|reflexivity]. }
  rewrite E, <- app_length, firstn_skipn. reflexivity.
Qed.
Lemma len_merge_out lvl st en ro re : length (snd (merge_out_clusters lvl st en ro re)) = length re.
Proof.
  unfold merge_out_clusters. destruct (lvl =? LEVEL_CHARACTERS); [reflexivity|].
  destruct (en - st <? 2)%nat; [reflexivity|].
  destruct (firstn (en - st) (skipn (length ro - en) ro)) as [|e seg]; [reflexivity|].
  destruct (set_while_all _ _ _) as (nw, all). cbn [snd]. destruct all; [apply len_set_while|reflexivity].
Qed.
Lemma next_glyph_some ro re : (1 <= length re)%nat ->
  exists p, next_glyph ro re = Some p /\ length (snd p) = (length re - 1)%nat.
Proof. destruct re as [|x t]; cbn; [lia|]. intros _. eexists. split; [reflexivity|]. cbn. lia. Qed.
Lemma tag_next_some f ro re : (1 <= length re)%nat ->
  exists p, tag_next f ro re = Some p /\ length (snd p) = (length re - 1)%nat.
Proof. destruct re as [|x t]; cbn; [lia|]. intros _. eexists. split; [reflexivity|]. cbn. lia. Qed.
Lemma replace_glyphs_some lvl n d ro re : (1 <= n)%nat -> (n <= length re)%nat ->
  exists p, replace_glyphs lvl n d ro re = Some p /\ length (snd p) = (length re - n)%nat.
Proof.
  intros H1 H2. unfold replace_glyphs.
  destruct (length re <? n)%nat eqn:E; [apply Nat.ltb_lt in E; lia|].
  pose proof (len_merge_clusters lvl n ro re) as Hl.
  destruct (merge_clusters lvl n ro re) as (ro1, re1). cbn [snd] in Hl.
  destruct re1 as [|orig t]; [cbn in Hl; lia|].
  eexists. split; [reflexivity|]. cbn [snd]. rewrite skipn_length, Hl. reflexivity.
Qed.

Lemma step_total has zw lvl nd s : (1 <= length (rest s))%nat ->
  exists s', step has zw lvl nd s = Some s' /\ (length (rest s') < length (rest s))%nat.
Proof.
  intros Hlen. unfold step. set (ro := rout s). set (re := rest s) in *.
  destruct (is_hangul_tone (cur_cp 0 re)).
  { destruct ((sstart s <? send s)%nat && (send s =? length ro)%nat).
    - destruct (next_glyph_some (utb_from_out lvl (sstart s) ro) re Hlen) as (p & Hp & Lp). rewrite Hp. cbn [bind].
      destruct (negb (zw (cur_cp 0 re))).
      + pose proof (len_merge_out lvl (sstart s) (send s + 1) (fst p) (snd p)) as Lm.
        destruct (merge_out_clusters lvl (sstart s) (send s + 1) (fst p) (snd p)) as (ro2, re2).
        eexists. split; [reflexivity|]. cbn [rest snd] in *. lia.
      + destruct p as (a, b). eexists. split; [reflexivity|]. cbn [rest snd] in *. lia.
    - destruct (negb nd && has DOTTED_CIRCLE).
      + destruct (replace_glyphs_some lvl 1 (if negb (zw (cur_cp 0 re)) then [cur_cp 0 re; DOTTED_CIRCLE] else [DOTTED_CIRCLE; cur_cp 0 re]) ro re) as (p & Hp & Lp); [lia|lia|].
        rewrite Hp. cbn [bind]. eexists. split; [reflexivity|]. cbn [rest]. lia.
      + destruct (next_glyph_some ro re Hlen) as (p & Hp & Lp). rewrite Hp. cbn [bind].
        eexists. split; [reflexivity|]. cbn [rest]. lia. }
  assert (Hplain : exists s', plain_next s = Some s' /\ (length (rest s') < length re)%nat).
  { unfold plain_next. fold ro re. destruct (next_glyph_some ro re Hlen) as (p & Hp & Lp). rewrite Hp. cbn [bind].
    eexists. split; [reflexivity|]. cbn [rest]. lia. }
  destruct (is_l (cur_cp 0 re) && (1 <? length re)%nat) eqn:EL.
  { apply andb_prop in EL. destruct EL as (_ & E1). apply Nat.ltb_lt in E1.
    destruct (is_v (cur_cp 1 re)); [|exact Hplain].
    set (t := if (2 <? length re)%nat && is_t (cur_cp 2 re) then cur_cp 2 re else 0).
    set (tindex := if (2 <? length re)%nat && is_t (cur_cp 2 re) then cur_cp 2 re - T_BASE else 0).
    assert (Hn : (1 <= (if (t =? 0)%N then 2 else 3) <= length re)%nat).
    { subst t. destruct ((2 <? length re)%nat && is_t (cur_cp 2 re)) eqn:E2.
      - apply andb_prop in E2. destruct E2 as (E2 & _). apply Nat.ltb_lt in E2. destruct (_ =? 0); lia.
      - rewrite N.eqb_refl. lia. }
    set (n := if t =? 0 then 2%nat else 3%nat) in *.
    pose proof (len_utb_in lvl n re) as Lu. set (re1 := unsafe_to_break_in lvl n re) in *.
    destruct (_ && has (compose_s (cur_cp 0 re) (cur_cp 1 re) tindex)).
    - destruct (replace_glyphs_some lvl n [compose_s (cur_cp 0 re) (cur_cp 1 re) tindex] ro re1) as (p & Hp & Lp); [lia|lia|].
      rewrite Hp. cbn [bind]. eexists. split; [reflexivity|]. cbn [rest]. lia.
    - destruct (tag_next_some LJMO ro re1) as (p1 & Hp1 & L1); [lia|]. rewrite Hp1. cbn [bind].
      destruct (tag_next_some VJMO (fst p1) (snd p1)) as (p2 & Hp2 & L2); [lia|]. rewrite Hp2. cbn [bind].
      assert (H3 : exists p3, (if t =? 0 then Some p2 else tag_next TJMO (fst p2) (snd p2)) = Some p3
                              /\ (length (snd p3) < length re)%nat).
      { subst n. destruct (t =? 0); [eexists; split; [reflexivity|lia]|].
        destruct (tag_next_some TJMO (fst p2) (snd p2)) as (p3 & Hp3 & L3); [lia|]. exists p3. split; [exact Hp3|lia]. }
      destruct H3 as (p3 & Hp3 & L3). rewrite Hp3. cbn [bind].
      destruct (lvl =? HANGUL_MERGE_LEVEL).
      + pose proof (len_merge_out lvl (length ro) (length ro + n) (fst p3) (snd p3)) as Lm.
        destruct (merge_out_clusters lvl (length ro) (length ro + n) (fst p3) (snd p3)) as (ro4, re4).
        eexists. split; [reflexivity|]. cbn [rest snd] in *. lia.
      + destruct p3 as (a, b). eexists. split; [reflexivity|]. cbn [rest snd] in *. lia. }
  destruct (is_combined_s (cur_cp 0 re)); [|exact Hplain].
  set (sy := cur_cp 0 re). set (tix := tindex_of sy). set (t1 := cur_cp 1 re).
  destruct ((tix =? 0) && (1 <? length re)%nat && is_combining_t t1 && has (sy + (t1 - T_BASE))) eqn:Ec.
  { apply andb_prop in Ec. destruct Ec as (Ec & _). apply andb_prop in Ec. destruct Ec as (Ec & _).
    apply andb_prop in Ec. destruct Ec as (_ & Ec). apply Nat.ltb_lt in Ec.
    destruct (replace_glyphs_some lvl 2 [sy + (t1 - T_BASE)] ro re) as (p & Hp & Lp); [lia|lia|].
    rewrite Hp. cbn [bind]. eexists. split; [reflexivity|]. cbn [rest]. lia. }
  set (re1 := if (tix =? 0) && (1 <? length re)%nat && is_combining_t t1 then unsafe_to_break_in lvl 2 re else re).
  assert (L1 : length re1 = length re) by (subst re1; destruct (_ && is_combining_t t1); [apply len_utb_in|reflexivity]).
  destruct ((negb (has sy) || (tix =? 0) && (1 <? length re)%nat && is_t t1)
            && (has (L_BASE + lindex_of sy) && has (V_BASE + vindex_of sy) && ((tix =? 0) || has (T_BASE + tix)))) eqn:Ed.
  { set (data := if tix =? 0 then [L_BASE + lindex_of sy; V_BASE + vindex_of sy]
                 else [L_BASE + lindex_of sy; V_BASE + vindex_of sy; T_BASE + tix]).
    destruct (replace_glyphs_some lvl 1 data ro re1) as (p & Hp & Lp); [lia|lia|].
    rewrite Hp. cbn [bind].
    assert (H2 : exists p2, (if has sy && (tix =? 0) then next_glyph (fst p) (snd p) else Some p) = Some p2
                            /\ (length (snd p2) < length re)%nat).
    { destruct (has sy && (tix =? 0)) eqn:Ew; [|exists p; split; [reflexivity|lia]].
      apply andb_prop in Ew. destruct Ew as (Ew1 & Ew2). rewrite Ew1, Ew2 in Ed. cbn [negb orb andb] in Ed.
      apply andb_prop in Ed. destruct Ed as (Ed & _). apply andb_prop in Ed. destruct Ed as (Ed & _).
      apply Nat.ltb_lt in Ed.
      destruct (next_glyph_some (fst p) (snd p)) as (p2 & Hp2 & L2); [lia|]. exists p2. split; [exact Hp2|lia]. }
    destruct H2 as (p2 & Hp2 & L2). rewrite Hp2. cbn [bind].
    match goal with |- context [if lvl =? HANGUL_MERGE_LEVEL then merge_out_clusters lvl ?a ?b ?c ?d else _] =>
      pose proof (len_merge_out lvl a b c d) as Lm; destruct (lvl =? HANGUL_MERGE_LEVEL);
      [destruct (merge_out_clusters lvl a b c d) as (ro6, re6)|] end;
      (eexists; split; [reflexivity|]; cbn [rest snd] in *; lia). }
  match goal with |- context [next_glyph ro ?r] => set (re2 := r) end.
  assert (L2 : length re2 = length re).
  { subst re2. match goal with |- context [if ?b then _ else _] => destruct b end; rewrite ?len_utb_in; exact L1. }
  destruct (next_glyph_some ro re2) as (p & Hp & Lp); [lia|]. rewrite Hp.
  destruct (has sy); cbn [bind]; (eexists; split; [reflexivity|]; cbn [rest]; lia).
Qed.

Lemma loop_total has zw lvl nd fuel : forall s, (length (rest s) <= fuel)%nat ->
  exists s', loop has zw lvl nd fuel s = Some s' /\ rest s' = [].
Proof.
  induction fuel as [|f IH]; intros s Hl.
  - destruct (rest s) eqn:E; [|cbn in Hl; lia]. exists s. cbn. rewrite E. auto.
  - cbn [loop]. destruct (rest s) eqn:E; [exists s; auto|].
    destruct (step_total has zw lvl nd s) as (s1 & H1 & L1); [rewrite E; cbn; lia|].
    rewrite H1. cbn [bind]. apply IH. rewrite E in *. cbn in *. lia.
Qed.

Theorem run_total has zw lvl nd input : exists out, run has zw lvl nd input = Some out.
Proof.
  unfold run, run_st. destruct (loop_total has zw lvl nd (length input) (mkS [] input 0 0)) as (s' & H & _); [cbn; lia|].
  rewrite H. cbn. eauto.
Qed.

(* invariants of the loop carry over to the result *)
Lemma loop_inv has zw lvl nd (P : st -> Prop) :
  (forall s s', P s -> step has zw lvl nd s = Some s' -> P s') ->
  forall fuel s s', P s -> loop has zw lvl nd fuel s = Some s' -> P s' /\ rest s' = [].
Proof.
  intros Hstep. induction fuel as [|f IH]; intros s s' Hs Hl; cbn [loop] in Hl.
  - destruct (rest s) eqn:E; [|discriminate]. injection Hl as <-. auto.
  - destruct (rest s) eqn:E; [injection Hl as <-; auto|].
    destruct (step has zw lvl nd s) as [s1|] eqn:E1; [|discriminate]. cbn [bind] in Hl. eauto.
Qed.

(* ================================================================== F. one iteration as a sequence of primitive moves *)

Definition pr := (list info * list info)%type.
Definition cc (x : info) : N * bool := (cl x, cont x).

Inductive move (lvl : N) : pr -> pr -> Prop :=
| m_same ro re ro' re' : map cc ro' = map cc ro -> map cc re' = map cc re -> move lvl (ro, re) (ro', re')
| m_push ro x x' t : cl x' = cl x -> cont x' = cont x -> move lvl (ro, x :: t) (x' :: ro, t)
| m_merge_in n ro re : move lvl (ro, re) (merge_clusters lvl n ro re)
| m_replace n data ro orig t : (1 <= n)%nat ->
    move lvl (ro, orig :: t) (rev (map (fun g => with_cp g orig) data) ++ ro, skipn n (orig :: t))
| m_merge_out st en ro re : en = length ro -> move lvl (ro, re) (merge_out_clusters lvl st en ro re)
| m_mark k ro re : (k <= length ro)%nat ->
    (lvl = HANGUL_MERGE_LEVEL -> exists c, Forall (fun x => cl x = c) (firstn k ro)) ->
    move lvl (ro, re) (mark_syl k ro, re)
| m_rotate k ro re : (k < length ro)%nat ->
    (lvl <> LEVEL_CHARACTERS -> exists c, Forall (fun x => cl x = c) (firstn (S k) ro)) ->
    move lvl (ro, re) (rotate_tone k ro, re).

Inductive moves (lvl : N) : pr -> pr -> Prop :=
| ms_refl p : moves lvl p p
| ms_step p q r : move lvl p q -> moves lvl q r -> moves lvl p r.

Lemma moves_trans lvl p q r : moves lvl p q -> moves lvl q r -> moves lvl p r.
Proof. induction 1; intros; [assumption|]. eapply ms_step; eauto. Qed.
Lemma moves_one lvl p q : move lvl p q -> moves lvl p q.
Proof. intros. eapply ms_step; [eassumption|apply ms_refl]. Qed.

Lemma cc_of_erase l l' : map erase l = map erase l' -> map cc l = map cc l'.
Proof.
  intros H. assert (E : forall l0, map cc (map erase l0) = map cc l0) by (intros; rewrite map_map; reflexivity).
  rewrite <- (E l), H, E. reflexivity.
Qed.

Lemma len_merge_tail_fst k ro re : length (fst (merge_tail k ro re)) = length ro.
Proof.
  unfold merge_tail. destruct (firstn k ro) as [|e seg] eqn:E; [reflexivity|]. cbn [fst].
  rewrite app_length, map_length, len_set_while, <- E, <- app_length, firstn_skipn. reflexivity.
Qed.
Lemma len_merge_out_fst lvl st en ro re : en = length ro -> length (fst (merge_out_clusters lvl st en ro re)) = length ro.
Proof.
  intros He. destruct (lvl =? LEVEL_CHARACTERS) eqn:El.
  - unfold merge_out_clusters. rewrite El. reflexivity.
  - destruct (en - st <? 2)%nat eqn:Ek.
    + unfold merge_out_clusters. rewrite El, Ek. reflexivity.
    + rewrite merge_out_tail; [apply len_merge_tail_fst | apply N.eqb_neq; exact El | exact He | apply Nat.ltb_ge in Ek; exact Ek].
Qed.
Lemma merge_out_first lvl st en ro re :
  lvl <> LEVEL_CHARACTERS -> en = length ro -> (2 <= en - st)%nat ->
  exists c, Forall (fun x => cl x = c) (firstn (en - st) (fst (merge_out_clusters lvl st en ro re))).
Proof.
  intros Hl He Hk. rewrite merge_out_tail by assumption. unfold merge_tail.
  assert (Hlen : length (firstn (en - st) ro) = (en - st)%nat) by (apply firstn_length_le; lia).
  destruct (firstn (en - st) ro) as [|e seg] eqn:E; [cbn in Hlen; lia|]. cbn [fst].
  exists (min_cl (cl e) (e :: seg)).
  rewrite firstn_app, map_length, Hlen, Nat.sub_diag. cbn [firstn]. rewrite app_nil_r.
  rewrite firstn_all2 by (rewrite map_length; lia).
  apply Forall_forall. intros x Hx. apply in_map_iff in Hx. destruct Hx as (y & <- & _). apply cl_set_cluster.
Qed.

Lemma replace_glyphs_moves lvl n d ro re p : (1 <= n)%nat ->
  replace_glyphs lvl n d ro re = Some p -> moves lvl (ro, re) p.
Proof.
  intros Hn H. unfold replace_glyphs in H. destruct (length re <? n)%nat; [discriminate|].
  pose proof (m_merge_in lvl n ro re) as M. destruct (merge_clusters lvl n ro re) as (ro1, re1).
  destruct re1 as [|orig t]; [discriminate|]. injection H as <-.
  eapply ms_step; [exact M|]. apply moves_one. apply m_replace. exact Hn.
Qed.
Lemma next_glyph_moves lvl ro re p : next_glyph ro re = Some p -> moves lvl (ro, re) p.
Proof. destruct re as [|x t]; [discriminate|]. cbn. intros H. injection H as <-. apply moves_one. apply m_push; reflexivity. Qed.
Lemma tag_next_moves lvl f ro re p : tag_next f ro re = Some p -> moves lvl (ro, re) p.
Proof. destruct re as [|x t]; [discriminate|]. cbn. intros H. injection H as <-. apply moves_one. apply m_push; reflexivity. Qed.
Lemma utb_in_moves lvl n ro re : moves lvl (ro, re) (ro, unsafe_to_break_in lvl n re).
Proof. apply moves_one. apply m_same; [reflexivity|]. apply cc_of_erase, map_erase_utb_in. Qed.
Lemma len_next_glyph ro re p : next_glyph ro re = Some p -> length (fst p) = S (length ro).
Proof. destruct re; [discriminate|]. cbn. intros H. injection H as <-. reflexivity. Qed.
Lemma len_tag_next f ro re p : tag_next f ro re = Some p -> length (fst p) = S (length ro).
Proof. destruct re; [discriminate|]. cbn. intros H. injection H as <-. reflexivity. Qed.
Lemma len_replace_glyphs_fst lvl d ro re p : replace_glyphs lvl 1 d ro re = Some p -> length (fst p) = (length d + length ro)%nat.
Proof.
  intros H. destruct re as [|orig t]; [cbn in H; discriminate|].
  unfold replace_glyphs, merge_clusters in H. cbn [length Nat.ltb Nat.leb skipn] in H. injection H as <-. cbn [fst].
  rewrite app_length, rev_length, map_length. reflexivity.
Qed.
Lemma len_upd_nth i f l : length (upd_nth i f l) = length l.
Proof. revert i. induction l; intros i; destruct i; cbn; auto. Qed.
Lemma cc_upd_nth_feat i f l : map cc (upd_nth i (set_feat f) l) = map cc l.
Proof. revert i. induction l; intros i; destruct i; cbn; try rewrite IHl; reflexivity. Qed.
Lemma set_feat_out_moves lvl i f ro re : moves lvl (ro, re) (set_feat_out i f ro, re).
Proof. apply moves_one. apply m_same; [apply cc_upd_nth_feat|reflexivity]. Qed.
Lemma len_set_feat_out i f ro : length (set_feat_out i f ro) = length ro.
Proof. apply len_upd_nth. Qed.

Lemma len_utb_out lvl st ro : length (utb_from_out lvl st ro) = length ro.
Proof. apply len_of_erase, map_erase_utb_out. Qed.

Lemma bind_some {A B} (o : option A) (f : A -> option B) r : bind o f = Some r -> exists a, o = Some a /\ f a = Some r.
Proof. destruct o; cbn; [eauto|discriminate]. Qed.

Lemma step_moves has zw lvl nd s s' :
  step has zw lvl nd s = Some s' -> moves lvl (rout s, rest s) (rout s', rest s').
Proof.
  unfold step. set (ro := rout s). set (re := rest s). intros H.
  destruct (is_hangul_tone (cur_cp 0 re)).
  { destruct ((sstart s <? send s)%nat && (send s =? length ro)%nat) eqn:Ev.
    - apply andb_prop in Ev. destruct Ev as (Ev1 & Ev2). apply Nat.ltb_lt in Ev1. apply Nat.eqb_eq in Ev2.
      apply bind_some in H. destruct H as (p & Hp & H).
      assert (M1 : moves lvl (ro, re) p).
      { eapply ms_step; [apply (m_same lvl ro re (utb_from_out lvl (sstart s) ro) re); [apply cc_of_erase, map_erase_utb_out|reflexivity]|].
        eapply next_glyph_moves; exact Hp. }
      pose proof (len_next_glyph _ _ _ Hp) as Lp. rewrite len_utb_out in Lp.
      destruct (negb (zw (cur_cp 0 re))).
      + pose proof (m_merge_out lvl (sstart s) (send s + 1) (fst p) (snd p)) as M2.
        pose proof (len_merge_out_fst lvl (sstart s) (send s + 1) (fst p) (snd p)) as L2.
        pose proof (merge_out_first lvl (sstart s) (send s + 1) (fst p) (snd p)) as F2.
        destruct (merge_out_clusters lvl (sstart s) (send s + 1) (fst p) (snd p)) as (ro2, re2). cbn [fst] in *.
        injection H as <-. cbn [rout rest].
        eapply moves_trans; [exact M1|]. destruct p as (a, b). cbn [fst snd] in *.
        eapply ms_step; [apply M2; lia|]. apply moves_one. apply m_rotate; [rewrite L2 by lia; lia|].
        intros Hl. destruct F2 as (c & Hc); [exact Hl|lia|lia|].
        replace (send s + 1 - sstart s)%nat with (S (send s - sstart s)) in Hc by lia. exists c. exact Hc.
      + destruct p as (a, b). injection H as <-. exact M1.
    - apply bind_some in H. destruct H as (p & Hp & H). injection H as <-. cbn [rout rest].
      destruct p as (a, b). cbn [fst snd]. destruct (negb nd && has DOTTED_CIRCLE).
      + eapply replace_glyphs_moves; [|exact Hp]. lia.
      + eapply next_glyph_moves; exact Hp. }
  assert (Hplain : plain_next s = Some s' -> moves lvl (ro, re) (rout s', rest s')).
  { unfold plain_next. fold ro re. intros Hq. apply bind_some in Hq. destruct Hq as (p & Hp & Hq). injection Hq as <-.
    cbn [rout rest]. destruct p. eapply next_glyph_moves; exact Hp. }
  destruct (is_l (cur_cp 0 re) && (1 <? length re)%nat).
  { destruct (is_v (cur_cp 1 re)); [|exact (Hplain H)].
    set (t := if (2 <? length re)%nat && is_t (cur_cp 2 re) then cur_cp 2 re else 0) in *.
    set (tindex := if (2 <? length re)%nat && is_t (cur_cp 2 re) then cur_cp 2 re - T_BASE else 0) in *.
    set (n := if t =? 0 then 2%nat else 3%nat) in *.
    assert (Hn : (2 <= n)%nat) by (subst n; destruct (t =? 0); lia).
    pose proof (utb_in_moves lvl n ro re) as M0. set (re1 := unsafe_to_break_in lvl n re) in *.
    destruct (_ && has (compose_s (cur_cp 0 re) (cur_cp 1 re) tindex)).
    - apply bind_some in H. destruct H as (p & Hp & H). injection H as <-. cbn [rout rest]. destruct p. cbn [fst snd].
      eapply moves_trans; [exact M0|]. eapply replace_glyphs_moves; [|exact Hp]. lia.
    - apply bind_some in H. destruct H as (p1 & Hp1 & H).
      apply bind_some in H. destruct H as (p2 & Hp2 & H).
      apply bind_some in H. destruct H as (p3 & Hp3 & H).
      assert (M3 : moves lvl (ro, re) p3 /\ length (fst p3) = (length ro + n)%nat).
      { pose proof (len_tag_next _ _ _ _ Hp1) as L1. pose proof (len_tag_next _ _ _ _ Hp2) as L2.
        assert (M2 : moves lvl (ro, re) p2).
        { eapply moves_trans; [exact M0|]. eapply moves_trans; [eapply tag_next_moves; exact Hp1|].
          destruct p1. eapply tag_next_moves; exact Hp2. }
        subst n. destruct (t =? 0).
        - injection Hp3 as <-. split; [exact M2|lia].
        - pose proof (len_tag_next _ _ _ _ Hp3) as L3. split; [|lia].
          eapply moves_trans; [exact M2|]. destruct p2. eapply tag_next_moves; exact Hp3. }
      destruct M3 as (M3 & L3).
      destruct (lvl =? HANGUL_MERGE_LEVEL) eqn:El.
      + apply N.eqb_eq in El.
        pose proof (m_merge_out lvl (length ro) (length ro + n) (fst p3) (snd p3)) as M4.
        pose proof (len_merge_out_fst lvl (length ro) (length ro + n) (fst p3) (snd p3)) as L4.
        pose proof (merge_out_first lvl (length ro) (length ro + n) (fst p3) (snd p3)) as F4.
        destruct (merge_out_clusters lvl (length ro) (length ro + n) (fst p3) (snd p3)) as (ro4, re4). cbn [fst] in *.
        injection H as <-. cbn [rout rest].
        eapply moves_trans; [exact M3|]. destruct p3 as (a, b). cbn [fst snd] in *.
        eapply ms_step; [apply M4; lia|]. apply moves_one. apply m_mark; [rewrite L4 by lia; lia|].
        intros _. destruct F4 as (c & Hc); [rewrite El; discriminate|lia|lia|].
        replace (length ro + n - length ro)%nat with n in Hc by lia. exists c. exact Hc.
      + destruct p3 as (a, b). injection H as <-. cbn [rout rest]. cbn [fst snd] in *.
        eapply moves_trans; [exact M3|]. apply moves_one. apply m_mark; [lia|].
        intros E. apply N.eqb_neq in El. contradiction. }
  destruct (is_combined_s (cur_cp 0 re)); [|exact (Hplain H)].
  set (sy := cur_cp 0 re) in *. set (tix := tindex_of sy) in *. set (t1 := cur_cp 1 re) in *.
  destruct ((tix =? 0) && (1 <? length re)%nat && is_combining_t t1 && has (sy + (t1 - T_BASE))).
  { apply bind_some in H. destruct H as (p & Hp & H). injection H as <-. cbn [rout rest]. destruct p.
    eapply replace_glyphs_moves; [|exact Hp]. lia. }
  set (re1 := if (tix =? 0) && (1 <? length re)%nat && is_combining_t t1 then unsafe_to_break_in lvl 2 re else re) in *.
  assert (M1 : moves lvl (ro, re) (ro, re1)).
  { subst re1. destruct (_ && is_combining_t t1); [apply utb_in_moves|apply ms_refl]. }
  destruct ((negb (has sy) || (tix =? 0) && (1 <? length re)%nat && is_t t1)
            && (has (L_BASE + lindex_of sy) && has (V_BASE + vindex_of sy) && ((tix =? 0) || has (T_BASE + tix)))).
  { set (data := if tix =? 0 then [L_BASE + lindex_of sy; V_BASE + vindex_of sy]
                 else [L_BASE + lindex_of sy; V_BASE + vindex_of sy; T_BASE + tix]) in *.
    assert (Hd : (2 <= length data)%nat) by (subst data; destruct (tix =? 0); cbn; lia).
    apply bind_some in H. destruct H as (p & Hp & H).
    apply bind_some in H. destruct H as (p2 & Hp2 & H).
    set (w := has sy && (tix =? 0)) in *.
    set (s_len := (length data + (if w then 1 else 0))%nat) in *.
    pose proof (len_replace_glyphs_fst _ _ _ _ _ Hp) as Lp.
    assert (M2 : moves lvl (ro, re) p2 /\ length (fst p2) = (length ro + s_len)%nat).
    { assert (Mp : moves lvl (ro, re) p) by (eapply moves_trans; [exact M1|]; eapply replace_glyphs_moves; [|exact Hp]; lia).
      subst s_len. destruct w.
      - pose proof (len_next_glyph _ _ _ Hp2) as L2. split; [|lia].
        eapply moves_trans; [exact Mp|]. destruct p. eapply next_glyph_moves; exact Hp2.
      - injection Hp2 as <-. split; [exact Mp|lia]. }
    destruct M2 as (M2 & L2). destruct p2 as (a, b). cbn [fst snd] in *.
    set (ro3 := set_feat_out (length ro + 0) LJMO a) in *.
    set (ro4 := set_feat_out (length ro + 1) VJMO ro3) in *.
    set (ro5 := if (length ro + 2 <? length ro + s_len)%nat then set_feat_out (length ro + 2) TJMO ro4 else ro4) in *.
    assert (M5 : moves lvl (a, b) (ro5, b) /\ length ro5 = length a).
    { split.
      - eapply moves_trans; [apply (set_feat_out_moves lvl (length ro + 0) LJMO a b)|]. fold ro3.
        eapply moves_trans; [apply (set_feat_out_moves lvl (length ro + 1) VJMO ro3 b)|]. fold ro4.
        subst ro5. destruct (length ro + 2 <? length ro + s_len)%nat; [apply set_feat_out_moves|apply ms_refl].
      - subst ro5 ro4 ro3. destruct (length ro + 2 <? length ro + s_len)%nat; rewrite ?len_set_feat_out; reflexivity. }
    destruct M5 as (M5 & L5).
    destruct (lvl =? HANGUL_MERGE_LEVEL) eqn:El.
    - apply N.eqb_eq in El.
      pose proof (m_merge_out lvl (length ro) (length ro + s_len) ro5 b) as M6.
      pose proof (len_merge_out_fst lvl (length ro) (length ro + s_len) ro5 b) as L6.
      pose proof (merge_out_first lvl (length ro) (length ro + s_len) ro5 b) as F6.
      destruct (merge_out_clusters lvl (length ro) (length ro + s_len) ro5 b) as (ro6, re6). cbn [fst] in *.
      injection H as <-. cbn [rout rest].
      eapply moves_trans; [exact M2|]. eapply moves_trans; [exact M5|].
      eapply ms_step; [apply M6; lia|]. apply moves_one. apply m_mark; [rewrite L6 by lia; lia|].
      intros _. destruct F6 as (c & Hc); [rewrite El; discriminate|lia|lia|].
      replace (length ro + s_len - length ro)%nat with s_len in Hc by lia. exists c. exact Hc.
    - injection H as <-. cbn [rout rest].
      eapply moves_trans; [exact M2|]. eapply moves_trans; [exact M5|].
      apply moves_one. apply m_mark; [lia|]. intros E. apply N.eqb_neq in El. contradiction. }
  match type of H with context [next_glyph ro ?r] => set (re2 := r) in * end.
  assert (M2 : moves lvl (ro, re) (ro, re2)).
  { eapply moves_trans; [exact M1|]. subst re2.
    match goal with |- context [if ?b then _ else _] => destruct b end; [apply utb_in_moves|apply ms_refl]. }
  destruct (has sy); apply bind_some in H; destruct H as (p & Hp & H); injection H as <-; cbn [rout rest];
    destruct p; (eapply moves_trans; [exact M2|]); eapply next_glyph_moves; exact Hp.
Qed.

(* ================================================================== G. global invariants of arbitrary inputs *)

Lemma Forall_firstn {A} (P : A -> Prop) n l : Forall P l -> Forall P (firstn n l).
Proof. revert n. induction l; intros [|n] H; cbn; auto. inversion H; subst. constructor; auto. Qed.
Lemma Forall_skipn {A} (P : A -> Prop) n l : Forall P l -> Forall P (skipn n l).
Proof. revert n. induction l; intros [|n] H; cbn; auto. inversion H; subst. auto. Qed.
Lemma cl_of_cc l l' : map cc l' = map cc l -> map cl l' = map cl l.
Proof.
  intros H. assert (E : forall l0, map cl l0 = map fst (map cc l0)) by (intros; rewrite map_map; reflexivity).
  rewrite (E l), (E l'), H. reflexivity.
Qed.
Lemma cont_of_cc l l' : map cc l' = map cc l -> map cont l' = map cont l.
Proof.
  intros H. assert (E : forall l0, map cont l0 = map snd (map cc l0)) by (intros; rewrite map_map; reflexivity).
  rewrite (E l), (E l'), H. reflexivity.
Qed.
Lemma cls_set_cont b l : map cl (map (set_cont b) l) = map cl l.
Proof. rewrite map_map. reflexivity. Qed.
Lemma cls_mark_syl k l : map cl (mark_syl k l) = map cl l.
Proof. unfold mark_syl. rewrite map_app, cls_set_cont, <- map_app, firstn_skipn. reflexivity. Qed.
Lemma last_in {A} (l : list A) d : l <> [] -> In (last l d) l.
Proof.
  induction l as [|a l IH]; [congruence|]. intros _. destruct l as [|b l]; [left; reflexivity|].
  right. apply IH. discriminate.
Qed.

(* ---------------- G1. clusters of the result are clusters of the input *)
Definition InC (C : list N) (l : list info) : Prop := Forall (fun x => In (cl x) C) l.
Definition InC2 (C : list N) (p : pr) : Prop := InC C (fst p) /\ InC C (snd p).

Lemma InC_cls C l l' : map cl l' = map cl l -> InC C l -> InC C l'.
Proof.
  unfold InC. revert l'. induction l as [|x l IH]; intros [|y l'] E H; try discriminate; [constructor|].
  cbn in E. injection E as E1 E2. inversion H; subst. constructor; [rewrite E1; assumption|auto].
Qed.
Lemma InC_set_cluster C c x : In c C -> In (cl (set_cluster c x)) C.
Proof. intros. rewrite cl_set_cluster. assumption. Qed.
Lemma InC_set_while C k c l : In c C -> InC C l -> InC C (set_while k c l).
Proof.
  intros Hc. induction l; cbn; intros H; [constructor|]. inversion H; subst.
  destruct (cl a =? k); [|assumption]. constructor; [apply InC_set_cluster; assumption|apply IHl; assumption].
Qed.
Lemma InC_map_set_cluster C c l : In c C -> InC C (map (set_cluster c) l).
Proof. intros Hc. induction l; cbn; constructor; [apply InC_set_cluster; assumption|assumption]. Qed.
Lemma min_cl_in C l : forall d, In d C -> InC C l -> In (min_cl d l) C.
Proof.
  unfold min_cl. induction l as [|x l IH]; intros d Hd H; cbn; [assumption|]. inversion H; subst.
  apply IH; [|assumption]. destruct (N.min_spec d (cl x)) as [(_ & ->)|(_ & ->)]; assumption.
Qed.

Lemma InC_merge_tail C k ro re : InC C ro -> InC C re -> InC2 C (merge_tail k ro re).
Proof.
  intros Ho He. unfold merge_tail. destruct (firstn k ro) as [|e seg] eqn:E; [split; assumption|].
  assert (Hseg : InC C (e :: seg)) by (rewrite <- E; apply Forall_firstn; exact Ho).
  assert (Hc : In (min_cl (cl e) (e :: seg)) C) by (apply min_cl_in; [inversion Hseg; assumption|exact Hseg]).
  split; cbn [fst snd].
  - apply Forall_app. split; [apply InC_map_set_cluster; exact Hc|].
    apply InC_set_while; [exact Hc|apply Forall_skipn; exact Ho].
  - apply InC_set_while; assumption.
Qed.
Lemma InC_merge_out C lvl st en ro re : en = length ro -> InC C ro -> InC C re -> InC2 C (merge_out_clusters lvl st en ro re).
Proof.
  intros Hen Ho He. destruct (lvl =? LEVEL_CHARACTERS) eqn:El.
  - unfold merge_out_clusters. rewrite El. split; assumption.
  - destruct (en - st <? 2)%nat eqn:Ek.
    + unfold merge_out_clusters. rewrite El, Ek. split; assumption.
    + rewrite merge_out_tail; [apply InC_merge_tail; assumption | apply N.eqb_neq; exact El | exact Hen | apply Nat.ltb_ge in Ek; exact Ek].
Qed.
Lemma InC_merge_clusters C lvl n ro re : InC C ro -> InC C re -> InC2 C (merge_clusters lvl n ro re).
Proof.
  intros Ho He. unfold merge_clusters. destruct (n <? 2)%nat; [split; assumption|].
  destruct re as [|f t]; [split; assumption|].
  destruct (lvl =? LEVEL_CHARACTERS).
  { split; [assumption|]. cbn [snd]. eapply InC_cls; [|exact He]. apply cl_of_cc, cc_of_erase, map_erase_utb_in. }
  set (seg := firstn n (f :: t)). set (c := min_cl (cl f) seg).
  assert (Hseg : InC C seg) by (apply Forall_firstn; exact He).
  assert (Hc : In c C) by (apply min_cl_in; [inversion He; assumption|exact Hseg]).
  split; cbn [fst snd].
  - destruct (negb (cl f =? c)); [apply InC_set_while; assumption|assumption].
  - apply Forall_app. split; [apply InC_map_set_cluster; exact Hc|].
    destruct (negb _); [apply InC_set_while; [exact Hc|]|]; apply Forall_skipn; exact He.
Qed.

Lemma move_InC C lvl p q : move lvl p q -> InC2 C p -> InC2 C q.
Proof.
  intros M (Ho & He). destruct M; cbn [fst snd] in *.
  - split; cbn [fst snd]; [apply (InC_cls C ro ro')|apply (InC_cls C re re')]; try assumption; apply cl_of_cc; assumption.
  - inversion He; subst. split; cbn [fst snd]; [|assumption]. constructor; [congruence|assumption].
  - apply InC_merge_clusters; assumption.
  - inversion He; subst. split; cbn [fst snd].
    + apply Forall_app. split; [|assumption]. apply Forall_rev. apply Forall_forall. intros x Hx.
      apply in_map_iff in Hx. destruct Hx as (g & <- & _). assumption.
    + apply Forall_skipn. assumption.
  - apply InC_merge_out; assumption.
  - split; cbn [fst snd]; [|assumption]. eapply InC_cls; [apply cls_mark_syl|assumption].
  - split; cbn [fst snd]; [|assumption]. destruct ro as [|t l]; [constructor|]. cbn [rotate_tone].
    inversion Ho; subst. apply Forall_app. split; [|apply Forall_skipn; assumption].
    eapply InC_cls; [apply cls_mark_syl|]. apply Forall_app. split; [apply Forall_firstn; assumption|].
    constructor; [assumption|constructor].
Qed.
Lemma moves_InC C lvl p q : moves lvl p q -> InC2 C p -> InC2 C q.
Proof. induction 1; intros; [assumption|]. apply IHmoves. eapply move_InC; eassumption. Qed.

Theorem run_clusters_subset has zw lvl nd input out :
  run has zw lvl nd input = Some out -> forall x, In x out -> In (cl x) (map cl input).
Proof.
  unfold run, run_st. intros H x Hx. apply bind_some in H. destruct H as (s' & Hs & H). injection H as <-.
  pose (P := fun s : st => InC2 (map cl input) (rout s, rest s)).
  destruct (loop_inv has zw lvl nd P) with (fuel := length input) (s := mkS [] input 0 0) (s' := s') as (HP & _).
  - intros s1 s2 H1 H2. unfold P in *. eapply moves_InC; [eapply step_moves; exact H2|exact H1].
  - unfold P, InC2. cbn. split; [constructor|]. apply Forall_forall. intros y Hy. apply in_map. exact Hy.
  - exact Hs.
  - destruct HP as (Ho & _). cbn [fst] in Ho. unfold InC in Ho. rewrite Forall_forall in Ho. apply Ho.
    apply in_rev. exact Hx.
Qed.

(* ---------------- G2. one cluster per syllable (level MonotoneGraphemes) *)
(* rout order: y is newer than x.  `cont y` = y continues the syllable of the glyph before it *)
Fixpoint adj_ok (l : list info) : Prop :=
  match l with
  | y :: ((x :: _) as t) => (cont y = true -> cl y = cl x) /\ adj_ok t
  | _ => True
  end.
Definition NoCont (l : list info) : Prop := Forall (fun x => cont x = false) l.
Definition Adj (p : pr) : Prop := adj_ok (fst p) /\ NoCont (snd p).

Lemma adj_ok_cons2 y x t : adj_ok (y :: x :: t) = ((cont y = true -> cl y = cl x) /\ adj_ok (x :: t)).
Proof. reflexivity. Qed.
Lemma adj_ok_cc l : forall l', map cc l' = map cc l -> adj_ok l -> adj_ok l'.
Proof.
  induction l as [|y l IH]; intros [|y' l'] E H; try discriminate; [exact I|].
  cbn [map] in E. injection E as E1 E2 E3.
  destruct l as [|x l0]; destruct l' as [|x' l0']; try discriminate; [exact I|].
  rewrite adj_ok_cons2 in H |- *. destruct H as (H1 & H2). split; [|apply IH; assumption].
  cbn [map] in E3. injection E3 as E4 E5 E6. intros Hc. rewrite E2 in Hc. specialize (H1 Hc). congruence.
Qed.
Lemma NoCont_conts l l' : map cont l' = map cont l -> NoCont l -> NoCont l'.
Proof.
  unfold NoCont. revert l'. induction l as [|x l IH]; intros [|y l'] E H; try discriminate; [constructor|].
  cbn in E. injection E as E1 E2. inversion H; subst. constructor; [congruence|auto].
Qed.
Lemma conts_set_while k c l : map cont (set_while k c l) = map cont l.
Proof. induction l; cbn; [reflexivity|]. destruct (cl a =? k); [|reflexivity]. cbn. rewrite cont_set_cluster, IHl. reflexivity. Qed.
Lemma conts_map_set_cluster c l : map cont (map (set_cluster c) l) = map cont l.
Proof. induction l; cbn; [reflexivity|]. rewrite cont_set_cluster, IHl. reflexivity. Qed.

Lemma adj_ok_tail y l : adj_ok (y :: l) -> adj_ok l.
Proof. destruct l; cbn; tauto. Qed.
Lemma adj_ok_all_same c l : Forall (fun x => cl x = c) l -> adj_ok l.
Proof.
  induction l as [|y l IH]; intros H; [exact I|]. inversion H; subst. destruct l as [|x l0]; [exact I|].
  cbn [adj_ok]. split; [|apply IH; assumption]. inversion H3; subst. congruence.
Qed.
Lemma adj_ok_app A : forall B, adj_ok A -> adj_ok B ->
  (forall x, A <> [] -> hd_error B = Some x -> cont (last A dflt) = true -> cl (last A dflt) = cl x) -> adj_ok (A ++ B).
Proof.
  induction A as [|y A IH]; intros B HA HB HJ; [exact HB|].
  destruct A as [|x A0].
  - cbn [app]. destruct B as [|b B0]; [exact I|]. cbn [adj_ok]. split; [|exact HB].
    intros Hc. apply (HJ b); [discriminate|reflexivity|exact Hc].
  - cbn [app adj_ok] in *. destruct HA as (H1 & H2). split; [exact H1|].
    apply (IH B H2 HB). intros b _ Hb Hc. apply (HJ b); [discriminate|exact Hb|exact Hc].
Qed.
Lemma adj_ok_app_inv A : forall B, adj_ok (A ++ B) ->
  adj_ok A /\ adj_ok B /\ (forall x, A <> [] -> hd_error B = Some x -> cont (last A dflt) = true -> cl (last A dflt) = cl x).
Proof.
  induction A as [|y A IH]; intros B H; [cbn in *; repeat split; [exact H|congruence]|].
  destruct A as [|x A0].
  - cbn [app] in H. destruct B as [|b B0]; [repeat split; intros; discriminate|].
    cbn [adj_ok] in H. destruct H as (H1 & H2). repeat split; [exact H2|].
    intros b' _ Hb Hc. cbn in Hb. injection Hb as <-. cbn in *. auto.
  - cbn [app adj_ok] in H. destruct H as (H1 & H2). destruct (IH B H2) as (Ha & Hb & Hj).
    repeat split; [exact H1|exact Ha|exact Hb|]. intros b _ Hb' Hc. apply Hj; [discriminate|exact Hb'|exact Hc].
Qed.

Lemma adj_ok_set_while k c l : adj_ok l -> adj_ok (set_while k c l).
Proof.
  induction l as [|x l IH]; intros H; [exact I|]. cbn [set_while]. destruct (cl x =? k) eqn:Ex; [|exact H].
  specialize (IH (adj_ok_tail _ _ H)). destruct l as [|y l0]; [exact I|].
  cbn [set_while] in *. destruct (cl y =? k) eqn:Ey.
  - cbn [adj_ok]. split; [|exact IH]. intros _. rewrite !cl_set_cluster. reflexivity.
  - cbn [adj_ok]. split; [|exact IH]. rewrite cont_set_cluster. intros Hc.
    cbn [adj_ok] in H. destruct H as (H1 & _). specialize (H1 Hc). apply N.eqb_eq in Ex. apply N.eqb_neq in Ey. congruence.
Qed.
Lemma hd_set_while k c o l : hd_error (set_while k c (o :: l)) = Some (if cl o =? k then set_cluster c o else o).
Proof. cbn. destruct (cl o =? k); reflexivity. Qed.

Lemma last_dflt_irrel {A} (l : list A) d1 d2 : l <> [] -> last l d1 = last l d2.
Proof.
  induction l as [|a l IH]; [congruence|]. intros _. destruct l as [|b l]; [reflexivity|].
  change (last (a :: b :: l) d1) with (last (b :: l) d1). change (last (a :: b :: l) d2) with (last (b :: l) d2).
  apply IH. discriminate.
Qed.
Lemma last_map {A B} (f : A -> B) l d1 d2 : l <> [] -> last (map f l) d1 = f (last l d2).
Proof.
  induction l as [|a l IH]; [congruence|]. intros _. destruct l as [|b l]; [reflexivity|].
  change (last (map f (a :: b :: l)) d1) with (last (map f (b :: l)) d1).
  change (last (a :: b :: l) d2) with (last (b :: l) d2). apply IH. discriminate.
Qed.
Lemma adj_ok_merge_tail k ro re : adj_ok ro -> adj_ok (fst (merge_tail k ro re)).
Proof.
  intros H. unfold merge_tail. destruct (firstn k ro) as [|e seg] eqn:E; [exact H|]. cbn [fst].
  rewrite <- (firstn_skipn k ro), E in H. apply adj_ok_app_inv in H. destruct H as (_ & Hold & Hj).
  set (c := min_cl (cl e) (e :: seg)).
  apply adj_ok_app.
  - apply (adj_ok_all_same c). apply Forall_forall. intros x Hx. apply in_map_iff in Hx.
    destruct Hx as (y & <- & _). apply cl_set_cluster.
  - apply adj_ok_set_while. exact Hold.
  - intros x _ Hx Hc. destruct (skipn k ro) as [|o older]; [discriminate|].
    rewrite hd_set_while in Hx. injection Hx as <-.
    assert (Hlast : last (map (set_cluster c) (e :: seg)) dflt = set_cluster c (last (e :: seg) e)) by (apply last_map; discriminate).
    rewrite Hlast in *. rewrite cl_set_cluster. rewrite cont_set_cluster in Hc.
    change (match seg with [] => e | _ :: _ => last seg e end) with (last (e :: seg) e) in *.
    destruct (cl o =? cl (last (e :: seg) e)) eqn:Eo; [rewrite cl_set_cluster; reflexivity|].
    exfalso. apply N.eqb_neq in Eo. apply Eo. symmetry.
    assert (Hl2 : last (e :: seg) dflt = last (e :: seg) e) by (apply last_dflt_irrel; discriminate).
    rewrite <- Hl2. apply (Hj o); [discriminate|reflexivity|rewrite Hl2; exact Hc].
Qed.

Lemma conts_merge_tail_snd k ro re : map cont (snd (merge_tail k ro re)) = map cont re.
Proof. unfold merge_tail. destruct (firstn k ro); [reflexivity|]. apply conts_set_while. Qed.
Lemma conts_merge_out_snd lvl st en ro re : map cont (snd (merge_out_clusters lvl st en ro re)) = map cont re.
Proof.
  unfold merge_out_clusters. destruct (lvl =? LEVEL_CHARACTERS); [reflexivity|].
  destruct (en - st <? 2)%nat; [reflexivity|].
  destruct (firstn (en - st) (skipn (length ro - en) ro)) as [|e seg]; [reflexivity|].
  destruct (set_while_all _ _ _) as (nw, all). cbn [snd]. destruct all; [apply conts_set_while|reflexivity].
Qed.
Lemma Adj_merge_clusters lvl n ro re : Adj (ro, re) -> Adj (merge_clusters lvl n ro re).
Proof.
  intros (Ho & He). cbn [fst snd] in *. unfold merge_clusters. destruct (n <? 2)%nat; [split; assumption|].
  destruct re as [|f t]; [split; assumption|].
  destruct (lvl =? LEVEL_CHARACTERS).
  { split; [assumption|]. cbn [snd]. eapply NoCont_conts; [|exact He]. apply cont_of_cc, cc_of_erase, map_erase_utb_in. }
  split; cbn [fst snd].
  - destruct (negb _); [apply adj_ok_set_while|]; assumption.
  - eapply NoCont_conts; [|exact He].
    rewrite map_app, conts_map_set_cluster.
    match goal with |- context [if ?b then _ else _] => destruct b end; rewrite ?conts_set_while, <- map_app, firstn_skipn; reflexivity.
Qed.

(* marking: the j+1 newest glyphs share a cluster; the j newest become continuations *)
Definition mark (j : nat) (l : list info) : list info := map (set_cont true) (firstn j l) ++ skipn j l.
Lemma mark_syl_mark k l : mark_syl k l = mark (k - 1) l.
Proof. reflexivity. Qed.
Lemma hd_mark_cl j x r : exists x', hd_error (mark j (x :: r)) = Some x' /\ cl x' = cl x.
Proof. destruct j; cbn; eauto. Qed.
Lemma adj_ok_mark c j : forall l, adj_ok l -> Forall (fun x => cl x = c) (firstn (S j) l) -> adj_ok (mark j l).
Proof.
  induction j as [|j IH]; intros l H F; [exact H|].
  destruct l as [|y r]; [exact I|].
  change (mark (S j) (y :: r)) with (set_cont true y :: mark j r).
  change (firstn (S (S j)) (y :: r)) with (y :: firstn (S j) r) in F. inversion F; subst.
  specialize (IH r (adj_ok_tail _ _ H) H3).
  destruct r as [|x r0]; [destruct j; exact I|].
  destruct (hd_mark_cl j x r0) as (x' & Hx' & Ecl).
  destruct (mark j (x :: r0)) as [|m ms] eqn:Em; [discriminate|]. cbn in Hx'. injection Hx' as ->.
  cbn [adj_ok]. split; [|exact IH]. intros _. cbn [cl set_cont]. rewrite Ecl.
  cbn [firstn] in H3. inversion H3; subst. congruence.
Qed.
Lemma mark_app j A B : length A = S j -> mark j (A ++ B) = mark j A ++ B.
Proof.
  intros HL. unfold mark. rewrite firstn_app, skipn_app, HL.
  replace (j - S j)%nat with 0%nat by lia. cbn [firstn skipn]. rewrite app_nil_r, app_assoc. reflexivity.
Qed.

Lemma adj_ok_rotate c k ro : (k < length ro)%nat -> adj_ok ro ->
  Forall (fun x => cl x = c) (firstn (S k) ro) -> adj_ok (rotate_tone k ro).
Proof.
  intros Hk H F. destruct ro as [|t l]; [exact I|]. cbn [length] in Hk. cbn [rotate_tone].
  change (firstn (S k) (t :: l)) with (t :: firstn k l) in F. inversion F; subst.
  assert (HLk : length (firstn k l) = k) by (apply firstn_length_le; lia).
  rewrite mark_syl_mark. replace (S k - 1)%nat with k by lia.
  rewrite <- mark_app by (rewrite app_length, HLk; cbn; lia).
  rewrite <- app_assoc. cbn [app].
  pose proof (adj_ok_tail _ _ H) as Hl. rewrite <- (firstn_skipn k l) in Hl.
  apply adj_ok_app_inv in Hl. destruct Hl as (HA & HB & _).
  apply (adj_ok_mark (cl t)).
  - apply adj_ok_app; [exact HA| |].
    + destruct (skipn k l) as [|b B]; [exact I|]. cbn [adj_ok]. split; [cbn; discriminate|exact HB].
    + intros x Hne Hx Hc. cbn in Hx. injection Hx as <-. cbn [cl set_cont].
      rewrite Forall_forall in H3. apply H3. apply last_in. exact Hne.
  - rewrite firstn_app, HLk. replace (S k - k)%nat with 1%nat by lia.
    replace (firstn (S k) (firstn k l)) with (firstn k l) by (symmetry; apply firstn_all2; lia).
    change (firstn 1 (set_cont false t :: skipn k l)) with [set_cont false t].
    apply Forall_app. split; [exact H3|]. constructor; [reflexivity|constructor].
Qed.

Lemma move_Adj lvl p q : lvl = HANGUL_MERGE_LEVEL -> move lvl p q -> Adj p -> Adj q.
Proof.
  intros Hl M (Ho & He). destruct M; cbn [fst snd] in *.
  - split; cbn [fst snd]; [eapply adj_ok_cc; eassumption|]. eapply NoCont_conts; [apply cont_of_cc; eassumption|assumption].
  - inversion He; subst. split; cbn [fst snd]; [|assumption].
    destruct ro as [|o ro0]; [exact I|]. cbn [adj_ok]. split; [|exact Ho]. intros Hc. congruence.
  - apply Adj_merge_clusters. split; assumption.
  - inversion He; subst. split; cbn [fst snd]; [|apply Forall_skipn; assumption].
    apply adj_ok_app; [| exact Ho |].
    + apply (adj_ok_all_same (cl orig)). apply Forall_rev. apply Forall_forall. intros x Hx.
      apply in_map_iff in Hx. destruct Hx as (g & <- & _). reflexivity.
    + intros x Hne _ Hc. exfalso.
      assert (Hin : In (last (rev (map (fun g => with_cp g orig) data)) dflt) (rev (map (fun g => with_cp g orig) data))) by (apply last_in; exact Hne).
      apply in_rev in Hin. apply in_map_iff in Hin. destruct Hin as (g & Eg & _). rewrite <- Eg in Hc. cbn in Hc. congruence.
  - split; cbn [fst snd].
    + destruct (lvl =? LEVEL_CHARACTERS) eqn:El; [unfold merge_out_clusters; rewrite El; exact Ho|].
      destruct (en - st <? 2)%nat eqn:Ek; [unfold merge_out_clusters; rewrite El, Ek; exact Ho|].
      rewrite merge_out_tail; [apply adj_ok_merge_tail; exact Ho | apply N.eqb_neq; exact El | assumption | apply Nat.ltb_ge in Ek; exact Ek].
    + eapply NoCont_conts; [apply conts_merge_out_snd|assumption].
  - split; cbn [fst snd]; [|assumption]. destruct (H0 Hl) as (c & Hc). rewrite mark_syl_mark.
    destruct k as [|k]; [exact Ho|]. replace (S k - 1)%nat with k by lia. apply (adj_ok_mark c); assumption.
  - split; cbn [fst snd]; [|assumption]. destruct H0 as (c & Hc); [rewrite Hl; discriminate|].
    apply (adj_ok_rotate c); assumption.
Qed.
Lemma moves_Adj lvl p q : lvl = HANGUL_MERGE_LEVEL -> moves lvl p q -> Adj p -> Adj q.
Proof. intros Hl. induction 1; intros; [assumption|]. apply IHmoves. eapply move_Adj; eassumption. Qed.

(* the statement in out-buffer order *)
Definition one_cluster_per_syllable (out : list info) : Prop :=
  forall pre x y post, out = pre ++ x :: y :: post -> cont y = true -> cl y = cl x.

Lemma adj_ok_forward l : adj_ok l -> one_cluster_per_syllable (rev l).
Proof.
  intros H pre x y post E Hc.
  assert (E2 : l = rev post ++ y :: x :: rev pre).
  { rewrite <- (rev_involutive l), E, rev_app_distr. cbn [rev]. rewrite <- !app_assoc. reflexivity. }
  subst l. apply adj_ok_app_inv in H. destruct H as (_ & H & _). cbn [adj_ok] in H. destruct H as (H & _). auto.
Qed.

Theorem run_one_cluster has zw nd input out :
  NoCont input -> run has zw HANGUL_MERGE_LEVEL nd input = Some out -> one_cluster_per_syllable out.
Proof.
  unfold run, run_st. intros Hin H. apply bind_some in H. destruct H as (s' & Hs & H). injection H as <-.
  pose (P := fun s : st => Adj (rout s, rest s)).
  destruct (loop_inv has zw HANGUL_MERGE_LEVEL nd P) with (fuel := length input) (s := mkS [] input 0 0) (s' := s') as (HP & _).
  - intros s1 s2 H1 H2. unfold P in *. eapply moves_Adj; [reflexivity|eapply step_moves; exact H2|exact H1].
  - unfold P, Adj. cbn. auto.
  - exact Hs.
  - apply adj_ok_forward. exact (proj1 HP).
Qed.

(* ---------------- G3. non-decreasing input clusters give non-decreasing output clusters (levels 0, 1) *)
Fixpoint up (l : list info) : Prop :=
  match l with a :: t => Forall (fun b => cl a <= cl b) t /\ up t | [] => True end.
Fixpoint down (l : list info) : Prop :=
  match l with a :: t => Forall (fun b => cl b <= cl a) t /\ down t | [] => True end.
Definition Mono (p : pr) : Prop :=
  down (fst p) /\ up (snd p) /\ (forall a b, In a (fst p) -> In b (snd p) -> cl a <= cl b).

Lemma up_cls l : forall l', map cl l' = map cl l -> up l -> up l'.
Proof.
  induction l as [|a l IH]; intros [|a' l'] E H; try discriminate; [exact I|].
  cbn in E. injection E as E1 E2. cbn [up] in *. destruct H as (H1 & H2). split; [|eauto].
  rewrite E1. clear - H1 E2. revert l' E2. induction l as [|b l IH]; intros [|b' l'] E; try discriminate; [constructor|].
  cbn in E. injection E as E3 E4. inversion H1; subst. constructor; [rewrite E3; assumption|auto].
Qed.
Lemma down_cls l : forall l', map cl l' = map cl l -> down l -> down l'.
Proof.
  induction l as [|a l IH]; intros [|a' l'] E H; try discriminate; [exact I|].
  cbn in E. injection E as E1 E2. cbn [down] in *. destruct H as (H1 & H2). split; [|eauto].
  rewrite E1. clear - H1 E2. revert l' E2. induction l as [|b l IH]; intros [|b' l'] E; try discriminate; [constructor|].
  cbn in E. injection E as E3 E4. inversion H1; subst. constructor; [rewrite E3; assumption|auto].
Qed.
Lemma in_cls l l' x : map cl l' = map cl l -> In x l' -> exists y, In y l /\ cl y = cl x.
Proof.
  intros E Hx. assert (Hc : In (cl x) (map cl l)) by (rewrite <- E; apply in_map; exact Hx).
  apply in_map_iff in Hc. destruct Hc as (y & Hy & Hin). eauto.
Qed.
Lemma Mono_cls ro re ro' re' : map cl ro' = map cl ro -> map cl re' = map cl re -> Mono (ro, re) -> Mono (ro', re').
Proof.
  intros E1 E2 (D & U & X). cbn [fst snd] in *. repeat split; cbn [fst snd].
  - eapply down_cls; eassumption.
  - eapply up_cls; eassumption.
  - intros a b Ha Hb. destruct (in_cls _ _ _ E1 Ha) as (a0 & Ha0 & <-). destruct (in_cls _ _ _ E2 Hb) as (b0 & Hb0 & <-). auto.
Qed.

Lemma up_tail a l : up (a :: l) -> up l.
Proof. cbn. tauto. Qed.
Lemma up_skipn n : forall l, up l -> up (skipn n l).
Proof. induction n; intros [|a l] H; cbn [skipn]; auto. apply IHn. exact (up_tail _ _ H). Qed.
Lemma in_skipn {A} n (l : list A) x : In x (skipn n l) -> In x l.
Proof. intros H. rewrite <- (firstn_skipn n l). apply in_or_app. right. exact H. Qed.
Lemma in_firstn {A} n (l : list A) x : In x (firstn n l) -> In x l.
Proof. intros H. rewrite <- (firstn_skipn n l). apply in_or_app. left. exact H. Qed.
Lemma up_app_inv A : forall B, up (A ++ B) -> up A /\ up B /\ (forall a b, In a A -> In b B -> cl a <= cl b).
Proof.
  induction A as [|x A IH]; intros B H; [cbn in *; repeat split; [exact H|intros ? ? []]|].
  cbn [app up] in H. destruct H as (H1 & H2). destruct (IH B H2) as (Ha & Hb & Hx).
  apply Forall_app in H1. destruct H1 as (H1a & H1b).
  repeat split; [exact H1a|exact Ha|exact Hb|]. intros a b [<-|Ha'] Hb'; [|auto].
  rewrite Forall_forall in H1b. auto.
Qed.
Lemma down_app_inv A : forall B, down (A ++ B) -> down A /\ down B /\ (forall a b, In a A -> In b B -> cl b <= cl a).
Proof.
  induction A as [|x A IH]; intros B H; [cbn in *; repeat split; [exact H|intros ? ? []]|].
  cbn [app down] in H. destruct H as (H1 & H2). destruct (IH B H2) as (Ha & Hb & Hx).
  apply Forall_app in H1. destruct H1 as (H1a & H1b).
  repeat split; [exact H1a|exact Ha|exact Hb|]. intros a b [<-|Ha'] Hb'; [|auto].
  rewrite Forall_forall in H1b. auto.
Qed.
Lemma up_app_const c A : forall B, Forall (fun x => cl x = c) A -> up B -> Forall (fun x => c <= cl x) B -> up (A ++ B).
Proof.
  induction A as [|a A IH]; intros B HA HB HC; [exact HB|]. inversion HA; subst.
  cbn [app up]. split; [|apply IH; assumption]. apply Forall_app. split.
  - eapply Forall_impl; [|exact H2]. cbn. intros x ->. lia.
  - exact HC.
Qed.
Lemma down_app_const c A : forall B, Forall (fun x => cl x = c) A -> down B -> Forall (fun x => cl x <= c) B -> down (A ++ B).
Proof.
  induction A as [|a A IH]; intros B HA HB HC; [exact HB|]. inversion HA; subst.
  cbn [app down]. split; [|apply IH; assumption]. apply Forall_app. split.
  - eapply Forall_impl; [|exact H2]. cbn. intros x ->. lia.
  - exact HC.
Qed.
Lemma Forall_map_set_cluster c l : Forall (fun x => cl x = c) (map (set_cluster c) l).
Proof. apply Forall_forall. intros x Hx. apply in_map_iff in Hx. destruct Hx as (y & <- & _). apply cl_set_cluster. Qed.

Lemma up_set_while k c l : up l -> Forall (fun x => k <= cl x) l -> c <= k ->
  up (set_while k c l) /\ Forall (fun x => c <= cl x) (set_while k c l).
Proof.
  intros U F Hc. induction l as [|x l IH]; [split; constructor|].
  inversion F; subst. cbn [set_while]. destruct (cl x =? k) eqn:E.
  - destruct (IH (up_tail _ _ U) H2) as (IH1 & IH2). split.
    + cbn [up]. split; [|exact IH1]. rewrite cl_set_cluster. exact IH2.
    + constructor; [rewrite cl_set_cluster; lia|exact IH2].
  - split; [exact U|]. eapply Forall_impl; [|exact F]. cbn. intros. lia.
Qed.
Lemma min_cl_ge l : forall d, Forall (fun x => d <= cl x) l -> min_cl d l = d.
Proof.
  unfold min_cl. induction l as [|x l IH]; intros d F; [reflexivity|]. inversion F; subst. cbn [fold_left].
  replace (N.min d (cl x)) with d by lia. apply IH. assumption.
Qed.
Lemma min_cl_down l : forall d, down l -> l <> [] -> min_cl d l = N.min d (cl (last l dflt)).
Proof.
  unfold min_cl. induction l as [|x l IH]; intros d D Hne; [congruence|]. cbn [fold_left].
  destruct l as [|y l0]; [reflexivity|]. cbn [down] in D. destruct D as (D1 & D2).
  rewrite IH; [|exact D2|discriminate].
  change (last (x :: y :: l0) dflt) with (last (y :: l0) dflt).
  assert (Hl : cl (last (y :: l0) dflt) <= cl x).
  { rewrite Forall_forall in D1. apply D1. apply last_in. discriminate. }
  lia.
Qed.

Lemma Mono_merge_clusters lvl n ro re : lvl <> LEVEL_CHARACTERS -> Mono (ro, re) -> Mono (merge_clusters lvl n ro re).
Proof.
  intros Hl (D & U & X). cbn [fst snd] in *. unfold merge_clusters. destruct (n <? 2)%nat eqn:En; [repeat split; assumption|].
  apply Nat.ltb_ge in En.
  assert (Hseg : firstn n re <> [] \/ re = []) by (destruct re; [right; reflexivity|left; destruct n; [lia|cbn; discriminate]]).
  destruct re as [|f t]; [repeat split; assumption|].
  apply N.eqb_neq in Hl. rewrite Hl.
  set (seg := firstn n (f :: t)). set (after := skipn n (f :: t)).
  assert (Hall : Forall (fun x => cl f <= cl x) (f :: t)) by (constructor; [lia|exact (proj1 U)]).
  assert (Hc : min_cl (cl f) seg = cl f) by (apply min_cl_ge, Forall_firstn, Hall).
  rewrite Hc. rewrite N.eqb_refl. cbn [negb].
  assert (Hsplit : up (seg ++ after)) by (unfold seg, after; rewrite firstn_skipn; exact U).
  apply up_app_inv in Hsplit. destruct Hsplit as (_ & Ua & Xsa).
  assert (Fa : Forall (fun x => cl f <= cl x) after) by (apply Forall_skipn, Hall).
  set (after' := if negb (cl f =? cl (last seg f)) then set_while (cl (last seg f)) (cl f) after else after).
  assert (Ha' : up after' /\ Forall (fun x => cl f <= cl x) after').
  { subst after'. destruct (negb _); [|split; assumption].
    apply up_set_while; [exact Ua| |].
    - apply Forall_forall. intros b Hb. apply Xsa; [|exact Hb]. apply last_in. destruct Hseg as [Hs|Hs]; [exact Hs|discriminate].
    - assert (Hin : In (last seg f) (f :: t)).
      { apply (in_firstn n). apply last_in. destruct Hseg as [Hs|Hs]; [exact Hs|discriminate]. }
      rewrite Forall_forall in Hall. apply Hall. exact Hin. }
  destruct Ha' as (Ua' & Fa').
  repeat split; cbn [fst snd].
  - exact D.
  - apply (up_app_const (cl f)); [apply Forall_map_set_cluster|exact Ua'|exact Fa'].
  - intros a b Ha Hb. assert (H1 : cl a <= cl f) by (apply X; [exact Ha|left; reflexivity]).
    apply in_app_or in Hb. destruct Hb as [Hb|Hb].
    + apply in_map_iff in Hb. destruct Hb as (y & <- & _). rewrite cl_set_cluster. exact H1.
    + rewrite Forall_forall in Fa'. specialize (Fa' b Hb). lia.
Qed.

Lemma Mono_merge_tail k ro re : Mono (ro, re) -> Mono (merge_tail k ro re).
Proof.
  intros (D & U & X). cbn [fst snd] in *. unfold merge_tail.
  destruct (firstn k ro) as [|e seg] eqn:E; [repeat split; assumption|].
  assert (Hro : ro = (e :: seg) ++ skipn k ro) by (rewrite <- E; symmetry; apply firstn_skipn).
  rewrite Hro in D. apply down_app_inv in D. destruct D as (Ds & Do & Xso).
  change (match seg with [] => e | _ :: _ => last seg e end) with (last (e :: seg) e).
  rewrite (last_dflt_irrel (e :: seg) e dflt) by discriminate.
  assert (Hlast_in : In (last (e :: seg) dflt) (e :: seg)) by (apply last_in; discriminate).
  assert (Hle : cl (last (e :: seg) dflt) <= cl e).
  { destruct Hlast_in as [<-|Hin]; [lia|]. cbn [down] in Ds. destruct Ds as (Ds1 & _). rewrite Forall_forall in Ds1. auto. }
  rewrite (min_cl_down (e :: seg) (cl e) Ds) by discriminate.
  replace (N.min (cl e) (cl (last (e :: seg) dflt))) with (cl (last (e :: seg) dflt)) by lia.
  set (c := cl (last (e :: seg) dflt)) in *. rewrite set_while_same.
  assert (He_in : In e ro) by (apply (in_firstn k); rewrite E; left; reflexivity).
  destruct (up_set_while (cl e) c re U) as (U' & F'); [apply Forall_forall; intros b Hb; apply X; assumption|exact Hle|].
  split; [|split]; cbn [fst snd].
  - apply (down_app_const c); [apply Forall_map_set_cluster|exact Do|].
    apply Forall_forall. intros b Hb. apply Xso; assumption.
  - exact U'.
  - intros a b Ha Hb. rewrite Forall_forall in F'. specialize (F' b Hb).
    apply in_app_or in Ha. destruct Ha as [Ha|Ha].
    + apply in_map_iff in Ha. destruct Ha as (y & <- & _). rewrite cl_set_cluster. exact F'.
    + specialize (Xso _ _ Hlast_in Ha). fold c in Xso. lia.
Qed.

Lemma cls_rotate_same c k ro : Forall (fun x => cl x = c) (firstn (S k) ro) -> map cl (rotate_tone k ro) = map cl ro.
Proof.
  destruct ro as [|t l]; [reflexivity|]. change (firstn (S k) (t :: l)) with (t :: firstn k l). intros F. inversion F; subst.
  cbn [rotate_tone]. rewrite map_app, cls_mark_syl, map_app. cbn [map set_cont cl].
  rewrite <- (firstn_skipn k l) at 3. rewrite map_app.
  assert (E : forall A, Forall (fun x => cl x = cl t) A -> map cl A ++ [cl t] = cl t :: map cl A).
  { induction A as [|a A IH]; intros FA; [reflexivity|]. inversion FA; subst. cbn [map app]. rewrite IH by assumption. congruence. }
  rewrite <- app_assoc. rewrite (app_assoc (map cl (firstn k l)) [cl t]), E by assumption. reflexivity.
Qed.

Lemma move_Mono lvl p q : lvl <> LEVEL_CHARACTERS -> move lvl p q -> Mono p -> Mono q.
Proof.
  intros Hl M HM. destruct M.
  - eapply Mono_cls; [apply cl_of_cc| apply cl_of_cc|]; eassumption.
  - destruct HM as (D & U & X). cbn [fst snd] in *. split; [|split]; cbn [fst snd].
    + cbn [down]. split; [|exact D]. apply Forall_forall. intros b Hb. rewrite H. apply X; [exact Hb|left; reflexivity].
    + exact (up_tail _ _ U).
    + intros a b [<-|Ha] Hb; [rewrite H; cbn [up] in U; destruct U as (U1 & _); rewrite Forall_forall in U1; auto|].
      apply X; [exact Ha|right; exact Hb].
  - apply Mono_merge_clusters; assumption.
  - destruct HM as (D & U & X). cbn [fst snd] in *.
    assert (Hcop : Forall (fun x => cl x = cl orig) (rev (map (fun g => with_cp g orig) data))).
    { apply Forall_rev. apply Forall_forall. intros x Hx. apply in_map_iff in Hx. destruct Hx as (g & <- & _). reflexivity. }
    split; [|split]; cbn [fst snd].
    + apply (down_app_const (cl orig)); [exact Hcop|exact D|]. apply Forall_forall. intros b Hb. apply X; [exact Hb|left; reflexivity].
    + apply up_skipn. exact U.
    + intros a b Ha Hb. apply in_skipn in Hb.
      assert (Hb' : cl orig <= cl b).
      { destruct Hb as [<-|Hb]; [lia|]. cbn [up] in U. destruct U as (U1 & _). rewrite Forall_forall in U1. auto. }
      apply in_app_or in Ha. destruct Ha as [Ha|Ha].
      * rewrite Forall_forall in Hcop. rewrite (Hcop a Ha). exact Hb'.
      * assert (cl a <= cl orig) by (apply X; [exact Ha|left; reflexivity]). lia.
  - destruct (en - st <? 2)%nat eqn:Ek.
    + unfold merge_out_clusters. apply N.eqb_neq in Hl. rewrite Hl, Ek. exact HM.
    + rewrite merge_out_tail; [apply Mono_merge_tail; exact HM | exact Hl | assumption | apply Nat.ltb_ge in Ek; exact Ek].
  - eapply Mono_cls; [apply cls_mark_syl|reflexivity|exact HM].
  - destruct (H0 Hl) as (c & Hc). eapply Mono_cls; [apply (cls_rotate_same c); exact Hc|reflexivity|exact HM].
Qed.
Lemma moves_Mono lvl p q : lvl <> LEVEL_CHARACTERS -> moves lvl p q -> Mono p -> Mono q.
Proof. intros Hl. induction 1; intros; [assumption|]. apply IHmoves. eapply move_Mono; eassumption. Qed.

Lemma down_rev_up l : down l -> up (rev l).
Proof.
  induction l as [|a l IH]; intros D; [exact I|]. cbn [down] in D. destruct D as (D1 & D2). cbn [rev].
  assert (G : forall A, up A -> Forall (fun b => cl b <= cl a) A -> up (A ++ [a])).
  { induction A as [|x A IHA]; intros UA FA; [cbn; split; constructor|].
    inversion FA; subst. cbn [app up] in *. destruct UA as (U1 & U2). split; [|auto].
    apply Forall_app. split; [exact U1|]. constructor; [assumption|constructor]. }
  apply G; [apply IH; exact D2|]. apply Forall_rev. exact D1.
Qed.

Theorem run_monotone has zw lvl nd input out :
  lvl <> LEVEL_CHARACTERS -> up input -> run has zw lvl nd input = Some out -> up out.
Proof.
  unfold run, run_st. intros Hl Hin H. apply bind_some in H. destruct H as (s' & Hs & H). injection H as <-.
  pose (P := fun s : st => Mono (rout s, rest s)).
  destruct (loop_inv has zw lvl nd P) with (fuel := length input) (s := mkS [] input 0 0) (s' := s') as (HP & _).
  - intros s1 s2 H1 H2. unfold P in *. eapply moves_Mono; [exact Hl|eapply step_moves; exact H2|exact H1].
  - unfold P, Mono. cbn. repeat split; [exact Hin|intros ? ? []].
  - exact Hs.
  - apply down_rev_up. exact (proj1 HP).
Qed.

(* ================================================================== H. corollaries in the wording of the property *)

Lemma arith_all l v t : l < L_COUNT -> v < V_COUNT -> t < T_COUNT ->
  let s := compose_s (L_BASE + l) (V_BASE + v) t in
  (s = 44032 + (l * 21 + v) * 28 + t /\ is_combined_s s = true /\
   lindex_of s = l /\ vindex_of s = v /\ tindex_of s = t) /\
  (u_compose_hangul (L_BASE + l) (V_BASE + v) = Some (s - t) /\
   (0 < t -> u_compose_hangul (s - t) (T_BASE + t) = Some s) /\
   u_decompose_hangul s = Some (if t =? 0 then (L_BASE + l, V_BASE + v) else (s - t, T_BASE + t))).
Proof. intros Hl Hv Ht. split; [apply arith_shaper|apply arith_unicode]; assumption. Qed.

Section Corollaries.
Variables (has zw : N -> bool) (lvl : N) (nd : bool).
Notation STEP := (step has zw lvl nd).

(* combining jamo whose syllable the font lacks stay, tagged *)
Lemma unsupported_LVT ro L V T suf st en :
  is_combining_l (cp L) = true -> is_combining_v (cp V) = true -> is_combining_t (cp T) = true ->
  has (compose_s (cp L) (cp V) (cp T - T_BASE)) = false -> lvl = HANGUL_MERGE_LEVEL ->
  let c := N.min (N.min (cl L) (cl V)) (cl T) in
  exists s', STEP (mkS ro (L :: V :: T :: suf) st en) = Some s' /\
    map erase (rout s') = mkI (cp T) c TJMO false true :: mkI (cp V) c VJMO false true
                          :: mkI (cp L) c LJMO false (cont L) :: map erase (set_while (cl L) c ro) /\
    rest s' = set_while (cl T) c suf /\ sstart s' = length ro /\ send s' = (length ro + 3)%nat.
Proof.
  intros HL HV HT Hh Hl. apply tagged_LVT_graphemes; try assumption.
  - apply combining_l_facts; assumption.
  - apply combining_v_facts; assumption.
  - apply combining_t_facts; assumption.
  - rewrite Hh. apply andb_false_r.
Qed.
Lemma unsupported_LV ro L V suf st en :
  is_combining_l (cp L) = true -> is_combining_v (cp V) = true -> no_t suf ->
  has (compose_s (cp L) (cp V) 0) = false -> lvl = HANGUL_MERGE_LEVEL ->
  let c := N.min (cl L) (cl V) in
  exists s', STEP (mkS ro (L :: V :: suf) st en) = Some s' /\
    map erase (rout s') = mkI (cp V) c VJMO false true :: mkI (cp L) c LJMO false (cont L)
                          :: map erase (set_while (cl L) c ro) /\
    rest s' = set_while (cl V) c suf /\ sstart s' = length ro /\ send s' = (length ro + 2)%nat.
Proof.
  intros HL HV Hs Hh Hl. apply tagged_LV_graphemes; try assumption.
  - apply combining_l_facts; assumption.
  - apply combining_v_facts; assumption.
  - rewrite Hh. apply andb_false_r.
Qed.
(* old Hangul: some jamo outside the modern combining ranges: never composed, whatever the font has *)
Lemma old_hangul_LVT ro L V T suf st en :
  is_l (cp L) = true -> is_v (cp V) = true -> is_t (cp T) = true ->
  is_combining_l (cp L) && is_combining_v (cp V) && is_combining_t (cp T) = false ->
  exists s', STEP (mkS ro (L :: V :: T :: suf) st en) = Some s' /\
    map cp (rout s') = cp T :: cp V :: cp L :: map cp ro /\
    map feat (firstn 3 (rout s')) = [TJMO; VJMO; LJMO] /\ send s' = (length ro + 3)%nat.
Proof.
  intros HL HV HT Hold.
  assert (Hnc : is_combining_l (cp L) && is_combining_v (cp V) && is_combining_t (cp T)
                && has (compose_s (cp L) (cp V) (cp T - T_BASE)) = false) by (rewrite Hold; reflexivity).
  assert (Hfe : forall l, map feat (map erase l) = map feat l) by (intros; rewrite map_map; reflexivity).
  destruct (lvl =? HANGUL_MERGE_LEVEL) eqn:El.
  - apply N.eqb_eq in El. destruct (tagged_LVT_graphemes has zw lvl nd ro L V T suf st en HL HV HT Hnc El) as (s' & Hs & Hr & _ & _ & He).
    exists s'. split; [exact Hs|]. repeat split; [| |exact He].
    + rewrite <- (cp_erase (rout s')), Hr. cbn [map cp]. rewrite cp_erase, cps_set_while. reflexivity.
    + rewrite <- Hfe, <- firstn_map, Hr. reflexivity.
  - apply N.eqb_neq in El. destruct (tagged_LVT_characters has zw lvl nd ro L V T suf st en HL HV HT Hnc El) as (s' & Hs & Hr & _ & _ & He).
    exists s'. split; [exact Hs|]. repeat split; [| |exact He].
    + rewrite <- (cp_erase (rout s')), Hr. cbn [map cp]. rewrite cp_erase. reflexivity.
    + rewrite <- Hfe, <- firstn_map, Hr. reflexivity.
Qed.
End Corollaries.

(* the named old-Hangul blocks of the property are such jamo *)
Lemma old_blocks l v t :
  ((4371 <= l <= 4447) \/ (43360 <= l <= 43388)) \/ ((4470 <= v <= 4519) \/ v = 4448 \/ (55216 <= v <= 55238))
  \/ ((4547 <= t <= 4607) \/ (55243 <= t <= 55291)) ->
  is_combining_l l && is_combining_v v && is_combining_t t = false.
Proof. unf_preds. lia. Qed.

(* ---------------- finding: <LV,T> whose LV the font lacks: T is neither tagged nor merged *)
Definition jamo_only_font (c : N) : bool := negb (is_combined_s c).
Lemma lv_t_unsupported_lv_witness :
  run jamo_only_font (fun _ => false) HANGUL_MERGE_LEVEL false (mk_input [(44032, 0); (4520, 1)])
  = Some [mkI 4352 0 LJMO false false; mkI 4449 0 VJMO false true; mkI 4520 1 0 true false].
Proof. vm_compute. reflexivity. Qed.
(* the same text when the font has LV (but not LVT): the three jamo are one tagged syllable *)
Definition no_lvt_font (c : N) : bool := negb (is_combined_s c) || (tindex_of c =? 0).
Lemma lv_t_supported_lv_witness :
  run no_lvt_font (fun _ => false) HANGUL_MERGE_LEVEL false (mk_input [(44032, 0); (4520, 1)])
  = Some [mkI 4352 0 LJMO false false; mkI 4449 0 VJMO false true; mkI 4520 0 TJMO false true].
Proof. vm_compute. reflexivity. Qed.

Lemma old_are_jamo u :
  ((4371 <= u <= 4447 \/ 43360 <= u <= 43388) -> is_l u = true) /\
  ((4470 <= u <= 4519 \/ u = 4448 \/ 55216 <= u <= 55238) -> is_v u = true) /\
  ((4547 <= u <= 4607 \/ 55243 <= u <= 55291) -> is_t u = true).
Proof. unf_preds. lia. Qed.

Lemma constants_ok :
  (S_BASE, L_BASE, V_BASE, T_BASE, L_COUNT, V_COUNT, T_COUNT) = (44032, 4352, 4449, 4519, 19, 21, 28) /\
  (U_S_BASE, U_L_BASE, U_V_BASE, U_T_BASE, U_L_COUNT, U_V_COUNT, U_T_COUNT) = (44032, 4352, 4449, 4519, 19, 21, 28) /\
  (LJMO, VJMO, TJMO) = (1, 2, 3) /\ hangul_mask_tags_ok = true /\
  HANGUL_MERGE_LEVEL = LEVEL_MONOTONE_GRAPHEMES /\ DOTTED_CIRCLE = 9676.
Proof. repeat split. Qed.
