(* Proofs/IgnorableP.v — lemmas for property C13 (default ignorables). *)
From Coq Require Import List NArith ZArith Bool Lia ZifyBool ZifyN Sorted.
From RB Require Import Gen.Ignorable Model.Ignorable.
Import ListNotations.
Local Open Scope N_scope.
Arguments N.add : simpl never.
Arguments N.eqb : simpl never.
Arguments N.ltb : simpl never.
Arguments N.leb : simpl never.
Arguments N.land : simpl never.
Arguments N.lor : simpl never.
Arguments N.ldiff : simpl never.
Arguments N.min : simpl never.

(* ------------------------------------------------------------------------------------------- *)
(* set_cluster / set_run / merge_fwd touch cluster and mask only                                 *)

Lemma set_cluster_upd g c m : exists m', set_cluster g c m = upd g c m'.
Proof. unfold set_cluster. destruct (cluster g =? c); eauto. Qed.

Lemma cluster_set_cluster g c m : cluster (set_cluster g c m) = c.
Proof. destruct (set_cluster_upd g c m) as [m' ->]. reflexivity. Qed.

Lemma frame_set_cluster g c m p : frame (set_cluster g c m, p) = frame (g, p).
Proof. destruct (set_cluster_upd g c m) as [m' ->]. reflexivity. Qed.

Lemma respects_set_cluster f : respects f -> forall g c m, f (set_cluster g c m) = f g.
Proof. intros Hf g c m. destruct (set_cluster_upd g c m) as [m' ->]. apply Hf. Qed.

Definition keepf (f : glyph -> bool) (s : slot) : bool := negb (f (fst s)).

Lemma filter_keepf_cons f g p t :
  filter (keepf f) ((g, p) :: t) = if f g then filter (keepf f) t else (g, p) :: filter (keepf f) t.
Proof. cbn [filter]. unfold keepf at 1. cbn [fst]. destruct (f g); reflexivity. Qed.

Lemma set_run_length old c m l : length (set_run old c m l) = length l.
Proof.
  induction l as [|[g p] t IH]; cbn [set_run]; [reflexivity|].
  destruct (cluster g =? old); cbn [length]; congruence.
Qed.

Lemma set_run_frame old c m l : map frame (set_run old c m l) = map frame l.
Proof.
  induction l as [|[g p] t IH]; cbn [set_run]; [reflexivity|].
  destruct (cluster g =? old); [|reflexivity].
  cbn [map]. rewrite frame_set_cluster, IH. reflexivity.
Qed.

Lemma set_run_filter_frame f old c m l : respects f ->
  map frame (filter (keepf f) (set_run old c m l)) = map frame (filter (keepf f) l).
Proof.
  intros Hf. induction l as [|[g p] t IH]; cbn [set_run]; [reflexivity|].
  destruct (cluster g =? old); [|reflexivity].
  rewrite !filter_keepf_cons. rewrite (respects_set_cluster f Hf).
  destruct (f g); cbn [map]; [exact IH|].
  rewrite frame_set_cluster, IH. reflexivity.
Qed.

Lemma set_run_clusters_incl old c m l : incl (clusters (set_run old c m l)) (c :: clusters l).
Proof.
  induction l as [|[g p] t IH]; cbn [set_run].
  - intros x [].
  - destruct (cluster g =? old).
    + unfold clusters. cbn [map fst]. rewrite cluster_set_cluster.
      intros x [<-|Hx]; [left; reflexivity|].
      apply IH in Hx. destruct Hx as [<-|Hx]; [left; reflexivity|right; right; exact Hx].
    + intros x Hx. right. exact Hx.
Qed.

Lemma merge_fwd_length level g rest : length (merge_fwd level g rest) = length rest.
Proof.
  unfold merge_fwd. destruct rest as [|[n p] t]; [reflexivity|].
  destruct (level =? CLUSTER_LEVEL_CHARACTERS).
  - destruct (cluster n =? N.min (cluster g) (cluster n)); reflexivity.
  - destruct (cluster g <? cluster n); [apply set_run_length|reflexivity].
Qed.

Lemma merge_fwd_filter_frame f level g rest : respects f ->
  map frame (filter (keepf f) (merge_fwd level g rest)) = map frame (filter (keepf f) rest).
Proof.
  intros Hf. unfold merge_fwd. destruct rest as [|[n p] t]; [reflexivity|].
  destruct (level =? CLUSTER_LEVEL_CHARACTERS).
  - destruct (cluster n =? N.min (cluster g) (cluster n)); [reflexivity|].
    rewrite !filter_keepf_cons. rewrite Hf.
    destruct (f n); cbn [map]; reflexivity.
  - destruct (cluster g <? cluster n); [apply set_run_filter_frame; exact Hf|reflexivity].
Qed.

Lemma merge_fwd_clusters_incl level g rest :
  incl (clusters (merge_fwd level g rest)) (cluster g :: clusters rest).
Proof.
  unfold merge_fwd. destruct rest as [|[n p] t]; [intros x []|].
  destruct (level =? CLUSTER_LEVEL_CHARACTERS).
  - destruct (cluster n =? N.min (cluster g) (cluster n)); intros x Hx; right; exact Hx.
  - destruct (cluster g <? cluster n); [apply set_run_clusters_incl|intros x Hx; right; exact Hx].
Qed.

(* ------------------------------------------------------------------------------------------- *)
(* C13_delete_frame: the surviving glyphs are exactly the non-filtered ones, in order, with id,
   props and position untouched                                                                  *)

Lemma del_loop_frame f level : respects f -> forall fuel out_rev l, (length l <= fuel)%nat ->
  map frame (del_loop f level fuel out_rev l) = rev (map frame out_rev) ++ map frame (filter (keepf f) l).
Proof.
  intros Hf. induction fuel as [|k IH]; intros out_rev l Hl.
  - destruct l; [|cbn in Hl; lia]. cbn [del_loop filter map]. rewrite app_nil_r, map_rev. reflexivity.
  - destruct l as [|[g p] rest]; cbn [del_loop].
    + cbn [filter map]. rewrite app_nil_r, map_rev. reflexivity.
    + cbn [length] in Hl. rewrite filter_keepf_cons.
      destruct (f g) eqn:Hfg.
      * destruct (same_cluster_next g rest).
        { apply IH. lia. }
        destruct out_rev as [|[o q] out'].
        { rewrite IH by (rewrite merge_fwd_length; lia).
          rewrite merge_fwd_filter_frame by exact Hf. reflexivity. }
        destruct (cluster g <? cluster o).
        { rewrite IH by lia. rewrite set_run_frame. reflexivity. }
        apply IH. lia.
      * rewrite IH by lia. cbn [map rev]. rewrite <- app_assoc. reflexivity.
Qed.

Lemma delete_frame f level l : respects f ->
  map frame (delete_glyphs_inplace f level l) = map frame (filter (keepf f) l).
Proof. intros Hf. unfold delete_glyphs_inplace. rewrite del_loop_frame by (exact Hf || lia). reflexivity. Qed.

(* every surviving cluster value is a cluster value of the input *)
Lemma del_loop_clusters f level : forall fuel out_rev l S,
  incl (clusters out_rev) S -> incl (clusters l) S -> incl (clusters (del_loop f level fuel out_rev l)) S.
Proof.
  assert (Hrev : forall o S, incl (clusters o) S -> incl (clusters (rev o)) S).
  { intros o S H x Hx. apply H. unfold clusters in *. rewrite map_rev in Hx. apply in_rev. exact Hx. }
  induction fuel as [|k IH]; intros out_rev l S Ho Hl; cbn [del_loop]; [apply Hrev; exact Ho|].
  destruct l as [|[g p] rest]; [apply Hrev; exact Ho|].
  assert (Hg : In (cluster g) S) by (apply Hl; left; reflexivity).
  assert (Hr : incl (clusters rest) S) by (intros x Hx; apply Hl; right; exact Hx).
  destruct (f g).
  - destruct (same_cluster_next g rest); [apply IH; assumption|].
    destruct out_rev as [|[o q] out'].
    + apply IH; [exact Ho|]. intros x Hx. apply merge_fwd_clusters_incl in Hx.
      destruct Hx as [<-|Hx]; [exact Hg|apply Hr; exact Hx].
    + destruct (cluster g <? cluster o); [|apply IH; assumption].
      apply IH; [|exact Hr]. intros x Hx. apply set_run_clusters_incl in Hx.
      destruct Hx as [<-|Hx]; [exact Hg|apply Ho; exact Hx].
  - apply IH; [|exact Hr]. intros x [<-|Hx]; [exact Hg|apply Ho; exact Hx].
Qed.

Lemma delete_clusters f level l :
  incl (clusters (delete_glyphs_inplace f level l)) (clusters l).
Proof. apply del_loop_clusters; [intros x []|apply incl_refl]. Qed.

(* nothing filtered: nothing changes (clusters and masks included) *)
Lemma del_loop_none f level : forall fuel out_rev l, (length l <= fuel)%nat ->
  Forall (fun s => f (fst s) = false) l -> del_loop f level fuel out_rev l = rev out_rev ++ l.
Proof.
  induction fuel as [|k IH]; intros out_rev l Hl Hn.
  - destruct l; [|cbn in Hl; lia]. cbn. rewrite app_nil_r. reflexivity.
  - destruct l as [|[g p] rest]; cbn [del_loop]; [rewrite app_nil_r; reflexivity|].
    inversion Hn as [|? ? Hg Hr]; subst. cbn [fst] in Hg. rewrite Hg.
    cbn [length] in Hl. rewrite (IH ((g, p) :: out_rev) rest ltac:(lia) Hr). cbn [rev]. rewrite <- app_assoc. reflexivity.
Qed.

Lemma delete_none f level (l : list slot) :
  Forall (fun s => f (fst s) = false) l -> delete_glyphs_inplace f level l = l.
Proof. intros H. exact (del_loop_none f level (length l) [] l (le_n _) H). Qed.

(* ------------------------------------------------------------------------------------------- *)
(* Clusters, monotone non-decreasing input (left-to-right), levels 0/1: the first surviving glyph
   carries the first (= minimum) cluster value of the input                                      *)

Lemma clusters_cons g p (l : list slot) : clusters ((g, p) :: l) = cluster g :: clusters l.
Proof. reflexivity. Qed.

Lemma set_run_sorted old c m (l : list slot) :
  StronglySorted N.le (clusters l) -> Forall (N.le c) (clusters l) ->
  StronglySorted N.le (clusters (set_run old c m l)).
Proof.
  induction l as [|[g p] t IH]; intros Hs Hc; cbn [set_run]; [exact Hs|].
  destruct (cluster g =? old); [|exact Hs].
  rewrite clusters_cons in *. rewrite cluster_set_cluster.
  inversion Hs as [|? ? Hs' Hall]; subst. inversion Hc as [|? ? Hcg Hct]; subst.
  constructor; [apply IH; assumption|].
  rewrite Forall_forall. intros x Hx. apply set_run_clusters_incl in Hx.
  destruct Hx as [<-|Hx]; [apply N.le_refl|]. rewrite Forall_forall in Hct. apply Hct. exact Hx.
Qed.

(* with sorted input the backward merge never fires: the output prefix is never touched again *)
Lemma del_loop_sorted_prefix f level : forall fuel out' o q (l : list slot),
  StronglySorted N.le (cluster o :: clusters l) ->
  exists t, del_loop f level fuel ((o, q) :: out') l = rev ((o, q) :: out') ++ t.
Proof.
  induction fuel as [|k IH]; intros out' o q l Hs; cbn [del_loop].
  - exists []. rewrite app_nil_r. reflexivity.
  - destruct l as [|[g p] rest]; [exists []; rewrite app_nil_r; reflexivity|].
    rewrite clusters_cons in Hs.
    inversion Hs as [|? ? Hs' Hall]; subst. inversion Hall as [|? ? Hog Hor]; subst.
    assert (Hs2 : StronglySorted N.le (cluster o :: clusters rest)).
    { inversion Hs' as [|? ? Hs'' ?]; subst. constructor; assumption. }
    destruct (f g).
    + destruct (same_cluster_next g rest); [apply IH; exact Hs2|].
      replace (cluster g <? cluster o) with false by lia. apply IH; exact Hs2.
    + destruct (IH ((o, q) :: out') g p rest Hs') as [t Ht]. rewrite Ht.
      exists ((g, p) :: t). cbn [rev]. rewrite <- !app_assoc. reflexivity.
Qed.

Lemma del_loop_sorted_first f level : level <> CLUSTER_LEVEL_CHARACTERS ->
  forall fuel (l : list slot), (length l <= fuel)%nat -> StronglySorted N.le (clusters l) ->
  forall r0 rs, del_loop f level fuel [] l = r0 :: rs ->
  exists s0 t, l = s0 :: t /\ cluster (fst r0) = cluster (fst s0).
Proof.
  intros Hlev. induction fuel as [|k IH]; intros l Hl Hs r0 rs Hr.
  - cbn in Hr. discriminate.
  - destruct l as [|[g p] rest]; cbn [del_loop] in Hr; [discriminate|].
    cbn [length] in Hl. exists (g, p), rest. split; [reflexivity|]. cbn [fst].
    rewrite clusters_cons in Hs. inversion Hs as [|? ? Hs' Hall]; subst.
    destruct (f g).
    + destruct rest as [|[n q] t'].
      { cbn in Hr. destruct k; discriminate. }
      rewrite clusters_cons in Hall. inversion Hall as [|? ? Hgn Hgt]; subst.
      cbn [same_cluster_next] in Hr. destruct (cluster g =? cluster n) eqn:Heq.
      * assert (Hlen : (length ((n, q) :: t') <= k)%nat) by (cbn [length] in *; lia).
        destruct (IH ((n, q) :: t') Hlen Hs' r0 rs Hr) as [s0 [t [Hl' Hc]]].
        injection Hl' as <- <-. cbn [fst] in Hc. lia.
      * unfold merge_fwd in Hr.
        replace (level =? CLUSTER_LEVEL_CHARACTERS) with false in Hr by lia.
        replace (cluster g <? cluster n) with true in Hr by lia.
        assert (Hs2 : StronglySorted N.le (clusters (set_run (cluster n) (cluster g) 0 ((n, q) :: t')))).
        { apply set_run_sorted; [exact Hs'|]. rewrite clusters_cons. constructor; assumption. }
        assert (Hlen : (length (set_run (cluster n) (cluster g) 0 ((n, q) :: t')) <= k)%nat).
        { rewrite set_run_length. cbn [length] in *. lia. }
        destruct (IH _ Hlen Hs2 r0 rs Hr) as [s0 [t [Hl' Hc]]].
        cbn [set_run] in Hl'. rewrite N.eqb_refl in Hl'. injection Hl' as <- <-.
        cbn [fst] in Hc. rewrite cluster_set_cluster in Hc. exact Hc.
    + destruct (del_loop_sorted_prefix f level k [] g p rest Hs) as [t Ht].
      rewrite Ht in Hr. cbn [rev app] in Hr. injection Hr as <- _. reflexivity.
Qed.

Lemma delete_sorted_first f level (l : list slot) : level <> CLUSTER_LEVEL_CHARACTERS ->
  StronglySorted N.le (clusters l) ->
  forall r0 rs, delete_glyphs_inplace f level l = r0 :: rs ->
  exists s0 t, l = s0 :: t /\ cluster (fst r0) = cluster (fst s0) /\
               Forall (N.le (cluster (fst s0))) (clusters l).
Proof.
  intros Hlev Hs r0 rs Hr.
  destruct (del_loop_sorted_first f level Hlev (length l) l (le_n _) Hs r0 rs Hr) as [s0 [t [-> Hc]]].
  exists s0, t. split; [reflexivity|]. split; [exact Hc|].
  destruct s0 as [g p]. rewrite clusters_cons in *. cbn [fst].
  inversion Hs; subst. constructor; [apply N.le_refl|assumption].
Qed.

(* ------------------------------------------------------------------------------------------- *)
(* Clusters, monotone non-increasing input (after the right-to-left reversal), every level: the
   last surviving glyph carries the last (= minimum) cluster value of the input                  *)

Definition nonincr : list N -> Prop := StronglySorted (fun a b => b <= a).

Lemma last_cons (a : N) l d : last (a :: l) d = last l a.
Proof.
  revert a d. induction l as [|b t IH]; intros a d; [reflexivity|].
  change (last (a :: b :: t) d) with (last (b :: t) d). rewrite (IH b d), (IH b a). reflexivity.
Qed.

Lemma last_default (l : list N) d d' : l <> [] -> last l d = last l d'.
Proof. destruct l as [|a t]; [congruence|]. intros _. rewrite !last_cons. reflexivity. Qed.

Lemma last_rev_cons (a : N) t d : last (rev (a :: t)) d = a.
Proof. cbn [rev]. apply last_last. Qed.

Lemma clusters_rev (l : list slot) : clusters (rev l) = rev (clusters l).
Proof. unfold clusters. apply map_rev. Qed.

Lemma del_loop_rev_last f level : forall fuel out_rev (l : list slot), (length l <= fuel)%nat ->
  StronglySorted N.le (clusters out_rev) -> nonincr (clusters l) ->
  (forall x y, In x (clusters l) -> In y (clusters out_rev) -> x <= y) ->
  del_loop f level fuel out_rev l = [] \/
  forall d, last (clusters (del_loop f level fuel out_rev l)) d = last (clusters l) (hd d (clusters out_rev)).
Proof.
  assert (Hnil : forall out_rev : list slot, rev out_rev = [] \/
            forall d, last (clusters (rev out_rev)) d = last (clusters []) (hd d (clusters out_rev))).
  { intros [|[o q] out']; [left; reflexivity|right]. intros d. rewrite clusters_rev, clusters_cons.
    apply last_rev_cons. }
  induction fuel as [|k IH]; intros out_rev l Hl H1 H2 H3.
  - destruct l; [|cbn in Hl; lia]. apply Hnil.
  - destruct l as [|[g p] rest]; cbn [del_loop]; [apply Hnil|].
    cbn [length] in Hl. rewrite clusters_cons in *.
    inversion H2 as [|? ? H2' Hall]; subst. rewrite Forall_forall in Hall.
    assert (H3r : forall x y, In x (clusters rest) -> In y (clusters out_rev) -> x <= y).
    { intros x y Hx Hy. apply H3; [right; exact Hx|exact Hy]. }
    destruct (f g).
    + destruct rest as [|[n q] t'] eqn:Erest.
      { (* last glyph, deleted *)
        cbn [same_cluster_next]. destruct out_rev as [|[o q] out'].
        - left. cbn. destruct k; reflexivity.
        - assert (Hgo : cluster g <= cluster o) by (apply H3; left; reflexivity).
          destruct (cluster g <? cluster o) eqn:Hlt.
          + right. intros d. cbn [set_run]. rewrite N.eqb_refl.
            destruct k; cbn [del_loop]; rewrite clusters_rev, clusters_cons, last_rev_cons,
              cluster_set_cluster; reflexivity.
          + right. intros d. destruct k; cbn [del_loop]; rewrite clusters_rev, clusters_cons, last_rev_cons;
              cbn [clusters map last hd]; lia. }
      rewrite <- Erest in *. assert (Hne : clusters rest <> []) by (rewrite Erest; discriminate).
      assert (Hgoal : forall out2, (del_loop f level k out2 rest = [] \/
                 forall d, last (clusters (del_loop f level k out2 rest)) d = last (clusters rest) (hd d (clusters out2))) ->
                 del_loop f level k out2 rest = [] \/
                 forall d, last (clusters (del_loop f level k out2 rest)) d = last (cluster g :: clusters rest) (hd d (clusters out_rev))).
      { intros out2 [E|E]; [left; exact E|right]. intros d. rewrite E, last_cons. apply last_default. exact Hne. }
      destruct (same_cluster_next g rest) eqn:Hsame.
      { apply Hgoal. apply IH; [lia|exact H1|exact H2'|exact H3r]. }
      destruct out_rev as [|[o q0] out'].
      * (* nothing output yet: the forward merge leaves a non-increasing input alone *)
        assert (Hm : merge_fwd level g rest = rest).
        { rewrite Erest in *. cbn [same_cluster_next] in Hsame. unfold merge_fwd.
          assert (cluster n <= cluster g) by (apply Hall; rewrite clusters_cons; left; reflexivity).
          destruct (level =? CLUSTER_LEVEL_CHARACTERS).
          - replace (cluster n =? N.min (cluster g) (cluster n)) with true by lia. reflexivity.
          - replace (cluster g <? cluster n) with false by lia. reflexivity. }
        rewrite Hm. apply Hgoal. apply IH; [lia|exact H1|exact H2'|exact H3r].
      * assert (Hgo : cluster g <= cluster o) by (apply H3; left; reflexivity).
        destruct (cluster g <? cluster o) eqn:Hlt.
        { apply Hgoal. apply IH; [lia| |exact H2'|].
          - apply set_run_sorted; [exact H1|]. rewrite Forall_forall. intros y Hy.
            rewrite clusters_cons in *. inversion H1 as [|? ? ? Ho]; subst. rewrite Forall_forall in Ho.
            destruct Hy as [<-|Hy]; [exact Hgo|]. specialize (Ho _ Hy). lia.
          - intros x y Hx Hy. apply set_run_clusters_incl in Hy. destruct Hy as [<-|Hy].
            + apply Hall. exact Hx.
            + apply H3r; assumption. }
        apply Hgoal. apply IH; [lia|exact H1|exact H2'|exact H3r].
    + (* kept *)
      assert (E : del_loop f level k ((g, p) :: out_rev) rest = [] \/
                  forall d, last (clusters (del_loop f level k ((g, p) :: out_rev) rest)) d =
                            last (clusters rest) (hd d (clusters ((g, p) :: out_rev)))).
      { apply IH; [lia| |exact H2'|].
        - rewrite clusters_cons. constructor; [exact H1|]. rewrite Forall_forall. intros y Hy.
          apply H3; [left; reflexivity|exact Hy].
        - intros x y Hx Hy. rewrite clusters_cons in Hy. destruct Hy as [<-|Hy]; [apply Hall; exact Hx|].
          apply H3r; assumption. }
      destruct E as [E|E]; [left; exact E|right]. intros d. rewrite E, last_cons. reflexivity.
Qed.

Lemma delete_rev_last f level (l : list slot) : nonincr (clusters l) ->
  delete_glyphs_inplace f level l <> [] ->
  forall d, last (clusters (delete_glyphs_inplace f level l)) d = last (clusters l) d.
Proof.
  intros Hs Hne. unfold delete_glyphs_inplace in *.
  destruct (del_loop_rev_last f level (length l) [] l (le_n _)) as [E|E].
  - constructor.
  - exact Hs.
  - intros x y _ [].
  - contradiction.
  - exact E.
Qed.

(* ------------------------------------------------------------------------------------------- *)
(* The passes of ot_shape.rs                                                                     *)

Lemma is_ign_respects : respects is_ign.
Proof. intros g c m. reflexivity. Qed.

Lemma is_ign_with_gid g i : is_ign (with_gid g i) = is_ign g.
Proof. reflexivity. Qed.

Lemma passes_preserve e l : preserve e = true -> passes e l = l.
Proof.
  intros Hp. unfold passes, hide_default_ignorables, zero_width_default_ignorables. rewrite Hp.
  destruct (has_di e), (remove e); reflexivity.
Qed.

(* hidden: same length and order, clusters and masks untouched; ignorable glyphs become the
   invisible/space glyph at zero advance and offset, all other glyphs are untouched *)
Lemma passes_hide e l inv : has_di e = true -> preserve e = false -> remove e = false ->
  invisible_glyph e = Some inv ->
  passes e l = map (fun s => if is_ign (fst s) then hidden_as inv s else s) l.
Proof.
  intros Hd Hp Hr Hi. unfold passes, hide_default_ignorables, zero_width_default_ignorables.
  rewrite Hd, Hp, Hr, Hi. cbn [negb andb]. rewrite map_map. apply map_ext. intros [g p].
  unfold hide_one, zero_one, hidden_as. cbn [fst snd]. destruct (is_ign g) eqn:Hg; cbn [fst snd]; rewrite Hg; reflexivity.
Qed.

Lemma filter_keep_zero l : map frame (filter (keepf is_ign) (map zero_one l)) = map frame (filter (keepf is_ign) l).
Proof.
  induction l as [|[g p] t IH]; [reflexivity|]. cbn [map]. unfold zero_one at 1. cbn [fst].
  destruct (is_ign g) eqn:Hg; rewrite !filter_keepf_cons, Hg; [exact IH|]. cbn [map]. rewrite IH. reflexivity.
Qed.

Lemma clusters_zero l : clusters (map zero_one l) = clusters l.
Proof.
  unfold clusters. rewrite map_map. apply map_ext. intros [g p]. unfold zero_one. cbn [fst].
  destruct (is_ign g); reflexivity.
Qed.

(* removed: what the delete case of the passes computes *)
Lemma passes_delete_eq e l : has_di e = true -> preserve e = false ->
  (remove e = true \/ invisible_glyph e = None) ->
  passes e l = delete_glyphs_inplace is_ign (e_level e) l \/
  passes e l = delete_glyphs_inplace is_ign (e_level e) (map zero_one l).
Proof.
  intros Hd Hp Hc. unfold passes, hide_default_ignorables, zero_width_default_ignorables. rewrite Hd, Hp.
  destruct (remove e) eqn:Hr; cbn [negb andb].
  - left. reflexivity.
  - destruct Hc as [Hc|Hc]; [discriminate|]. rewrite Hc. right. reflexivity.
Qed.

Lemma passes_delete_frame e l : has_di e = true -> preserve e = false ->
  (remove e = true \/ invisible_glyph e = None) ->
  map frame (passes e l) = map frame (filter (keepf is_ign) l).
Proof.
  intros Hd Hp Hc. destruct (passes_delete_eq e l Hd Hp Hc) as [-> | ->].
  - apply delete_frame, is_ign_respects.
  - rewrite delete_frame by apply is_ign_respects. apply filter_keep_zero.
Qed.

Lemma passes_delete_clusters e l : has_di e = true -> preserve e = false ->
  (remove e = true \/ invisible_glyph e = None) ->
  incl (clusters (passes e l)) (clusters l).
Proof.
  intros Hd Hp Hc. destruct (passes_delete_eq e l Hd Hp Hc) as [-> | ->].
  - apply delete_clusters.
  - rewrite <- (clusters_zero l). apply delete_clusters.
Qed.

Lemma passes_delete_first e l : has_di e = true -> preserve e = false ->
  (remove e = true \/ invisible_glyph e = None) ->
  e_level e <> CLUSTER_LEVEL_CHARACTERS -> StronglySorted N.le (clusters l) ->
  forall r0 rs, passes e l = r0 :: rs ->
  exists s0 t, l = s0 :: t /\ cluster (fst r0) = cluster (fst s0) /\ Forall (N.le (cluster (fst s0))) (clusters l).
Proof.
  intros Hd Hp Hc Hlev Hs r0 rs. destruct (passes_delete_eq e l Hd Hp Hc) as [-> | ->]; intros Hr.
  - apply (delete_sorted_first is_ign (e_level e) l Hlev Hs r0 rs Hr).
  - rewrite <- (clusters_zero l) in Hs.
    destruct (delete_sorted_first is_ign (e_level e) _ Hlev Hs r0 rs Hr) as [s0 [t [E [Hc0 Hall]]]].
    destruct l as [|[g p] t0]; [discriminate|]. exists (g, p), t0. split; [reflexivity|].
    cbn [map] in E. injection E as <- _. rewrite clusters_zero in Hall.
    assert (Ez : cluster (fst (zero_one (g, p))) = cluster g) by (unfold zero_one; cbn [fst]; destruct (is_ign g); reflexivity).
    rewrite Ez in *. cbn [fst]. split; assumption.
Qed.

Lemma passes_delete_last e l : has_di e = true -> preserve e = false ->
  (remove e = true \/ invisible_glyph e = None) ->
  nonincr (clusters l) -> passes e l <> [] ->
  forall d, last (clusters (passes e l)) d = last (clusters l) d.
Proof.
  intros Hd Hp Hc Hs. destruct (passes_delete_eq e l Hd Hp Hc) as [-> | ->]; intros Hne d.
  - apply delete_rev_last; assumption.
  - rewrite <- (clusters_zero l) in *. apply delete_rev_last; assumption.
Qed.

Lemma map_zero_none l : Forall (fun s => is_ign (fst s) = false) l -> map zero_one l = l.
Proof.
  induction l as [|[g p] t IH]; intros H; [reflexivity|]. inversion H as [|? ? Hg Ht]; subst.
  cbn [map]. rewrite (IH Ht). unfold zero_one. cbn [fst] in *. rewrite Hg. reflexivity.
Qed.

Lemma map_hide_none inv l : Forall (fun s => is_ign (fst s) = false) l -> map (hide_one inv) l = l.
Proof.
  induction l as [|[g p] t IH]; intros H; [reflexivity|]. inversion H as [|? ? Hg Ht]; subst.
  cbn [map]. rewrite (IH Ht). unfold hide_one. cbn [fst] in *. rewrite Hg. reflexivity.
Qed.

(* no ignorable glyph: the passes are the identity whatever the flags say *)
Lemma passes_none e l : Forall (fun s => is_ign (fst s) = false) l -> passes e l = l.
Proof.
  intros Hn. pose proof (map_zero_none l Hn) as Hz. pose proof (fun inv => map_hide_none inv l Hn) as Hh.
  unfold passes, hide_default_ignorables, zero_width_default_ignorables.
  assert (Hz' : (if has_di e && negb (preserve e) && negb (remove e) then map zero_one l else l) = l)
    by (destruct (has_di e && negb (preserve e) && negb (remove e)); [exact Hz|reflexivity]).
  rewrite Hz'. destruct (has_di e && negb (preserve e)); [|reflexivity].
  destruct (negb (remove e)); [destruct (invisible_glyph e); [apply Hh|]|]; apply delete_none; exact Hn.
Qed.

(* ------------------------------------------------------------------------------------------- *)
(* The simple pipeline: inserting ignorables is inert                                            *)

Definition vis_of_frame (x : N * N * N * gpos) : N * gpos := (fst (fst (fst x)), snd x).
Definition keeps_of_frame (x : N * N * N * gpos) : bool :=
  negb (negb (N.land (snd (fst (fst x))) UPROPS_IGNORABLE =? 0) && negb (negb (N.land (snd (fst x)) GPROPS_SUBSTITUTED =? 0))).

Lemma visible_frame s : visible s = vis_of_frame (frame s).
Proof. destruct s as [g p]. reflexivity. Qed.
Lemma keeps_frame s : keeps s = keeps_of_frame (frame s).
Proof. destruct s as [g p]. reflexivity. Qed.
Lemma keepf_keeps : keepf is_ign = keeps.
Proof. reflexivity. Qed.

Lemma filter_map_frame (a b : list slot) : map frame a = map frame b ->
  map visible (filter keeps a) = map visible (filter keeps b).
Proof.
  revert b. induction a as [|x a IH]; intros [|y b] H; try discriminate; [reflexivity|].
  cbn [map] in H. assert (Hxy : frame x = frame y) by congruence.
  assert (Hab : map frame a = map frame b) by congruence. clear H. cbn [filter]. rewrite !keeps_frame, Hxy.
  destruct (keeps_of_frame (frame y)); [|apply IH; exact Hab].
  cbn [map]. rewrite !visible_frame, Hxy, (IH b Hab). reflexivity.
Qed.

Lemma filter_keeps_idem (l : list slot) : filter keeps (filter keeps l) = filter keeps l.
Proof.
  induction l as [|x t IH]; [reflexivity|]. cbn [filter]. destruct (keeps x) eqn:E; [|exact IH].
  cbn [filter]. rewrite E, IH. reflexivity.
Qed.

(* without PRESERVE the passes do not change what the non-ignorable glyphs look like *)
Lemma passes_keeps_visible e l : preserve e = false ->
  (has_di e = true \/ Forall (fun s => is_ign (fst s) = false) l) ->
  map visible (filter keeps (passes e l)) = map visible (filter keeps l).
Proof.
  intros Hp [Hd|Hn]; [|rewrite passes_none by exact Hn; reflexivity].
  destruct (remove e) eqn:Hr.
  - rewrite (filter_map_frame _ (filter keeps l)).
    + rewrite filter_keeps_idem. reflexivity.
    + apply passes_delete_frame; auto.
  - destruct (invisible_glyph e) as [inv|] eqn:Hi.
    + rewrite (passes_hide e l inv Hd Hp Hr Hi).
      change keeps with (keepf is_ign). induction l as [|[g p] t IH]; [reflexivity|]. cbn [map fst].
      destruct (is_ign g) eqn:Hg; unfold hidden_as; cbn [fst];
        rewrite !filter_keepf_cons, ?is_ign_with_gid, Hg; [exact IH|].
      cbn [map]. f_equal. exact IH.
    + rewrite (filter_map_frame _ (filter keeps l)).
      * rewrite filter_keeps_idem. reflexivity.
      * apply passes_delete_frame; auto.
Qed.

Lemma is_ign_shape_char ft i cp : is_ign (fst (shape_char ft i cp)) = ign_cp cp.
Proof.
  unfold shape_char, is_ign, ign_bit, substituted. cbn [fst uprops gprops].
  destruct (ign_cp cp); vm_compute; reflexivity.
Qed.

Lemma shape_chars_keeps ft : forall t i j,
  map visible (filter keeps (shape_chars ft i t)) =
  map visible (shape_chars ft j (filter (fun cp => negb (ign_cp cp)) t)).
Proof.
  induction t as [|cp r IH]; intros i j; [reflexivity|].
  cbn [shape_chars filter]. unfold keeps at 1. rewrite is_ign_shape_char.
  destruct (ign_cp cp); cbn [negb]; [apply IH|].
  cbn [shape_chars map]. rewrite (IH (i + 1) (j + 1)). reflexivity.
Qed.

Lemma shape_chars_no_ign ft : forall t i, Forall (fun cp => ign_cp cp = false) t ->
  Forall (fun s => is_ign (fst s) = false) (shape_chars ft i t).
Proof.
  induction t as [|cp r IH]; intros i H; [constructor|]. inversion H; subst.
  cbn [shape_chars]. constructor; [rewrite is_ign_shape_char; assumption|apply IH; assumption].
Qed.

Lemma shape_chars_existsb ft : forall t i, existsb ign_cp t = false ->
  Forall (fun s => is_ign (fst s) = false) (shape_chars ft i t).
Proof.
  intros t i H. apply shape_chars_no_ign. rewrite Forall_forall. intros cp Hin.
  destruct (ign_cp cp) eqn:E; [|reflexivity].
  assert (existsb ign_cp t = true) by (apply existsb_exists; exists cp; split; assumption). congruence.
Qed.

Lemma insertion_inert ft flags level t : has_bit flags FLAG_PRESERVE_DEFAULT_IGNORABLES = false ->
  map visible (filter keeps (simple_shape ft flags level t)) =
  map visible (simple_shape ft flags level (filter (fun cp => negb (ign_cp cp)) t)).
Proof.
  intros Hp. unfold simple_shape.
  rewrite (passes_none _ (shape_chars ft 0 (filter _ t))).
  2:{ apply shape_chars_no_ign. rewrite Forall_forall. intros cp Hin. apply filter_In in Hin.
      destruct Hin as [_ Hin]. destruct (ign_cp cp); [discriminate|reflexivity]. }
  rewrite passes_keeps_visible.
  - apply shape_chars_keeps.
  - exact Hp.
  - unfold env_of, has_di. cbn [e_scratch]. destruct (existsb ign_cp t) eqn:E.
    + left. vm_compute. reflexivity.
    + right. apply shape_chars_existsb. exact E.
Qed.

(* every non-ignorable character of the text is drawn with its own glyph at its hmtx advance *)
Lemma simple_shape_no_ign ft flags level t : Forall (fun cp => ign_cp cp = false) t ->
  simple_shape ft flags level t = shape_chars ft 0 t.
Proof. intros H. apply passes_none, shape_chars_no_ign, H. Qed.

Lemma simple_shape_preserve ft flags level t : has_bit flags FLAG_PRESERVE_DEFAULT_IGNORABLES = true ->
  simple_shape ft flags level t = shape_chars ft 0 t.
Proof. intros H. apply passes_preserve. exact H. Qed.

(* ------------------------------------------------------------------------------------------- *)
(* Classification                                                                                *)

Ltac Zify.zify_post_hook ::= Z.div_mod_to_equations.

Lemma spec_ranges_ok : forall cp, in_ranges spec_ranges cp = dicp_minus_fillers cp.
Proof.
  intros cp. unfold dicp_minus_fillers, dicp, filler, in_ranges, spec_ranges, dicp_ranges, in_range.
  cbn [existsb fst snd]. lia.
Qed.

(* the function regenerated from src/hb/unicode.rs against the Unicode 16 property minus the four
   fillers, outside the known class; by case analysis on the plane/page tests and linear arithmetic
   (no enumeration of code points). Breaks when the source's ranges change. *)
Lemma classification_outside_known : forall cp, cp < 0x110000 -> ~ (0x1BCA0 <= cp <= 0x1BCA3) ->
  is_default_ignorable cp = dicp_minus_fillers cp.
Proof.
  intros cp Hb Hk. rewrite <- spec_ranges_ok.
  unfold is_default_ignorable, in_ranges, spec_ranges, in_range.
  cbn [existsb fst snd]. cbv zeta. rewrite ?N.shiftr_div_pow2.
  repeat match goal with |- context [if ?b then _ else _] => destruct b eqn:? end; lia.
Qed.

Lemma classification_refuted : exists cp, (0x1BCA0 <= cp <= 0x1BCA3) /\ is_default_ignorable cp <> dicp_minus_fillers cp.
Proof. exists 0x1BCA0. split; [lia|]. vm_compute. discriminate. Qed.

Lemma shape_guard_ok : ignorable_shape_ok = true.
Proof. reflexivity. Qed.
