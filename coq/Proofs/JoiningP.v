(* Proofs/JoiningP.v — C11: the table-driven joining automaton with back-patching computes the
   declarative cursive-joining specification, for every table that passes the decidable check
   `table_ok` (the only place where table entries are looked at).

   Structure
   1. `main_spec`/`run_fa`: the array loop with the `prev` index and the post-context patch equals a
      look-ahead automaton `fa` (each letter's action = its tentative action, replaced by the
      prev_action the NEXT non-transparent character's entry dictates).  Holds for any table of the
      right shape.
   2. `fa_spec`: `fa` equals the specification, by an invariant over abstract states
      (automaton state, class of the previous non-transparent character).  The set of reachable abstract
      states is COMPUTED from the table (`reach_of`); `table_ok` checks that it contains the start, is
      closed under every letter, and that in each of its members the table's (curr, next-prev) pair
      yields `form q x y` for every letter x and every following neighbour y.  So the proof does not
      depend on how states are numbered or how many there are.
   3. `spec_from_actions`: the recursive reading of the specification equals the index-based one. *)
From Coq Require Import List NArith Bool Lia Arith.
From RB Require Import Model.Joining.
Import ListNotations.
Local Open Scope N_scope.

(* ------------------------------------------------------------------ lists *)

Lemma upd_app_len {X} (a : list X) v w b : upd (length a) v (a ++ w :: b) = a ++ v :: b.
Proof. induction a; cbn; [reflexivity | now rewrite IHa]. Qed.

Lemma upd_length {X} i (v : X) l : length (upd i v l) = length l.
Proof. revert i; induction l; intros [|i]; cbn; auto. Qed.

Lemma first_nonT_notT l c : first_nonT l = Some c -> is_T c = false.
Proof.
  induction l as [|x r IH]; cbn; [discriminate|].
  destruct (is_T x) eqn:Hx; [exact IH | intros H; injection H as <-; exact Hx].
Qed.

Lemma first_nonT_app_T a b : first_nonT (a ++ T :: b) = first_nonT (a ++ b).
Proof. induction a as [|x r IH]; cbn; [reflexivity | destruct (is_T x); auto]. Qed.

Lemma letters_notT x : In x letters <-> is_T x = false.
Proof.
  split.
  - cbn; intros H; repeat (destruct H as [<-|H]; [reflexivity|]); destruct H.
  - destruct x; cbn; intros; try discriminate; tauto.
Qed.

(* ------------------------------------------------------------------ the checked conditions *)

Section Correct.
  Variable E : enc.
  Variable tbl : table.

  Definition lookupD (st c : N) : entry :=
    match lookup tbl st c with Some e => e | None => (0, 0, 0) end.

  Definition rows : N := N.of_nat (length tbl).

  (* value a pending (tentative) action v takes once the next non-transparent character is y *)
  Definition patchv (y : option jt) (st : N) (v : N) : N :=
    match y with
    | None => v
    | Some c => let pa := e_prev (lookupD st (jcode E c)) in if pa =? aNONE E then v else pa
    end.

  (* the look-ahead automaton *)
  Fixpoint fa (st : N) (l post : list jt) : list N :=
    match l with
    | [] => []
    | x :: r =>
        if is_T x then aNONE E :: fa st r post
        else let e := lookupD st (jcode E x) in
             patchv (first_nonT (r ++ post)) (e_next e) (e_curr e) :: fa (e_next e) r post
    end.

  (* abstract states: (automaton state, previous non-transparent character) *)
  Definition abs := (N * option jt)%type.

  Definition ojt_eqb (a b : option jt) : bool :=
    match a, b with
    | None, None => true
    | Some x, Some y => jt_eqb x y
    | _, _ => false
    end.
  Definition abs_eqb (a b : abs) : bool := (fst a =? fst b) && ojt_eqb (snd a) (snd b).
  Definition mem (a : abs) (l : list abs) : bool := existsb (abs_eqb a) l.

  Definition succ1 (a : abs) (x : jt) : abs := (e_next (lookupD (fst a) (jcode E x)), Some x).
  Definition succs (a : abs) : list abs := map (succ1 a) letters.
  Fixpoint add_new (new seen : list abs) : list abs :=
    match new with
    | [] => seen
    | a :: r => if mem a seen then add_new r seen else add_new r (seen ++ [a])
    end.
  Fixpoint close (fuel : nat) (seen : list abs) : list abs :=
    match fuel with
    | O => seen
    | S f => close f (add_new (flat_map succs seen) seen)
    end.
  Definition reach_of : list abs := close 64 [(0, None)].

  Definition ys : list (option jt) := None :: map Some letters.

  Definition local_ok (r : list abs) (a : abs) : bool :=
    forallb (fun x =>
      let e := lookupD (fst a) (jcode E x) in
      mem (succ1 a x) r &&
      forallb (fun y => patchv y (e_next e) (e_curr e) =? acode E (form (snd a) x y)) ys) letters.

  Fixpoint nodupb (l : list N) : bool :=
    match l with
    | [] => true
    | x :: r => negb (existsb (N.eqb x) r) && nodupb r
    end.

  (* the numbering: T is distinct from every letter's code; action codes are pairwise distinct *)
  Definition codes_ok : bool :=
    forallb (fun x => negb (jcode E x =? jT E)) letters && nodupb (map (acode E) all_actions).

  (* every row has a column for every letter; every next_state is a row *)
  Definition shape_ok : bool :=
    (0 <? rows) &&
    forallb (fun row =>
      forallb (fun x => jcode E x <? N.of_nat (length row)) letters &&
      forallb (fun e => e_next e <? rows) row) tbl.

  Definition table_ok : bool :=
    codes_ok && shape_ok && mem (0, None) reach_of && forallb (local_ok reach_of) reach_of.

  (* ---------------------------------------------------------------- reflection lemmas *)

  Lemma jt_eqb_eq a b : jt_eqb a b = true -> a = b.
  Proof. destruct a, b; cbn; intros; congruence. Qed.

  Lemma abs_eqb_eq a b : abs_eqb a b = true -> a = b.
  Proof.
    destruct a as [s q], b as [s' q']; unfold abs_eqb; cbn.
    intros H; apply andb_prop in H as [H1 H2]. apply N.eqb_eq in H1. subst s'.
    destruct q, q'; cbn in H2; try discriminate; [apply jt_eqb_eq in H2; subst|]; reflexivity.
  Qed.

  Lemma mem_In a l : mem a l = true -> In a l.
  Proof.
    unfold mem; intros H. apply existsb_exists in H as (b & Hb & Heq).
    apply abs_eqb_eq in Heq; subst; assumption.
  Qed.

  Lemma ys_complete l : In (first_nonT l) ys.
  Proof.
    destruct (first_nonT l) as [c|] eqn:H; [|now left].
    right. apply in_map. apply letters_notT. eapply first_nonT_notT; eauto.
  Qed.

  (* wrapped so that `easy`/`discriminate` do not try to evaluate it *)
  Definition TableOK : Prop := table_ok = true.
  Hypothesis OK : TableOK.
  Local Opaque reach_of.

  Lemma ok_parts : codes_ok = true /\ shape_ok = true /\ In (0, None) reach_of
                   /\ forall a, In a reach_of -> local_ok reach_of a = true.
  Proof.
    pose proof OK as OK'. unfold TableOK, table_ok in OK'.
    apply andb_prop in OK' as [H123 H4]. apply andb_prop in H123 as [H12 H3]. apply andb_prop in H12 as [H1 H2].
    split; [exact H1|]. split; [exact H2|]. split.
    - now apply mem_In.
    - intros a Ha. rewrite forallb_forall in H4. now apply H4.
  Qed.

  Lemma code_notT x : is_T x = false -> (jcode E x =? jT E) = false.
  Proof.
    intros Hx. destruct ok_parts as (Hc & _). unfold codes_ok in Hc. apply andb_prop in Hc as [Hc _].
    rewrite forallb_forall in Hc. apply letters_notT in Hx. specialize (Hc _ Hx).
    now apply negb_true_iff in Hc.
  Qed.

  Lemma code_T : (jcode E T =? jT E) = true.
  Proof. apply N.eqb_refl. Qed.

  Lemma rows_pos : 0 < rows.
  Proof.
    destruct ok_parts as (_ & Hs & _). unfold shape_ok in Hs.
    apply andb_prop in Hs as [Hs _]. now apply N.ltb_lt in Hs.
  Qed.

  Lemma lookup_ok st x : st < rows -> is_T x = false ->
    exists e, lookup tbl st (jcode E x) = Some e /\ lookupD st (jcode E x) = e /\ e_next e < rows.
  Proof.
    intros Hst Hx. destruct ok_parts as (_ & Hs & _). unfold shape_ok in Hs.
    apply andb_prop in Hs as [_ Hs]. rewrite forallb_forall in Hs.
    unfold lookupD, lookup.
    destruct (nth_error tbl (N.to_nat st)) as [row|] eqn:Hrow.
    2:{ apply nth_error_None in Hrow. unfold rows in Hst. lia. }
    specialize (Hs row (nth_error_In _ _ Hrow)). apply andb_prop in Hs as [Hcol Hnext].
    rewrite forallb_forall in Hcol, Hnext.
    apply letters_notT in Hx. specialize (Hcol _ Hx). apply N.ltb_lt in Hcol.
    destruct (nth_error row (N.to_nat (jcode E x))) as [e|] eqn:He.
    2:{ apply nth_error_None in He. lia. }
    exists e. repeat split. specialize (Hnext e (nth_error_In _ _ He)). now apply N.ltb_lt in Hnext.
  Qed.

  (* ---------------------------------------------------------------- 1. back-patching = look-ahead *)

  (* processed part of the array = fin ++ mid_list m: `fin` final, `m` the pending letter (its
     tentative action) followed by the transparents after it *)
  Definition pend := option (N * list N).
  Definition mid_list (m : pend) : list N := match m with None => [] | Some (v, ts) => v :: ts end.
  Definition prev_of (fin : list N) (m : pend) : option nat :=
    match m with None => None | Some _ => Some (length fin) end.
  Definition patch_mid (y : option jt) (st : N) (m : pend) : list N :=
    match m with None => [] | Some (v, ts) => patchv y st v :: ts end.

  Lemma patch_mid_length y st m : length (patch_mid y st m) = length (mid_list m).
  Proof. destruct m as [[v ts]|]; reflexivity. Qed.

  Lemma patch_spec fin m B st x :
    patch E (fin ++ mid_list m ++ B) (prev_of fin m) (e_prev (lookupD st (jcode E x)))
    = fin ++ patch_mid (Some x) st m ++ B.
  Proof.
    destruct m as [[v ts]|]; cbn; [|reflexivity].
    destruct (e_prev (lookupD st (jcode E x)) =? aNONE E); [reflexivity|].
    now rewrite upd_app_len.
  Qed.

  Lemma post_scan_spec fin m st : st < rows -> forall post,
    post_scan E tbl (map (jcode E) post) (fin ++ mid_list m) (prev_of fin m) st
    = Some (fin ++ patch_mid (first_nonT post) st m).
  Proof.
    intros Hst. induction post as [|c r IH]; cbn.
    - destruct m as [[v ts]|]; reflexivity.
    - destruct (is_T c) eqn:Hc.
      + destruct c; try discriminate Hc. rewrite code_T. exact IH.
      + rewrite (code_notT _ Hc). destruct (lookup_ok st c Hst Hc) as (e & -> & HD & _).
        rewrite <- HD. f_equal.
        pose proof (patch_spec fin m [] st c) as P. rewrite !app_nil_r in P. exact P.
  Qed.

  Lemma main_spec post : forall r fin m B st arr i,
    st < rows -> length B = length r ->
    arr = fin ++ mid_list m ++ B -> i = length (fin ++ mid_list m) ->
    exists arr' prev' st',
      main_loop E tbl (map (jcode E) r) i arr (prev_of fin m) st = Some (arr', prev', st')
      /\ post_scan E tbl (map (jcode E) post) arr' prev' st'
         = Some (fin ++ patch_mid (first_nonT (r ++ post)) st m ++ fa st r post).
  Proof.
    induction r as [|x r IH]; intros fin m B st arr i Hst HB -> ->.
    - destruct B; [|discriminate]. cbn [map main_loop].
      eexists _, _, _. split; [reflexivity|].
      rewrite app_nil_r. cbn [app fa]. rewrite app_nil_r. now apply post_scan_spec.
    - destruct B as [|b B]; [discriminate|]. cbn in HB. injection HB as HB.
      cbn [map main_loop]. destruct (is_T x) eqn:Hx.
      + destruct x; try discriminate Hx. rewrite code_T.
        cbn [fa is_T app first_nonT].
        replace (upd (length (fin ++ mid_list m)) (aNONE E) (fin ++ mid_list m ++ b :: B))
          with (fin ++ mid_list m ++ aNONE E :: B)
          by (rewrite (app_assoc fin (mid_list m) (b :: B)), upd_app_len, <- app_assoc; reflexivity).
        destruct m as [[v ts]|].
        * destruct (IH fin (Some (v, ts ++ [aNONE E])) B st
                       (fin ++ mid_list (Some (v, ts)) ++ aNONE E :: B)
                       (S (length (fin ++ mid_list (Some (v, ts)))))) as (a' & p' & s' & H1 & H2); auto.
          { cbn. rewrite <- app_assoc. reflexivity. }
          { cbn. rewrite !app_length. cbn. rewrite app_length. cbn. lia. }
          exists a', p', s'. split; [exact H1|]. rewrite H2. cbn. rewrite <- app_assoc. reflexivity.
        * destruct (IH (fin ++ [aNONE E]) None B st
                       (fin ++ mid_list None ++ aNONE E :: B)
                       (S (length (fin ++ mid_list None)))) as (a' & p' & s' & H1 & H2); auto.
          { cbn. rewrite <- app_assoc. reflexivity. }
          { cbn. rewrite !app_length. cbn. lia. }
          exists a', p', s'. split; [exact H1|]. rewrite H2. cbn. rewrite <- app_assoc. reflexivity.
      + rewrite (code_notT _ Hx). destruct (lookup_ok st x Hst Hx) as (e & -> & HD & Hn).
        cbn [fa app first_nonT]. rewrite Hx. rewrite HD.
        assert (P : patch E (fin ++ mid_list m ++ b :: B) (prev_of fin m) (e_prev e)
                    = fin ++ patch_mid (Some x) st m ++ b :: B)
          by (rewrite <- HD; apply patch_spec).
        rewrite P.
        replace (upd (length (fin ++ mid_list m)) (e_curr e) (fin ++ patch_mid (Some x) st m ++ b :: B))
          with ((fin ++ patch_mid (Some x) st m) ++ e_curr e :: B).
        2:{ rewrite (app_assoc fin (patch_mid _ _ _)).
            replace (length (fin ++ mid_list m)) with (length (fin ++ patch_mid (Some x) st m))
              by (rewrite !app_length, patch_mid_length; reflexivity).
            now rewrite upd_app_len. }
        destruct (IH (fin ++ patch_mid (Some x) st m) (Some (e_curr e, [])) B (e_next e)
                     ((fin ++ patch_mid (Some x) st m) ++ e_curr e :: B)
                     (S (length (fin ++ mid_list m)))) as (a' & p' & s' & H1 & H2); auto.
        { cbn. rewrite !app_length, patch_mid_length. cbn. lia. }
        exists a', p', s'. split.
        * replace (prev_of (fin ++ patch_mid (Some x) st m) (Some (e_curr e, [])))
            with (Some (length (fin ++ mid_list m))) in H1
            by (cbn; rewrite !app_length, patch_mid_length; reflexivity).
          exact H1.
        * rewrite H2. cbn. rewrite <- app_assoc. reflexivity.
  Qed.

  (* ---------------------------------------------------------------- 2. look-ahead automaton = spec *)

  Fixpoint spec_from (p : option jt) (l post : list jt) : list action :=
    match l with
    | [] => []
    | x :: r => form p x (first_nonT (r ++ post)) :: spec_from (if is_T x then p else Some x) r post
    end.

  Lemma local_use st q x y : In (st, q) reach_of -> is_T x = false -> In y ys ->
    In (e_next (lookupD st (jcode E x)), Some x) reach_of
    /\ patchv y (e_next (lookupD st (jcode E x))) (e_curr (lookupD st (jcode E x))) = acode E (form q x y).
  Proof.
    intros Hin Hx Hy. destruct ok_parts as (_ & _ & _ & Hl). specialize (Hl _ Hin).
    unfold local_ok in Hl. rewrite forallb_forall in Hl. apply letters_notT in Hx.
    specialize (Hl _ Hx). cbn [fst snd] in Hl. apply andb_prop in Hl as [Hm Hf].
    split; [now apply mem_In in Hm|].
    rewrite forallb_forall in Hf. specialize (Hf _ Hy). now apply N.eqb_eq in Hf.
  Qed.

  Lemma fa_spec post : forall l st q, In (st, q) reach_of -> fa st l post = map (acode E) (spec_from q l post).
  Proof.
    induction l as [|x r IH]; intros st q Hin; cbn [fa spec_from map]; [reflexivity|].
    destruct (is_T x) eqn:Hx.
    - destruct x; try discriminate Hx. cbn [form acode]. apply f_equal. apply IH. exact Hin.
    - destruct (local_use st q x (first_nonT (r ++ post)) Hin Hx (ys_complete _)) as [Hr Hv].
      rewrite Hv. apply f_equal. apply IH. exact Hr.
  Qed.

  Lemma pre_scan_spec : forall ctx, exists s0,
    pre_scan E tbl (map (jcode E) ctx) = Some s0 /\ s0 < rows /\ In (s0, first_nonT ctx) reach_of.
  Proof.
    destruct ok_parts as (_ & _ & H0 & _).
    induction ctx as [|c r IH]; cbn.
    - exists 0. split; [reflexivity|]. split; [apply rows_pos | exact H0].
    - destruct (is_T c) eqn:Hc.
      + destruct c; try discriminate Hc. rewrite code_T. exact IH.
      + rewrite (code_notT _ Hc). destruct (lookup_ok 0 c rows_pos Hc) as (e & -> & HD & Hn).
        exists (e_next e). split; [reflexivity|]. split; [exact Hn|].
        destruct (local_use 0 None c None H0 Hc (or_introl eq_refl)) as [Hr _]. now rewrite HD in Hr.
  Qed.

  Theorem run_spec ctx0 text ctx1 init : length init = length text ->
    joining_run E tbl (map (jcode E) ctx0) (map (jcode E) text) (map (jcode E) ctx1) init
    = Some (map (acode E) (spec_from (first_nonT ctx0) text ctx1)).
  Proof.
    intros Hlen. unfold joining_run.
    destruct (pre_scan_spec ctx0) as (s0 & -> & Hs0 & Hin).
    destruct (main_spec ctx1 text [] None init s0 init 0%nat Hs0 Hlen eq_refl eq_refl) as (a' & p' & s' & H1 & H2).
    cbn [prev_of] in H1. rewrite H1, H2. cbn [app patch_mid]. apply f_equal. apply fa_spec. exact Hin.
  Qed.
End Correct.

(* ------------------------------------------------------------------ 3. recursive = index-based spec *)

Lemma last_nonT_snoc l x : last_nonT (l ++ [x]) = if is_T x then last_nonT l else Some x.
Proof. unfold last_nonT. rewrite rev_app_distr. reflexivity. Qed.

Lemma spec_at_mid pre x r : spec_at (pre ++ x :: r) (length pre) = form (last_nonT pre) x (first_nonT r).
Proof.
  unfold spec_at.
  rewrite firstn_app, Nat.sub_diag, firstn_all. cbn [firstn]. rewrite app_nil_r.
  rewrite app_nth2, Nat.sub_diag by lia. cbn [nth].
  replace (S (length pre)) with (length (pre ++ [x])) by (rewrite app_length; cbn; lia).
  replace (pre ++ x :: r) with ((pre ++ [x]) ++ r) by (rewrite <- app_assoc; reflexivity).
  rewrite skipn_app, Nat.sub_diag, skipn_all. reflexivity.
Qed.

Lemma spec_from_actions : forall text pre post,
  spec_from (last_nonT pre) text post = spec_actions pre text post.
Proof.
  induction text as [|x r IH]; intros pre post; [reflexivity|].
  unfold spec_actions. cbn [length seq map spec_from].
  f_equal.
  - rewrite Nat.add_0_r. cbn [app]. now rewrite spec_at_mid.
  - rewrite <- last_nonT_snoc, IH. unfold spec_actions.
    rewrite <- seq_shift, map_map. apply map_ext. intros i.
    rewrite app_length. cbn [length].
    replace ((pre ++ [x]) ++ r ++ post) with (pre ++ (x :: r) ++ post) by (rewrite <- app_assoc; reflexivity).
    f_equal. lia.
Qed.

Lemma last_nonT_lastn k (l : list jt) : last_nonT (lastn k l) = first_nonT (firstn k (rev l)).
Proof. unfold last_nonT, lastn. now rewrite rev_involutive. Qed.

(* ------------------------------------------------------------------ the automaton theorem *)

Theorem automaton_correct E tbl clen : table_ok E tbl = true -> forall pre text post,
  arabic_joining E tbl clen (map (jcode E) pre) (map (jcode E) text) (map (jcode E) post)
  = Some (map (acode E) (spec_actions (lastn (N.to_nat clen) pre) text (firstn (N.to_nat clen) post))).
Proof.
  intros OK pre text post. unfold arabic_joining.
  rewrite <- map_rev, !firstn_map.
  rewrite (run_spec E tbl OK) by (rewrite repeat_length, map_length; reflexivity).
  now rewrite <- last_nonT_lastn, spec_from_actions.
Qed.

Lemma lastn_short {X} k (l : list X) : (length l <= k)%nat -> lastn k l = l.
Proof. intros H. unfold lastn. rewrite firstn_all2 by (rewrite rev_length; exact H). apply rev_involutive. Qed.

Corollary automaton_correct_short E tbl clen : table_ok E tbl = true -> forall pre text post,
  (length pre <= N.to_nat clen)%nat -> (length post <= N.to_nat clen)%nat ->
  arabic_joining E tbl clen (map (jcode E) pre) (map (jcode E) text) (map (jcode E) post)
  = Some (map (acode E) (spec_actions pre text post)).
Proof.
  intros OK pre text post H1 H2. rewrite (automaton_correct E tbl clen OK).
  now rewrite lastn_short, firstn_all2.
Qed.

(* ------------------------------------------------------------------ transparent characters are inert *)

Lemma spec_from_insert_post p l a b : spec_from p l (a ++ T :: b) = spec_from p l (a ++ b).
Proof.
  revert p; induction l as [|x r IH]; intros p; cbn [spec_from]; [reflexivity|].
  rewrite IH. f_equal. now rewrite !app_assoc, first_nonT_app_T.
Qed.

Lemma last_nonT_insert a b : last_nonT (a ++ T :: b) = last_nonT (a ++ b).
Proof.
  unfold last_nonT. rewrite !rev_app_distr. cbn [rev]. rewrite <- app_assoc. cbn [app].
  apply first_nonT_app_T.
Qed.

Lemma spec_from_insert_text post : forall a b p,
  spec_from p (a ++ T :: b) post
  = firstn (length a) (spec_from p (a ++ b) post) ++ NONE :: skipn (length a) (spec_from p (a ++ b) post).
Proof.
  induction a as [|x a IH]; intros b p.
  - reflexivity.
  - cbn [app spec_from length firstn skipn]. rewrite IH. cbn [app]. f_equal.
    now rewrite <- !app_assoc, <- app_comm_cons, first_nonT_app_T.
Qed.

Theorem spec_T_in_text pre a b post :
  spec_actions pre (a ++ T :: b) post
  = firstn (length a) (spec_actions pre (a ++ b) post) ++ NONE :: skipn (length a) (spec_actions pre (a ++ b) post).
Proof. rewrite <- !spec_from_actions. apply spec_from_insert_text. Qed.

Theorem spec_T_in_pre a b text post : spec_actions (a ++ T :: b) text post = spec_actions (a ++ b) text post.
Proof. rewrite <- !spec_from_actions. now rewrite last_nonT_insert. Qed.

Theorem spec_T_in_post pre text a b : spec_actions pre text (a ++ T :: b) = spec_actions pre text (a ++ b).
Proof. rewrite <- !spec_from_actions. apply spec_from_insert_post. Qed.

(* ------------------------------------------------------------------ context acts as text *)

Lemma spec_from_app post : forall a b p,
  spec_from p (a ++ b) post = spec_from p a (b ++ post) ++ spec_from (match last_nonT a with Some c => Some c | None => p end) b post.
Proof.
  induction a as [|x a IH]; intros b p.
  - reflexivity.
  - cbn [app spec_from]. rewrite IH, <- app_assoc. cbn [app]. f_equal. f_equal.
    unfold last_nonT. cbn [rev].
    destruct (first_nonT (rev a)) as [c|] eqn:Ha.
    + assert (H : first_nonT (rev a ++ [x]) = Some c).
      { clear -Ha. induction (rev a) as [|y l IHl]; cbn in *; [discriminate|]. destruct (is_T y); auto. }
      now rewrite H.
    + assert (H : first_nonT (rev a ++ [x]) = if is_T x then None else Some x).
      { clear -Ha. induction (rev a) as [|y l IHl]; cbn in *; [reflexivity|]. destruct (is_T y); [auto|discriminate]. }
      rewrite H. destruct (is_T x); reflexivity.
Qed.

Theorem spec_context_as_text pre text post :
  spec_actions pre text post
  = firstn (length text) (skipn (length pre) (spec_actions [] (pre ++ text ++ post) [])).
Proof.
  rewrite <- !spec_from_actions.
  rewrite (spec_from_app [] pre (text ++ post) (last_nonT [])).
  rewrite skipn_app.
  assert (Hl : forall p l q, length (spec_from p l q) = length l)
    by (intros p l; revert p; induction l; intros; cbn; auto).
  rewrite skipn_all2 by (rewrite Hl; lia). rewrite Hl, Nat.sub_diag. cbn [app skipn].
  rewrite (spec_from_app [] text post).
  rewrite firstn_app, Hl, Nat.sub_diag. cbn [firstn]. rewrite app_nil_r.
  rewrite firstn_all2 by (rewrite Hl; lia).
  rewrite app_nil_r.
  destruct (last_nonT pre); reflexivity.
Qed.

(* ------------------------------------------------------------------ masks *)

Definition mask_of (E : enc) (marr : list N) (a : action) : N := nth (N.to_nat (acode E a)) marr 0.

Fixpoint or_spec (E : enc) (marr : list N) (masks : list N) (acts : list action) : list N :=
  match masks, acts with
  | m :: ms, a :: r => N.lor m (mask_of E marr a) :: or_spec E marr ms r
  | _, _ => []
  end.

Lemma or_masks_spec E marr : (forall a, (N.to_nat (acode E a) < length marr)%nat) ->
  forall acts masks, length masks = length acts ->
  or_masks marr masks (map (acode E) acts) = Some (or_spec E marr masks acts).
Proof.
  intros Hb. induction acts as [|a r IH]; intros [|m ms] Hl; try discriminate; [reflexivity|].
  cbn in Hl. injection Hl as Hl. cbn [map or_masks or_spec].
  destruct (nth_error marr (N.to_nat (acode E a))) as [f|] eqn:Hf.
  2:{ apply nth_error_None in Hf. specialize (Hb a). lia. }
  rewrite (IH ms Hl). unfold mask_of. now rewrite (nth_error_nth _ _ _ Hf).
Qed.

Theorem masks_correct E tbl clen : table_ok E tbl = true -> forall marr pre text post masks,
  (forall a, (N.to_nat (acode E a) < length marr)%nat) -> length masks = length text ->
  setup_masks E tbl clen marr (map (jcode E) pre) (map (jcode E) text) (map (jcode E) post) masks
  = Some (or_spec E marr masks (spec_actions (lastn (N.to_nat clen) pre) text (firstn (N.to_nat clen) post))).
Proof.
  intros OK marr pre text post masks Hb Hl. unfold setup_masks.
  rewrite (automaton_correct E tbl clen OK). apply or_masks_spec; [exact Hb|].
  unfold spec_actions. now rewrite map_length, seq_length.
Qed.

(* with pairwise disjoint feature masks, none of them set beforehand and mask_array[NONE] = 0:
   the bits of feature b are on a letter afterwards iff b is that letter's action *)
Lemma mask_exact (mk : action -> N) m0 a b :
  (forall x y, x <> y -> N.land (mk x) (mk y) = 0) -> mk NONE = 0 -> N.land m0 (mk b) = 0 ->
  N.land (N.lor m0 (mk a)) (mk b) = if action_eqb a b then mk b else 0.
Proof.
  intros Hd Hn H0. rewrite N.land_lor_distr_l, H0, N.lor_0_l.
  destruct (action_eqb a b) eqn:Hab.
  - assert (a = b) by (destruct a, b; cbn in Hab; congruence). subst. apply N.land_diag.
  - apply Hd. intros ->. destruct b; discriminate.
Qed.

(* ------------------------------------------------------------------ automaton-level corollaries *)

Lemma map_insert {X Y} (f : X -> Y) k v (s : list X) :
  map f (firstn k s ++ v :: skipn k s) = firstn k (map f s) ++ f v :: skipn k (map f s).
Proof. now rewrite map_app, firstn_map, skipn_map. Qed.

Section Corollaries.
  Variable E : enc.
  Variable tbl : table.
  Variable cl : N.
  Hypothesis OK : TableOK E tbl.
  Let run pre text post := arabic_joining E tbl cl (map (jcode E) pre) (map (jcode E) text) (map (jcode E) post).

  Lemma run_T_in_text pre a b post :
    run pre (a ++ T :: b) post
    = option_map (fun s => firstn (length a) s ++ aNONE E :: skipn (length a) s) (run pre (a ++ b) post).
  Proof.
    unfold run. rewrite !(automaton_correct E tbl cl OK). cbn [option_map]. apply f_equal.
    rewrite spec_T_in_text. apply (map_insert (acode E)).
  Qed.

  Lemma run_T_in_pre a b text post : (length (a ++ T :: b) <= N.to_nat cl)%nat ->
    run (a ++ T :: b) text post = run (a ++ b) text post.
  Proof.
    intros H. unfold run. rewrite !(automaton_correct E tbl cl OK).
    rewrite !lastn_short; [now rewrite spec_T_in_pre | | exact H].
    rewrite app_length in *. cbn [length] in H. lia.
  Qed.

  Lemma run_T_in_post pre text a b : (length (a ++ T :: b) <= N.to_nat cl)%nat ->
    run pre text (a ++ T :: b) = run pre text (a ++ b).
  Proof.
    intros H. unfold run. rewrite !(automaton_correct E tbl cl OK).
    rewrite !firstn_all2; [now rewrite spec_T_in_post | | exact H].
    rewrite app_length in *. cbn [length] in H. lia.
  Qed.

  Lemma run_context_as_text pre text post :
    (length pre <= N.to_nat cl)%nat -> (length post <= N.to_nat cl)%nat ->
    exists full, run [] (pre ++ text ++ post) [] = Some full
                 /\ run pre text post = Some (firstn (length text) (skipn (length pre) full)).
  Proof.
    intros H1 H2. unfold run.
    rewrite (automaton_correct_short E tbl cl OK pre text post H1 H2).
    rewrite (automaton_correct_short E tbl cl OK [] _ []) by (cbn; lia).
    eexists. split; [reflexivity|]. apply f_equal.
    now rewrite spec_context_as_text, skipn_map, firstn_map.
  Qed.

  (* whatever the lengths: only the window the buffer keeps matters *)
  Lemma run_window pre text post :
    run pre text post = run (lastn (N.to_nat cl) pre) text (firstn (N.to_nat cl) post).
  Proof.
    unfold run. rewrite !(automaton_correct E tbl cl OK).
    assert (Hk : forall (l : list jt) k, lastn k (lastn k l) = lastn k l).
    { intros l k. unfold lastn. rewrite rev_involutive, firstn_firstn, Nat.min_id. reflexivity. }
    now rewrite Hk, firstn_firstn, Nat.min_id.
  Qed.
End Corollaries.

(* ------------------------------------------------------------------ the current source's table *)
From RB Require Import Gen.JoiningTable Model.JoiningGen.

(* the ONLY place where the entries of STATE_TABLE are examined *)
Lemma gen_table_ok : table_ok gen_enc state_table = true.
Proof. vm_compute. reflexivity. Qed.

Lemma gen_OK : TableOK gen_enc state_table.
Proof. exact gen_table_ok. Qed.

(* ARABIC_FEATURES[action] is the feature named after the action; NONE is the extra, zero slot *)
Definition features_ok : bool :=
  forallb (fun a => match feature_tag a, nth_error arabic_features (N.to_nat (acode gen_enc a)) with
                    | Some t, Some t' => t =? t'
                    | None, None => true
                    | _, _ => false
                    end) all_actions.

Lemma gen_features_ok : features_ok = true.
Proof. vm_compute. reflexivity. Qed.

Lemma gen_feature_tags a :
  nth_error arabic_features (N.to_nat (acode gen_enc a)) = feature_tag a.
Proof.
  pose proof gen_features_ok as H. unfold features_ok in H. rewrite forallb_forall in H.
  assert (Ha : In a all_actions) by (destruct a; cbn; tauto).
  specialize (H a Ha).
  destruct (feature_tag a), (nth_error arabic_features (N.to_nat (acode gen_enc a))); try discriminate; auto.
  apply N.eqb_eq in H. now subst.
Qed.

Lemma acode_inj a b : acode gen_enc a = acode gen_enc b -> a = b.
Proof.
  pose proof gen_table_ok as H. unfold table_ok in H.
  apply andb_prop in H as [H _]. apply andb_prop in H as [H _]. apply andb_prop in H as [H _].
  unfold codes_ok in H. apply andb_prop in H as [_ H].
  revert H. generalize (acode gen_enc). intros f H.
  destruct a, b; try reflexivity; intros Heq; exfalso; cbn in H; rewrite ?Heq, ?N.eqb_refl in H;
    rewrite <- ?Heq, ?N.eqb_refl in H; cbn in H; rewrite ?orb_true_r in H; cbn in H;
    rewrite ?andb_false_r in H; discriminate.
Qed.
