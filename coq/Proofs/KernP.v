(* Proofs/KernP.v — lemmas about Model/Kern.v and the direction skeleton of Model/PosPipe.v (C07). *)
From Coq Require Import List NArith ZArith Bool Arith Lia.
From RB Require Import Model.Buffer Model.Font Model.Gpos Model.Attach Model.Kern Model.PosPipe.
Import ListNotations.

(* after ensure_native_direction the processing direction is never BTT, and it is RTL only when the
   script is natively right-to-left (and the run is not numeric under a forced LTR) or the script has
   no horizontal direction and RTL was requested *)
Lemma processing_direction_not_btt : forall dir hor numeric,
  fst (ensure_native_direction dir hor numeric) <> BTT.
Proof.
  intros dir hor numeric. unfold ensure_native_direction.
  destruct dir, hor as [[| | |]|], numeric; cbn; discriminate.
Qed.

Lemma processing_direction_rtl : forall dir hor numeric,
  (hor = None \/ hor = Some LTR \/ hor = Some RTL) ->   (* Direction::from_script yields nothing else *)
  fst (ensure_native_direction dir hor numeric) = RTL ->
  (hor = Some RTL /\ (dir = LTR -> numeric = false)) \/ (hor = None /\ dir = RTL).
Proof.
  intros dir hor numeric Hh. unfold ensure_native_direction.
  destruct Hh as [-> | [-> | ->]]; destruct dir, numeric; cbn; intro H; try discriminate H;
    try (left; split; [reflexivity | intro E; try reflexivity; discriminate E]);
    try (right; split; reflexivity).
Qed.

(* ====================================================================================== *)
(* machine_kern: the pairs it selects, the effect of one pair in pen coordinates, kerning off *)
From RB Require Import Proofs.GposP Proofs.AttachP.
Local Open Scope Z_scope.

(* ---------- pair selection ---------- *)

(* every pair machine_kern visits is (i, next glyph after i that IgnoreMarks does not skip) *)
Lemma kern_pairs_spec : forall fuel f infos s i j,
  In (i, j) (kern_pairs fuel f infos s) -> skip_next f LF_IGNORE_MARKS infos i = Some j.
Proof.
  induction fuel; intros f infos s i j H; cbn [kern_pairs] in H; [destruct H|].
  destruct (length infos <=? s)%nat; [destruct H|].
  destruct (skip_next f LF_IGNORE_MARKS infos s) as [j'|] eqn:E.
  - destruct H as [H|H]; [inversion H; subst; exact E | eapply IHfuel; exact H].
  - eapply IHfuel; exact H.
Qed.

Lemma kern_pairs_selected : forall fuel f infos s i j,
  In (i, j) (kern_pairs fuel f infos s) ->
  (i < j < length infos)%nat /\
  check_glyph_property f (geti infos j) LF_IGNORE_MARKS = true /\
  (forall k, (i < k < j)%nat -> check_glyph_property f (geti infos k) LF_IGNORE_MARKS = false).
Proof. intros. apply skip_next_spec. eapply kern_pairs_spec. eassumption. Qed.

(* ---------- one pair, in pen coordinates ---------- *)

(* replacing position i moves the pen of every later glyph by the change of the advance *)
Lemma pen_upd : forall ps i p m, (i < length ps)%nat ->
  fst (pen (upd ps i p) m) = fst (pen ps m) + (if (i <? m)%nat then xa p - xa (getp ps i) else 0) /\
  snd (pen (upd ps i p) m) = snd (pen ps m) + (if (i <? m)%nat then ya p - ya (getp ps i) else 0).
Proof.
  intros ps i p m Hi. induction m.
  - cbn. split; lia.
  - rewrite !pen_S. cbn [fst snd]. destruct IHm as [Ix Iy]. rewrite Ix, Iy. rewrite getp_upd.
    destruct (Nat.ltb_spec i m), (Nat.ltb_spec i (S m)), (Nat.eqb_spec i m); try lia;
      destruct (Nat.ltb_spec i (length ps)); try lia; cbn [andb]; subst; split; lia.
Qed.

Lemma kern1_kern2 : forall k, kern1 k + kern2 k = k.
Proof. intros. unfold kern2. lia. Qed.

(* C07_kern, horizontal, not cross-stream: every glyph up to the first of the pair stays, the glyphs
   between the two (skipped marks) move by k1 = k >> 1, the second glyph and everything after it by k.
   The cross axis does not move. *)
Lemma kern_pair_origin_h : forall d ps i j k m,
  is_horizontal d = true -> (i < j < length ps)%nat ->
  let ps' := kern_pair_apply d false ps i j k in
  fst (origin ps' m) = fst (origin ps m) + (if (m <=? i)%nat then 0 else if (m <? j)%nat then kern1 k else k) /\
  snd (origin ps' m) = snd (origin ps m) /\
  fst (pen ps' (length ps)) = fst (pen ps (length ps)) + k.
Proof.
  intros d ps i j k m Hh Hij ps'. subst ps'. unfold kern_pair_apply. rewrite Hh.
  set (ps1 := upd ps i (set_xa (getp ps i) (xa (getp ps i) + kern1 k))).
  assert (L1 : length ps1 = length ps) by apply length_upd.
  assert (Gj : getp ps1 j = getp ps j) by (apply getp_upd_other; lia).
  unfold origin.
  assert (P : forall m, fst (pen (upd ps1 j (set_xo (set_xa (getp ps1 j) (xa (getp ps1 j) + kern2 k)) (xo (getp ps1 j) + kern2 k))) m)
                        = fst (pen ps m) + (if (i <? m)%nat then kern1 k else 0) + (if (j <? m)%nat then kern2 k else 0) /\
                        snd (pen (upd ps1 j (set_xo (set_xa (getp ps1 j) (xa (getp ps1 j) + kern2 k)) (xo (getp ps1 j) + kern2 k))) m)
                        = snd (pen ps m)).
  { intro m0.
    destruct (pen_upd ps1 j (set_xo (set_xa (getp ps1 j) (xa (getp ps1 j) + kern2 k)) (xo (getp ps1 j) + kern2 k)) m0 ltac:(lia)) as [A B].
    destruct (pen_upd ps i (set_xa (getp ps i) (xa (getp ps i) + kern1 k)) m0 ltac:(lia)) as [C D].
    fold ps1 in C, D. rewrite A, B, C, D. cbn [xa ya set_xa set_xo].
    destruct (i <? m0)%nat, (j <? m0)%nat; split; lia. }
  set (ps2 := upd ps1 j (set_xo (set_xa (getp ps1 j) (xa (getp ps1 j) + kern2 k)) (xo (getp ps1 j) + kern2 k))) in *.
  assert (X : xo (getp ps2 m) = xo (getp ps m) + (if (j =? m)%nat then kern2 k else 0)).
  { unfold ps2. rewrite getp_upd, L1. destruct (Nat.eqb_spec j m) as [->|Hjm].
    - destruct (Nat.ltb_spec m (length ps)); [|lia]. cbn [andb xo set_xo set_xa]. rewrite Gj. reflexivity.
    - cbn [andb]. unfold ps1. rewrite getp_upd. destruct (Nat.eqb_spec i m) as [->|]; cbn [andb]; [|lia].
      destruct (Nat.ltb_spec m (length ps)); cbn [xo set_xa]; lia. }
  assert (Y : yo (getp ps2 m) = yo (getp ps m)).
  { unfold ps2. rewrite getp_upd, L1. destruct (Nat.eqb_spec j m) as [->|Hjm].
    - destruct (Nat.ltb_spec m (length ps)); [|lia]. cbn [andb yo set_xo set_xa]. rewrite Gj. reflexivity.
    - cbn [andb]. unfold ps1. rewrite getp_upd. destruct (Nat.eqb_spec i m) as [->|]; cbn [andb]; [|reflexivity].
      destruct (Nat.ltb_spec m (length ps)); reflexivity. }
  pose proof (kern1_kern2 k) as K12.
  split; [|split].
  - destruct (P m) as [Px _]. rewrite Px, X.
    destruct (Nat.ltb_spec i m), (Nat.ltb_spec j m), (Nat.eqb_spec j m), (Nat.leb_spec m i), (Nat.ltb_spec m j); cbn [fst snd]; lia.
  - destruct (P m) as [_ Py]. cbn [fst snd]. rewrite Py, Y. reflexivity.
  - destruct (P (length ps)) as [Px _]. rewrite Px.
    destruct (Nat.ltb_spec i (length ps)), (Nat.ltb_spec j (length ps)); lia.
Qed.

(* ---------- the subtable loop ---------- *)

Lemma machine_kern_length : forall f d cross pairs infos ps a,
  length (fst (machine_kern f d cross pairs infos ps a)) = length ps.
Proof.
  intros. unfold machine_kern.
  generalize (kern_pairs (length infos) f infos 0). intro l. revert ps a.
  induction l as [|[i j] t IH]; intros ps a; [reflexivity|].
  cbn [fold_left]. unfold kern_step at 2.
  destruct (kern_lookup pairs (gid (geti infos i)) (gid (geti infos j)) =? 0); [apply IH|].
  rewrite IH. unfold kern_pair_apply.
  destruct (is_horizontal d), cross; rewrite ?length_upd; reflexivity.
Qed.

(* glyph order: the two reversals of the repaired loop are paired for every subtable, kerning
   requested or not, so the loop never changes the order of the glyphs *)
Lemma kern_step_infos : forall f d requested s st,
  k_infos (kern_subtable_step f d requested s st) = k_infos s.
Proof.
  intros. unfold kern_subtable_step.
  destruct (negb (Bool.eqb (is_horizontal d) (k_horizontal st))); [reflexivity|].
  assert (E : k_infos (kern_prologue d st s) = k_infos s)
    by (unfold kern_prologue; destruct (negb (k_seen_cross s) && k_cross_stream st); reflexivity).
  destruct (negb requested); [exact E|].
  destruct (is_backward d).
  - destruct (machine_kern f d (k_cross_stream st) (k_pairs st) _ _ _). cbn. rewrite rev_involutive. exact E.
  - destruct (machine_kern f d (k_cross_stream st) (k_pairs st) _ _ _). cbn. exact E.
Qed.

Lemma kern_loop_infos : forall f d requested sts s, k_infos (kern_loop f d requested sts s) = k_infos s.
Proof.
  intros f d requested sts. unfold kern_loop. induction sts as [|st t IH]; intro s; [reflexivity|].
  cbn [fold_left]. rewrite IH. apply kern_step_infos.
Qed.

(* kerning off: the four position fields of every glyph, the attachment flag and the glyph order are
   those the loop started with (only the cross-stream chain marking of kern_prologue remains, which
   the code also performs before testing requested_kerning) *)
Definition pos4 (p : pos) : Z * Z * Z * Z := (xa p, ya p, xo p, yo p).

Lemma kern_off_step : forall f d s st,
  let s' := kern_subtable_step f d false s st in
  k_infos s' = k_infos s /\ map pos4 (k_ps s') = map pos4 (k_ps s) /\ k_attach s' = k_attach s.
Proof.
  intros. subst s'. unfold kern_subtable_step.
  destruct (negb (Bool.eqb (is_horizontal d) (k_horizontal st))); [repeat split|].
  cbn [negb]. unfold kern_prologue.
  destruct (negb (k_seen_cross s) && k_cross_stream st); [|repeat split].
  cbn. repeat split. unfold attach_all. rewrite map_map. apply map_ext. intro p. reflexivity.
Qed.

Lemma kern_off_exact : forall f d sts s,
  let s' := kern_loop f d false sts s in
  k_infos s' = k_infos s /\ map pos4 (k_ps s') = map pos4 (k_ps s) /\ k_attach s' = k_attach s.
Proof.
  intros f d sts. unfold kern_loop. induction sts as [|st t IH]; intro s; [repeat split|].
  cbn [fold_left]. destruct (IH (kern_subtable_step f d false s st)) as (A & B & C).
  destruct (kern_off_step f d s st) as (A' & B' & C').
  cbn zeta in *. rewrite A, B, C. repeat split; assumption.
Qed.

(* the shape of the loop before the repair does NOT have this property: a backward buffer with one
   matching subtable comes out reversed *)
Lemma kern_off_unpaired_refuted :
  exists f d sts s, k_infos (kern_loop_unpaired f d false sts s) <> k_infos s.
Proof.
  exists (mkFont 3 1000 800 (-200) 0 [500; 500; 500]%N None [] [] None None None None None),
         RTL, [mkKern true false false false [(1%N, 2%N, -50)]],
         (mkK [mkInfo 1 0 0 0 0; mkInfo 2 0 1 0 0] [pos0; pos0] false false).
  vm_compute. discriminate.
Qed.
