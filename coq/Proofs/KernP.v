(* Proofs/KernP.v — lemmas about Model/Kern.v and the direction skeleton of Model/PosPipe.v (C07). *)
From Coq Require Import List NArith ZArith Bool Arith Lia.
From RB Require Import Model.Buffer Model.Font Model.Gpos Model.Attach Model.Kern Model.PosPipe.
Import ListNotations.

(* after ensure_native_direction the processing direction is never BTT, and it is RTL only when the
   script is natively right-to-left (and the run is not numeric under a forced LTR) or the script has
   no horizontal direction and RTL was requested *)
Lemma processing_direction_not_btt : forall dir hor numeric,
  fst (ensure_native_direction dir hor numeric) <> BTT.
Proof.
  intros dir hor numeric. unfold ensure_native_direction.
  destruct dir, hor as [[| | |]|], numeric; cbn; discriminate.
Qed.

Lemma processing_direction_rtl : forall dir hor numeric,
  (hor = None \/ hor = Some LTR \/ hor = Some RTL) ->   (* Direction::from_script yields nothing else *)
  fst (ensure_native_direction dir hor numeric) = RTL ->
  (hor = Some RTL /\ (dir = LTR -> numeric = false)) \/ (hor = None /\ dir = RTL).
Proof.
  intros dir hor numeric Hh. unfold ensure_native_direction.
  destruct Hh as [-> | [-> | ->]]; destruct dir, numeric; cbn; intro H; try discriminate H;
    try (left; split; [reflexivity | intro E; try reflexivity; discriminate E]);
    try (right; split; reflexivity).
Qed.
