(* Proofs/MorxP.v — lemmas about Model/Morx.v and Model/MorxPipe.v for property C17. *)
From Coq Require Import List NArith ZArith Bool Arith Lia Permutation.
From RB Require Import Base.Result Model.Buffer Model.Font Model.Morx Model.MorxPipe.
Import ListNotations.
Local Open Scope N_scope.

(* ------------------------------------------------------------------ buffer array view *)

Lemma arr_of_arr : forall b a, arr (of_arr b a) = a.
Proof. intros. unfold arr, of_arr, with_pr. cbn. apply firstn_skipn. Qed.

(* ------------------------------------------------------------------ non-contextual *)

Definition nonctx_gid (l : aat_lookup) (ng g : N) : N :=
  match aat_value l RGlyph ng g with Some r => r | None => g end.

Lemma noncontextual_gids : forall l ng b,
  map gid (arr (apply_noncontextual l ng b)) = map (nonctx_gid l ng) (map gid (arr b)).
Proof.
  intros. unfold apply_noncontextual. rewrite arr_of_arr, !map_map.
  apply map_ext. intro x. unfold nonctx_glyph, nonctx_gid.
  destruct (aat_value l RGlyph ng (gid x)); reflexivity.
Qed.

Lemma noncontextual_clusters : forall l ng b,
  map cluster (arr (apply_noncontextual l ng b)) = map cluster (arr b).
Proof.
  intros. unfold apply_noncontextual. rewrite arr_of_arr, map_map.
  apply map_ext. intro x. unfold nonctx_glyph.
  destruct (aat_value l RGlyph ng (gid x)); reflexivity.
Qed.
