(* Proofs/MorxP.v — lemmas about Model/Morx.v and Model/MorxPipe.v for property C17. *)
From Coq Require Import List NArith ZArith Bool Arith Lia Permutation.
From RB Require Import Base.Result Model.Buffer Model.Font Model.Morx Model.MorxPipe.
Import ListNotations.
Local Open Scope N_scope.

(* ------------------------------------------------------------------ buffer array view *)

Lemma arr_of_arr : forall b a, arr (of_arr b a) = a.
Proof. intros. unfold arr, of_arr, with_pr. cbn. apply firstn_skipn. Qed.

(* ------------------------------------------------------------------ non-contextual *)

Definition nonctx_gid (l : aat_lookup) (ng g : N) : N :=
  match aat_value l RGlyph ng g with Some r => r | None => g end.

Lemma noncontextual_gids : forall l ng b,
  map gid (arr (apply_noncontextual l ng b)) = map (nonctx_gid l ng) (map gid (arr b)).
Proof.
  intros. unfold apply_noncontextual. rewrite arr_of_arr, !map_map.
  apply map_ext. intro x. unfold nonctx_glyph, nonctx_gid.
  destruct (aat_value l RGlyph ng (gid x)); reflexivity.
Qed.

Lemma noncontextual_clusters : forall l ng b,
  map cluster (arr (apply_noncontextual l ng b)) = map cluster (arr b).
Proof.
  intros. unfold apply_noncontextual. rewrite arr_of_arr, map_map.
  apply map_ext. intro x. unfold nonctx_glyph.
  destruct (aat_value l RGlyph ng (gid x)); reflexivity.
Qed.

(* ------------------------------------------------------------------ arrays: aset / aget *)

Local Close Scope N_scope.
Local Open Scope nat_scope.

Lemma upd_nth_length : forall A (l : list A) i v, length (upd_nth l i v) = length l.
Proof. induction l; intros [|i] v; cbn; auto. Qed.

Lemma nth_upd_nth : forall A (l : list A) i v j d, i < length l ->
  nth j (upd_nth l i v) d = if j =? i then v else nth j l d.
Proof.
  induction l; intros [|i] v [|j] d H; cbn in *; try lia; auto.
  apply IHl. lia.
Qed.

Lemma aset_length : forall a i x, length (aset a i x) = length a.
Proof. intros. apply upd_nth_length. Qed.

Lemma nth_aset_eq : forall a i x d, i < length a -> nth i (aset a i x) d = x.
Proof. intros. unfold aset. rewrite nth_upd_nth by auto. now rewrite Nat.eqb_refl. Qed.

Lemma nth_aset_neq : forall a i x j d, i < length a -> j <> i -> nth j (aset a i x) d = nth j a d.
Proof.
  intros. unfold aset. rewrite nth_upd_nth by auto.
  destruct (Nat.eqb_spec j i); [contradiction|reflexivity].
Qed.

(* ---- copy_loop, forwards: for i in 0..n: a[dst+i] = a[src+i], dst <= src *)
Lemma copy_fwd : forall n a dst src, dst <= src -> src + n <= length a ->
  length (copy_loop a dst src (seq 0 n)) = length a /\
  (forall j, dst <= j < dst + n -> nth j (copy_loop a dst src (seq 0 n)) dflt_info = nth (src + (j - dst)) a dflt_info) /\
  (forall j, ~ (dst <= j < dst + n) -> nth j (copy_loop a dst src (seq 0 n)) dflt_info = nth j a dflt_info).
Proof.
  induction n; intros a dst src Hle Hlen.
  - cbn. split; [reflexivity|]. split; intros; [lia|reflexivity].
  - rewrite seq_S. cbn [plus]. unfold copy_loop. rewrite fold_left_app. cbn [fold_left].
    fold (copy_loop a dst src (seq 0 n)).
    destruct (IHn a dst src Hle ltac:(lia)) as (HL & Hin & Hout).
    set (r := copy_loop a dst src (seq 0 n)) in *.
    assert (Hv : aget r (src + n) = nth (src + n) a dflt_info).
    { unfold aget. apply Hout. lia. }
    rewrite Hv. split; [rewrite aset_length; exact HL|]. split; intros j Hj.
    + destruct (Nat.eq_dec j (dst + n)).
      * subst j. rewrite nth_aset_eq by lia. f_equal. lia.
      * rewrite nth_aset_neq by lia. apply Hin. lia.
    + rewrite nth_aset_neq by lia. apply Hout. lia.
Qed.

(* ---- copy_loop, backwards: for i in (0..n).rev(): a[dst+i] = a[src+i], src <= dst *)
Lemma copy_bwd : forall n a dst src, src <= dst -> dst + n <= length a ->
  length (copy_loop a dst src (rev (seq 0 n))) = length a /\
  (forall j, dst <= j < dst + n -> nth j (copy_loop a dst src (rev (seq 0 n))) dflt_info = nth (src + (j - dst)) a dflt_info) /\
  (forall j, ~ (dst <= j < dst + n) -> nth j (copy_loop a dst src (rev (seq 0 n))) dflt_info = nth j a dflt_info).
Proof.
  induction n; intros a dst src Hle Hlen.
  - cbn. split; [reflexivity|]. split; intros; [lia|reflexivity].
  - rewrite seq_S, rev_app_distr. cbn [plus rev app]. unfold copy_loop. cbn [fold_left].
    set (a1 := aset a (dst + n) (aget a (src + n))).
    fold (copy_loop a1 dst src (rev (seq 0 n))).
    assert (HL1 : length a1 = length a) by apply aset_length.
    destruct (IHn a1 dst src Hle ltac:(lia)) as (HL & Hin & Hout).
    split; [lia|]. split; intros j Hj.
    + destruct (Nat.eq_dec j (dst + n)).
      * subst j. rewrite Hout by lia. unfold a1. rewrite nth_aset_eq by lia. unfold aget. f_equal. lia.
      * rewrite Hin by lia. unfold a1. apply nth_aset_neq; lia.
    + rewrite Hout by lia. unfold a1. apply nth_aset_neq; lia.
Qed.

(* ---- write_loop: for i in 0..len(v): a[p+i] = v[i] *)
Lemma write_loop_k : forall k a p v, k <= length v -> p + k <= length a ->
  let r := fold_left (fun a i => aset a (p + i) (aget v i)) (seq 0 k) a in
  length r = length a /\
  (forall j, p <= j < p + k -> nth j r dflt_info = nth (j - p) v dflt_info) /\
  (forall j, ~ (p <= j < p + k) -> nth j r dflt_info = nth j a dflt_info).
Proof.
  induction k; intros a p v Hk Hlen.
  - cbn. split; [reflexivity|]. split; intros; [lia|reflexivity].
  - rewrite seq_S. cbn [plus]. cbv zeta. rewrite fold_left_app. cbn [fold_left].
    destruct (IHk a p v ltac:(lia) ltac:(lia)) as (HL & Hin & Hout). cbv zeta in HL, Hin, Hout.
    set (r := fold_left (fun a i => aset a (p + i) (aget v i)) (seq 0 k) a) in *.
    split; [rewrite aset_length; exact HL|]. split; intros j Hj.
    + destruct (Nat.eq_dec j (p + k)).
      * subst j. rewrite nth_aset_eq by lia. unfold aget. f_equal. lia.
      * rewrite nth_aset_neq by lia. apply Hin. lia.
    + rewrite nth_aset_neq by lia. apply Hout. lia.
Qed.

Lemma write_loop_spec : forall a p v, p + length v <= length a ->
  length (write_loop a p v) = length a /\
  (forall j, p <= j < p + length v -> nth j (write_loop a p v) dflt_info = nth (j - p) v dflt_info) /\
  (forall j, ~ (p <= j < p + length v) -> nth j (write_loop a p v) dflt_info = nth j a dflt_info).
Proof. intros. unfold write_loop. apply (write_loop_k (length v) a p v); lia. Qed.

Lemma read_block_length : forall a p k, length (read_block a p k) = k.
Proof. intros. unfold read_block. now rewrite map_length, seq_length. Qed.

Lemma nth_read_block : forall a p k i, i < k -> nth i (read_block a p k) dflt_info = nth (p + i) a dflt_info.
Proof.
  intros. unfold read_block.
  rewrite (nth_indep _ dflt_info (aget a (p + 0))) by (rewrite map_length, seq_length; lia).
  change (aget a (p + 0)) with ((fun i => aget a (p + i)) 0).
  rewrite map_nth. rewrite seq_nth by lia. reflexivity.
Qed.

(* ------------------------------------------------------------------ rearrangement: the verb body *)

Lemma nth_app3_1 : forall (A M D : list info) k, k < length A -> nth k (A ++ M ++ D) dflt_info = nth k A dflt_info.
Proof. intros. now rewrite app_nth1. Qed.
Lemma nth_app3_2 : forall (A M D : list info) k, k < length M ->
  nth (length A + k) (A ++ M ++ D) dflt_info = nth k M dflt_info.
Proof. intros. rewrite app_nth2_plus. now rewrite app_nth1. Qed.
Lemma nth_app3_3 : forall (A M D : list info) k,
  nth (length A + length M + k) (A ++ M ++ D) dflt_info = nth k D dflt_info.
Proof. intros. rewrite <- Nat.add_assoc, app_nth2_plus. now rewrite app_nth2_plus. Qed.

(* the copy / write-back part of the verb: the first l and the last r glyphs change sides, the
   middle keeps its order — for every middle *)
Lemma rearrange_core : forall (A mid D : list info),
  let l := length A in let r := length D in
  let rng := A ++ mid ++ D in
  let en := length rng in
  let n := en - l - r in
  let a1 := if r <? l then copy_loop rng r l (seq 0 n)
            else if l <? r then copy_loop rng r l (rev (seq 0 n)) else rng in
  let a2 := write_loop a1 0 (read_block rng (en - r) r) in
  let a3 := write_loop a2 (en - l) (read_block rng 0 l) in
  a3 = D ++ mid ++ A.
Proof.
  intros A mid D l r rng en n a1 a2 a3.
  assert (Hen : en = l + length mid + r) by (unfold en, rng, l, r; rewrite !app_length; lia).
  assert (Hn : n = length mid) by (unfold n; lia).
  (* a1 *)
  assert (H1 : length a1 = en /\
               (forall j, r <= j < r + n -> nth j a1 dflt_info = nth (l + (j - r)) rng dflt_info) /\
               (forall j, ~ (r <= j < r + n) -> nth j a1 dflt_info = nth j rng dflt_info)).
  { unfold a1. destruct (r <? l) eqn:E1.
    - apply Nat.ltb_lt in E1. apply copy_fwd; fold en; lia.
    - destruct (l <? r) eqn:E2.
      + apply Nat.ltb_lt in E2. apply copy_bwd; fold en; lia.
      + apply Nat.ltb_ge in E1. apply Nat.ltb_ge in E2. assert (l = r) by lia.
        split; [reflexivity|]. split; intros; [f_equal; lia|reflexivity]. }
  destruct H1 as (L1 & In1 & Out1).
  (* a2 *)
  assert (Lr : length (read_block rng (en - r) r) = r) by apply read_block_length.
  assert (Ll : length (read_block rng 0 l) = l) by apply read_block_length.
  destruct (write_loop_spec a1 0 (read_block rng (en - r) r) ltac:(lia)) as (L2 & In2 & Out2).
  fold a2 in L2, In2, Out2. rewrite Lr in In2, Out2.
  destruct (write_loop_spec a2 (en - l) (read_block rng 0 l) ltac:(lia)) as (L3 & In3 & Out3).
  fold a3 in L3, In3, Out3. rewrite Ll in In3, Out3.
  apply (nth_ext _ _ dflt_info dflt_info).
  - rewrite L3, L2, L1, Hen, !app_length. fold l r. lia.
  - intros j Hj. rewrite L3, L2, L1 in Hj.
    destruct (Nat.lt_ge_cases j r) as [Hjr|Hjr].
    + (* the first r glyphs: D *)
      rewrite Out3 by lia. rewrite In2 by lia. rewrite nth_read_block by lia.
      replace (en - r + (j - 0)) with (l + length mid + j) by lia.
      unfold rng, l. rewrite nth_app3_3. symmetry. apply nth_app3_1. fold r. lia.
    + destruct (Nat.lt_ge_cases j (r + n)) as [Hjm|Hjm].
      * (* the middle *)
        rewrite Out3 by lia. rewrite Out2 by lia. rewrite In1 by lia.
        unfold rng, l. rewrite nth_app3_2 by lia.
        replace j with (length D + (j - r)) at 2 by (fold r; lia).
        symmetry. apply nth_app3_2. lia.
      * (* the last l glyphs: A *)
        rewrite In3 by lia. rewrite nth_read_block by lia. cbn [plus].
        unfold rng. rewrite nth_app3_1 by (fold l; lia).
        replace j with (length D + length mid + (j - (en - l))) at 2 by (fold r; lia).
        symmetry. apply nth_app3_3.
Qed.

Lemma upd_nth_app_r : forall A (P Q : list A) k v, upd_nth (P ++ Q) (length P + k) v = P ++ upd_nth Q k v.
Proof. induction P; intros; cbn; [reflexivity|]. now rewrite IHP. Qed.

Lemma upd_nth_app_r0 : forall A (P Q : list A) v, upd_nth (P ++ Q) (length P) v = P ++ upd_nth Q 0 v.
Proof. intros. rewrite <- (Nat.add_0_r (length P)) at 1. apply upd_nth_app_r. Qed.
Lemma nth_app_len0 : forall A (P Q : list A) d, nth (length P) (P ++ Q) d = nth 0 Q d.
Proof. intros. rewrite <- (Nat.add_0_r (length P)) at 1. apply app_nth2_plus. Qed.

Lemma aswap_last2 : forall P x y, aswap (P ++ [x; y]) (length P + 1) (length P) = P ++ [y; x].
Proof.
  intros. unfold aswap, aget, aset. cbv zeta.
  rewrite app_nth2_plus, nth_app_len0. cbn [nth].
  rewrite upd_nth_app_r. cbn [upd_nth]. rewrite upd_nth_app_r0. reflexivity.
Qed.

Lemma aswap_first2 : forall x y T, aswap (x :: y :: T) 0 1 = y :: x :: T.
Proof. reflexivity. Qed.

Definition swapif (b : bool) (l : list info) : list info := if b then rev l else l.

Lemma map_l_le2 : forall m, map_l m <= 2. Proof. intro. unfold map_l. lia. Qed.
Lemma map_r_le2 : forall m, map_r m <= 2. Proof. intro. unfold map_r. lia. Qed.
Lemma map_rev_l_2 : forall m, map_rev_l m = true -> map_l m = 2.
Proof. unfold map_rev_l, map_l. intros m H. apply N.eqb_eq in H. rewrite H. reflexivity. Qed.
Lemma map_rev_r_2 : forall m, map_rev_r m = true -> map_r m = 2.
Proof. unfold map_rev_r, map_r. intros m H. apply N.eqb_eq in H. rewrite H. reflexivity. Qed.

(* the whole verb body on the marked range A ++ mid ++ D (|A| = l, |D| = r nibbles of MAP) *)
Lemma rearrange_range_spec : forall m A mid D,
  length A = map_l m -> length D = map_r m -> length (A ++ mid ++ D) <= MAX_CONTEXT_LENGTH ->
  rearrange_range m (A ++ mid ++ D) = swapif (map_rev_r m) D ++ mid ++ swapif (map_rev_l m) A.
Proof.
  intros m A mid D HA HD Hlen. unfold rearrange_range.
  assert (Hen : length (A ++ mid ++ D) = length A + length mid + length D) by (rewrite !app_length; lia).
  rewrite <- HA, <- HD.
  replace ((length A + length D <=? length (A ++ mid ++ D)) && (length (A ++ mid ++ D) <=? MAX_CONTEXT_LENGTH)) with true.
  2:{ symmetry. apply andb_true_iff. split; apply Nat.leb_le; lia. }
  cbv zeta. rewrite (rearrange_core A mid D).
  destruct (map_rev_l m) eqn:RL.
  - apply map_rev_l_2 in RL. rewrite <- HA in RL.
    destruct A as [|x [|y [|? ?]]]; cbn in RL; try discriminate.
    replace (length ([x; y] ++ mid ++ D) - 1) with (length (D ++ mid) + 1) by (rewrite !app_length; cbn; lia).
    replace (length ([x; y] ++ mid ++ D) - 2) with (length (D ++ mid)) by (rewrite !app_length; cbn; lia).
    rewrite (app_assoc D mid [x; y]), aswap_last2, <- app_assoc.
    destruct (map_rev_r m) eqn:RR.
    + apply map_rev_r_2 in RR. rewrite <- HD in RR.
      destruct D as [|c [|d [|? ?]]]; cbn in RR; try discriminate. reflexivity.
    + reflexivity.
  - destruct (map_rev_r m) eqn:RR.
    + apply map_rev_r_2 in RR. rewrite <- HD in RR.
      destruct D as [|c [|d [|? ?]]]; cbn in RR; try discriminate. reflexivity.
    + reflexivity.
Qed.

(* ranges that are too short for the verb, or longer than HB_MAX_CONTEXT_LENGTH, are left alone *)
Lemma rearrange_range_skip : forall m rng,
  length rng < map_l m + map_r m \/ MAX_CONTEXT_LENGTH < length rng -> rearrange_range m rng = rng.
Proof.
  intros m rng H. unfold rearrange_range.
  replace ((map_l m + map_r m <=? length rng) && (length rng <=? MAX_CONTEXT_LENGTH)) with false; [reflexivity|].
  symmetry. apply andb_false_iff. destruct H; [left|right]; apply Nat.leb_gt; lia.
Qed.

Lemma verb_general : forall v A x D m, nth v REARR_MAP 0%N = m ->
  length A = map_l m -> length D = map_r m -> length (A ++ x ++ D) <= MAX_CONTEXT_LENGTH ->
  rearrange_range (nth v REARR_MAP 0%N) (A ++ x ++ D) = swapif (map_rev_r m) D ++ x ++ swapif (map_rev_l m) A.
Proof. intros v A x D m <- HA HD HL. now apply rearrange_range_spec. Qed.

Definition len_ok (l : list info) : Prop := length l <= MAX_CONTEXT_LENGTH.

(* Apple's verb table, for every marked range (arbitrary middle x) within HB_MAX_CONTEXT_LENGTH *)
Definition verb_table_statement : Prop := forall (a b c d : info) (x : list info),
  (len_ok x -> rearrange_verb 0 x = x) /\
  (len_ok (a :: x) -> rearrange_verb 1 (a :: x) = x ++ [a]) /\
  (len_ok (x ++ [d]) -> rearrange_verb 2 (x ++ [d]) = d :: x) /\
  (len_ok (a :: x ++ [d]) -> rearrange_verb 3 (a :: x ++ [d]) = d :: x ++ [a]) /\
  (len_ok (a :: b :: x) -> rearrange_verb 4 (a :: b :: x) = x ++ [a; b]) /\
  (len_ok (a :: b :: x) -> rearrange_verb 5 (a :: b :: x) = x ++ [b; a]) /\
  (len_ok (x ++ [c; d]) -> rearrange_verb 6 (x ++ [c; d]) = c :: d :: x) /\
  (len_ok (x ++ [c; d]) -> rearrange_verb 7 (x ++ [c; d]) = d :: c :: x) /\
  (len_ok (a :: x ++ [c; d]) -> rearrange_verb 8 (a :: x ++ [c; d]) = c :: d :: x ++ [a]) /\
  (len_ok (a :: x ++ [c; d]) -> rearrange_verb 9 (a :: x ++ [c; d]) = d :: c :: x ++ [a]) /\
  (len_ok (a :: b :: x ++ [d]) -> rearrange_verb 10 (a :: b :: x ++ [d]) = d :: x ++ [a; b]) /\
  (len_ok (a :: b :: x ++ [d]) -> rearrange_verb 11 (a :: b :: x ++ [d]) = d :: x ++ [b; a]) /\
  (len_ok (a :: b :: x ++ [c; d]) -> rearrange_verb 12 (a :: b :: x ++ [c; d]) = c :: d :: x ++ [a; b]) /\
  (len_ok (a :: b :: x ++ [c; d]) -> rearrange_verb 13 (a :: b :: x ++ [c; d]) = c :: d :: x ++ [b; a]) /\
  (len_ok (a :: b :: x ++ [c; d]) -> rearrange_verb 14 (a :: b :: x ++ [c; d]) = d :: c :: x ++ [a; b]) /\
  (len_ok (a :: b :: x ++ [c; d]) -> rearrange_verb 15 (a :: b :: x ++ [c; d]) = d :: c :: x ++ [b; a]).

Ltac verb v A x D m H :=
  let E := fresh "E" in
  let E' := fresh "E'" in
  assert (E : length (A ++ x ++ D) <= MAX_CONTEXT_LENGTH) by (cbn [app]; rewrite ?app_nil_r; exact H);
  pose proof (verb_general v A x D m eq_refl eq_refl eq_refl E) as E';
  let tr := eval vm_compute in (map_rev_r m) in change (map_rev_r m) with tr in E';
  let tl := eval vm_compute in (map_rev_l m) in change (map_rev_l m) with tl in E';
  cbv [swapif] in E'; cbn [app rev] in E'; rewrite ?app_nil_r in E'; exact E'.

Lemma verb_table : verb_table_statement.
Proof.
  intros a b c d x. unfold len_ok, rearrange_verb.
  repeat split; intro H.
  - verb 0 (@nil info) x (@nil info) 0x00%N H.
  - verb 1 [a] x (@nil info) 0x10%N H.
  - verb 2 (@nil info) x [d] 0x01%N H.
  - verb 3 [a] x [d] 0x11%N H.
  - verb 4 [a; b] x (@nil info) 0x20%N H.
  - verb 5 [a; b] x (@nil info) 0x30%N H.
  - verb 6 (@nil info) x [c; d] 0x02%N H.
  - verb 7 (@nil info) x [c; d] 0x03%N H.
  - verb 8 [a] x [c; d] 0x12%N H.
  - verb 9 [a] x [c; d] 0x13%N H.
  - verb 10 [a; b] x [d] 0x21%N H.
  - verb 11 [a; b] x [d] 0x31%N H.
  - verb 12 [a; b] x [c; d] 0x22%N H.
  - verb 13 [a; b] x [c; d] 0x32%N H.
  - verb 14 [a; b] x [c; d] 0x23%N H.
  - verb 15 [a; b] x [c; d] 0x33%N H.
Qed.

(* ---- the verb is a permutation of the marked range, whatever the range *)
Lemma swapif_perm : forall b l, Permutation (swapif b l) l.
Proof. intros [|] l; cbn; [symmetry; apply Permutation_rev|reflexivity]. Qed.

Lemma rearrange_range_perm : forall m rng, Permutation (rearrange_range m rng) rng.
Proof.
  intros m rng.
  destruct (Nat.lt_ge_cases (length rng) (map_l m + map_r m)) as [Hs|Hs].
  { rewrite rearrange_range_skip by (left; exact Hs). reflexivity. }
  destruct (Nat.lt_ge_cases MAX_CONTEXT_LENGTH (length rng)) as [Hl|Hl].
  { rewrite rearrange_range_skip by (right; exact Hl). reflexivity. }
  set (A := firstn (map_l m) rng). set (t := skipn (map_l m) rng).
  set (mid := firstn (length t - map_r m) t). set (D := skipn (length t - map_r m) t).
  assert (E : rng = A ++ mid ++ D).
  { unfold A, mid, D, t. now rewrite !firstn_skipn. }
  assert (HA : length A = map_l m) by (unfold A; rewrite firstn_length; lia).
  assert (Ht : length t = length rng - map_l m) by (unfold t; apply skipn_length).
  assert (HD : length D = map_r m) by (unfold D; rewrite skipn_length; lia).
  rewrite E at 1. rewrite rearrange_range_spec by (rewrite <- ?E; auto).
  rewrite E.
  etransitivity.
  { apply Permutation_app; [apply swapif_perm|apply Permutation_app; [reflexivity|apply swapif_perm]]. }
  rewrite (app_assoc A mid D).
  etransitivity; [apply Permutation_app_comm|].
  apply Permutation_app_tail. apply Permutation_app_comm.
Qed.

Lemma rearrange_range_length : forall m rng, length (rearrange_range m rng) = length rng.
Proof. intros. apply Permutation_length, rearrange_range_perm. Qed.

(* ------------------------------------------------------------------ chain flags and gating *)

Local Open Scope N_scope.

(* without a `feat` table no feature is ever requested: the compiled flags are the defaults *)
Lemma chain_flags_default : forall c, chain_flags no_feature c = mc_default_flags c.
Proof.
  intro c. unfold chain_flags. generalize (mc_default_flags c).
  induction (mc_features c) as [|f t IH]; intro fl; cbn [fold_left]; [reflexivity|].
  unfold no_feature at 1 2. rewrite andb_false_r. apply IH.
Qed.

Lemma has_spec : forall f m, has f m = true <-> N.land f m <> 0.
Proof.
  intros. unfold has. rewrite negb_true_iff. split; intro H.
  - now apply N.eqb_neq.
  - now apply N.eqb_neq.
Qed.

(* a subtable runs iff its feature flags meet the chain's compiled flags and its coverage admits
   the buffer direction — the two tests of `apply`, in the code's terms *)
Lemma sub_runs_spec : forall flags d s,
  sub_runs flags d s = true <->
  N.land (ms_sub_feature_flags s) flags <> 0 /\
  (N.land (ms_coverage s) 0x20000000 <> 0 \/
   (dir_vertical d = true <-> N.land (ms_coverage s) 0x80000000 <> 0)).
Proof.
  intros. unfold sub_runs, sub_enabled, sub_dir_ok, cov_all_directions, cov_vertical.
  rewrite andb_true_iff, orb_true_iff, negb_true_iff, N.eqb_neq, has_spec.
  split; intros [H1 H2]; (split; [exact H1|]).
  - destruct H2 as [H2|H2]; [left; exact H2|right].
    apply eqb_prop in H2. rewrite H2. apply has_spec.
  - destruct H2 as [H2|H2]; [left; exact H2|right].
    apply eqb_true_iff. rewrite <- has_spec in H2.
    destruct (dir_vertical d), (has (ms_coverage s) 2147483648); intuition congruence.
Qed.

(* the step of `run_subtables` on a subtable ttf-parser accepts *)
Lemma run_subtables_step : forall ng d flags s t p, kind_parses (ms_kind s) = true ->
  run_subtables ng d flags (s :: t) p =
  if sub_runs flags d s then (do p1 <- run_subtable ng d s p; run_subtables ng d flags t p1)
  else run_subtables ng d flags t p.
Proof. intros. cbn [run_subtables]. rewrite H. reflexivity. Qed.

(* ------------------------------------------------------------------ paired reversals *)

Local Close Scope N_scope.
Local Open Scope nat_scope.

Definition inplace_inv (b : zbuf) : Prop := dead b = length (pre b).

Lemma blen_arr : forall b, inplace_inv b -> blen b = length (arr b).
Proof. intros b H. unfold blen, arr. rewrite app_length, H. reflexivity. Qed.

Lemma of_arr_inv : forall b a, inplace_inv b -> length a = length (arr b) -> inplace_inv (of_arr b a).
Proof.
  intros b a H L. unfold inplace_inv, of_arr, with_pr. cbn. rewrite firstn_length.
  unfold arr in L. rewrite app_length in L. unfold inplace_inv in H. lia.
Qed.

Lemma reverse_arr : forall b b', inplace_inv b -> reverse b = Ok b' ->
  arr b' = rev (arr b) /\ inplace_inv b' /\ dead b' = dead b.
Proof.
  intros b b' Hinv H. unfold reverse, reverse_range in H. rewrite (blen_arr b Hinv) in H.
  rewrite Nat.sub_0_r in H.
  destruct (length (arr b) <? 2) eqn:E.
  - inversion H; subst b'. apply Nat.ltb_lt in E. split; [|split; auto].
    destruct (arr b) as [|x [|y l]]; cbn in *; try reflexivity; lia.
  - rewrite Nat.ltb_irrefl in H. inversion H; subst b'. clear H.
    unfold slice. rewrite Nat.sub_0_r. cbn [skipn firstn app].
    rewrite firstn_all, skipn_all, app_nil_r.
    split; [apply arr_of_arr|]. split; [|reflexivity].
    apply of_arr_inv; [exact Hinv|apply rev_length].
Qed.

Lemma maybe_reverse_twice : forall r b b0 b1, inplace_inv b ->
  maybe_reverse r b = Ok b0 -> maybe_reverse r b0 = Ok b1 -> arr b1 = arr b /\ dead b1 = dead b.
Proof.
  intros [|] b b0 b1 Hinv H0 H1; cbn in *.
  - destruct (reverse_arr _ _ Hinv H0) as (A0 & I0 & D0).
    destruct (reverse_arr _ _ I0 H1) as (A1 & I1 & D1).
    split; [rewrite A1, A0; apply rev_involutive|congruence].
  - inversion H0; inversion H1; subst. auto.
Qed.

(* run_subtable brackets apply_subtable with the same reversal decision on both sides *)
Lemma run_subtable_paired : forall ng d s p p', run_subtable ng d s p = Ok p' ->
  exists b0 b1 ops amb,
    maybe_reverse (sub_reverse d s) (p_buf p) = Ok b0 /\
    apply_subtable (ms_kind s) ng b0 (p_ops p) = Ok (b1, ops, amb) /\
    maybe_reverse (sub_reverse d s) b1 = Ok (p_buf p').
Proof.
  intros ng d s p p' H. unfold run_subtable in H.
  destruct (maybe_reverse (sub_reverse d s) (p_buf p)) as [b0|] eqn:E0; cbn in H; [|discriminate].
  destruct (apply_subtable (ms_kind s) ng b0 (p_ops p)) as [[[b1 ops] amb]|] eqn:E1; cbn in H; [|discriminate].
  destruct (maybe_reverse (sub_reverse d s) b1) as [b2|] eqn:E2; cbn in H; [|discriminate].
  inversion H; subst p'. cbn. exists b0, b1, ops, amb. auto.
Qed.

(* the reverse decision, as the table in the code's comment: logical => backwards bit;
   otherwise backwards bit XOR buffer direction backward *)
Lemma sub_reverse_spec : forall d s,
  sub_reverse d s = (if cov_logical s then cov_backwards s else negb (Bool.eqb (cov_backwards s) (dir_backward d))).
Proof. intros. unfold sub_reverse. destruct (cov_logical s), (cov_backwards s), (dir_backward d); reflexivity. Qed.

(* ------------------------------------------------------------------ drive: totality *)

Section DriveTotal.
  Context {E C : Type} (M : machine E C) (st : state_table E) (ng : N).
  Variable Inv : zbuf -> Prop.

  Definition pot (b : zbuf) (ops : Z) : nat := length (rest b) + Z.to_nat ops.

  (* a transition that leaves the buffer successful keeps the invariant and does not raise the
     potential (remaining input + remaining DONT_ADVANCE budget) *)
  Hypothesis Htrans : forall c e b ops c' b' ops' a,
    Inv b -> m_transition M c e b ops = Ok (c', b', ops', a) -> ok b' = true ->
    Inv b' /\ pot b' ops' <= pot b ops.
  Hypothesis Hnext : forall b b2,
    Inv b -> rest b <> [] -> next_glyph b = Ok b2 -> ok b2 = true -> Inv b2 /\ length (rest b2) < length (rest b).

  Lemma drive_loop_total : forall fuel state c b ops amb,
    Inv b -> pot b ops < fuel -> drive_loop M st ng fuel state c b ops amb <> None.
  Proof.
    induction fuel; intros state c b ops amb HI Hp; [lia|].
    cbn [drive_loop].
    destruct (st_entry st state (cur_class st ng b)) as [e|]; [|discriminate].
    destruct (m_transition M c e b ops) as [[[[c1 b1] ops1] a1]|] eqn:ET; [|discriminate].
    destruct (rest b1) as [|x t] eqn:ER; [discriminate|].
    destruct (ok b1) eqn:EO; cbn [negb]; [|discriminate].
    destruct (Htrans _ _ _ _ _ _ _ _ HI ET EO) as (HI1 & Hp1).
    assert (Hne : rest b1 <> []) by (rewrite ER; discriminate).
    destruct (m_can_advance M e).
    - destruct (next_glyph b1) as [b2|] eqn:EN; [|discriminate].
      destruct (ok b2) eqn:EO2; [|discriminate].
      destruct (Hnext _ _ HI1 Hne EN EO2) as (HI2 & Hl).
      apply IHfuel; [exact HI2|]. unfold pot in *. lia.
    - destruct (ops1 <=? 0)%Z eqn:EZ.
      + destruct (next_glyph b1) as [b2|] eqn:EN; [|discriminate].
        destruct (ok b2) eqn:EO2; [|discriminate].
        destruct (Hnext _ _ HI1 Hne EN EO2) as (HI2 & Hl).
        apply IHfuel; [exact HI2|]. apply Z.leb_le in EZ. unfold pot in *.
        replace (Z.to_nat (ops1 - 1)) with 0 by lia. lia.
      + rewrite EO. apply IHfuel; [exact HI1|]. apply Z.leb_gt in EZ. unfold pot in *.
        replace (Z.to_nat (ops1 - 1)) with (Z.to_nat ops1 - 1) by lia. lia.
  Qed.
End DriveTotal.

(* ---- in-place buffers: idx = |pre|, no output mode *)
Definition inplace (b : zbuf) : Prop := out_mode b = false /\ inplace_inv b.

Lemma map_range_length : forall A (f : A -> A) l s e, length (map_range f s e l) = length l.
Proof. induction l; intros [|s] [|e]; cbn; auto. Qed.

Lemma inplace_of_arr : forall b a, inplace b -> length a = length (arr b) ->
  inplace (of_arr b a) /\ length (rest (of_arr b a)) = length (rest b) /\ ok (of_arr b a) = ok b.
Proof.
  intros b a [Hm Hi] L. split; [split; [exact Hm|now apply of_arr_inv]|]. split; [|reflexivity].
  unfold of_arr, with_pr. cbn. rewrite skipn_length, L. unfold arr. rewrite app_length.
  unfold inplace_inv in Hi. lia.
Qed.

Lemma inplace_next_glyph : forall b b2, inplace b -> rest b <> [] -> next_glyph b = Ok b2 -> ok b2 = true ->
  inplace b2 /\ length (rest b2) < length (rest b).
Proof.
  intros b b2 [Hm Hi] Hne H _. unfold next_glyph in H. destruct (rest b) as [|x t] eqn:ER; [congruence|].
  rewrite Hm in H. inversion H; subst b2. unfold inplace, inplace_inv, with_pr. cbn.
  rewrite app_length. cbn. unfold inplace_inv in Hi. split; [split; [exact Hm|lia]|lia].
Qed.

Lemma flag_while_length : forall c stop m l, length (fst (flag_while_ne_fwd c stop m l)) = length l.
Proof.
  induction l; cbn; [reflexivity|].
  destruct (N.eqb (cluster a) stop); [reflexivity|].
  destruct (flag_while_ne_fwd c stop m l) as [t' ap] eqn:EF. cbn in IHl.
  destruct (N.eqb (cluster a) c); cbn; now rewrite IHl.
Qed.

Lemma infos_set_glyph_flags_length : forall lvl l s e c m r, s <= e ->
  infos_set_glyph_flags lvl l s e c m = Ok r -> length (fst r) = length l.
Proof.
  intros lvl l s e c m r Hse H. unfold infos_set_glyph_flags in H.
  destruct (s =? e) eqn:E0; [inversion H; reflexivity|].
  destruct (nth_error l s) as [first|] eqn:E1; [|discriminate].
  destruct (nth_error l (e - 1)) as [last|] eqn:E2; [|discriminate].
  assert (Hs : s < length l) by (apply nth_error_Some; congruence).
  assert (He : e - 1 < length l) by (apply nth_error_Some; congruence).
  apply Nat.eqb_neq in E0.
  assert (HL : length (firstn s l) + length (slice l s e) + length (skipn e l) = length l).
  { unfold slice. rewrite !firstn_length, !skipn_length. lia. }
  destruct ((lvl =? 2)%N || (negb (c =? cluster first)%N && negb (c =? cluster last)%N))%bool.
  - destruct (flag_all_ne c m (slice l s e)) as [mid' ap] eqn:EF. inversion H; subst r. cbn.
    unfold flag_all_ne in EF. inversion EF; subst mid'. rewrite !app_length, map_length. lia.
  - destruct (c =? cluster first)%N.
    + destruct (flag_while_ne_fwd c (cluster first) m (rev (slice l s e))) as [r' ap] eqn:EF.
      inversion H; subst r. cbn. rewrite !app_length, rev_length.
      replace (length r') with (length (fst (flag_while_ne_fwd c (cluster first) m (rev (slice l s e))))) by (now rewrite EF).
      rewrite flag_while_length, rev_length. lia.
    + destruct (flag_while_ne_fwd c (cluster last) m (slice l s e)) as [mid' ap] eqn:EF.
      inversion H; subst r. cbn. rewrite !app_length.
      replace (length mid') with (length (fst (flag_while_ne_fwd c (cluster last) m (slice l s e)))) by (now rewrite EF).
      rewrite flag_while_length. lia.
Qed.

(* the facts the potential argument needs about an in-place buffer operation *)
Definition keeps_inplace (b b' : zbuf) : Prop :=
  inplace b' /\ length (rest b') = length (rest b) /\ ok b' = ok b /\
  length (arr b') = length (arr b) /\ dead b' = dead b /\ level b' = level b.

Lemma keeps_inplace_refl : forall b, inplace b -> keeps_inplace b b.
Proof. intros b H. repeat split; try apply H; reflexivity. Qed.

Lemma keeps_inplace_trans : forall a b c, keeps_inplace a b -> keeps_inplace b c -> keeps_inplace a c.
Proof. intros a b c (I1&R1&O1&A1&D1&L1) (I2&R2&O2&A2&D2&L2). repeat split; try apply I2; congruence. Qed.

Lemma keeps_inplace_of_arr : forall b a, inplace b -> length a = length (arr b) -> keeps_inplace b (of_arr b a).
Proof.
  intros b a H L. destruct (inplace_of_arr b a H L) as (I & R & O).
  repeat split; try apply I; auto. now rewrite arr_of_arr.
Qed.

Lemma keeps_inplace_scratch : forall b s, inplace b -> keeps_inplace b (with_scratch b s).
Proof. intros b s [Hm Hi]. repeat split; auto. Qed.

Lemma keeps_inplace_add_scratch : forall b a, inplace b -> keeps_inplace b (add_scratch b a).
Proof. intros b [|] H; cbn; [now apply keeps_inplace_scratch|now apply keeps_inplace_refl]. Qed.

Lemma set_glyph_flags_inplace : forall b m s e b', inplace b ->
  set_glyph_flags b m (Some s) (Some e) true false = Ok b' -> keeps_inplace b b'.
Proof.
  intros b m s e b' Hin H. unfold set_glyph_flags in H.
  set (e' := Nat.min e (blen b)) in *.
  destruct (e' <? s) eqn:E0; [discriminate|]. apply Nat.ltb_ge in E0.
  cbn [andb negb] in H.
  destruct (e' - s <? 2) eqn:E1; [inversion H; subst; now apply keeps_inplace_refl|].
  cbn [negb orb] in H.
  set (bs := with_scratch b (N.lor (scratch b) SCRATCH_HAS_GLYPH_FLAGS)) in *.
  assert (Hbs : keeps_inplace b bs) by (now apply keeps_inplace_scratch).
  destruct Hin as [Hm Hi].
  assert (Hm' : out_mode bs = false) by exact Hm. rewrite Hm' in H.
  match type of H with bind ?x _ = _ => destruct x as [c|] eqn:EC end; cbn [bind] in H; [|discriminate].
  match type of H with bind ?x _ = _ => destruct x as [r|] eqn:ER end; cbn [bind] in H; [|discriminate].
  inversion H; subst b'. clear H.
  apply infos_set_glyph_flags_length in ER; [|exact E0].
  match goal with |- keeps_inplace b (add_scratch ?x ?y) => change x with (of_arr bs (fst r)) end.
  pose proof (keeps_inplace_of_arr bs (fst r) (proj1 Hbs) ER) as K.
  eapply keeps_inplace_trans; [exact Hbs|].
  eapply keeps_inplace_trans; [exact K|].
  apply keeps_inplace_add_scratch. apply K.
Qed.

Lemma merge_clusters_full_inplace : forall b s e b', inplace b ->
  merge_clusters_full b s e = Ok b' -> keeps_inplace b b'.
Proof.
  intros b s e b' Hin H. unfold merge_clusters_full in H.
  destruct (e - s <? 2); [inversion H; subst; now apply keeps_inplace_refl|].
  destruct (level b =? 2)%N.
  - unfold unsafe_to_break in H. eapply set_glyph_flags_inplace; eauto.
  - unfold merge_clusters in H.
    destruct (e - s <? 2); [inversion H; subst; now apply keeps_inplace_refl|].
    destruct (level b =? 2)%N; [inversion H; subst; now apply keeps_inplace_refl|].
    destruct Hin as [Hm Hi]. rewrite Hm in H.
    unfold merge_array in H.
    destruct (nth_error (pre b ++ rest b) s) as [first|]; [|discriminate].
    destruct (nth_error (pre b ++ rest b) (e - 1)) as [last|]; [|discriminate].
    cbn in H. inversion H; subst b'. clear H.
    match goal with |- keeps_inplace b (with_pr b (firstn (dead b) ?a) (skipn (dead b) ?a) (dead b)) =>
      change (keeps_inplace b (of_arr b a)) end.
    apply keeps_inplace_of_arr; [split; assumption|]. apply map_range_length.
Qed.

(* ---- rearrangement transition *)
Lemma rearr_transition_inplace : forall c e b ops c' b' ops' a, inplace b ->
  rearr_transition c e b ops = Ok (c', b', ops', a) -> keeps_inplace b b' /\ ops' = ops.
Proof.
  intros c e b ops c' b' ops' a Hin H. unfold rearr_transition in H.
  match type of H with (if ?t then _ else _) = _ => destruct t eqn:ET end.
  2:{ inversion H; subst. split; [now apply keeps_inplace_refl|reflexivity]. }
  apply andb_true_iff in ET. destruct ET as [_ ET]. apply Nat.ltb_lt in ET.
  match type of H with (if ?t then _ else _) = _ => destruct t end.
  2:{ inversion H; subst. split; [now apply keeps_inplace_refl|reflexivity]. }
  match type of H with bind ?x _ = _ => destruct x as [b1|] eqn:E1 end; cbn [bind] in H; [|discriminate].
  match type of H with bind ?x _ = _ => destruct x as [b2|] eqn:E2 end; cbn [bind] in H; [|discriminate].
  inversion H; subst c' b' ops' a. clear H. split; [|reflexivity].
  pose proof (merge_clusters_full_inplace _ _ _ _ Hin E1) as K1.
  pose proof (merge_clusters_full_inplace _ _ _ _ (proj1 K1) E2) as K2.
  eapply keeps_inplace_trans; [exact K1|]. eapply keeps_inplace_trans; [exact K2|].
  apply keeps_inplace_of_arr; [apply K2|].
  set (arr2 := arr b2).
  match goal with |- length (firstn ?s arr2 ++ rearrange_range ?m (slice arr2 ?s ?en) ++ skipn ?en arr2) = _ =>
    set (s0 := s) in *; set (en0 := en) in * end.
  rewrite !app_length, rearrange_range_length. unfold slice.
  rewrite !firstn_length, !skipn_length. lia.
Qed.

(* ---- contextual transition *)
Lemma set_gid_at_inplace : forall b i g, inplace b -> keeps_inplace b (set_gid_at b i g).
Proof. intros. unfold set_gid_at. apply keeps_inplace_of_arr; [assumption|apply map_range_length]. Qed.

Lemma ctx_transition_inplace : forall subs ng c e b ops c' b' ops' a, inplace b ->
  ctx_transition subs ng c e b ops = Ok (c', b', ops', a) -> keeps_inplace b b' /\ ops' = ops.
Proof.
  intros subs ng [ms mk] e b ops c' b' ops' a Hin H. unfold ctx_transition in H.
  match type of H with (if ?t then _ else _) = _ => destruct t end.
  { inversion H; subst. split; [now apply keeps_inplace_refl|reflexivity]. }
  match type of H with bind ?x _ = _ => destruct x as [gm|] end; cbn [bind] in H; [|discriminate].
  destruct (ctx_replacement subs ng (ce_mark_index e) gm) as [rm|amb].
  2:{ inversion H; subst. split; [now apply keeps_inplace_refl|reflexivity]. }
  set (b1 := match rm with Some r => set_gid_at b mk r | None => b end) in *.
  assert (K1 : keeps_inplace b b1).
  { unfold b1. destruct rm; [now apply set_gid_at_inplace|now apply keeps_inplace_refl]. }
  destruct (blen b =? 0); [discriminate|].
  match type of H with bind ?x _ = _ => destruct x as [gc|] end; cbn [bind] in H; [|discriminate].
  destruct (ctx_replacement subs ng (ce_current_index e) gc) as [rc|amb].
  2:{ inversion H; subst. split; [exact K1|reflexivity]. }
  inversion H; subst c' b' ops' a. split; [|reflexivity].
  destruct rc; [|exact K1].
  eapply keeps_inplace_trans; [exact K1|]. apply set_gid_at_inplace. apply K1.
Qed.

(* ---- totality of the drive loop for the in-place machines, for every state table *)
Lemma inplace_drive_start : forall b, out_mode b = false -> inplace (drive_start true b).
Proof. intros b H. unfold drive_start, inplace, inplace_inv, with_pr. cbn. auto. Qed.

Lemma rearr_drive_total : forall st ng b ops state c amb, out_mode b = false ->
  let b0 := drive_start true b in
  drive_loop rearr_machine st ng (drive_fuel b0 ops) state c b0 ops amb <> None.
Proof.
  intros st ng b ops state c amb Hm b0.
  apply (drive_loop_total rearr_machine st ng inplace).
  - intros c1 e b1 ops1 c' b' ops' a HI HT _.
    destruct (rearr_transition_inplace _ _ _ _ _ _ _ _ HI HT) as [K ->].
    split; [apply K|]. unfold pot. destruct K as (_ & R & _). lia.
  - apply inplace_next_glyph.
  - now apply inplace_drive_start.
  - unfold drive_fuel, drive_potential, pot. lia.
Qed.

Lemma ctx_drive_total : forall subs st ng b ops state c amb, out_mode b = false ->
  let b0 := drive_start true b in
  drive_loop (ctx_machine subs ng) st ng (drive_fuel b0 ops) state c b0 ops amb <> None.
Proof.
  intros subs st ng b ops state c amb Hm b0.
  apply (drive_loop_total (ctx_machine subs ng) st ng inplace).
  - intros c1 e b1 ops1 c' b' ops' a HI HT _.
    destruct (ctx_transition_inplace _ _ _ _ _ _ _ _ _ _ HI HT) as [K ->].
    split; [apply K|]. unfold pot. destruct K as (_ & R & _). lia.
  - apply inplace_next_glyph.
  - now apply inplace_drive_start.
  - unfold drive_fuel, drive_potential, pot. lia.
Qed.
