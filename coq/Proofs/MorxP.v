(* Proofs/MorxP.v — lemmas about Model/Morx.v and Model/MorxPipe.v for property C17. *)
From Coq Require Import List NArith ZArith Bool Arith Lia Permutation.
From RB Require Import Gen.MorxFeatMap Base.Result Model.Buffer Model.Font Model.Morx Model.MorxFeat Model.MorxPipe.
Import ListNotations.
Local Open Scope N_scope.

(* ------------------------------------------------------------------ buffer array view *)

Lemma arr_of_arr : forall b a, arr (of_arr b a) = a.
Proof. intros. unfold arr, of_arr, with_pr. cbn. apply firstn_skipn. Qed.

(* ------------------------------------------------------------------ non-contextual *)

Definition nonctx_gid (l : aat_lookup) (ng g : N) : N :=
  match aat_value l RGlyph ng g with Some r => r | None => g end.

Lemma noncontextual_gids : forall l ng b,
  map gid (arr (apply_noncontextual l ng b)) = map (nonctx_gid l ng) (map gid (arr b)).
Proof.
  intros. unfold apply_noncontextual. rewrite arr_of_arr, !map_map.
  apply map_ext. intro x. unfold nonctx_glyph, nonctx_gid.
  destruct (aat_value l RGlyph ng (gid x)); reflexivity.
Qed.

Lemma noncontextual_clusters : forall l ng b,
  map cluster (arr (apply_noncontextual l ng b)) = map cluster (arr b).
Proof.
  intros. unfold apply_noncontextual. rewrite arr_of_arr, map_map.
  apply map_ext. intro x. unfold nonctx_glyph.
  destruct (aat_value l RGlyph ng (gid x)); reflexivity.
Qed.

(* ------------------------------------------------------------------ arrays: aset / aget *)

Local Close Scope N_scope.
Local Open Scope nat_scope.

Lemma upd_nth_length : forall A (l : list A) i v, length (upd_nth l i v) = length l.
Proof. induction l; intros [|i] v; cbn; auto. Qed.

Lemma nth_upd_nth : forall A (l : list A) i v j d, i < length l ->
  nth j (upd_nth l i v) d = if j =? i then v else nth j l d.
Proof.
  induction l; intros [|i] v [|j] d H; cbn in *; try lia; auto.
  apply IHl. lia.
Qed.

Lemma aset_length : forall a i x, length (aset a i x) = length a.
Proof. intros. apply upd_nth_length. Qed.

Lemma nth_aset_eq : forall a i x d, i < length a -> nth i (aset a i x) d = x.
Proof. intros. unfold aset. rewrite nth_upd_nth by auto. now rewrite Nat.eqb_refl. Qed.

Lemma nth_aset_neq : forall a i x j d, i < length a -> j <> i -> nth j (aset a i x) d = nth j a d.
Proof.
  intros. unfold aset. rewrite nth_upd_nth by auto.
  destruct (Nat.eqb_spec j i); [contradiction|reflexivity].
Qed.

(* ---- copy_loop, forwards: for i in 0..n: a[dst+i] = a[src+i], dst <= src *)
Lemma copy_fwd : forall n a dst src, dst <= src -> src + n <= length a ->
  length (copy_loop a dst src (seq 0 n)) = length a /\
  (forall j, dst <= j < dst + n -> nth j (copy_loop a dst src (seq 0 n)) dflt_info = nth (src + (j - dst)) a dflt_info) /\
  (forall j, ~ (dst <= j < dst + n) -> nth j (copy_loop a dst src (seq 0 n)) dflt_info = nth j a dflt_info).
Proof.
  induction n; intros a dst src Hle Hlen.
  - cbn. split; [reflexivity|]. split; intros; [lia|reflexivity].
  - rewrite seq_S. cbn [plus]. unfold copy_loop. rewrite fold_left_app. cbn [fold_left].
    fold (copy_loop a dst src (seq 0 n)).
    destruct (IHn a dst src Hle ltac:(lia)) as (HL & Hin & Hout).
    set (r := copy_loop a dst src (seq 0 n)) in *.
    assert (Hv : aget r (src + n) = nth (src + n) a dflt_info).
    { unfold aget. apply Hout. lia. }
    rewrite Hv. split; [rewrite aset_length; exact HL|]. split; intros j Hj.
    + destruct (Nat.eq_dec j (dst + n)).
      * subst j. rewrite nth_aset_eq by lia. f_equal. lia.
      * rewrite nth_aset_neq by lia. apply Hin. lia.
    + rewrite nth_aset_neq by lia. apply Hout. lia.
Qed.

(* ---- copy_loop, backwards: for i in (0..n).rev(): a[dst+i] = a[src+i], src <= dst *)
Lemma copy_bwd : forall n a dst src, src <= dst -> dst + n <= length a ->
  length (copy_loop a dst src (rev (seq 0 n))) = length a /\
  (forall j, dst <= j < dst + n -> nth j (copy_loop a dst src (rev (seq 0 n))) dflt_info = nth (src + (j - dst)) a dflt_info) /\
  (forall j, ~ (dst <= j < dst + n) -> nth j (copy_loop a dst src (rev (seq 0 n))) dflt_info = nth j a dflt_info).
Proof.
  induction n; intros a dst src Hle Hlen.
  - cbn. split; [reflexivity|]. split; intros; [lia|reflexivity].
  - rewrite seq_S, rev_app_distr. cbn [plus rev app]. unfold copy_loop. cbn [fold_left].
    set (a1 := aset a (dst + n) (aget a (src + n))).
    fold (copy_loop a1 dst src (rev (seq 0 n))).
    assert (HL1 : length a1 = length a) by apply aset_length.
    destruct (IHn a1 dst src Hle ltac:(lia)) as (HL & Hin & Hout).
    split; [lia|]. split; intros j Hj.
    + destruct (Nat.eq_dec j (dst + n)).
      * subst j. rewrite Hout by lia. unfold a1. rewrite nth_aset_eq by lia. unfold aget. f_equal. lia.
      * rewrite Hin by lia. unfold a1. apply nth_aset_neq; lia.
    + rewrite Hout by lia. unfold a1. apply nth_aset_neq; lia.
Qed.

(* ---- write_loop: for i in 0..len(v): a[p+i] = v[i] *)
Lemma write_loop_k : forall k a p v, k <= length v -> p + k <= length a ->
  let r := fold_left (fun a i => aset a (p + i) (aget v i)) (seq 0 k) a in
  length r = length a /\
  (forall j, p <= j < p + k -> nth j r dflt_info = nth (j - p) v dflt_info) /\
  (forall j, ~ (p <= j < p + k) -> nth j r dflt_info = nth j a dflt_info).
Proof.
  induction k; intros a p v Hk Hlen.
  - cbn. split; [reflexivity|]. split; intros; [lia|reflexivity].
  - rewrite seq_S. cbn [plus]. cbv zeta. rewrite fold_left_app. cbn [fold_left].
    destruct (IHk a p v ltac:(lia) ltac:(lia)) as (HL & Hin & Hout). cbv zeta in HL, Hin, Hout.
    set (r := fold_left (fun a i => aset a (p + i) (aget v i)) (seq 0 k) a) in *.
    split; [rewrite aset_length; exact HL|]. split; intros j Hj.
    + destruct (Nat.eq_dec j (p + k)).
      * subst j. rewrite nth_aset_eq by lia. unfold aget. f_equal. lia.
      * rewrite nth_aset_neq by lia. apply Hin. lia.
    + rewrite nth_aset_neq by lia. apply Hout. lia.
Qed.

Lemma write_loop_spec : forall a p v, p + length v <= length a ->
  length (write_loop a p v) = length a /\
  (forall j, p <= j < p + length v -> nth j (write_loop a p v) dflt_info = nth (j - p) v dflt_info) /\
  (forall j, ~ (p <= j < p + length v) -> nth j (write_loop a p v) dflt_info = nth j a dflt_info).
Proof. intros. unfold write_loop. apply (write_loop_k (length v) a p v); lia. Qed.

Lemma read_block_length : forall a p k, length (read_block a p k) = k.
Proof. intros. unfold read_block. now rewrite map_length, seq_length. Qed.

Lemma nth_read_block : forall a p k i, i < k -> nth i (read_block a p k) dflt_info = nth (p + i) a dflt_info.
Proof.
  intros. unfold read_block.
  rewrite (nth_indep _ dflt_info (aget a (p + 0))) by (rewrite map_length, seq_length; lia).
  change (aget a (p + 0)) with ((fun i => aget a (p + i)) 0).
  rewrite map_nth. rewrite seq_nth by lia. reflexivity.
Qed.

(* ------------------------------------------------------------------ rearrangement: the verb body *)

Lemma nth_app3_1 : forall (A M D : list info) k, k < length A -> nth k (A ++ M ++ D) dflt_info = nth k A dflt_info.
Proof. intros. now rewrite app_nth1. Qed.
Lemma nth_app3_2 : forall (A M D : list info) k, k < length M ->
  nth (length A + k) (A ++ M ++ D) dflt_info = nth k M dflt_info.
Proof. intros. rewrite app_nth2_plus. now rewrite app_nth1. Qed.
Lemma nth_app3_3 : forall (A M D : list info) k,
  nth (length A + length M + k) (A ++ M ++ D) dflt_info = nth k D dflt_info.
Proof. intros. rewrite <- Nat.add_assoc, app_nth2_plus. now rewrite app_nth2_plus. Qed.

(* the copy / write-back part of the verb: the first l and the last r glyphs change sides, the
   middle keeps its order — for every middle *)
Lemma rearrange_core : forall (A mid D : list info),
  let l := length A in let r := length D in
  let rng := A ++ mid ++ D in
  let en := length rng in
  let n := en - l - r in
  let a1 := if r <? l then copy_loop rng r l (seq 0 n)
            else if l <? r then copy_loop rng r l (rev (seq 0 n)) else rng in
  let a2 := write_loop a1 0 (read_block rng (en - r) r) in
  let a3 := write_loop a2 (en - l) (read_block rng 0 l) in
  a3 = D ++ mid ++ A.
Proof.
  intros A mid D l r rng en n a1 a2 a3.
  assert (Hen : en = l + length mid + r) by (unfold en, rng, l, r; rewrite !app_length; lia).
  assert (Hn : n = length mid) by (unfold n; lia).
  (* a1 *)
  assert (H1 : length a1 = en /\
               (forall j, r <= j < r + n -> nth j a1 dflt_info = nth (l + (j - r)) rng dflt_info) /\
               (forall j, ~ (r <= j < r + n) -> nth j a1 dflt_info = nth j rng dflt_info)).
  { unfold a1. destruct (r <? l) eqn:E1.
    - apply Nat.ltb_lt in E1. apply copy_fwd; fold en; lia.
    - destruct (l <? r) eqn:E2.
      + apply Nat.ltb_lt in E2. apply copy_bwd; fold en; lia.
      + apply Nat.ltb_ge in E1. apply Nat.ltb_ge in E2. assert (l = r) by lia.
        split; [reflexivity|]. split; intros; [f_equal; lia|reflexivity]. }
  destruct H1 as (L1 & In1 & Out1).
  (* a2 *)
  assert (Lr : length (read_block rng (en - r) r) = r) by apply read_block_length.
  assert (Ll : length (read_block rng 0 l) = l) by apply read_block_length.
  destruct (write_loop_spec a1 0 (read_block rng (en - r) r) ltac:(lia)) as (L2 & In2 & Out2).
  fold a2 in L2, In2, Out2. rewrite Lr in In2, Out2.
  destruct (write_loop_spec a2 (en - l) (read_block rng 0 l) ltac:(lia)) as (L3 & In3 & Out3).
  fold a3 in L3, In3, Out3. rewrite Ll in In3, Out3.
  apply (nth_ext _ _ dflt_info dflt_info).
  - rewrite L3, L2, L1, Hen, !app_length. fold l r. lia.
  - intros j Hj. rewrite L3, L2, L1 in Hj.
    destruct (Nat.lt_ge_cases j r) as [Hjr|Hjr].
    + (* the first r glyphs: D *)
      rewrite Out3 by lia. rewrite In2 by lia. rewrite nth_read_block by lia.
      replace (en - r + (j - 0)) with (l + length mid + j) by lia.
      unfold rng, l. rewrite nth_app3_3. symmetry. apply nth_app3_1. fold r. lia.
    + destruct (Nat.lt_ge_cases j (r + n)) as [Hjm|Hjm].
      * (* the middle *)
        rewrite Out3 by lia. rewrite Out2 by lia. rewrite In1 by lia.
        unfold rng, l. rewrite nth_app3_2 by lia.
        replace j with (length D + (j - r)) at 2 by (fold r; lia).
        symmetry. apply nth_app3_2. lia.
      * (* the last l glyphs: A *)
        rewrite In3 by lia. rewrite nth_read_block by lia. cbn [plus].
        unfold rng. rewrite nth_app3_1 by (fold l; lia).
        replace j with (length D + length mid + (j - (en - l))) at 2 by (fold r; lia).
        symmetry. apply nth_app3_3.
Qed.

Lemma upd_nth_app_r : forall A (P Q : list A) k v, upd_nth (P ++ Q) (length P + k) v = P ++ upd_nth Q k v.
Proof. induction P; intros; cbn; [reflexivity|]. now rewrite IHP. Qed.

Lemma upd_nth_app_r0 : forall A (P Q : list A) v, upd_nth (P ++ Q) (length P) v = P ++ upd_nth Q 0 v.
Proof. intros. rewrite <- (Nat.add_0_r (length P)) at 1. apply upd_nth_app_r. Qed.
Lemma nth_app_len0 : forall A (P Q : list A) d, nth (length P) (P ++ Q) d = nth 0 Q d.
Proof. intros. rewrite <- (Nat.add_0_r (length P)) at 1. apply app_nth2_plus. Qed.

Lemma aswap_last2 : forall P x y, aswap (P ++ [x; y]) (length P + 1) (length P) = P ++ [y; x].
Proof.
  intros. unfold aswap, aget, aset. cbv zeta.
  rewrite app_nth2_plus, nth_app_len0. cbn [nth].
  rewrite upd_nth_app_r. cbn [upd_nth]. rewrite upd_nth_app_r0. reflexivity.
Qed.

Lemma aswap_first2 : forall x y T, aswap (x :: y :: T) 0 1 = y :: x :: T.
Proof. reflexivity. Qed.

Definition swapif (b : bool) (l : list info) : list info := if b then rev l else l.

Lemma map_l_le2 : forall m, map_l m <= 2. Proof. intro. unfold map_l. lia. Qed.
Lemma map_r_le2 : forall m, map_r m <= 2. Proof. intro. unfold map_r. lia. Qed.
Lemma map_rev_l_2 : forall m, map_rev_l m = true -> map_l m = 2.
Proof. unfold map_rev_l, map_l. intros m H. apply N.eqb_eq in H. rewrite H. reflexivity. Qed.
Lemma map_rev_r_2 : forall m, map_rev_r m = true -> map_r m = 2.
Proof. unfold map_rev_r, map_r. intros m H. apply N.eqb_eq in H. rewrite H. reflexivity. Qed.

(* the whole verb body on the marked range A ++ mid ++ D (|A| = l, |D| = r nibbles of MAP) *)
Lemma rearrange_range_spec : forall m A mid D,
  length A = map_l m -> length D = map_r m -> length (A ++ mid ++ D) <= MAX_CONTEXT_LENGTH ->
  rearrange_range m (A ++ mid ++ D) = swapif (map_rev_r m) D ++ mid ++ swapif (map_rev_l m) A.
Proof.
  intros m A mid D HA HD Hlen. unfold rearrange_range.
  assert (Hen : length (A ++ mid ++ D) = length A + length mid + length D) by (rewrite !app_length; lia).
  rewrite <- HA, <- HD.
  replace ((length A + length D <=? length (A ++ mid ++ D)) && (length (A ++ mid ++ D) <=? MAX_CONTEXT_LENGTH)) with true.
  2:{ symmetry. apply andb_true_iff. split; apply Nat.leb_le; lia. }
  cbv zeta. rewrite (rearrange_core A mid D).
  destruct (map_rev_l m) eqn:RL.
  - apply map_rev_l_2 in RL. rewrite <- HA in RL.
    destruct A as [|x [|y [|? ?]]]; cbn in RL; try discriminate.
    replace (length ([x; y] ++ mid ++ D) - 1) with (length (D ++ mid) + 1) by (rewrite !app_length; cbn; lia).
    replace (length ([x; y] ++ mid ++ D) - 2) with (length (D ++ mid)) by (rewrite !app_length; cbn; lia).
    rewrite (app_assoc D mid [x; y]), aswap_last2, <- app_assoc.
    destruct (map_rev_r m) eqn:RR.
    + apply map_rev_r_2 in RR. rewrite <- HD in RR.
      destruct D as [|c [|d [|? ?]]]; cbn in RR; try discriminate. reflexivity.
    + reflexivity.
  - destruct (map_rev_r m) eqn:RR.
    + apply map_rev_r_2 in RR. rewrite <- HD in RR.
      destruct D as [|c [|d [|? ?]]]; cbn in RR; try discriminate. reflexivity.
    + reflexivity.
Qed.

(* ranges that are too short for the verb, or longer than HB_MAX_CONTEXT_LENGTH, are left alone *)
Lemma rearrange_range_skip : forall m rng,
  length rng < map_l m + map_r m \/ MAX_CONTEXT_LENGTH < length rng -> rearrange_range m rng = rng.
Proof.
  intros m rng H. unfold rearrange_range.
  replace ((map_l m + map_r m <=? length rng) && (length rng <=? MAX_CONTEXT_LENGTH)) with false; [reflexivity|].
  symmetry. apply andb_false_iff. destruct H; [left|right]; apply Nat.leb_gt; lia.
Qed.

Lemma verb_general : forall v A x D m, nth v REARR_MAP 0%N = m ->
  length A = map_l m -> length D = map_r m -> length (A ++ x ++ D) <= MAX_CONTEXT_LENGTH ->
  rearrange_range (nth v REARR_MAP 0%N) (A ++ x ++ D) = swapif (map_rev_r m) D ++ x ++ swapif (map_rev_l m) A.
Proof. intros v A x D m <- HA HD HL. now apply rearrange_range_spec. Qed.

Definition len_ok (l : list info) : Prop := length l <= MAX_CONTEXT_LENGTH.

(* Apple's verb table, for every marked range (arbitrary middle x) within HB_MAX_CONTEXT_LENGTH *)
Definition verb_table_statement : Prop := forall (a b c d : info) (x : list info),
  (len_ok x -> rearrange_verb 0 x = x) /\
  (len_ok (a :: x) -> rearrange_verb 1 (a :: x) = x ++ [a]) /\
  (len_ok (x ++ [d]) -> rearrange_verb 2 (x ++ [d]) = d :: x) /\
  (len_ok (a :: x ++ [d]) -> rearrange_verb 3 (a :: x ++ [d]) = d :: x ++ [a]) /\
  (len_ok (a :: b :: x) -> rearrange_verb 4 (a :: b :: x) = x ++ [a; b]) /\
  (len_ok (a :: b :: x) -> rearrange_verb 5 (a :: b :: x) = x ++ [b; a]) /\
  (len_ok (x ++ [c; d]) -> rearrange_verb 6 (x ++ [c; d]) = c :: d :: x) /\
  (len_ok (x ++ [c; d]) -> rearrange_verb 7 (x ++ [c; d]) = d :: c :: x) /\
  (len_ok (a :: x ++ [c; d]) -> rearrange_verb 8 (a :: x ++ [c; d]) = c :: d :: x ++ [a]) /\
  (len_ok (a :: x ++ [c; d]) -> rearrange_verb 9 (a :: x ++ [c; d]) = d :: c :: x ++ [a]) /\
  (len_ok (a :: b :: x ++ [d]) -> rearrange_verb 10 (a :: b :: x ++ [d]) = d :: x ++ [a; b]) /\
  (len_ok (a :: b :: x ++ [d]) -> rearrange_verb 11 (a :: b :: x ++ [d]) = d :: x ++ [b; a]) /\
  (len_ok (a :: b :: x ++ [c; d]) -> rearrange_verb 12 (a :: b :: x ++ [c; d]) = c :: d :: x ++ [a; b]) /\
  (len_ok (a :: b :: x ++ [c; d]) -> rearrange_verb 13 (a :: b :: x ++ [c; d]) = c :: d :: x ++ [b; a]) /\
  (len_ok (a :: b :: x ++ [c; d]) -> rearrange_verb 14 (a :: b :: x ++ [c; d]) = d :: c :: x ++ [a; b]) /\
  (len_ok (a :: b :: x ++ [c; d]) -> rearrange_verb 15 (a :: b :: x ++ [c; d]) = d :: c :: x ++ [b; a]).

Ltac verb v A x D m H :=
  let E := fresh "E" in
  let E' := fresh "E'" in
  assert (E : length (A ++ x ++ D) <= MAX_CONTEXT_LENGTH) by (cbn [app]; rewrite ?app_nil_r; exact H);
  pose proof (verb_general v A x D m eq_refl eq_refl eq_refl E) as E';
  let tr := eval vm_compute in (map_rev_r m) in change (map_rev_r m) with tr in E';
  let tl := eval vm_compute in (map_rev_l m) in change (map_rev_l m) with tl in E';
  cbv [swapif] in E'; cbn [app rev] in E'; rewrite ?app_nil_r in E'; exact E'.

Lemma verb_table : verb_table_statement.
Proof.
  intros a b c d x. unfold len_ok, rearrange_verb.
  repeat split; intro H.
  - verb 0 (@nil info) x (@nil info) 0x00%N H.
  - verb 1 [a] x (@nil info) 0x10%N H.
  - verb 2 (@nil info) x [d] 0x01%N H.
  - verb 3 [a] x [d] 0x11%N H.
  - verb 4 [a; b] x (@nil info) 0x20%N H.
  - verb 5 [a; b] x (@nil info) 0x30%N H.
  - verb 6 (@nil info) x [c; d] 0x02%N H.
  - verb 7 (@nil info) x [c; d] 0x03%N H.
  - verb 8 [a] x [c; d] 0x12%N H.
  - verb 9 [a] x [c; d] 0x13%N H.
  - verb 10 [a; b] x [d] 0x21%N H.
  - verb 11 [a; b] x [d] 0x31%N H.
  - verb 12 [a; b] x [c; d] 0x22%N H.
  - verb 13 [a; b] x [c; d] 0x32%N H.
  - verb 14 [a; b] x [c; d] 0x23%N H.
  - verb 15 [a; b] x [c; d] 0x33%N H.
Qed.

(* ---- the verb is a permutation of the marked range, whatever the range *)
Lemma swapif_perm : forall b l, Permutation (swapif b l) l.
Proof. intros [|] l; cbn; [symmetry; apply Permutation_rev|reflexivity]. Qed.

Lemma rearrange_range_perm : forall m rng, Permutation (rearrange_range m rng) rng.
Proof.
  intros m rng.
  destruct (Nat.lt_ge_cases (length rng) (map_l m + map_r m)) as [Hs|Hs].
  { rewrite rearrange_range_skip by (left; exact Hs). reflexivity. }
  destruct (Nat.lt_ge_cases MAX_CONTEXT_LENGTH (length rng)) as [Hl|Hl].
  { rewrite rearrange_range_skip by (right; exact Hl). reflexivity. }
  set (A := firstn (map_l m) rng). set (t := skipn (map_l m) rng).
  set (mid := firstn (length t - map_r m) t). set (D := skipn (length t - map_r m) t).
  assert (E : rng = A ++ mid ++ D).
  { unfold A, mid, D, t. now rewrite !firstn_skipn. }
  assert (HA : length A = map_l m) by (unfold A; rewrite firstn_length; lia).
  assert (Ht : length t = length rng - map_l m) by (unfold t; apply skipn_length).
  assert (HD : length D = map_r m) by (unfold D; rewrite skipn_length; lia).
  rewrite E at 1. rewrite rearrange_range_spec by (rewrite <- ?E; auto).
  rewrite E.
  etransitivity.
  { apply Permutation_app; [apply swapif_perm|apply Permutation_app; [reflexivity|apply swapif_perm]]. }
  rewrite (app_assoc A mid D).
  etransitivity; [apply Permutation_app_comm|].
  apply Permutation_app_tail. apply Permutation_app_comm.
Qed.

Lemma rearrange_range_length : forall m rng, length (rearrange_range m rng) = length rng.
Proof. intros. apply Permutation_length, rearrange_range_perm. Qed.

(* ------------------------------------------------------------------ chain flags and gating *)

Local Open Scope N_scope.

(* without a `feat` table no feature is ever requested: the compiled flags are the defaults *)
Lemma chain_flags_default : forall c, chain_flags no_feature c = mc_default_flags c.
Proof.
  intro c. unfold chain_flags. generalize (mc_default_flags c).
  induction (mc_features c) as [|f t IH]; intro fl; cbn [fold_left]; [reflexivity|].
  unfold flag_step at 2, entry_active, no_feature. rewrite andb_false_r. cbn [orb]. apply IH.
Qed.

Lemma has_spec : forall f m, has f m = true <-> N.land f m <> 0.
Proof.
  intros. unfold has. rewrite negb_true_iff. split; intro H.
  - now apply N.eqb_neq.
  - now apply N.eqb_neq.
Qed.

(* a subtable runs iff its feature flags meet the chain's compiled flags and its coverage admits
   the buffer direction — the two tests of `apply`, in the code's terms *)
Lemma sub_runs_spec : forall flags d s,
  sub_runs flags d s = true <->
  N.land (ms_sub_feature_flags s) flags <> 0 /\
  (N.land (ms_coverage s) 0x20000000 <> 0 \/
   (dir_vertical d = true <-> N.land (ms_coverage s) 0x80000000 <> 0)).
Proof.
  intros. unfold sub_runs, sub_enabled, sub_dir_ok, cov_all_directions, cov_vertical.
  rewrite andb_true_iff, orb_true_iff, negb_true_iff, N.eqb_neq, has_spec.
  split; intros [H1 H2]; (split; [exact H1|]).
  - destruct H2 as [H2|H2]; [left; exact H2|right].
    apply eqb_prop in H2. rewrite H2. apply has_spec.
  - destruct H2 as [H2|H2]; [left; exact H2|right].
    apply eqb_true_iff. rewrite <- has_spec in H2.
    destruct (dir_vertical d), (has (ms_coverage s) 2147483648); intuition congruence.
Qed.

(* the step of `run_subtables` on a subtable ttf-parser accepts *)
Lemma run_subtables_step : forall ng d flags s t p, kind_parses (ms_kind s) = true ->
  run_subtables ng d flags (s :: t) p =
  if sub_runs flags d s then (do p1 <- run_subtable ng d s p; run_subtables ng d flags t p1)
  else run_subtables ng d flags t p.
Proof. intros. cbn [run_subtables]. rewrite H. reflexivity. Qed.

(* ------------------------------------------------------------------ paired reversals *)

Local Close Scope N_scope.
Local Open Scope nat_scope.

Definition inplace_inv (b : zbuf) : Prop := dead b = length (pre b).

Lemma blen_arr : forall b, inplace_inv b -> blen b = length (arr b).
Proof. intros b H. unfold blen, arr. rewrite app_length, H. reflexivity. Qed.

Lemma of_arr_inv : forall b a, inplace_inv b -> length a = length (arr b) -> inplace_inv (of_arr b a).
Proof.
  intros b a H L. unfold inplace_inv, of_arr, with_pr. cbn. rewrite firstn_length.
  unfold arr in L. rewrite app_length in L. unfold inplace_inv in H. lia.
Qed.

Lemma reverse_arr : forall b b', inplace_inv b -> reverse b = Ok b' ->
  arr b' = rev (arr b) /\ inplace_inv b' /\ dead b' = dead b.
Proof.
  intros b b' Hinv H. unfold reverse, reverse_range in H. rewrite (blen_arr b Hinv) in H.
  rewrite Nat.sub_0_r in H.
  destruct (length (arr b) <? 2) eqn:E.
  - inversion H; subst b'. apply Nat.ltb_lt in E. split; [|split; auto].
    destruct (arr b) as [|x [|y l]]; cbn in *; try reflexivity; lia.
  - rewrite Nat.ltb_irrefl in H. inversion H; subst b'. clear H.
    unfold slice. rewrite Nat.sub_0_r. cbn [skipn firstn app].
    rewrite firstn_all, skipn_all, app_nil_r.
    split; [apply arr_of_arr|]. split; [|reflexivity].
    apply of_arr_inv; [exact Hinv|apply rev_length].
Qed.

Lemma maybe_reverse_twice : forall r b b0 b1, inplace_inv b ->
  maybe_reverse r b = Ok b0 -> maybe_reverse r b0 = Ok b1 -> arr b1 = arr b /\ dead b1 = dead b.
Proof.
  intros [|] b b0 b1 Hinv H0 H1; cbn in *.
  - destruct (reverse_arr _ _ Hinv H0) as (A0 & I0 & D0).
    destruct (reverse_arr _ _ I0 H1) as (A1 & I1 & D1).
    split; [rewrite A1, A0; apply rev_involutive|congruence].
  - inversion H0; inversion H1; subst. auto.
Qed.

(* run_subtable brackets apply_subtable with the same reversal decision on both sides *)
Lemma run_subtable_paired : forall ng d s p p', run_subtable ng d s p = Ok p' ->
  exists b0 b1 ops amb,
    maybe_reverse (sub_reverse d s) (p_buf p) = Ok b0 /\
    apply_subtable (ms_kind s) ng None (p_ecap p) b0 (p_ops p) = Ok (b1, ops, amb) /\
    maybe_reverse (sub_reverse d s) b1 = Ok (p_buf p').
Proof.
  intros ng d s p p' H. unfold run_subtable, run_subtable_g in H.
  destruct (maybe_reverse (sub_reverse d s) (p_buf p)) as [b0|] eqn:E0; cbn in H; [|discriminate].
  destruct (apply_subtable (ms_kind s) ng None (p_ecap p) b0 (p_ops p)) as [[[b1 ops] amb]|] eqn:E1; cbn in H; [|discriminate].
  destruct (maybe_reverse (sub_reverse d s) b1) as [b2|] eqn:E2; cbn in H; [|discriminate].
  inversion H; subst p'. cbn. exists b0, b1, ops, amb. auto.
Qed.

(* the reverse decision, as the table in the code's comment: logical => backwards bit;
   otherwise backwards bit XOR buffer direction backward *)
Lemma sub_reverse_spec : forall d s,
  sub_reverse d s = (if cov_logical s then cov_backwards s else negb (Bool.eqb (cov_backwards s) (dir_backward d))).
Proof. intros. unfold sub_reverse. destruct (cov_logical s), (cov_backwards s), (dir_backward d); reflexivity. Qed.

(* ------------------------------------------------------------------ drive: totality *)

Section DriveTotal.
  Context {E C : Type} (M : machine E C) (st : state_table E) (ng : N).
  Variable Inv : zbuf -> Prop.

  Definition pot (b : zbuf) (ops : Z) : nat := length (rest b) + Z.to_nat ops.

  (* a transition that leaves the buffer successful keeps the invariant and does not raise the
     potential (remaining input + remaining DONT_ADVANCE budget) *)
  Hypothesis Htrans : forall c e b ops c' b' ops' a,
    Inv b -> m_transition M c e b ops = Ok (c', b', ops', a) -> ok b' = true ->
    Inv b' /\ pot b' ops' <= pot b ops.
  Hypothesis Hnext : forall b b2,
    Inv b -> rest b <> [] -> next_glyph b = Ok b2 -> ok b2 = true -> Inv b2 /\ length (rest b2) < length (rest b).

  Lemma drive_loop_total : forall fuel state c b ops amb gate lr,
    Inv b -> pot b ops < fuel -> drive_loop M st ng fuel state c b ops amb gate lr <> None.
  Proof.
    induction fuel; intros state c b ops amb gate lr HI Hp; [lia|].
    cbn [drive_loop].
    match goal with |- match ?g with Ok _ => _ | Error _ => _ end <> None => destruct g as [[lr1 [|]]|] end; [| |discriminate].
    2:{ (* the subtable is off in this range: the glyph is skipped *)
      destruct (rest b) as [|x t] eqn:ER; [discriminate|].
      destruct (ok b) eqn:EO; cbn [negb]; [|discriminate].
      destruct (next_glyph b) as [b2|] eqn:EN; [|discriminate].
      destruct (ok b2) eqn:EO2; [|discriminate].
      assert (Hne : rest b <> []) by (rewrite ER; discriminate).
      destruct (Hnext _ _ HI Hne EN EO2) as (HI2 & Hl).
      apply IHfuel; [exact HI2|]. unfold pot in *. lia. }
    destruct (st_entry st state (cur_class st ng b)) as [e|]; [|discriminate].
    destruct (m_transition M c e b ops) as [[[[c1 b1] ops1] a1]|] eqn:ET; [|discriminate].
    destruct (rest b1) as [|x t] eqn:ER; [discriminate|].
    destruct (ok b1) eqn:EO; cbn [negb]; [|discriminate].
    destruct (Htrans _ _ _ _ _ _ _ _ HI ET EO) as (HI1 & Hp1).
    assert (Hne : rest b1 <> []) by (rewrite ER; discriminate).
    destruct (m_can_advance M e).
    - destruct (next_glyph b1) as [b2|] eqn:EN; [|discriminate].
      destruct (ok b2) eqn:EO2; [|discriminate].
      destruct (Hnext _ _ HI1 Hne EN EO2) as (HI2 & Hl).
      apply IHfuel; [exact HI2|]. unfold pot in *. lia.
    - destruct (ops1 <=? 0)%Z eqn:EZ.
      + destruct (next_glyph b1) as [b2|] eqn:EN; [|discriminate].
        destruct (ok b2) eqn:EO2; [|discriminate].
        destruct (Hnext _ _ HI1 Hne EN EO2) as (HI2 & Hl).
        apply IHfuel; [exact HI2|]. apply Z.leb_le in EZ. unfold pot in *.
        replace (Z.to_nat (ops1 - 1)) with 0 by lia. lia.
      + rewrite EO. apply IHfuel; [exact HI1|]. apply Z.leb_gt in EZ. unfold pot in *.
        replace (Z.to_nat (ops1 - 1)) with (Z.to_nat ops1 - 1) by lia. lia.
  Qed.
End DriveTotal.

(* ---- in-place buffers: idx = |pre|, no output mode *)
Definition inplace (b : zbuf) : Prop := out_mode b = false /\ inplace_inv b.

Lemma map_range_length : forall A (f : A -> A) l s e, length (map_range f s e l) = length l.
Proof. induction l; intros [|s] [|e]; cbn; auto. Qed.

Lemma inplace_of_arr : forall b a, inplace b -> length a = length (arr b) ->
  inplace (of_arr b a) /\ length (rest (of_arr b a)) = length (rest b) /\ ok (of_arr b a) = ok b.
Proof.
  intros b a [Hm Hi] L. split; [split; [exact Hm|now apply of_arr_inv]|]. split; [|reflexivity].
  unfold of_arr, with_pr. cbn. rewrite skipn_length, L. unfold arr. rewrite app_length.
  unfold inplace_inv in Hi. lia.
Qed.

Lemma inplace_next_glyph : forall b b2, inplace b -> rest b <> [] -> next_glyph b = Ok b2 -> ok b2 = true ->
  inplace b2 /\ length (rest b2) < length (rest b).
Proof.
  intros b b2 [Hm Hi] Hne H _. unfold next_glyph in H. destruct (rest b) as [|x t] eqn:ER; [congruence|].
  rewrite Hm in H. inversion H; subst b2. unfold inplace, inplace_inv, with_pr. cbn.
  rewrite app_length. cbn. unfold inplace_inv in Hi. split; [split; [exact Hm|lia]|lia].
Qed.

Lemma flag_while_length : forall c stop m l, length (fst (flag_while_ne_fwd c stop m l)) = length l.
Proof.
  induction l; cbn; [reflexivity|].
  destruct (N.eqb (cluster a) stop); [reflexivity|].
  destruct (flag_while_ne_fwd c stop m l) as [t' ap] eqn:EF. cbn in IHl.
  destruct (N.eqb (cluster a) c); cbn; now rewrite IHl.
Qed.

Lemma infos_set_glyph_flags_length : forall lvl l s e c m r, s <= e ->
  infos_set_glyph_flags lvl l s e c m = Ok r -> length (fst r) = length l.
Proof.
  intros lvl l s e c m r Hse H. unfold infos_set_glyph_flags in H.
  destruct (s =? e) eqn:E0; [inversion H; reflexivity|].
  destruct (nth_error l s) as [first|] eqn:E1; [|discriminate].
  destruct (nth_error l (e - 1)) as [last|] eqn:E2; [|discriminate].
  assert (Hs : s < length l) by (apply nth_error_Some; congruence).
  assert (He : e - 1 < length l) by (apply nth_error_Some; congruence).
  apply Nat.eqb_neq in E0.
  assert (HL : length (firstn s l) + length (slice l s e) + length (skipn e l) = length l).
  { unfold slice. rewrite !firstn_length, !skipn_length. lia. }
  destruct ((lvl =? 2)%N || (negb (c =? cluster first)%N && negb (c =? cluster last)%N))%bool.
  - destruct (flag_all_ne c m (slice l s e)) as [mid' ap] eqn:EF. inversion H; subst r. cbn.
    unfold flag_all_ne in EF. inversion EF; subst mid'. rewrite !app_length, map_length. lia.
  - destruct (c =? cluster first)%N.
    + destruct (flag_while_ne_fwd c (cluster first) m (rev (slice l s e))) as [r' ap] eqn:EF.
      inversion H; subst r. cbn. rewrite !app_length, rev_length.
      replace (length r') with (length (fst (flag_while_ne_fwd c (cluster first) m (rev (slice l s e))))) by (now rewrite EF).
      rewrite flag_while_length, rev_length. lia.
    + destruct (flag_while_ne_fwd c (cluster last) m (slice l s e)) as [mid' ap] eqn:EF.
      inversion H; subst r. cbn. rewrite !app_length.
      replace (length mid') with (length (fst (flag_while_ne_fwd c (cluster last) m (slice l s e)))) by (now rewrite EF).
      rewrite flag_while_length. lia.
Qed.

(* the facts the potential argument needs about an in-place buffer operation *)
Definition keeps_inplace (b b' : zbuf) : Prop :=
  inplace b' /\ length (rest b') = length (rest b) /\ ok b' = ok b /\
  length (arr b') = length (arr b) /\ dead b' = dead b /\ level b' = level b.

Lemma keeps_inplace_refl : forall b, inplace b -> keeps_inplace b b.
Proof. intros b H. repeat split; try apply H; reflexivity. Qed.

Lemma keeps_inplace_trans : forall a b c, keeps_inplace a b -> keeps_inplace b c -> keeps_inplace a c.
Proof. intros a b c (I1&R1&O1&A1&D1&L1) (I2&R2&O2&A2&D2&L2). repeat split; try apply I2; congruence. Qed.

Lemma keeps_inplace_of_arr : forall b a, inplace b -> length a = length (arr b) -> keeps_inplace b (of_arr b a).
Proof.
  intros b a H L. destruct (inplace_of_arr b a H L) as (I & R & O).
  repeat split; try apply I; auto. now rewrite arr_of_arr.
Qed.

Lemma keeps_inplace_scratch : forall b s, inplace b -> keeps_inplace b (with_scratch b s).
Proof. intros b s [Hm Hi]. repeat split; auto. Qed.

Lemma keeps_inplace_add_scratch : forall b a, inplace b -> keeps_inplace b (add_scratch b a).
Proof. intros b [|] H; cbn; [now apply keeps_inplace_scratch|now apply keeps_inplace_refl]. Qed.

Lemma set_glyph_flags_inplace : forall b m s e b', inplace b ->
  set_glyph_flags b m (Some s) (Some e) true false = Ok b' -> keeps_inplace b b'.
Proof.
  intros b m s e b' Hin H. unfold set_glyph_flags in H.
  set (e' := Nat.min e (blen b)) in *.
  destruct (e' <? s) eqn:E0; [discriminate|]. apply Nat.ltb_ge in E0.
  cbn [andb negb] in H.
  destruct (e' - s <? 2) eqn:E1; [inversion H; subst; now apply keeps_inplace_refl|].
  cbn [negb orb] in H.
  set (bs := with_scratch b (N.lor (scratch b) SCRATCH_HAS_GLYPH_FLAGS)) in *.
  assert (Hbs : keeps_inplace b bs) by (now apply keeps_inplace_scratch).
  destruct Hin as [Hm Hi].
  assert (Hm' : out_mode bs = false) by exact Hm. rewrite Hm' in H.
  match type of H with bind ?x _ = _ => destruct x as [c|] eqn:EC end; cbn [bind] in H; [|discriminate].
  match type of H with bind ?x _ = _ => destruct x as [r|] eqn:ER end; cbn [bind] in H; [|discriminate].
  inversion H; subst b'. clear H.
  apply infos_set_glyph_flags_length in ER; [|exact E0].
  match goal with |- keeps_inplace b (add_scratch ?x ?y) => change x with (of_arr bs (fst r)) end.
  pose proof (keeps_inplace_of_arr bs (fst r) (proj1 Hbs) ER) as K.
  eapply keeps_inplace_trans; [exact Hbs|].
  eapply keeps_inplace_trans; [exact K|].
  apply keeps_inplace_add_scratch. apply K.
Qed.

Lemma merge_clusters_full_inplace : forall b s e b', inplace b ->
  merge_clusters_full b s e = Ok b' -> keeps_inplace b b'.
Proof.
  intros b s e b' Hin H. unfold merge_clusters_full in H.
  destruct (e - s <? 2); [inversion H; subst; now apply keeps_inplace_refl|].
  destruct (level b =? 2)%N.
  - unfold unsafe_to_break in H. eapply set_glyph_flags_inplace; eauto.
  - unfold merge_clusters in H.
    destruct (e - s <? 2); [inversion H; subst; now apply keeps_inplace_refl|].
    destruct (level b =? 2)%N; [inversion H; subst; now apply keeps_inplace_refl|].
    destruct Hin as [Hm Hi]. rewrite Hm in H.
    unfold merge_array in H.
    destruct (nth_error (pre b ++ rest b) s) as [first|]; [|discriminate].
    destruct (nth_error (pre b ++ rest b) (e - 1)) as [last|]; [|discriminate].
    cbn in H. inversion H; subst b'. clear H.
    match goal with |- keeps_inplace b (with_pr b (firstn (dead b) ?a) (skipn (dead b) ?a) (dead b)) =>
      change (keeps_inplace b (of_arr b a)) end.
    apply keeps_inplace_of_arr; [split; assumption|]. apply map_range_length.
Qed.

(* ---- rearrangement transition *)
Lemma rearr_transition_inplace : forall c e b ops c' b' ops' a, inplace b ->
  rearr_transition c e b ops = Ok (c', b', ops', a) -> keeps_inplace b b' /\ ops' = ops.
Proof.
  intros c e b ops c' b' ops' a Hin H. unfold rearr_transition in H.
  match type of H with (if ?t then _ else _) = _ => destruct t eqn:ET end.
  2:{ inversion H; subst. split; [now apply keeps_inplace_refl|reflexivity]. }
  apply andb_true_iff in ET. destruct ET as [_ ET]. apply Nat.ltb_lt in ET.
  match type of H with (if ?t then _ else _) = _ => destruct t end.
  2:{ inversion H; subst. split; [now apply keeps_inplace_refl|reflexivity]. }
  match type of H with bind ?x _ = _ => destruct x as [b1|] eqn:E1 end; cbn [bind] in H; [|discriminate].
  match type of H with bind ?x _ = _ => destruct x as [b2|] eqn:E2 end; cbn [bind] in H; [|discriminate].
  inversion H; subst c' b' ops' a. clear H. split; [|reflexivity].
  pose proof (merge_clusters_full_inplace _ _ _ _ Hin E1) as K1.
  pose proof (merge_clusters_full_inplace _ _ _ _ (proj1 K1) E2) as K2.
  eapply keeps_inplace_trans; [exact K1|]. eapply keeps_inplace_trans; [exact K2|].
  apply keeps_inplace_of_arr; [apply K2|].
  set (arr2 := arr b2).
  match goal with |- length (firstn ?s arr2 ++ rearrange_range ?m (slice arr2 ?s ?en) ++ skipn ?en arr2) = _ =>
    set (s0 := s) in *; set (en0 := en) in * end.
  rewrite !app_length, rearrange_range_length. unfold slice.
  rewrite !firstn_length, !skipn_length. lia.
Qed.

(* ---- contextual transition *)
Lemma set_gid_at_inplace : forall b i g, inplace b -> keeps_inplace b (set_gid_at b i g).
Proof. intros. unfold set_gid_at. apply keeps_inplace_of_arr; [assumption|apply map_range_length]. Qed.

Lemma ctx_transition_inplace : forall subs ng c e b ops c' b' ops' a, inplace b ->
  ctx_transition subs ng c e b ops = Ok (c', b', ops', a) -> keeps_inplace b b' /\ ops' = ops.
Proof.
  intros subs ng [ms mk] e b ops c' b' ops' a Hin H. unfold ctx_transition in H.
  match type of H with (if ?t then _ else _) = _ => destruct t end.
  { inversion H; subst. split; [now apply keeps_inplace_refl|reflexivity]. }
  match type of H with bind ?x _ = _ => destruct x as [gm|] end; cbn [bind] in H; [|discriminate].
  destruct (ctx_replacement subs ng (ce_mark_index e) gm) as [rm|amb].
  2:{ inversion H; subst. split; [now apply keeps_inplace_refl|reflexivity]. }
  set (b1 := match rm with Some r => set_gid_at b mk r | None => b end) in *.
  assert (K1 : keeps_inplace b b1).
  { unfold b1. destruct rm; [now apply set_gid_at_inplace|now apply keeps_inplace_refl]. }
  destruct (blen b =? 0); [discriminate|].
  match type of H with bind ?x _ = _ => destruct x as [gc|] end; cbn [bind] in H; [|discriminate].
  destruct (ctx_replacement subs ng (ce_current_index e) gc) as [rc|amb].
  2:{ inversion H; subst. split; [exact K1|reflexivity]. }
  inversion H; subst c' b' ops' a. split; [|reflexivity].
  destruct rc; [|exact K1].
  eapply keeps_inplace_trans; [exact K1|]. apply set_gid_at_inplace. apply K1.
Qed.

(* ---- totality of the drive loop for the in-place machines, for every state table *)
Lemma inplace_drive_start : forall b, out_mode b = false -> inplace (drive_start true b).
Proof. intros b H. unfold drive_start, inplace, inplace_inv, with_pr. cbn. auto. Qed.

Lemma rearr_drive_total : forall st ng b ops state c amb gate lr, out_mode b = false ->
  let b0 := drive_start true b in
  drive_loop rearr_machine st ng (drive_fuel b0 ops) state c b0 ops amb gate lr <> None.
Proof.
  intros st ng b ops state c amb gate lr Hm b0.
  apply (drive_loop_total rearr_machine st ng inplace).
  - intros c1 e b1 ops1 c' b' ops' a HI HT _.
    destruct (rearr_transition_inplace _ _ _ _ _ _ _ _ HI HT) as [K ->].
    split; [apply K|]. unfold pot. destruct K as (_ & R & _). lia.
  - apply inplace_next_glyph.
  - now apply inplace_drive_start.
  - unfold drive_fuel, drive_potential, pot. lia.
Qed.

Lemma ctx_drive_total : forall subs st ng b ops state c amb gate lr, out_mode b = false ->
  let b0 := drive_start true b in
  drive_loop (ctx_machine subs ng) st ng (drive_fuel b0 ops) state c b0 ops amb gate lr <> None.
Proof.
  intros subs st ng b ops state c amb gate lr Hm b0.
  apply (drive_loop_total (ctx_machine subs ng) st ng inplace).
  - intros c1 e b1 ops1 c' b' ops' a HI HT _.
    destruct (ctx_transition_inplace _ _ _ _ _ _ _ _ _ _ HI HT) as [K ->].
    split; [apply K|]. unfold pot. destruct K as (_ & R & _). lia.
  - apply inplace_next_glyph.
  - now apply inplace_drive_start.
  - unfold drive_fuel, drive_potential, pot. lia.
Qed.

(* ------------------------------------------------------------------ streaming (output-mode) buffers *)

Lemma ensure_cases : forall b n, ensure b n = (true, b) \/ ensure b n = (false, with_ok b false).
Proof. intros. unfold ensure. destruct (n <? blen b); auto. destruct (max_len b <? N.of_nat n)%N; auto. Qed.

Lemma make_room_cases : forall b n, make_room_for b n = (true, b) \/ make_room_for b n = (false, with_ok b false).
Proof. intros. unfold make_room_for. apply ensure_cases. Qed.

Definition out_template (b : zbuf) : option info :=
  match rest b, rev (pre b) with
  | x :: _, _ => Some x
  | [], l :: _ => Some l
  | [], [] => None
  end.

Lemma copy_glyph_exact : forall b b', copy_glyph b = Ok b' -> ok b' = true ->
  exists x t, rest b = x :: t /\ b' = with_pr b (pre b ++ [x]) (rest b) (dead b).
Proof.
  intros b b' H Hok. unfold copy_glyph in H.
  destruct (make_room_cases b 1) as [E|E]; rewrite E in H; cbn in H.
  - destruct (rest b) as [|x t] eqn:ER; [discriminate|]. inversion H. eauto.
  - inversion H; subst b'. discriminate.
Qed.

Lemma output_glyph_exact : forall b g b', output_glyph b g = Ok b' -> ok b' = true ->
  b' = match out_template b with
       | Some x => with_pr b (pre b ++ [set_gid x g]) (rest b) (dead b)
       | None => b
       end.
Proof.
  intros b g b' H Hok. unfold output_glyph in H. unfold out_template.
  destruct (make_room_cases b 1) as [E|E]; rewrite E in H; cbn in H.
  - destruct (rest b) as [|x t]; destruct (rev (pre b)) as [|l r]; inversion H; reflexivity.
  - inversion H; subst b'. discriminate.
Qed.

Lemma skip_glyph_exact : forall b b', out_mode b = true -> skip_glyph b = Ok b' ->
  exists x t, rest b = x :: t /\ b' = with_pr b (pre b) t (S (dead b)).
Proof.
  intros b b' Hm H. unfold skip_glyph in H. destruct (rest b) as [|x t]; [discriminate|].
  rewrite Hm in H. inversion H. eauto.
Qed.

Lemma replace_glyph_exact : forall b g b', replace_glyph b g = Ok b' -> ok b' = true ->
  exists x t, rest b = x :: t /\ b' = with_pr b (pre b ++ [set_gid x g]) t (S (dead b)).
Proof.
  intros b g b' H Hok. unfold replace_glyph in H. destruct (rest b) as [|x t]; [discriminate|].
  destruct (make_room_cases b 1) as [E|E]; rewrite E in H; cbn in H.
  - inversion H. eauto.
  - inversion H; subst b'. discriminate.
Qed.

Lemma next_glyph_exact : forall b b', out_mode b = true -> next_glyph b = Ok b' -> ok b' = true ->
  exists x t, rest b = x :: t /\ b' = with_pr b (pre b ++ [x]) t (S (dead b)).
Proof.
  intros b b' Hm H Hok. unfold next_glyph in H. destruct (rest b) as [|x t]; [discriminate|].
  rewrite Hm in H. destruct (make_room_cases b 1) as [E|E]; rewrite E in H; cbn in H.
  - inversion H. eauto.
  - inversion H; subst b'. discriminate.
Qed.

(* move_to re-splits pre ++ rest at i *)
Lemma mv_exact : forall b i b', out_mode b = true -> mv b i = Ok b' -> ok b' = true ->
  i <= length (arr b) /\ exists d, b' = with_pr b (firstn i (arr b)) (skipn i (arr b)) d.
Proof.
  intros b i b' Hm H Hok. unfold mv, move_to in H. rewrite Hm in H. cbn [negb] in H.
  destruct (ok b) eqn:EO; cbn [negb] in H.
  2:{ cbn in H. inversion H; subst b'. congruence. }
  destruct (length (pre b) + length (rest b) <? i) eqn:E0; [discriminate|]. apply Nat.ltb_ge in E0.
  unfold arr. rewrite app_length. split; [exact E0|].
  destruct (length (pre b) <? i) eqn:E1.
  - apply Nat.ltb_lt in E1.
    destruct (make_room_cases b (i - length (pre b))) as [E|E]; rewrite E in H; cbn in H.
    + inversion H; subst b'. eexists. f_equal.
      * rewrite firstn_app. rewrite (firstn_all2 (pre b)) by lia. reflexivity.
      * rewrite skipn_app. rewrite (skipn_all2 (pre b)) by lia. reflexivity.
    + inversion H; subst b'. discriminate.
  - apply Nat.ltb_ge in E1. destruct (i <? length (pre b)) eqn:E2.
    + apply Nat.ltb_lt in E2.
      assert (F : firstn i (pre b ++ rest b) = firstn i (pre b)).
      { rewrite firstn_app. replace (i - length (pre b)) with 0 by lia. cbn. apply app_nil_r. }
      assert (S : skipn i (pre b ++ rest b) = skipn i (pre b) ++ rest b).
      { rewrite skipn_app. replace (i - length (pre b)) with 0 by lia. reflexivity. }
      destruct (dead b <? length (pre b) - i).
      * destruct (ensure_cases b (blen b + (length (pre b) - i - dead b))) as [E|E]; rewrite E in H; cbn in H.
        -- inversion H; subst b'. eexists. rewrite F, S. reflexivity.
        -- inversion H; subst b'. discriminate.
      * cbn in H. inversion H; subst b'. eexists. rewrite F, S. reflexivity.
    + apply Nat.ltb_ge in E2. assert (i = length (pre b)) by lia. subst i. cbn in H. inversion H; subst b'.
      exists (dead b). rewrite firstn_app, Nat.sub_diag, firstn_all. cbn. rewrite app_nil_r.
      rewrite skipn_app, Nat.sub_diag, skipn_all. cbn. destruct b; reflexivity.
Qed.

(* ---- ok is never restored; out_mode is never changed by these operations *)
Definition pres (b b' : zbuf) : Prop :=
  out_mode b' = out_mode b /\ (ok b' = true -> ok b = true /\ length (arr b') = length (arr b)).

Lemma pres_refl : forall b, pres b b.
Proof. intro b. split; auto. Qed.

Lemma pres_trans : forall a b c, pres a b -> pres b c -> pres a c.
Proof.
  intros a b c [M1 P1] [M2 P2]. split; [congruence|]. intro H.
  destruct (P2 H) as [O2 L2]. destruct (P1 O2) as [O1 L1]. split; [exact O1|congruence].
Qed.

Lemma mv_out_mode : forall b i b', mv b i = Ok b' -> out_mode b' = out_mode b.
Proof.
  intros b i b' H. unfold mv, move_to in H.
  destruct (out_mode b) eqn:Hm; cbn [negb] in H.
  - destruct (ok b); cbn [negb] in H; [|cbn in H; inversion H; subst; exact Hm].
    destruct (length (pre b) + length (rest b) <? i); [discriminate|].
    destruct (length (pre b) <? i).
    + destruct (make_room_cases b (i - length (pre b))) as [E|E]; rewrite E in H; cbn in H; inversion H; subst; exact Hm.
    + destruct (i <? length (pre b)).
      * destruct (dead b <? length (pre b) - i).
        -- destruct (ensure_cases b (blen b + (length (pre b) - i - dead b))) as [E|E]; rewrite E in H; cbn in H; inversion H; subst; exact Hm.
        -- cbn in H. inversion H; subst; exact Hm.
      * cbn in H. inversion H; subst; exact Hm.
  - destruct (blen b <? i); [discriminate|]. cbn in H. inversion H; subst. exact Hm.
Qed.

Lemma mv_pres : forall b i b', out_mode b = true -> mv b i = Ok b' -> pres b b'.
Proof.
  intros b i b' Hm H. split; [now apply (mv_out_mode b i)|]. intro Hok.
  destruct (mv_exact b i b' Hm H Hok) as (Hi & d & E). subst b'. cbn in *.
  split; [exact Hok|]. unfold arr at 1. cbn. rewrite firstn_skipn. reflexivity.
Qed.

Lemma replace_glyph_pres : forall b g b', replace_glyph b g = Ok b' -> pres b b'.
Proof.
  intros b g b' H. unfold replace_glyph in H. destruct (rest b) as [|x t] eqn:ER; [discriminate|].
  destruct (make_room_cases b 1) as [E|E]; rewrite E in H; cbn in H; inversion H; subst b'.
  - split; [reflexivity|]. intro Hok. split; [exact Hok|]. unfold arr. cbn. rewrite ER, !app_length. cbn. lia.
  - split; [reflexivity|]. cbn. discriminate.
Qed.

Lemma merge_out_clusters_pres : forall b s e b', merge_out_clusters b s e = Ok b' -> pres b b'.
Proof.
  intros b s e b' H. unfold merge_out_clusters in H.
  destruct (level b =? 2)%N; [inversion H; subst; apply pres_refl|].
  destruct (e - s <? 2); [inversion H; subst; apply pres_refl|].
  destruct (nth_error (pre b) s) as [first|]; [|discriminate].
  destruct (nth_error (pre b) (e - 1)) as [last|]; [|discriminate].
  inversion H; subst b'. split; [reflexivity|]. intro Hok. split; [exact Hok|].
  unfold arr. cbn. rewrite !app_length, map_range_length. f_equal.
  match goal with |- length (if ?c then _ else _) = _ => destruct c end; [|reflexivity].
  rewrite app_length, map_length, firstn_length, skipn_length. lia.
Qed.

Lemma lig_delete_pres : forall ps k ml b ml' b', out_mode b = true ->
  lig_delete ps k ml b = Ok (ml', b') -> pres b b'.
Proof.
  induction k; intros ml b ml' b' Hm H; cbn [lig_delete] in H.
  - inversion H; subst. apply pres_refl.
  - match type of H with bind ?x _ = _ => destruct x as [b1|] eqn:E1 end; cbn [bind] in H; [|discriminate].
    match type of H with bind ?x _ = _ => destruct x as [b2|] eqn:E2 end; cbn [bind] in H; [|discriminate].
    pose proof (mv_pres _ _ _ Hm E1) as P1.
    pose proof (replace_glyph_pres _ _ _ E2) as P2.
    assert (Hm2 : out_mode b2 = true) by (destruct P1, P2; congruence).
    eapply pres_trans; [exact P1|]. eapply pres_trans; [exact P2|]. eapply IHk; eauto.
Qed.

Lemma lig_loop_pres : forall actions comps ligs ps cursor ml ai lidx b ml' b' amb, out_mode b = true ->
  lig_loop actions comps ligs ps cursor ml ai lidx b = Ok (ml', b', amb) -> pres b b'.
Proof.
  induction cursor; intros ml ai lidx b ml' b' amb Hm H; cbn [lig_loop] in H.
  - inversion H; subst. apply pres_refl.
  - match type of H with bind ?x _ = _ => destruct x as [b1|] eqn:E1 end; cbn [bind] in H; [|discriminate].
    pose proof (mv_pres _ _ _ Hm E1) as P1.
    assert (Hm1 : out_mode b1 = true) by (destruct P1; congruence).
    destruct (nth_error actions (N.to_nat ai)) as [action|]; [|inversion H; subst; exact P1].
    destruct (rest b1) as [|x t] eqn:ER; [discriminate|].
    match type of H with (if ?c then _ else _) = _ => destruct c end; [inversion H; subst; exact P1|].
    match type of H with match ?o with Some _ => _ | None => _ end = _ => destruct o as [cv|] end;
      [|inversion H; subst; exact P1].
    match type of H with (if ?c then _ else _) = _ => destruct c end.
    + match type of H with match ?o with Some _ => _ | None => _ end = _ => destruct o as [lig|] end;
        [|inversion H; subst; exact P1].
      match type of H with bind ?x _ = _ => destruct x as [b2|] eqn:E2 end; cbn [bind] in H; [|discriminate].
      match type of H with bind ?x _ = _ => destruct x as [[mlx b3]|] eqn:E3 end; cbn [bind] in H; [|discriminate].
      match type of H with bind ?x _ = _ => destruct x as [b4|] eqn:E4 end; cbn [bind] in H; [|discriminate].
      match type of H with bind ?x _ = _ => destruct x as [b5|] eqn:E5 end; cbn [bind] in H; [|discriminate].
      pose proof (replace_glyph_pres _ _ _ E2) as P2.
      assert (Hm2 : out_mode b2 = true) by (destruct P2; congruence).
      pose proof (lig_delete_pres _ _ _ _ _ _ Hm2 E3) as P3.
      assert (Hm3 : out_mode b3 = true) by (destruct P3; congruence).
      pose proof (mv_pres _ _ _ Hm3 E4) as P4.
      assert (Hm4 : out_mode b4 = true) by (destruct P4; congruence).
      pose proof (merge_out_clusters_pres _ _ _ _ E5) as P5.
      assert (Hm5 : out_mode b5 = true) by (destruct P5; congruence).
      assert (P15 : pres b b5).
      { eapply pres_trans; [exact P1|]. eapply pres_trans; [exact P2|]. eapply pres_trans; [exact P3|].
        eapply pres_trans; [exact P4|exact P5]. }
      match type of H with (if ?c then _ else _) = _ => destruct c end.
      * inversion H; subst. exact P15.
      * eapply pres_trans; [exact P15|]. eapply IHcursor; eauto.
    + eapply pres_trans; [exact P1|]. eapply IHcursor; eauto.
Qed.

(* the ligature transition restores out_len: the remaining input is as long as before *)
Lemma lig_transition_pot : forall actions comps ligs c e b ops c' b' ops' a, out_mode b = true ->
  lig_transition actions comps ligs c e b ops = Ok (c', b', ops', a) -> ok b' = true ->
  out_mode b' = true /\ length (rest b') = length (rest b) /\ ops' = ops.
Proof.
  intros actions comps ligs [ml0 ps0] e b ops c' b' ops' a Hm H Hok. unfold lig_transition in H.
  match type of H with (let '(ml, ps) := ?p in _) = _ => destruct p as [ml ps] end.
  destruct (has (le_flags e) 8192); [|inversion H; subst; auto].
  destruct (ml =? 0); [inversion H; subst; auto|].
  destruct (rest b) as [|x t] eqn:ER; [inversion H; subst; rewrite ER; auto|].
  match type of H with bind ?x _ = _ => destruct x as [[[ml' b1] amb]|] eqn:E1 end; cbn [bind] in H; [|discriminate].
  match type of H with bind ?x _ = _ => destruct x as [b2|] eqn:E2 end; cbn [bind] in H; [|discriminate].
  inversion H; subst c' b' ops' a. clear H.
  pose proof (lig_loop_pres _ _ _ _ _ _ _ _ _ _ _ _ Hm E1) as P1.
  assert (Hm1 : out_mode b1 = true) by (destruct P1; congruence).
  destruct (mv_exact _ _ _ Hm1 E2 Hok) as (Hi & d & EQ).
  pose proof (mv_pres _ _ _ Hm1 E2) as P2.
  destruct P2 as [M2 P2]. destruct (P2 Hok) as [O1 L2].
  destruct P1 as [M1 P1]. destruct (P1 O1) as [O0 L1].
  split; [congruence|]. split; [|reflexivity].
  subst b2. cbn. rewrite skipn_length, L1. unfold arr, out_len. rewrite Hm, app_length, ER. cbn. lia.
Qed.

Lemma streaming_next_glyph : forall b b2, out_mode b = true -> rest b <> [] -> next_glyph b = Ok b2 -> ok b2 = true ->
  out_mode b2 = true /\ length (rest b2) < length (rest b).
Proof.
  intros b b2 Hm _ H Hok. destruct (next_glyph_exact b b2 Hm H Hok) as (x & t & ER & EQ).
  subst b2. cbn. rewrite ER. cbn. split; [exact Hm|lia].
Qed.

Lemma clear_output_out_mode : forall b, out_mode (clear_output b) = true.
Proof. intro b. unfold clear_output. destruct (out_mode b); reflexivity. Qed.

Lemma lig_drive_total : forall actions comps ligs st ng b ops state c amb gate lr,
  let b0 := drive_start false b in
  drive_loop (lig_machine actions comps ligs) st ng (drive_fuel b0 ops) state c b0 ops amb gate lr <> None.
Proof.
  intros actions comps ligs st ng b ops state c amb gate lr b0.
  apply (drive_loop_total (lig_machine actions comps ligs) st ng (fun b => out_mode b = true)).
  - intros c1 e b1 ops1 c' b' ops' a HI HT Hok.
    destruct (lig_transition_pot _ _ _ _ _ _ _ _ _ _ _ HI HT Hok) as (M & R & ->).
    split; [exact M|]. unfold pot. lia.
  - apply streaming_next_glyph.
  - apply clear_output_out_mode.
  - unfold drive_fuel, drive_potential, pot. lia.
Qed.

(* ---- insertion *)

(* growth of pre ++ rest by at most k, rest untouched *)
Definition grows (k : nat) (b b' : zbuf) : Prop :=
  out_mode b' = out_mode b /\
  (ok b' = true -> ok b = true /\ rest b' = rest b /\ length (pre b') <= length (pre b) + k).

Lemma output_glyph_grows : forall b g b', output_glyph b g = Ok b' -> grows 1 b b'.
Proof.
  intros b g b' H. unfold output_glyph in H.
  destruct (make_room_cases b 1) as [E|E]; rewrite E in H; cbn in H.
  - destruct (rest b) as [|x t] eqn:ER; destruct (rev (pre b)) as [|l r]; inversion H; subst b';
      (split; [reflexivity|]); intro Hok; cbn in *; rewrite ?ER, ?app_length; cbn; repeat split; auto; lia.
  - inversion H; subst b'. split; [reflexivity|]. cbn. discriminate.
Qed.

Lemma output_glyphs_grows : forall gs b b', output_glyphs b gs = Ok b' -> grows (length gs) b b'.
Proof.
  induction gs as [|g gs IH]; intros b b' H; cbn [output_glyphs] in H.
  - inversion H; subst. split; [reflexivity|]. intro. repeat split; auto. cbn. lia.
  - match type of H with bind ?x _ = _ => destruct x as [b1|] eqn:E1 end; cbn [bind] in H; [|discriminate].
    destruct (output_glyph_grows _ _ _ E1) as [M1 G1]. destruct (IH _ _ H) as [M2 G2].
    split; [congruence|]. intro Hok. destruct (G2 Hok) as (O1 & R2 & L2). destruct (G1 O1) as (O0 & R1 & L1).
    repeat split; [exact O0|congruence|cbn [length]; lia].
Qed.

Lemma ins_block_grows : forall b before gs b', out_mode b = true -> ins_block b before gs = Ok b' ->
  out_mode b' = true /\ (ok b' = true -> ok b = true /\ length (arr b') <= length (arr b) + length gs).
Proof.
  intros b before gs b' Hm H. unfold ins_block in H.
  match type of H with bind ?x _ = _ => destruct x as [b1|] eqn:E1 end; cbn [bind] in H; [|discriminate].
  match type of H with bind ?x _ = _ => destruct x as [b2|] eqn:E2 end; cbn [bind] in H; [|discriminate].
  destruct (output_glyphs_grows _ _ _ E2) as [M2 G2].
  destruct (nonempty (rest b) && negb before) eqn:EC.
  - (* copy ... skip *)
    assert (Hm1 : out_mode b1 = true).
    { unfold copy_glyph in E1. destruct (make_room_cases b 1) as [E|E]; rewrite E in E1; cbn in E1.
      - destruct (rest b); [discriminate|]. inversion E1; subst. exact Hm.
      - inversion E1; subst. exact Hm. }
    assert (Hm2 : out_mode b2 = true) by congruence.
    destruct (nonempty (rest b2) && negb before) eqn:EC2.
    + destruct (skip_glyph_exact _ _ Hm2 H) as (y & t2 & ER2 & EQ). subst b'. cbn.
      split; [exact Hm2|]. intro Hok. cbn in Hok. destruct (G2 Hok) as (O1 & R2 & L2).
      destruct (copy_glyph_exact _ _ E1 O1) as (x & t & ER & EQ1). subst b1. cbn in *.
      split; [exact O1|]. unfold arr. cbn. rewrite !app_length in *. rewrite ER2 in R2. rewrite <- R2. cbn in *. lia.
    + inversion H; subst b'. split; [exact Hm2|]. intro Hok. destruct (G2 Hok) as (O1 & R2 & L2).
      destruct (copy_glyph_exact _ _ E1 O1) as (x & t & ER & EQ1). subst b1. cbn in *.
      (* rest b2 = rest b is non-empty and before = false: the skip condition cannot be false *)
      rewrite R2, ER in EC2. apply andb_true_iff in EC. destruct EC as [_ EB]. rewrite EB in EC2. discriminate.
  - inversion E1; subst b1. assert (Hm2 : out_mode b2 = true) by congruence.
    destruct (nonempty (rest b2) && negb before) eqn:EC2.
    + destruct (skip_glyph_exact _ _ Hm2 H) as (y & t2 & ER2 & EQ). subst b'. cbn.
      split; [exact Hm2|]. intro Hok. cbn in Hok. destruct (G2 Hok) as (O1 & R2 & L2).
      split; [exact O1|]. unfold arr. cbn. rewrite !app_length. rewrite <- R2, ER2. cbn. lia.
    + inversion H; subst b'. split; [exact Hm2|]. intro Hok. destruct (G2 Hok) as (O1 & R2 & L2).
      split; [exact O1|]. unfold arr. rewrite !app_length, R2. lia.
Qed.

Lemma ins_list_length : forall glyphs n start gs, ins_list glyphs start n = Some gs -> length gs = n.
Proof.
  induction n; intros start gs H; cbn in H.
  - inversion H. reflexivity.
  - destruct (nth_error glyphs (N.to_nat start)); [|discriminate].
    destruct (ins_list glyphs (start + 1) n) eqn:E; [|discriminate].
    inversion H. cbn. f_equal. eapply IHn; eauto.
Qed.

Lemma ins_checked_count : forall glyphs start count gs cnt amb,
  ins_checked glyphs start count = (gs, cnt, amb) -> length gs = cnt /\ cnt <= N.to_nat count.
Proof.
  intros glyphs start count gs cnt amb H. unfold ins_checked in H.
  destruct (ins_list glyphs start (N.to_nat count)) eqn:E; inversion H; subst.
  - apply ins_list_length in E. lia.
  - cbn. lia.
Qed.

(* insert (copy? outputs skip?) then move_to tgt: what is left of the input *)
Lemma ins_at : forall b1 before gs b2 tgt b3, out_mode b1 = true ->
  ins_block b1 before gs = Ok b2 -> mv b2 tgt = Ok b3 -> ok b3 = true ->
  out_mode b3 = true /\ ok b1 = true /\ length (rest b3) + tgt <= length (arr b1) + length gs.
Proof.
  intros b1 before gs b2 tgt b3 Hm HB HM Hok.
  destruct (ins_block_grows _ _ _ _ Hm HB) as [Hm2 G].
  destruct (mv_exact _ _ _ Hm2 HM Hok) as (Ht & d & EQ).
  assert (O2 : ok b2 = true) by (subst b3; exact Hok).
  destruct (G O2) as [O1 L]. subst b3. cbn. rewrite skipn_length. repeat split; auto. lia.
Qed.

Lemma ins_transition_pot : forall glyphs mark e b ops mark' b' ops' a, out_mode b = true ->
  ins_transition glyphs mark e b ops = Ok (mark', b', ops', a) -> ok b' = true ->
  out_mode b' = true /\ pot b' ops' <= pot b ops.
Proof.
  intros glyphs mark e b ops mark' b' ops' a Hm H Hok. unfold ins_transition in H.
  match type of H with bind ?x _ = _ => destruct x as [r1|] eqn:E1 end; cbn [bind] in H; [|discriminate].
  destruct r1 as [[[bm opsm] ambm]|[bm opsm]].
  - (* the marked part ran (or was absent): second half from (bm, opsm) *)
    assert (Second : out_mode bm = true -> out_mode b' = true /\ ok bm = true /\ pot b' ops' <= pot bm opsm).
    { intros Hmm.
      destruct (ie_current_index e =? 65535)%N; [inversion H; subst; auto|].
      set (count := N.shiftr (N.land (ie_flags e) 992) 5) in *.
      destruct (opsm - Z.of_N count <? 0)%Z eqn:EZ.
      { inversion H; subst. repeat split; auto. unfold pot. apply Z.ltb_lt in EZ. lia. }
      apply Z.ltb_ge in EZ.
      destruct (ins_checked glyphs (ie_current_index e) count) as [[gs cnt] amb2] eqn:EC.
      destruct (ins_checked_count _ _ _ _ _ _ EC) as [Lg Lc].
      match type of H with bind ?x _ = _ => destruct x as [b2|] eqn:E2 end; cbn [bind] in H; [|discriminate].
      match type of H with bind ?x _ = _ => destruct x as [b3|] eqn:E3 end; cbn [bind] in H; [|discriminate].
      inversion H; subst mark' b' ops' a. clear H.
      destruct (ins_at _ _ _ _ _ _ Hmm E2 E3 Hok) as (M3 & Om & L).
      repeat split; auto. unfold pot, arr, out_len in *. rewrite Hmm in L. rewrite app_length in L.
      destruct (has (ie_flags e) 16384); lia. }
    clear H.
    destruct (ie_marked_index e =? 65535)%N.
    { inversion E1; subst bm opsm ambm. destruct (Second Hm) as (M & _ & P). auto. }
    set (count := N.land (ie_flags e) 31) in *.
    destruct (ops - Z.of_N count <=? 0)%Z eqn:EZ; [discriminate|]. apply Z.leb_gt in EZ.
    destruct (ins_checked glyphs (ie_marked_index e) count) as [[gs cnt] amb1] eqn:EC.
    destruct (ins_checked_count _ _ _ _ _ _ EC) as [Lg Lc].
    match type of E1 with bind ?x _ = _ => destruct x as [b1|] eqn:F1 end; cbn [bind] in E1; [|discriminate].
    match type of E1 with bind ?x _ = _ => destruct x as [b2|] eqn:F2 end; cbn [bind] in E1; [|discriminate].
    match type of E1 with bind ?x _ = _ => destruct x as [b3|] eqn:F3 end; cbn [bind] in E1; [|discriminate].
    inversion E1; subst bm opsm ambm. clear E1.
    pose proof (mv_pres _ _ _ Hm F1) as [M1 P1].
    assert (Hm1 : out_mode b1 = true) by congruence.
    assert (Hm3 : out_mode b3 = true).
    { destruct (ins_block_grows _ _ _ _ Hm1 F2) as [Hm2 _]. rewrite (mv_out_mode _ _ _ F3). exact Hm2. }
    destruct (Second Hm3) as (M & O3 & P).
    destruct (ins_at _ _ _ _ _ _ Hm1 F2 F3 O3) as (_ & O1 & L).
    destruct (P1 O1) as [O0 L1].
    split; [exact M|]. unfold pot, arr, out_len in *. rewrite Hm in L. rewrite !app_length in *. lia.
  - (* the marked part returned early: budget gone *)
    inversion H; subst mark' b' ops' a. clear H.
    destruct (ie_marked_index e =? 65535)%N; [discriminate|].
    set (count := N.land (ie_flags e) 31) in *.
    destruct (ops - Z.of_N count <=? 0)%Z eqn:EZ.
    + inversion E1; subst bm opsm. split; [exact Hm|]. unfold pot. apply Z.leb_le in EZ. lia.
    + destruct (ins_checked glyphs (ie_marked_index e) count) as [[gs cnt] amb1].
      match type of E1 with bind ?x _ = _ => destruct x as [b1|] end; cbn [bind] in E1; [|discriminate].
      match type of E1 with bind ?x _ = _ => destruct x as [b2|] end; cbn [bind] in E1; [|discriminate].
      match type of E1 with bind ?x _ = _ => destruct x as [b3|] end; cbn [bind] in E1; discriminate.
Qed.

Lemma ins_drive_total : forall glyphs st ng b ops state c amb gate lr,
  let b0 := drive_start false b in
  drive_loop (ins_machine glyphs) st ng (drive_fuel b0 ops) state c b0 ops amb gate lr <> None.
Proof.
  intros glyphs st ng b ops state c amb gate lr b0.
  apply (drive_loop_total (ins_machine glyphs) st ng (fun b => out_mode b = true)).
  - intros c1 e b1 ops1 c' b' ops' a HI HT Hok. exact (ins_transition_pot _ _ _ _ _ _ _ _ _ HI HT Hok).
  - apply streaming_next_glyph.
  - apply clear_output_out_mode.
  - unfold drive_fuel, drive_potential, pot. lia.
Qed.

(* ------------------------------------------------------------------ insertion: where the glyphs land *)

Lemma output_glyphs_exact : forall gs b b' x t, rest b = x :: t -> output_glyphs b gs = Ok b' -> ok b' = true ->
  b' = with_pr b (pre b ++ map (set_gid x) gs) (rest b) (dead b).
Proof.
  induction gs as [|g gs IH]; intros b b' x t ER H Hok; cbn [output_glyphs] in H.
  - inversion H; subst. cbn. rewrite app_nil_r. destruct b'; reflexivity.
  - match type of H with bind ?x _ = _ => destruct x as [b1|] eqn:E1 end; cbn [bind] in H; [|discriminate].
    destruct (output_glyphs_grows _ _ _ H) as [_ G]. destruct (G Hok) as (O1 & _ & _).
    pose proof (output_glyph_exact _ _ _ E1 O1) as EQ. unfold out_template in EQ. rewrite ER in EQ.
    subst b1.
    assert (ER1 : rest (with_pr b (pre b ++ [set_gid x g]) (x :: t) (dead b)) = x :: t) by reflexivity.
    rewrite (IH _ _ x t ER1 H Hok). cbn. rewrite <- app_assoc, ER. reflexivity.
Qed.

Definition inserted (x : info) (gs : list N) : list info := map (set_gid x) gs.

(* the block around the current glyph x: before => gs x, after => x gs; x stays input when `before` *)
Lemma ins_block_exact : forall b before gs b' x t, out_mode b = true -> rest b = x :: t ->
  ins_block b before gs = Ok b' -> ok b' = true ->
  exists d, b' = with_pr b (pre b ++ (if before then inserted x gs else x :: inserted x gs))
                          (if before then x :: t else t) d.
Proof.
  intros b before gs b' x t Hm ER H Hok. unfold ins_block in H. rewrite ER in H. cbn [nonempty andb] in H.
  destruct before; cbn [negb] in H.
  - cbn [bind] in H.
    match type of H with bind ?x _ = _ => destruct x as [b2|] eqn:E2 end; cbn [bind] in H; [|discriminate].
    rewrite andb_false_r in H. inversion H; subst b'.
    rewrite (output_glyphs_exact _ _ _ x t ER E2 Hok). rewrite ER. eexists. reflexivity.
  - match type of H with bind ?x _ = _ => destruct x as [b1|] eqn:E1 end; cbn [bind] in H; [|discriminate].
    match type of H with bind ?x _ = _ => destruct x as [b2|] eqn:E2 end; cbn [bind] in H; [|discriminate].
    rewrite andb_true_r in H.
    assert (Hm1 : out_mode b1 = true).
    { unfold copy_glyph in E1. destruct (make_room_cases b 1) as [E|E]; rewrite E in E1; cbn in E1.
      - rewrite ER in E1. inversion E1; subst. exact Hm.
      - inversion E1; subst. exact Hm. }
    destruct (output_glyphs_grows _ _ _ E2) as [M2 G2].
    assert (Hm2 : out_mode b2 = true) by congruence.
    destruct (nonempty (rest b2)) eqn:EN.
    + destruct (skip_glyph_exact _ _ Hm2 H) as (y & t2 & ER2 & EQ). subst b'. cbn in Hok.
      destruct (G2 Hok) as (O1 & R2 & _).
      destruct (copy_glyph_exact _ _ E1 O1) as (x' & t' & ER' & EQ1). rewrite ER in ER'. inversion ER'; subst x' t'.
      subst b1.
      assert (ER1 : rest (with_pr b (pre b ++ [x]) (rest b) (dead b)) = x :: t) by (cbn; exact ER).
      pose proof (output_glyphs_exact _ _ _ x t ER1 E2 Hok) as EQ2. cbn in EQ2. subst b2.
      cbn in ER2. rewrite ER in ER2. inversion ER2; subst y t2. cbn.
      eexists. rewrite <- app_assoc. reflexivity.
    + inversion H; subst b'. destruct (G2 Hok) as (O1 & R2 & _).
      destruct (copy_glyph_exact _ _ E1 O1) as (x' & t' & ER' & EQ1). subst b1. cbn in R2.
      rewrite R2, ER in EN. discriminate.
Qed.

Lemma ins_checked_some : forall glyphs start count gs, ins_list glyphs start (N.to_nat count) = Some gs ->
  ins_checked glyphs start count = (gs, N.to_nat count, 0%N).
Proof. intros. unfold ins_checked. rewrite H. reflexivity. Qed.

(* insertion at the CURRENT glyph x (no marked insertion in this entry) *)
Lemma ins_current_exact : forall glyphs mark e b ops mark' b' ops' a x t gs count,
  out_mode b = true -> rest b = x :: t ->
  ie_marked_index e = 65535%N -> ie_current_index e <> 65535%N ->
  count = N.shiftr (N.land (ie_flags e) 0x03E0) 5 ->
  ins_list glyphs (ie_current_index e) (N.to_nat count) = Some gs ->
  (0 <= ops - Z.of_N count)%Z ->
  ins_transition glyphs mark e b ops = Ok (mark', b', ops', a) -> ok b' = true ->
  arr b' = pre b ++ (if has (ie_flags e) 0x0800 then inserted x gs ++ [x] else x :: inserted x gs) ++ t /\
  length (pre b') = (if has (ie_flags e) 0x4000 then length (pre b) else length (pre b) + length gs) /\
  ops' = (ops - Z.of_N count)%Z /\ a = 0%N /\
  mark' = (if has (ie_flags e) 0x8000 then length (pre b) else mark).
Proof.
  intros glyphs mark e b ops mark' b' ops' a x t gs count Hm ER HM HC Hcount HL Hops H Hok.
  unfold ins_transition in H. rewrite HM in H. cbn [N.eqb Pos.eqb bind] in H.
  apply N.eqb_neq in HC. rewrite HC in H. rewrite <- Hcount in H.
  assert (EZ : (ops - Z.of_N count <? 0)%Z = false) by (apply Z.ltb_ge; exact Hops). rewrite EZ in H.
  rewrite (ins_checked_some _ _ _ _ HL) in H.
  match type of H with bind ?x _ = _ => destruct x as [b2|] eqn:E2 end; cbn [bind] in H; [|discriminate].
  match type of H with bind ?x _ = _ => destruct x as [b3|] eqn:E3 end; cbn [bind] in H; [|discriminate].
  inversion H; subst mark' b' ops' a. clear H.
  destruct (ins_block_grows _ _ _ _ Hm E2) as [Hm2 _].
  destruct (mv_exact _ _ _ Hm2 E3 Hok) as (Ht & d & EQ).
  assert (O2 : ok b2 = true) by (subst b3; exact Hok).
  destruct (ins_block_exact _ _ _ _ x t Hm ER E2 O2) as (d2 & EQ2).
  apply ins_list_length in HL.
  assert (A2 : arr b2 = pre b ++ (if has (ie_flags e) 2048 then inserted x gs ++ [x] else x :: inserted x gs) ++ t).
  { subst b2. unfold arr. cbn. destruct (has (ie_flags e) 2048); cbn; rewrite <- !app_assoc; reflexivity. }
  subst b3. unfold arr at 1. cbn. rewrite firstn_skipn. split; [exact A2|].
  split; [|unfold out_len; rewrite Hm; auto].
  rewrite firstn_length. unfold out_len in *. rewrite Hm in *.
  destruct (has (ie_flags e) 16384); lia.
Qed.

(* insertion at the MARKED glyph m = out[mark] (no current insertion in this entry) *)
Lemma ins_marked_exact : forall glyphs e b ops mark' b' ops' a P m Q gs count,
  out_mode b = true -> pre b = P ++ m :: Q ->
  ie_marked_index e <> 65535%N -> ie_current_index e = 65535%N ->
  count = N.land (ie_flags e) 0x1F ->
  ins_list glyphs (ie_marked_index e) (N.to_nat count) = Some gs ->
  (0 < ops - Z.of_N count)%Z ->
  ins_transition glyphs (length P) e b ops = Ok (mark', b', ops', a) -> ok b' = true ->
  arr b' = P ++ (if has (ie_flags e) 0x0400 then inserted m gs ++ [m] else m :: inserted m gs) ++ Q ++ rest b /\
  length (pre b') = length (pre b) + length gs /\
  ops' = (ops - Z.of_N count)%Z /\ a = 0%N.
Proof.
  intros glyphs e b ops mark' b' ops' a P m Q gs count Hm EP HM HC Hcount HL Hops H Hok.
  unfold ins_transition in H. apply N.eqb_neq in HM. rewrite HM in H. rewrite <- Hcount in H.
  assert (EZ : (ops - Z.of_N count <=? 0)%Z = false) by (apply Z.leb_gt; exact Hops). rewrite EZ in H.
  rewrite (ins_checked_some _ _ _ _ HL) in H.
  match type of H with bind (bind ?x _) _ = _ => destruct x as [b1|] eqn:E1 end; cbn [bind] in H; [|discriminate].
  match type of H with bind (bind ?x _) _ = _ => destruct x as [b2|] eqn:E2 end; cbn [bind] in H; [|discriminate].
  match type of H with bind (bind ?x _) _ = _ => destruct x as [b3|] eqn:E3 end; cbn [bind] in H; [|discriminate].
  rewrite HC in H. cbn [N.eqb Pos.eqb] in H. inversion H; subst mark' b' ops' a. clear H.
  pose proof (mv_out_mode _ _ _ E1) as M1. assert (Hm1 : out_mode b1 = true) by congruence.
  destruct (ins_block_grows _ _ _ _ Hm1 E2) as [Hm2 G2].
  destruct (mv_exact _ _ _ Hm2 E3 Hok) as (Ht & d3 & EQ3).
  assert (O2 : ok b2 = true) by (subst b3; exact Hok).
  destruct (G2 O2) as [O1 _].
  destruct (mv_exact _ _ _ Hm E1 O1) as (Hmk & d1 & EQ1).
  assert (F1 : firstn (length P) (arr b) = P).
  { unfold arr. rewrite EP, <- app_assoc. rewrite firstn_app, Nat.sub_diag, firstn_all. cbn. apply app_nil_r. }
  assert (S1 : skipn (length P) (arr b) = m :: Q ++ rest b).
  { unfold arr. rewrite EP, <- app_assoc. rewrite skipn_app, Nat.sub_diag, skipn_all. reflexivity. }
  rewrite F1, S1 in EQ1.
  assert (ER1 : rest b1 = m :: Q ++ rest b) by (subst b1; reflexivity).
  destruct (ins_block_exact _ _ _ _ m (Q ++ rest b) Hm1 ER1 E2 O2) as (d2 & EQ2).
  apply ins_list_length in HL.
  assert (A2 : arr b2 = P ++ (if has (ie_flags e) 1024 then inserted m gs ++ [m] else m :: inserted m gs) ++ Q ++ rest b).
  { subst b2 b1. unfold arr. cbn. destruct (has (ie_flags e) 1024); cbn; rewrite <- !app_assoc; reflexivity. }
  subst b3. unfold arr at 1. cbn. rewrite firstn_skipn. split; [exact A2|].
  split; [|auto]. rewrite firstn_length. unfold out_len in *. rewrite Hm in *. lia.
Qed.

(* ------------------------------------------------------------------ contextual: what is substituted where *)

Definition sub_at (j : nat) (r : option N) (l : list info) : list info :=
  match r with Some g => map_range (fun x => set_gid x g) j (S j) l | None => l end.

Lemma arr_set_gid_at : forall b i g, arr (set_gid_at b i g) = map_range (fun x => set_gid x g) i (S i) (arr b).
Proof. intros. unfold set_gid_at. apply arr_of_arr. Qed.

Lemma map_range_cluster : forall (f : info -> info) l s e, (forall x, cluster (f x) = cluster x) ->
  map cluster (map_range f s e l) = map cluster l.
Proof. induction l; intros [|s] [|e] Hf; cbn; auto; rewrite ?Hf; f_equal; auto. Qed.

(* a transition that is not skipped (not "end of text without a mark") and whose two table lookups
   resolve: the glyph at `mark` goes through table mark_index, then the glyph at min(idx, len-1)
   (as it is AFTER the first substitution) through table current_index; nothing else changes *)
Lemma ctx_transition_exact : forall subs ng ms mk e b ops c' b' ops' a gm gc rm rc,
  ((dead b =? blen b) && negb ms)%bool = false -> blen b <> 0 ->
  (ce_mark_index e =? 65535)%N = false -> nth_error (arr b) mk = Some gm ->
  ctx_replacement subs ng (ce_mark_index e) (gid gm) = inl rm ->
  let i := Nat.min (dead b) (blen b - 1) in
  (ce_current_index e =? 65535)%N = false -> nth_error (sub_at mk rm (arr b)) i = Some gc ->
  ctx_replacement subs ng (ce_current_index e) (gid gc) = inl rc ->
  ctx_transition subs ng (ms, mk) e b ops = Ok (c', b', ops', a) ->
  arr b' = sub_at i rc (sub_at mk rm (arr b)) /\
  map cluster (arr b') = map cluster (arr b) /\
  c' = (if has (ce_flags e) 0x8000 then (true, dead b) else (ms, mk)) /\ ops' = ops /\ a = 0%N.
Proof.
  intros subs ng ms mk e b ops c' b' ops' a gm gc rm rc Hskip Hnz HMI HGM HRM i HCI HGC HRC H.
  unfold ctx_transition in H. rewrite Hskip, HMI, HGM in H. cbn [bind] in H. rewrite HRM in H.
  assert (Hlen : (blen b =? 0) = false) by (now apply Nat.eqb_neq).
  rewrite Hlen, HCI in H. fold i in H.
  assert (A1 : arr (match rm with Some r => set_gid_at b mk r | None => b end) = sub_at mk rm (arr b)).
  { destruct rm; [apply arr_set_gid_at|reflexivity]. }
  rewrite A1, HGC in H. cbn [bind] in H. rewrite HRC in H.
  inversion H; subst c' b' ops' a. clear H.
  assert (A2 : arr (match rc with Some r => set_gid_at (match rm with Some r0 => set_gid_at b mk r0 | None => b end) i r
                    | None => match rm with Some r0 => set_gid_at b mk r0 | None => b end end)
               = sub_at i rc (sub_at mk rm (arr b))).
  { destruct rc; [rewrite arr_set_gid_at, A1; reflexivity|exact A1]. }
  split; [exact A2|]. split; [|auto].
  rewrite A2. unfold sub_at. destruct rc, rm; rewrite ?map_range_cluster; auto.
Qed.

(* ------------------------------------------------------------------ ligature: one pair *)

Lemma mv_noop : forall b, out_mode b = true -> ok b = true -> mv b (length (pre b)) = Ok b.
Proof.
  intros b Hm Ho. unfold mv, move_to. rewrite Hm, Ho. cbn [negb].
  replace (length (pre b) + length (rest b) <? length (pre b)) with false by (symmetry; apply Nat.ltb_ge; lia).
  rewrite Nat.ltb_irrefl. reflexivity.
Qed.

Lemma pos_get_set_same : forall ps i v, i < LIG_MAX_MATCHES -> length ps = LIG_MAX_MATCHES -> pos_get (pos_set ps i v) i = v.
Proof.
  intros ps i v Hi Hl. unfold pos_get, pos_set. rewrite Nat.mod_small by exact Hi.
  rewrite nth_upd_nth by lia. now rewrite Nat.eqb_refl.
Qed.

Lemma pos_get_set_other : forall ps i j v, i < LIG_MAX_MATCHES -> j < LIG_MAX_MATCHES -> i <> j ->
  length ps = LIG_MAX_MATCHES -> pos_get (pos_set ps i v) j = pos_get ps j.
Proof.
  intros ps i j v Hi Hj Hne Hl. unfold pos_get, pos_set. rewrite !Nat.mod_small by assumption.
  rewrite nth_upd_nth by lia. destruct (Nat.eqb_spec j i); [congruence|reflexivity].
Qed.

Lemma map_range_gid : forall (f : info -> info) l s e, (forall x, gid (f x) = gid x) ->
  map gid (map_range f s e l) = map gid l.
Proof. induction l; intros [|s] [|e] Hf; cbn; auto; rewrite ?Hf; f_equal; auto. Qed.

Lemma gid_set_cluster : forall x c m, gid (set_cluster x c m) = gid x.
Proof. intros. unfold set_cluster. destruct (cluster x =? c)%N; reflexivity. Qed.

Lemma merge_out_clusters_gids : forall b s e b', merge_out_clusters b s e = Ok b' ->
  map gid (arr b') = map gid (arr b) /\ length (pre b') = length (pre b).
Proof.
  intros b s e b' H. unfold merge_out_clusters in H.
  destruct (level b =? 2)%N; [inversion H; subst; auto|].
  destruct (e - s <? 2); [inversion H; subst; auto|].
  destruct (nth_error (pre b) s) as [first|]; [|discriminate].
  destruct (nth_error (pre b) (e - 1)) as [last|]; [|discriminate].
  inversion H; subst b'. unfold arr. cbn. rewrite map_range_length. split; [|reflexivity].
  rewrite !map_app. f_equal.
  - apply map_range_gid. intro x. apply gid_set_cluster.
  - match goal with |- map gid (if ?c then _ else _) = _ => destruct c end; [|reflexivity].
    rewrite map_app, map_map.
    transitivity (map gid (firstn (run_len (cluster last) (rest b)) (rest b) ++ skipn (run_len (cluster last) (rest b)) (rest b)));
      [|now rewrite firstn_skipn].
    rewrite map_app. f_equal. apply map_ext. intro x. apply gid_set_cluster.
Qed.

(* what follows the first move_to of an iteration of the action loop keeps `pres` *)
Lemma lig_loop_tail_pres : forall actions comps ligs ps cur ml ai lidx b b1 ml' b' amb, out_mode b = true ->
  mv b (pos_get ps cur) = Ok b1 ->
  lig_loop actions comps ligs ps (S cur) ml ai lidx b = Ok (ml', b', amb) -> pres b1 b'.
Proof.
  intros actions comps ligs ps cur ml ai lidx b b1 ml' b' amb Hm E1 H. cbn [lig_loop] in H.
  rewrite E1 in H. cbn [bind] in H.
  pose proof (mv_pres _ _ _ Hm E1) as P1.
  assert (Hm1 : out_mode b1 = true) by (destruct P1; congruence).
  destruct (nth_error actions (N.to_nat ai)) as [action|]; [|inversion H; subst; apply pres_refl].
  destruct (rest b1) as [|x t] eqn:ER; [discriminate|].
  match type of H with (if ?c then _ else _) = _ => destruct c end; [inversion H; subst; apply pres_refl|].
  match type of H with match ?o with Some _ => _ | None => _ end = _ => destruct o as [cv|] end;
    [|inversion H; subst; apply pres_refl].
  match type of H with (if ?c then _ else _) = _ => destruct c end.
  - match type of H with match ?o with Some _ => _ | None => _ end = _ => destruct o as [lig|] end;
      [|inversion H; subst; apply pres_refl].
    match type of H with bind ?x _ = _ => destruct x as [b2|] eqn:E2 end; cbn [bind] in H; [|discriminate].
    match type of H with bind ?x _ = _ => destruct x as [[mlx b3]|] eqn:E3 end; cbn [bind] in H; [|discriminate].
    match type of H with bind ?x _ = _ => destruct x as [b4|] eqn:E4 end; cbn [bind] in H; [|discriminate].
    match type of H with bind ?x _ = _ => destruct x as [b5|] eqn:E5 end; cbn [bind] in H; [|discriminate].
    pose proof (replace_glyph_pres _ _ _ E2) as P2.
    assert (Hm2 : out_mode b2 = true) by (destruct P2; congruence).
    pose proof (lig_delete_pres _ _ _ _ _ _ Hm2 E3) as P3.
    assert (Hm3 : out_mode b3 = true) by (destruct P3; congruence).
    pose proof (mv_pres _ _ _ Hm3 E4) as P4.
    assert (Hm4 : out_mode b4 = true) by (destruct P4; congruence).
    pose proof (merge_out_clusters_pres _ _ _ _ E5) as P5.
    assert (Hm5 : out_mode b5 = true) by (destruct P5; congruence).
    assert (P15 : pres b1 b5).
    { eapply pres_trans; [exact P2|]. eapply pres_trans; [exact P3|]. eapply pres_trans; [exact P4|exact P5]. }
    match type of H with (if ?c then _ else _) = _ => destruct c end.
    + inversion H; subst. exact P15.
    + eapply pres_trans; [exact P15|]. eapply lig_loop_pres; eauto.
  - eapply lig_loop_pres; eauto.
Qed.

Lemma arr_pre_split : forall b P x, pre b = P ++ [x] ->
  firstn (length P) (arr b) = P /\ skipn (length P) (arr b) = x :: rest b.
Proof.
  intros b P x EP. unfold arr. rewrite EP, <- app_assoc. split.
  - rewrite firstn_app, Nat.sub_diag, firstn_all. cbn. apply app_nil_r.
  - rewrite skipn_app, Nat.sub_diag, skipn_all. reflexivity.
Qed.

Lemma lig_loop_S : forall actions comps ligs ps cur ml ai lidx b,
  lig_loop actions comps ligs ps (S cur) ml ai lidx b =
  (do b1 <- mv b (pos_get ps cur);
   match nth_error actions (N.to_nat ai) with
   | None => Ok (ml, b1, AMB_TABLE)
   | Some action =>
     match rest b1 with
     | [] => Error Oob
     | x :: _ =>
       let ci := (Z.of_N (gid x) + lig_offset action)%Z in
       if (ci <? 0)%Z then Ok (ml, b1, 0%N)
       else
         match nth_error comps (Z.to_nat ci) with
         | None => Ok (ml, b1, AMB_TABLE)
         | Some cv =>
           let lidx' := (lidx + cv)%N in
           if has action 0xC0000000 then
             match nth_error ligs (N.to_nat lidx') with
             | None => Ok (ml, b1, AMB_TABLE)
             | Some lig =>
               do b2 <- replace_glyph b1 lig;
               let lig_end := S (pos_get ps (ml - 1)) in
               do r <- lig_delete ps (ml - 1 - cur) ml b2;
               let '(ml', b3) := r in
               do b4 <- mv b3 lig_end;
               do b5 <- merge_out_clusters b4 (pos_get ps cur) (out_len b4);
               if has action 0x80000000 then Ok (ml', b5, 0%N)
               else lig_loop actions comps ligs ps cur ml' (ai + 1)%N lidx' b5
             end
           else lig_loop actions comps ligs ps cur ml (ai + 1)%N lidx' b1
         end
     end
   end).
Proof. reflexivity. Qed.

(* One pair:  a (on the stack, already in the out-buffer)  b (current, pushed by this entry) with the
   action list [act0 (component of b); act1 (component of a, STORE or LAST)].  The ligature glyph
   replaces a, b becomes the deleted glyph 0xFFFF, the cursor ends where it was. *)
Lemma lig_pair_exact : forall actions comps ligs ps0 e b ops c' b' ops' a P xa xb t act0 act1 c0 c1 lig,
  out_mode b = true -> pre b = P ++ [xa] -> rest b = xb :: t ->
  length ps0 = LIG_MAX_MATCHES -> pos_get ps0 0 = length P ->
  has (le_flags e) 0x8000 = true -> has (le_flags e) 0x2000 = true ->
  nth_error actions (N.to_nat (le_action_index e)) = Some act0 -> has act0 0xC0000000 = false ->
  nth_error actions (N.to_nat (le_action_index e + 1)) = Some act1 -> has act1 0xC0000000 = true ->
  (Z.of_N (gid xb) + lig_offset act0 <? 0)%Z = false ->
  nth_error comps (Z.to_nat (Z.of_N (gid xb) + lig_offset act0)) = Some c0 ->
  (Z.of_N (gid xa) + lig_offset act1 <? 0)%Z = false ->
  nth_error comps (Z.to_nat (Z.of_N (gid xa) + lig_offset act1)) = Some c1 ->
  nth_error ligs (N.to_nat (0 + c0 + c1)) = Some lig ->
  lig_transition actions comps ligs (1, ps0) e b ops = Ok (c', b', ops', a) -> ok b' = true ->
  map gid (arr b') = map gid P ++ [lig; DELETED_GLYPH] ++ map gid t /\ length (pre b') = length P + 1 /\
  (exists b4 b5, pre b4 = P ++ [set_gid xa lig; set_gid xb DELETED_GLYPH] /\ rest b4 = t /\ level b4 = level b /\
                 merge_out_clusters b4 (length P) (length P + 2) = Ok b5 /\ arr b' = arr b5) /\
  ops' = ops /\ a = 0%N /\ fst c' = (if has act1 0x80000000 then 1 else 0).
Proof.
  intros actions comps ligs ps0 e b ops c' b' ops' a P xa xb t act0 act1 c0 c1 lig
         Hm EP ER Lps P0 FS FP A0 NS0 A1 S1 Z0 C0 Z1 C1 LG H Hok.
  assert (OL : out_len b = length P + 1) by (unfold out_len; rewrite Hm, EP, app_length; reflexivity).
  unfold lig_transition in H. rewrite FS, FP, OL in H. cbn [Nat.eqb negb Nat.sub andb] in H.
  rewrite P0 in H. replace (length P =? length P + 1) with false in H by (symmetry; apply Nat.eqb_neq; lia).
  set (ps := pos_set ps0 1 (length P + 1)) in *.
  cbn [Nat.eqb] in H. rewrite ER in H.
  match type of H with bind ?x _ = _ => destruct x as [[[ml' b1] amb]|] eqn:E1 end; cbn [bind] in H; [|discriminate].
  match type of H with bind ?x _ = _ => destruct x as [b2|] eqn:E2 end; cbn [bind] in H; [|discriminate].
  inversion H; subst c' b' ops' a. clear H.
  assert (G1 : pos_get ps 1 = length P + 1) by (apply pos_get_set_same; [unfold LIG_MAX_MATCHES; lia|exact Lps]).
  assert (G0 : pos_get ps 0 = length P).
  { unfold ps. rewrite pos_get_set_other; [exact P0| | |lia|exact Lps]; unfold LIG_MAX_MATCHES; lia. }
  (* ok flows backwards *)
  pose proof (lig_loop_pres _ _ _ _ _ _ _ _ _ _ _ _ Hm E1) as PL.
  assert (Hm1 : out_mode b1 = true) by (destruct PL; congruence).
  pose proof (mv_pres _ _ _ Hm1 E2) as [_ PM]. destruct (PM Hok) as [O1 _].
  destruct PL as [_ PL]. destruct (PL O1) as [O0 _].
  (* first iteration: cursor 2 -> 1, component of b, no store *)
  rewrite lig_loop_S in E1. rewrite G1 in E1.
  replace (length P + 1) with (length (pre b)) in E1 at 1 by (rewrite EP, app_length; reflexivity).
  rewrite (mv_noop b Hm O0) in E1. cbn [bind] in E1.
  rewrite A0, ER in E1. cbv zeta in E1. rewrite Z0, C0, NS0 in E1.
  (* second iteration: cursor 1 -> 0 *)
  destruct (mv b (pos_get ps 0)) as [b1a|] eqn:EA; [|rewrite lig_loop_S, EA in E1; discriminate].
  pose proof (lig_loop_tail_pres _ _ _ _ _ _ _ _ _ _ _ _ _ Hm EA E1) as [_ PT]. destruct (PT O1) as [O1a _].
  rewrite lig_loop_S, EA in E1. cbn [bind] in E1.
  rewrite G0 in EA. destruct (mv_exact _ _ _ Hm EA O1a) as (_ & d1 & EQ1).
  destruct (arr_pre_split b P xa EP) as [F1 S1']. rewrite F1, S1', ER in EQ1.
  assert (ER1 : rest b1a = xa :: xb :: t) by (subst b1a; reflexivity).
  rewrite A1, ER1 in E1. cbv zeta in E1. rewrite Z1, C1, S1, LG in E1.
  match type of E1 with bind ?x _ = _ => destruct x as [b2a|] eqn:F2 end; cbn [bind] in E1; [|discriminate].
  match type of E1 with bind ?x _ = _ => destruct x as [[mlx b3a]|] eqn:F3 end; cbn [bind] in E1; [|discriminate].
  match type of E1 with bind ?x _ = _ => destruct x as [b4a|] eqn:F4 end; cbn [bind] in E1; [|discriminate].
  match type of E1 with bind ?x _ = _ => destruct x as [b5a|] eqn:F5 end; cbn [bind] in E1; [|discriminate].
  assert (EB1 : b1 = b5a /\ ml' = (if has act1 2147483648 then mlx else 0) /\ amb = 0%N).
  { destruct (has act1 2147483648); cbn [lig_loop] in E1; inversion E1; auto. }
  destruct EB1 as (-> & -> & ->). clear E1.
  (* ok backwards through the store *)
  assert (Hm1a : out_mode b1a = true) by (subst b1a; exact Hm).
  pose proof (replace_glyph_pres _ _ _ F2) as [M2 Q2]. assert (Hm2a : out_mode b2a = true) by congruence.
  pose proof (lig_delete_pres _ _ _ _ _ _ Hm2a F3) as [M3 Q3]. assert (Hm3a : out_mode b3a = true) by congruence.
  pose proof (mv_pres _ _ _ Hm3a F4) as [M4 Q4]. assert (Hm4a : out_mode b4a = true) by congruence.
  pose proof (merge_out_clusters_pres _ _ _ _ F5) as [M5 Q5].
  destruct (Q5 O1) as [O4 _]. destruct (Q4 O4) as [O3 _]. destruct (Q3 O3) as [O2 _].
  (* forward: exact shapes *)
  destruct (replace_glyph_exact _ _ _ F2 O2) as (x2 & t2 & ER2 & EQ2). rewrite ER1 in ER2. inversion ER2; subst x2 t2.
  assert (PR2 : pre b2a = P ++ [set_gid xa lig]) by (subst b2a b1a; reflexivity).
  assert (RR2 : rest b2a = xb :: t) by (subst b2a; reflexivity).
  (* lig_delete: one round *)
  replace (2 - 1 - 0) with 1 in F3 by reflexivity. cbn [lig_delete Nat.sub] in F3. rewrite G1 in F3.
  replace (length P + 1) with (length (pre b2a)) in F3 by (rewrite PR2, app_length; reflexivity).
  rewrite (mv_noop b2a Hm2a O2) in F3. cbn [bind] in F3.
  match type of F3 with bind ?x _ = _ => destruct x as [b3x|] eqn:F3x end; cbn [bind] in F3; [|discriminate].
  inversion F3; subst mlx b3x. clear F3.
  destruct (replace_glyph_exact _ _ _ F3x O3) as (x3 & t3 & ER3 & EQ3). rewrite RR2 in ER3. inversion ER3; subst x3 t3.
  assert (PR3 : pre b3a = P ++ [set_gid xa lig; set_gid xb DELETED_GLYPH]).
  { subst b3a. cbn. rewrite PR2, <- app_assoc. reflexivity. }
  assert (RR3 : rest b3a = t) by (subst b3a; reflexivity).
  (* move_to(lig_end) is a no-op *)
  cbn [Nat.sub] in F4. rewrite G1 in F4.
  replace (S (length P + 1)) with (length (pre b3a)) in F4 by (rewrite PR3, app_length; cbn; lia).
  rewrite (mv_noop b3a Hm3a O3) in F4. inversion F4; subst b4a. clear F4.
  destruct (merge_out_clusters_gids _ _ _ _ F5) as [GG LL].
  (* final move_to(end) *)
  destruct (mv_exact _ _ _ Hm1 E2 Hok) as (_ & d & EQ). subst b2.
  unfold arr at 1. cbn. rewrite firstn_skipn. split.
  - rewrite GG. unfold arr. rewrite PR3, RR3, !map_app. cbn. rewrite <- app_assoc. reflexivity.
  - split.
    + rewrite firstn_length. assert (length (arr b5a) >= length P + 2).
      { unfold arr. rewrite app_length, LL, PR3, app_length. cbn. lia. } lia.
    + split; [|repeat split].
      exists b3a, b5a. split; [exact PR3|]. split; [exact RR3|]. split; [subst b3a b2a b1a; reflexivity|].
      split; [|reflexivity].
      rewrite G0 in F5. unfold out_len in F5. rewrite Hm3a, PR3, app_length in F5. exact F5.
Qed.

Lemma nth_error_map_range : forall A (f : A -> A) l s e i,
  nth_error (map_range f s e l) i = if (s <=? i) && (i <? e) then option_map f (nth_error l i) else nth_error l i.
Proof.
  induction l as [|x l IH]; intros s e i.
  - destruct s, e, i; cbn; try reflexivity; match goal with |- _ = (if ?c then _ else _) => destruct c end; reflexivity.
  - destruct s as [|s], e as [|e], i as [|i]; cbn; rewrite ?andb_false_r; auto; rewrite IH; reflexivity.
Qed.

(* levels 0/1: after merge_out_clusters(s, e) every glyph of out[s..e) carries the minimum cluster of the range *)
Lemma merge_out_clusters_min : forall b s e b' i x, merge_out_clusters b s e = Ok b' ->
  level b <> 2%N -> 2 <= e - s -> s <= i < e -> nth_error (pre b') i = Some x ->
  exists first, nth_error (pre b) s = Some first /\
                cluster x = min_cluster_list (slice (pre b) (S s) e) (cluster first).
Proof.
  intros b s e b' i x H HL He Hi Hx. unfold merge_out_clusters in H.
  apply N.eqb_neq in HL. rewrite HL in H.
  replace (e - s <? 2) with false in H by (symmetry; apply Nat.ltb_ge; lia).
  destruct (nth_error (pre b) s) as [first|] eqn:E1; [|discriminate].
  destruct (nth_error (pre b) (e - 1)) as [last|] eqn:E2; [|discriminate].
  inversion H; subst b'. clear H. cbn in Hx. rewrite nth_error_map_range in Hx.
  exists first. split; [reflexivity|].
  match type of Hx with (if ?c then _ else _) = _ => replace c with true in Hx end.
  - destruct (nth_error (pre b) i); cbn in Hx; [|discriminate]. inversion Hx. unfold set_cluster. destruct (cluster i0 =? _)%N eqn:EE; [apply N.eqb_eq in EE; exact EE|reflexivity].
  - symmetry. apply andb_true_iff. split; [apply Nat.leb_le|apply Nat.ltb_lt]; lia.
Qed.

(* ------------------------------------------------------------------ chain flag compilation with user features *)

Local Open Scope N_scope.

(* the update of one chain feature entry, exactly *)
Lemma flag_step_spec : forall hf flags f,
  flag_step hf flags f =
  if hf (mf_type f) (mf_setting f) || ((mf_type f =? 3) && (mf_setting f =? 3) && hf 37 1)
  then N.lor (N.land flags (mf_disable f)) (mf_enable f) else flags.
Proof. reflexivity. Qed.

(* the entries act in table order: a fold from the default flags *)
Lemma chain_flags_app : forall hf d fs1 fs2 subs,
  chain_flags hf (mkMorxChain d (fs1 ++ fs2) subs) =
  fold_left (flag_step hf) fs2 (chain_flags hf (mkMorxChain d fs1 subs)).
Proof. intros. unfold chain_flags. cbn. apply fold_left_app. Qed.

Lemma chain_flags_single : forall hf d f subs,
  chain_flags hf (mkMorxChain d [f] subs) =
  if entry_active hf f then N.lor (N.land d (mf_disable f)) (mf_enable f) else d.
Proof. reflexivity. Qed.

(* entries whose (type, setting) is not active leave the flags alone *)
Lemma chain_flags_inactive : forall hf c,
  (forall f, In f (mc_features c) -> entry_active hf f = false) -> chain_flags hf c = mc_default_flags c.
Proof.
  intros hf c. unfold chain_flags. generalize (mc_default_flags c).
  induction (mc_features c) as [|f t IH]; intros fl H; cbn [fold_left]; [reflexivity|].
  unfold flag_step at 2. rewrite (H f (or_introl eq_refl)). apply IH. intros g Hg. apply H. now right.
Qed.

(* no feat table: no user feature is ever added; one range, no active feature *)
Lemma add_features_nofeat : forall fs, add_features None fs = Ok [].
Proof. induction fs as [|f t IH]; cbn; [reflexivity|]. rewrite IH. reflexivity. Qed.

Lemma user_ranges_nofeat : forall fs, user_ranges None fs = Ok [([], 0, U32MAX)].
Proof. intro fs. unfold user_ranges. rewrite add_features_nofeat. reflexivity. Qed.

Lemma has_feature_nil : forall k s, has_feature [] k s = false.
Proof. reflexivity. Qed.

Lemma run_chain_nofeat : forall ng d c p,
  run_chain ng d [([], 0, U32MAX)] c p = run_subtables ng d (mc_default_flags c) (mc_subtables c) p.
Proof.
  intros. unfold run_chain, chain_rflags. cbn [map].
  replace (chain_flags (has_feature []) c) with (mc_default_flags c); [reflexivity|].
  symmetry. apply chain_flags_inactive. intros f _. unfold entry_active. cbn. apply andb_false_r.
Qed.

(* a user feature the font's feat table does not expose (no record of the mapped type with a setting,
   and no letter-case fallback), or whose tag has no AAT mapping, contributes nothing *)
Lemma add_feature_unmapped : forall t f, uf_tag f <> TAG_AALT ->
  mapping_find aat_feature_mappings (uf_tag f) = None -> add_feature (Some t) f = Ok [].
Proof.
  intros t f Ha Hm. unfold add_feature. apply N.eqb_neq in Ha. rewrite Ha, Hm. reflexivity.
Qed.

Lemma add_feature_unexposed : forall t f ty en dis, uf_tag f <> TAG_AALT ->
  mapping_find aat_feature_mappings (uf_tag f) = Some (ty, en, dis) ->
  feat_exposed t ty = None ->
  ((ty =? aat_type_lower_case) && (en =? aat_selector_lower_case_small_caps) = false \/
   feat_exposed t aat_type_letter_case = None) ->
  add_feature (Some t) f = Ok [].
Proof.
  intros t f ty en dis Ha Hm He Hf. unfold add_feature. apply N.eqb_neq in Ha. rewrite Ha, Hm, He.
  destruct Hf as [Hf|Hf]; [rewrite Hf; reflexivity|].
  destruct ((ty =? aat_type_lower_case) && (en =? aat_selector_lower_case_small_caps)); rewrite ?Hf; reflexivity.
Qed.

Lemma add_feature_aalt_unexposed : forall t f, uf_tag f = TAG_AALT ->
  feat_exposed t aat_type_character_alternatives = None -> add_feature (Some t) f = Ok [].
Proof. intros t f Ha He. unfold add_feature. rewrite Ha, N.eqb_refl, He. reflexivity. Qed.

(* ... so the compiled ranges are those of the request without it *)
Lemma add_features_app : forall feat fs1 fs2,
  add_features feat (fs1 ++ fs2) = (do a <- add_features feat fs1; do b <- add_features feat fs2; Ok (a ++ b)).
Proof.
  induction fs1 as [|f t IH]; intros fs2; cbn [app add_features bind].
  - destruct (add_features feat fs2); reflexivity.
  - destruct (add_feature feat f) as [a|]; cbn [bind]; [|reflexivity].
    rewrite IH. destruct (add_features feat t) as [b|]; cbn [bind]; [|reflexivity].
    destruct (add_features feat fs2) as [c|]; cbn [bind]; [|reflexivity]. now rewrite app_assoc.
Qed.

Lemma user_ranges_skip : forall feat fs1 f fs2, add_feature feat f = Ok [] ->
  user_ranges feat (fs1 ++ f :: fs2) = user_ranges feat (fs1 ++ fs2).
Proof.
  intros feat fs1 f fs2 H. unfold user_ranges. rewrite !add_features_app. cbn [add_features]. rewrite H.
  cbn [bind]. destruct (add_features feat fs1) as [a|]; cbn [bind]; [|reflexivity].
  destruct (add_features feat fs2) as [b|]; cbn [bind]; reflexivity.
Qed.

(* one global feature: one range in which exactly it is active *)
Lemma finfo_eqb_refl : forall i, finfo_eqb i i = true.
Proof. intros [k s e]. unfold finfo_eqb. cbn. rewrite !N.eqb_refl. destruct e; reflexivity. Qed.

Lemma compile_ranges_global : forall i, compile_ranges [mkFR i 0 U32MAX] = [([i], 0, U32MAX)].
Proof.
  intros [k s e]. unfold compile_ranges, events_of, stable_sort, U32MAX. cbn. reflexivity.
Qed.

(* a feature restricted to clusters [a, b): three ranges, active only in the middle one *)
Lemma compile_ranges_ranged : forall i a b, 0 < a -> a < b -> b < U32MAX ->
  compile_ranges [mkFR i a b] = [([], 0, a - 1); ([i], a, b - 1); ([], b, U32MAX)].
Proof.
  intros [k s e] a b Ha Hab Hb. unfold compile_ranges, events_of. cbn [map concat fr_start fr_end fr_info app].
  assert (E1 : (a =? b) = false) by (apply N.eqb_neq; intro; subst; now apply N.lt_irrefl in Hab).
  rewrite E1. unfold stable_sort. cbn [fold_left insert_stable app event_lt].
  assert (E2 : (b =? a) = false) by (rewrite N.eqb_sym; exact E1).
  assert (E3 : (b <? a) = false) by (apply N.ltb_ge; now apply N.lt_le_incl).
  rewrite E2, E3. cbn [negb]. cbn [app scan_events].
  assert (E4 : (a =? 0) = false) by (apply N.eqb_neq; intro; subst; now apply N.lt_irrefl in Ha).
  assert (E5 : (U32MAX =? b) = false) by (apply N.eqb_neq; intro Q; rewrite Q in Hb; now apply N.lt_irrefl in Hb).
  rewrite E4. cbn [negb app]. rewrite E2. cbn [negb remove_first finfo_eqb fi_kind fi_setting fi_excl].
  rewrite (finfo_eqb_refl (mkFI k s e)), E5. cbn [negb rev app].
  unfold set_last_global, current_features, stable_sort. cbn. reflexivity.
Qed.
