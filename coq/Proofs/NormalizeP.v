(* Proofs/NormalizeP.v — lemmas about Model/Normalize.v (property C09). *)
From Coq Require Import List NArith Bool Lia Arith FMapPositive Sorted Permutation.
From RB Require Import Base.ListX Gen.NormTables Gen.UnicodeSpec Model.Normalize.
Import ListNotations.
Local Open Scope N_scope.

Arguments N.add : simpl never.
Arguments N.sub : simpl never.
Arguments N.mul : simpl never.
Arguments N.eqb : simpl never.
Arguments N.ltb : simpl never.
Arguments N.leb : simpl never.

(* ================================================================== A. search trees = association lists *)

Lemma pkey_inj a b : pkey a = pkey b -> a = b.
Proof.
  unfold pkey. intros H.
  assert (Npos (N.succ_pos a) = Npos (N.succ_pos b)) as H' by (rewrite H; reflexivity).
  rewrite !N.succ_pos_spec in H'. lia.
Qed.

Lemma build_map_find {V} (l : list (N * V)) k : mfind k (build_map l) = assoc k l.
Proof.
  unfold mfind. induction l as [|[k' v] l IH]; cbn [build_map fold_right assoc fst snd].
  - apply PositiveMap.gempty.
  - fold (build_map l). destruct (N.eqb_spec k k') as [->|Hne].
    + apply PositiveMap.gss.
    + rewrite PositiveMap.gso; [exact IH|]. intros H. apply Hne. apply pkey_inj. exact H.
Qed.

Lemma decomp_map_eq : decomp_map = build_map DECOMPOSITION_TABLE.
Proof. vm_compute. reflexivity. Qed.
Lemma comp_map_eq : comp_map = build_map COMPOSITION_TABLE.
Proof. vm_compute. reflexivity. Qed.
Lemma spec_decomp_map_eq : spec_decomp_map = build_map SPEC_DECOMP.
Proof. vm_compute. reflexivity. Qed.
Lemma spec_marks_map_eq : spec_marks_map = build_map SPEC_MARKS.
Proof. vm_compute. reflexivity. Qed.
Lemma spec_primary_map_eq :
  spec_primary_map = build_map (map (fun e => (fst (fst e) * U32 + snd (fst e), snd e)) SPEC_PRIMARY).
Proof. vm_compute. reflexivity. Qed.

(* the model's lookups are exactly "first match in the source table" *)
Lemma decompose_fn_table ab :
  decompose_fn ab = match decompose_hangul ab with Some r => Some r | None => assoc ab DECOMPOSITION_TABLE end.
Proof. unfold decompose_fn. rewrite decomp_map_eq, build_map_find. reflexivity. Qed.

Lemma compose_fn_table a b :
  compose_fn a b = match compose_hangul a b with Some r => Some r | None => assoc (a * U32 + b) COMPOSITION_TABLE end.
Proof. unfold compose_fn. rewrite comp_map_eq, build_map_find. reflexivity. Qed.

Lemma spec_decomp_table c : spec_decomp c = assoc c SPEC_DECOMP.
Proof. unfold spec_decomp. rewrite spec_decomp_map_eq, build_map_find. reflexivity. Qed.

Lemma assoc_In {V} k (l : list (N * V)) v : assoc k l = Some v -> In (k, v) l.
Proof.
  induction l as [|[k' v'] l IH]; cbn [assoc]; [discriminate|].
  destruct (N.eqb_spec k k') as [->|_]; intros H.
  - injection H as ->. left. reflexivity.
  - right. apply IH. exact H.
Qed.

(* generic lifting of a boolean sweep over a list *)
Lemma sweep_list {A} (P : A -> bool) (l : list A) : forallb P l = true -> forall x, In x l -> P x = true.
Proof. intros H x Hx. rewrite forallb_forall in H. apply H. exact Hx. Qed.

(* ================================================================== B. the tables *)

Fixpoint strictly_inc (l : list N) : bool :=
  match l with
  | x :: ((y :: _) as t) => (x <? y) && strictly_inc t
  | _ => true
  end.

Lemma strictly_inc_Sorted l : strictly_inc l = true -> Sorted N.lt l.
Proof.
  induction l as [|x [|y t] IH]; intros H.
  - constructor.
  - constructor; constructor.
  - cbn [strictly_inc] in H. apply andb_true_iff in H as [H1 H2].
    constructor; [apply IH; exact H2|]. constructor. apply N.ltb_lt. exact H1.
Qed.

Lemma decomp_sorted_ok : strictly_inc (map fst DECOMPOSITION_TABLE) = true.
Proof. vm_compute. reflexivity. Qed.
Lemma comp_sorted_ok : strictly_inc (map fst COMPOSITION_TABLE) = true.
Proof. vm_compute. reflexivity. Qed.

Lemma tables_sorted :
  Sorted N.lt (map fst DECOMPOSITION_TABLE) /\ Sorted N.lt (map fst COMPOSITION_TABLE)
  /\ (500 < length DECOMPOSITION_TABLE)%nat /\ (500 < length COMPOSITION_TABLE)%nat.
Proof.
  split; [apply strictly_inc_Sorted, decomp_sorted_ok|].
  split; [apply strictly_inc_Sorted, comp_sorted_ok|].
  split; apply Nat.ltb_lt; vm_compute; reflexivity.
Qed.

(* ---- round trip on every primary composite of Unicode *)
Definition P_roundtrip (e : (N * N) * N) : bool :=
  let '((a, b), c) := e in
  match decompose_fn c, compose_fn a b with
  | Some (a', b'), Some c' => (a =? a') && (b =? b') && (c =? c')
  | _, _ => false
  end.

Lemma roundtrip_ok : forallb P_roundtrip SPEC_PRIMARY = true.
Proof. vm_compute. reflexivity. Qed.

Lemma roundtrip a b c : In ((a, b), c) SPEC_PRIMARY -> decompose_fn c = Some (a, b) /\ compose_fn a b = Some c.
Proof.
  intros H. pose proof (sweep_list P_roundtrip _ roundtrip_ok _ H) as R. unfold P_roundtrip in R.
  destruct (decompose_fn c) as [[a' b']|]; [|discriminate].
  destruct (compose_fn a b) as [c'|]; [|discriminate].
  apply andb_true_iff in R as [R R3]. apply andb_true_iff in R as [R1 R2].
  apply N.eqb_eq in R1, R2, R3. subst. split; reflexivity.
Qed.

(* every entry of the crate's composition table undoes an entry of its decomposition table *)
Definition P_comp_inverse (e : N * N) : bool :=
  let '(k, c) := e in
  match assoc c DECOMPOSITION_TABLE with
  | Some (a, b) => (k =? a * U32 + b) && negb (b =? 0) && (a <? U32) && (b <? U32)
  | None => false
  end.

Lemma comp_inverse_ok : forallb P_comp_inverse COMPOSITION_TABLE = true.
Proof. vm_compute. reflexivity. Qed.

Lemma comp_inverse k c : In (k, c) COMPOSITION_TABLE ->
  exists a b, assoc c DECOMPOSITION_TABLE = Some (a, b) /\ k = a * U32 + b /\ b <> 0.
Proof.
  intros H. pose proof (sweep_list P_comp_inverse _ comp_inverse_ok _ H) as R. unfold P_comp_inverse in R.
  destruct (assoc c DECOMPOSITION_TABLE) as [[a b]|]; [|discriminate].
  exists a, b. repeat (apply andb_true_iff in R as [R ?]).
  apply N.eqb_eq in R. apply negb_true_iff, N.eqb_neq in H2. auto.
Qed.

(* ---- agreement of the decomposition table with Unicode on the stable subset *)
Definition P_spec_in_crate (e : N * (N * N)) : bool :=
  match assoc (fst e) DECOMPOSITION_TABLE with
  | Some (a, b) => (a =? fst (snd e)) && (b =? snd (snd e))
  | None => false
  end.
Definition P_crate_in_spec (e : N * (N * N)) : bool :=
  if spec_assigned (fst e) then
    match assoc (fst e) SPEC_DECOMP with
    | Some (a, b) => (a =? fst (snd e)) && (b =? snd (snd e))
    | None => false
    end
  else true.

Lemma spec_in_crate_ok : forallb P_spec_in_crate SPEC_DECOMP = true.
Proof. vm_compute. reflexivity. Qed.
Lemma crate_in_spec_ok : forallb P_crate_in_spec DECOMPOSITION_TABLE = true.
Proof. vm_compute. reflexivity. Qed.

Lemma decomp_agrees c : spec_assigned c = true -> assoc c DECOMPOSITION_TABLE = assoc c SPEC_DECOMP.
Proof.
  intros Ha. destruct (assoc c DECOMPOSITION_TABLE) as [[a b]|] eqn:E.
  - pose proof (sweep_list P_crate_in_spec _ crate_in_spec_ok _ (assoc_In _ _ _ E)) as R.
    unfold P_crate_in_spec in R. cbn [fst snd] in R. rewrite Ha in R.
    destruct (assoc c SPEC_DECOMP) as [[a' b']|]; [|discriminate].
    apply andb_true_iff in R as [R1 R2]. apply N.eqb_eq in R1, R2. subst. reflexivity.
  - destruct (assoc c SPEC_DECOMP) as [[a' b']|] eqn:E'; [|reflexivity].
    pose proof (sweep_list P_spec_in_crate _ spec_in_crate_ok _ (assoc_In _ _ _ E')) as R.
    unfold P_spec_in_crate in R. cbn [fst snd] in R. rewrite E in R. discriminate.
Qed.

(* characters of the crate's table that are newer than the spec's Unicode version *)
Definition crate_newer : list N := filter (fun c => negb (spec_assigned c)) (map fst DECOMPOSITION_TABLE).

(* ---- composition table vs. Unicode primary composites *)
Definition nonstarter_pairs : list (N * N * N) := [(776, 769, 836); (3953, 3954, 3955); (3953, 3956, 3957); (3953, 3968, 3969)].

Definition triple_eqb (x y : N * N * N) : bool :=
  let '(a, b, c) := x in let '(a', b', c') := y in (a =? a') && (b =? b') && (c =? c').

Definition P_comp_in_spec (e : N * N) : bool :=
  let '(k, c) := e in
  let a := k / U32 in let b := k mod U32 in
  if spec_assigned c then
    match spec_primary a b with
    | Some c' => c =? c'
    | None => existsb (triple_eqb (a, b, c)) nonstarter_pairs
    end
  else true.

Lemma comp_in_spec_ok : forallb P_comp_in_spec COMPOSITION_TABLE = true.
Proof. vm_compute. reflexivity. Qed.

Lemma triple_eqb_eq x y : triple_eqb x y = true -> x = y.
Proof.
  destruct x as [[a b] c], y as [[a' b'] c']. cbn. intros H.
  apply andb_true_iff in H as [H H3]. apply andb_true_iff in H as [H1 H2].
  apply N.eqb_eq in H1, H2, H3. subst. reflexivity.
Qed.

Lemma comp_in_spec k c : In (k, c) COMPOSITION_TABLE -> spec_assigned c = true ->
  spec_primary (k / U32) (k mod U32) = Some c \/ In (k / U32, k mod U32, c) nonstarter_pairs.
Proof.
  intros H Ha. pose proof (sweep_list P_comp_in_spec _ comp_in_spec_ok _ H) as R. unfold P_comp_in_spec in R.
  rewrite Ha in R. destruct (spec_primary (k / U32) (k mod U32)) as [c'|].
  - apply N.eqb_eq in R. subst. left. reflexivity.
  - right. apply existsb_exists in R as [y [Hy Heq]]. apply triple_eqb_eq in Heq. rewrite Heq. exact Hy.
Qed.

Definition P_nonstarter (e : N * N * N) : bool :=
  let '(a, b, c) := e in
  negb (spec_ccc a =? 0) && spec_is_mark a
  && match assoc (a * U32 + b) COMPOSITION_TABLE with Some c' => c =? c' | None => false end
  && match spec_decomp c with Some (a', b') => (a =? a') && (b =? b') | None => false end
  && match spec_primary a b with Some _ => false | None => true end.

Lemma nonstarter_ok : forallb P_nonstarter nonstarter_pairs = true.
Proof. vm_compute. reflexivity. Qed.

(* every other composition of the crate starts with a character of combining class 0 *)
Definition P_comp_starter (e : N * N) : bool :=
  let '(k, c) := e in
  let a := k / U32 in let b := k mod U32 in
  if spec_assigned c then (spec_ccc a =? 0) || existsb (triple_eqb (a, b, c)) nonstarter_pairs else true.
Lemma comp_starter_ok : forallb P_comp_starter COMPOSITION_TABLE = true.
Proof. vm_compute. reflexivity. Qed.

(* ---- Hangul *)
Definition P_hangul (l v t : N) : bool :=
  let s := hangul_syllable l v t in
  let '(a, b) := spec_hangul_decomp l v t in
  match decompose_hangul s, compose_hangul a b with
  | Some (a', b'), Some s' => (a =? a') && (b =? b') && (s =? s')
  | _, _ => false
  end.

Definition sweep3 (P : N -> N -> N -> bool) : bool :=
  forallb (fun l => forallb (fun v => forallb (fun t => P l v t) (nrange 28)) (nrange 21)) (nrange 19).

Lemma sweep3_use P : sweep3 P = true -> forall l v t, l < 19 -> v < 21 -> t < 28 -> P l v t = true.
Proof.
  intros H l v t Hl Hv Ht. unfold sweep3 in H.
  pose proof (forallb_nrange 19 _ H l Hl) as H1. cbv beta in H1.
  pose proof (forallb_nrange 21 _ H1 v Hv) as H2. cbv beta in H2.
  exact (forallb_nrange 28 _ H2 t Ht).
Qed.

Lemma hangul_ok : sweep3 P_hangul = true.
Proof. vm_compute. reflexivity. Qed.

Lemma hangul_closed_form l v t : l < 19 -> v < 21 -> t < 28 ->
  decompose_hangul (hangul_syllable l v t) = Some (spec_hangul_decomp l v t)
  /\ compose_hangul (fst (spec_hangul_decomp l v t)) (snd (spec_hangul_decomp l v t)) = Some (hangul_syllable l v t).
Proof.
  intros Hl Hv Ht. pose proof (sweep3_use P_hangul hangul_ok l v t Hl Hv Ht) as R. unfold P_hangul in R.
  destruct (spec_hangul_decomp l v t) as [a b]. cbn [fst snd].
  destruct (decompose_hangul _) as [[a' b']|]; [|discriminate].
  destruct (compose_hangul a b) as [s'|]; [|discriminate].
  apply andb_true_iff in R as [R R3]. apply andb_true_iff in R as [R1 R2].
  apply N.eqb_eq in R1, R2, R3. subst. split; congruence.
Qed.

(* the Hangul branch fires exactly on the 11172 syllables (for u32 arguments) *)
Lemma hangul_constants : (S_BASE, L_BASE, V_BASE, T_BASE, L_COUNT, V_COUNT, T_COUNT, N_COUNT, S_COUNT)
                         = (44032, 4352, 4449, 4519, 19, 21, 28, 588, 11172).
Proof. vm_compute. reflexivity. Qed.

Lemma decompose_hangul_domain c : c < U32 ->
  (decompose_hangul c <> None <-> 44032 <= c < 44032 + 11172).
Proof.
  intros Hc. unfold decompose_hangul. change S_BASE with 44032. change S_COUNT with 11172.
  change U32 with 4294967296 in *.
  destruct (N.leb_spec 11172 ((c + 4294967296 - 44032) mod 4294967296)) as [H|H].
  - split; [intros X; contradiction X; reflexivity|]. intros [H1 H2]. exfalso.
    replace (c + 4294967296 - 44032) with ((c - 44032) + 1 * 4294967296) in H by lia.
    rewrite N.mod_add in H by discriminate. rewrite N.mod_small in H by lia. lia.
  - split; [|intros _; destruct (negb _); discriminate]. intros _.
    destruct (N.le_gt_cases 44032 c) as [Hge|Hlt].
    + replace (c + 4294967296 - 44032) with ((c - 44032) + 1 * 4294967296) in H by lia.
      rewrite N.mod_add in H by discriminate. rewrite N.mod_small in H by lia. lia.
    + rewrite N.mod_small in H by lia. lia.
Qed.

(* ================================================================== C. a lone character, for every font *)

Section AnyFont.
  Variable has : N -> bool.

  Lemma find_map_app (bl : list N) (L : list (list N)) :
    find (forallb has) (map (fun l => l ++ bl) L) =
    if forallb has bl then option_map (fun l => l ++ bl) (find (forallb has) L) else None.
  Proof.
    induction L as [|x L IH]; cbn [map find option_map].
    - destruct (forallb has bl); reflexivity.
    - rewrite forallb_app. destruct (forallb has x); cbn [andb].
      + destruct (forallb has bl); [reflexivity|exact IH' || idtac].
        rewrite IH. reflexivity.
      + exact IH.
  Qed.

  Lemma levels_nonempty dec f c l : In l (levels dec f c) -> l <> [].
  Proof.
    revert c l. induction f as [|f IH]; intros c l; cbn [levels]; [contradiction|].
    destruct (dec c) as [[a b]|]; [|contradiction]. cbn [In]. intros [<-|H]; [discriminate|].
    apply in_map_iff in H as [l' [<- Hl']]. intros E. apply app_eq_nil in E as [E _].
    exact (IH _ _ Hl' E).
  Qed.

  Lemma first_supported_nil_iff (ls : list (list N)) :
    (forall l, In l ls -> l <> []) ->
    (first_supported has ls = [] <-> find (forallb has) ls = None).
  Proof.
    intros Hne. unfold first_supported. destruct (find (forallb has) ls) as [l|] eqn:E.
    - split; [|discriminate]. intros ->. apply find_some in E as [E _]. exfalso. exact (Hne _ E eq_refl).
    - split; reflexivity.
  Qed.

  Definition blist (b : N) : list N := if b =? 0 then [] else [b].

  Lemma has_blist b : forallb has (blist b) = negb (negb (b =? 0) && negb (has b)).
  Proof. unfold blist. destruct (b =? 0); cbn; [reflexivity|]. destruct (has b); reflexivity. Qed.

  (* shortest = true: the FIRST level all of whose characters the font maps *)
  Lemma decompose_shortest f c :
    decompose has f true c = first_supported has (levels decompose_fn f c).
  Proof.
    revert c. induction f as [|f IH]; intros c; [reflexivity|].
    cbn [decompose levels]. destruct (decompose_fn c) as [[a b]|]; [|reflexivity].
    fold (blist b). unfold first_supported. cbn [find forallb negb orb].
    rewrite find_map_app. pose proof (has_blist b) as Hb.
    destruct (negb (b =? 0) && negb (has b)); cbn [negb] in Hb; rewrite Hb; cbn [andb].
    - rewrite andb_false_r. reflexivity.
    - rewrite andb_true_r. destruct (has a) eqn:Ha; cbn [negb].
      + reflexivity.
      + rewrite IH. unfold first_supported.
        pose proof (levels_nonempty decompose_fn f a) as Hne.
        destruct (find (forallb has) (levels decompose_fn f a)) as [l|] eqn:E; cbn [option_map].
        * apply find_some in E as [E _]. specialize (Hne _ E). destruct l; [contradiction|reflexivity].
        * reflexivity.
  Qed.

  Lemma find_app {A} (p : A -> bool) l1 l2 :
    find p (l1 ++ l2) = match find p l1 with Some x => Some x | None => find p l2 end.
  Proof. induction l1 as [|x l1 IH]; cbn [app find]; [reflexivity|]. destruct (p x); [reflexivity|exact IH]. Qed.

  (* shortest = false: the LAST (deepest) level all of whose characters the font maps *)
  Lemma decompose_deepest f c :
    decompose has f false c = first_supported has (rev (levels decompose_fn f c)).
  Proof.
    revert c. induction f as [|f IH]; intros c; [reflexivity|].
    cbn [decompose levels]. destruct (decompose_fn c) as [[a b]|]; [|reflexivity].
    fold (blist b). unfold first_supported. cbn [rev negb orb].
    rewrite <- map_rev, find_app, find_map_app. cbn [find forallb]. pose proof (has_blist b) as Hb.
    destruct (negb (b =? 0) && negb (has b)); cbn [negb] in Hb; rewrite Hb; cbn [andb].
    - rewrite andb_false_r. reflexivity.
    - rewrite andb_true_r. rewrite IH. unfold first_supported.
      assert (Hne : forall l, In l (rev (levels decompose_fn f a)) -> l <> []).
      { intros l Hl. apply in_rev in Hl. exact (levels_nonempty _ _ _ _ Hl). }
      destruct (find (forallb has) (rev (levels decompose_fn f a))) as [l|] eqn:E; cbn [option_map].
      + apply find_some in E as [E _]. specialize (Hne _ E). destruct l; [contradiction|reflexivity].
      + destruct (has a); reflexivity.
  Qed.

  Variable is_mark is_space : N -> bool.
  Variable ccc : N -> N.

  Definition single (c : N) : list N :=
    map gl (normalize has is_mark is_space ccc [inp is_mark is_space ccc c 0]).

  (* what the code falls back to when nothing can be decomposed *)
  Definition fallback (c : N) : N :=
    if is_space c && in_space_fallback c && has 32 then 32
    else if (c =? 8209) && has 8208 then 8208 else 0.

  Lemma single_unfold c :
    single c = if has c then [c]
               else match decompose has DECOMP_FUEL true c with
                    | [] => [fallback c]
                    | l => l
                    end.
  Proof.
    unfold single, normalize, inp. cbn [round1 length take_while Nat.ltb Nat.leb firstn skipn sc_prefix cp props].
    destruct (has c) eqn:Hc.
    - reflexivity.
    - cbn [flat_map app fst snd]. unfold decompose_current. cbn [cp props]. rewrite Hc. cbn [negb orb].
      destruct (decompose has DECOMP_FUEL true c) as [|x r] eqn:E.
      + cbn [sp_ props app map]. unfold fallback.
        destruct (is_space c && in_space_fallback c && has 32); [reflexivity|].
        destruct ((c =? 8209) && has 8208); reflexivity.
      + rewrite app_nil_r, map_map. cbn [gl out_char props]. rewrite map_id. reflexivity.
  Qed.

  Lemma single_own c : has c = true -> single c = [c].
  Proof. intros H. rewrite single_unfold, H. reflexivity. Qed.

  Lemma single_decomposed c : has c = false ->
    single c = match first_supported has (levels decompose_fn DECOMP_FUEL c) with
               | [] => [fallback c]
               | l => l
               end.
  Proof. intros H. rewrite single_unfold, H, decompose_shortest. reflexivity. Qed.
End AnyFont.

(* ---- the levels computed from the crate's table are the levels Unicode prescribes *)
Definition list_eqb := fix go (a b : list N) : bool :=
  match a, b with
  | [], [] => true
  | x :: a', y :: b' => (x =? y) && go a' b'
  | _, _ => false
  end.

Lemma list_eqb_eq a : forall b, list_eqb a b = true -> a = b.
Proof.
  induction a as [|x a IH]; intros [|y b] H; try discriminate; [reflexivity|].
  cbn in H. apply andb_true_iff in H as [H1 H2]. apply N.eqb_eq in H1. subst. f_equal. apply IH. exact H2.
Qed.

Fixpoint lists_eqb (a b : list (list N)) : bool :=
  match a, b with
  | [], [] => true
  | x :: a', y :: b' => list_eqb x y && lists_eqb a' b'
  | _, _ => false
  end.

Lemma lists_eqb_eq a : forall b, lists_eqb a b = true -> a = b.
Proof.
  induction a as [|x a IH]; intros [|y b] H; try discriminate; [reflexivity|].
  cbn in H. apply andb_true_iff in H as [H1 H2]. apply list_eqb_eq in H1. subst. f_equal. apply IH. exact H2.
Qed.

(* for every character with a canonical decomposition in the spec's Unicode version: the model's levels are
   the spec's, there are at most 3, every level is canonically equivalent to the character (same full
   decomposition), the last level IS the full decomposition, and no second element decomposes further *)
Definition P_levels (e : N * (N * N)) : bool :=
  let c := fst e in
  let ls := levels decompose_fn DECOMP_FUEL c in
  lists_eqb ls (spec_levels c)
  && (0 <? length ls)%nat && (length ls <=? 3)%nat
  && forallb (fun l => list_eqb (flat_map spec_nfd l) (spec_nfd c)) ls
  && list_eqb (last ls []) (spec_nfd c)
  && match spec_decomp (snd (snd e)) with None => true | Some _ => false end.

Lemma levels_ok : forallb P_levels SPEC_DECOMP = true.
Proof. vm_compute. reflexivity. Qed.

Lemma levels_facts c d : In (c, d) SPEC_DECOMP ->
  levels decompose_fn DECOMP_FUEL c = spec_levels c
  /\ (0 < length (spec_levels c) <= 3)%nat
  /\ (forall l, In l (spec_levels c) -> flat_map spec_nfd l = spec_nfd c)
  /\ last (spec_levels c) [] = spec_nfd c.
Proof.
  intros H. pose proof (sweep_list P_levels _ levels_ok _ H) as R. unfold P_levels in R. cbn [fst snd] in R.
  repeat (apply andb_true_iff in R as [R ?]).
  apply lists_eqb_eq in R. rewrite R in *.
  split; [reflexivity|]. split; [split; [apply Nat.ltb_lt|apply Nat.leb_le]; assumption|].
  split.
  - intros l Hl. apply list_eqb_eq. exact (sweep_list _ _ H2 _ Hl).
  - apply list_eqb_eq. assumption.
Qed.

(* fuel: no chain of first elements is longer than 3 (tables) or 2 (Hangul), far below DECOMP_FUEL *)
Definition P_depth (c : N) : bool := (length (levels decompose_fn DECOMP_FUEL c) <=? 3)%nat.
Lemma depth_table_ok : forallb P_depth (map fst DECOMPOSITION_TABLE) = true.
Proof. vm_compute. reflexivity. Qed.
Definition n_syllables : nat := (19 * 21 * 28)%nat.
Lemma n_syllables_eq : N.of_nat n_syllables = 11172.
Proof. vm_compute. reflexivity. Qed.
Lemma depth_hangul_ok : forallb (fun k => P_depth (44032 + k)) (nrange n_syllables) = true.
Proof. vm_compute. reflexivity. Qed.

Lemma assoc_None_notin {V} k (l : list (N * V)) : assoc k l = None -> ~ In k (map fst l).
Proof.
  induction l as [|[k' v] l IH]; cbn [assoc map In fst]; [tauto|].
  destruct (N.eqb_spec k k'); [discriminate|]. intros H [E|E]; [congruence|exact (IH H E)].
Qed.

Lemma assoc_Some_in {V} k (l : list (N * V)) v : assoc k l = Some v -> In k (map fst l).
Proof. intros H. apply assoc_In in H. apply in_map_iff. exists (k, v). split; [reflexivity|exact H]. Qed.

Lemma depth_bound c : c < U32 -> (length (levels decompose_fn DECOMP_FUEL c) <= 3)%nat.
Proof.
  intros Hc. destruct (decompose_hangul c) as [r|] eqn:Eh.
  - assert (decompose_hangul c <> None) as Hd by congruence.
    apply decompose_hangul_domain in Hd; [|exact Hc].
    pose proof (forallb_nrange n_syllables _ depth_hangul_ok (c - 44032) ltac:(rewrite n_syllables_eq; lia)) as R.
    cbv beta in R.
    replace (44032 + (c - 44032)) with c in R by lia. apply Nat.leb_le. exact R.
  - destruct (assoc c DECOMPOSITION_TABLE) as [d|] eqn:Ea.
    + apply Nat.leb_le. exact (sweep_list P_depth _ depth_table_ok _ (assoc_Some_in _ _ _ Ea)).
    + change DECOMP_FUEL with (S 15). cbn [levels]. rewrite decompose_fn_table, Eh, Ea. cbn. lia.
Qed.

(* ---- examples *)
Definition all_fonts (_ : N) : bool := true.
Definition font_of (l : list N) (c : N) : bool := existsb (N.eqb c) l.

(* ---- a lone character against the Unicode data *)
Lemma find_last {A} (p : A -> bool) (l : list A) d :
  l <> [] -> (forall x, In x (removelast l) -> p x = false) -> p (last l d) = true -> find p l = Some (last l d).
Proof.
  induction l as [|x [|y l] IH]; intros Hne Hf Hl; [contradiction| |].
  - cbn [find last] in *. rewrite Hl. reflexivity.
  - cbn [find]. rewrite (Hf x (or_introl eq_refl)).
    change (last (x :: y :: l) d) with (last (y :: l) d) in *.
    apply IH; [discriminate| |exact Hl]. intros z Hz. apply Hf. right. exact Hz.
Qed.

Section SingleSpec.
  Variable has is_mark is_space : N -> bool.
  Variable ccc : N -> N.

  Theorem single_spec c d : In (c, d) SPEC_DECOMP ->
    single has is_mark is_space ccc c =
      if has c then [c]
      else match first_supported has (spec_levels c) with
           | [] => [fallback has is_space c]
           | l => l
           end.
  Proof.
    intros Hin. destruct (levels_facts c d Hin) as [E _]. destruct (has c) eqn:Hc.
    - apply single_own. exact Hc.
    - rewrite single_decomposed by exact Hc. rewrite E. reflexivity.
  Qed.

  (* the property's sentence, literally: no own glyph, no intermediate form available, every character of the
     full canonical decomposition mapped  ==>  exactly the full canonical decomposition *)
  Theorem single_full c d : In (c, d) SPEC_DECOMP -> has c = false ->
    (forall l, In l (removelast (spec_levels c)) -> forallb has l = false) ->
    forallb has (spec_nfd c) = true ->
    single has is_mark is_space ccc c = spec_nfd c.
  Proof.
    intros Hin Hc Hmid Hfull. rewrite (single_spec c d Hin), Hc.
    destruct (levels_facts c d Hin) as [E [[Hpos _] [_ Hlast]]].
    assert (Hne : spec_levels c <> []) by (destruct (spec_levels c); [cbn in Hpos; lia|discriminate]).
    unfold first_supported. rewrite (find_last _ _ [] Hne Hmid); rewrite Hlast; [|exact Hfull].
    assert (Hn : spec_nfd c <> []).
    { rewrite <- Hlast. rewrite <- E in *. apply (levels_nonempty decompose_fn DECOMP_FUEL c).
      destruct (exists_last Hne) as [o [z Ho]]. rewrite Ho, last_last. apply in_or_app. right. left. reflexivity. }
    destruct (spec_nfd c); [contradiction|reflexivity].
  Qed.

  (* whatever is shown instead of the character is mapped and canonically equivalent to it *)
  Theorem single_sound c d : In (c, d) SPEC_DECOMP -> has c = false ->
    first_supported has (spec_levels c) <> [] ->
    forallb has (single has is_mark is_space ccc c) = true
    /\ flat_map spec_nfd (single has is_mark is_space ccc c) = spec_nfd c.
  Proof.
    intros Hin Hc Hne. rewrite (single_spec c d Hin), Hc.
    destruct (levels_facts c d Hin) as [_ [_ [Heq _]]].
    unfold first_supported in *. destruct (find (forallb has) (spec_levels c)) as [l|] eqn:E; [|contradiction].
    apply find_some in E as [E1 E2]. destruct l; [contradiction|]. split; [exact E2|apply Heq; exact E1].
  Qed.
End SingleSpec.

(* ---- the four non-starter pairs *)
Lemma nonstarter_facts a b c : In (a, b, c) nonstarter_pairs ->
  spec_ccc a <> 0 /\ compose_fn a b = Some c /\ spec_decomp c = Some (a, b) /\ spec_primary a b = None.
Proof.
  intros H. pose proof (sweep_list P_nonstarter _ nonstarter_ok _ H) as R. unfold P_nonstarter in R.
  apply andb_true_iff in R as [R R5]. apply andb_true_iff in R as [R R4].
  apply andb_true_iff in R as [R R3]. apply andb_true_iff in R as [R1 R2].
  apply negb_true_iff, N.eqb_neq in R1. split; [exact R1|].
  assert (Hh : compose_hangul a b = None).
  { cbn [In nonstarter_pairs] in H.
    repeat (destruct H as [H|H]; [injection H as <- <- <-; vm_compute; reflexivity|]). contradiction. }
  split.
  - rewrite compose_fn_table, Hh. destruct (assoc _ COMPOSITION_TABLE) as [c'|]; [|discriminate].
    apply N.eqb_eq in R3. subst. reflexivity.
  - split.
    + destruct (spec_decomp c) as [[a' b']|]; [|discriminate].
      apply andb_true_iff in R4 as [X Y]. apply N.eqb_eq in X, Y. subst. reflexivity.
    + destruct (spec_primary a b); [discriminate|reflexivity].
Qed.

Lemma comp_first_is_starter k c : In (k, c) COMPOSITION_TABLE -> spec_assigned c = true ->
  spec_ccc (k / U32) = 0 \/ In (k / U32, k mod U32, c) nonstarter_pairs.
Proof.
  intros H Ha. pose proof (sweep_list P_comp_starter _ comp_starter_ok _ H) as R. unfold P_comp_starter in R.
  rewrite Ha in R. apply orb_true_iff in R as [R|R].
  - left. apply N.eqb_eq. exact R.
  - right. apply existsb_exists in R as [y [Hy Heq]]. apply triple_eqb_eq in Heq. rewrite Heq. exact Hy.
Qed.
