(* Proofs/NormalizeRecompP.v — rounds 2 and 3 on  starter :: marks:
   round 2 is `sort` of the whole mark run; round 3 (the literal recomposition loop with its out-buffer,
   starter index and cluster merging) is the Unicode canonical composition algorithm D117 restricted to
   composites the font maps (C09_recompose). *)
From Coq Require Import List NArith Bool Lia Arith Permutation.
From RB Require Import Gen.NormTables Model.Normalize Proofs.NormalizeSortP.
Import ListNotations.
Local Open Scope N_scope.

Arguments N.add : simpl never.
Arguments N.sub : simpl never.
Arguments N.mul : simpl never.
Arguments N.eqb : simpl never.
Arguments N.ltb : simpl never.
Arguments N.leb : simpl never.

Definition coreT := (N * N * bool * N)%type.
Definition cpc (c : coreT) : N := fst (fst (fst c)).
Definition glc (c : coreT) : N := snd (fst (fst c)).
Definition mkc (c : coreT) : bool := snd (fst c).

(* ------------------------------------------------------------------ list helpers *)
Lemma last_map {A B} (f : A -> B) (l : list A) d : last (map f l) (f d) = f (last l d).
Proof. induction l as [|x [|y l] IH]; cbn [map last] in *; try reflexivity. exact IH. Qed.

Lemma upd_map {A B} (f : A -> B) (l : list A) k v : map f (upd l k v) = upd (map f l) k (f v).
Proof.
  unfold upd. rewrite map_length. destruct (k <? length l)%nat; [|reflexivity].
  rewrite map_app. cbn [map]. rewrite firstn_map, skipn_map. reflexivity.
Qed.

Lemma take_while_length {A} (p : A -> bool) l : (length (take_while p l) <= length l)%nat.
Proof. induction l as [|x l IH]; cbn [take_while length]; [lia|]. destruct (p x); cbn [length]; lia. Qed.

Lemma take_while_all {A} (p : A -> bool) l : Forall (fun x => p x = true) l -> take_while p l = l.
Proof. induction 1 as [|x l Hx _ IH]; cbn [take_while]; [reflexivity|]. rewrite Hx, IH. reflexivity. Qed.

(* ------------------------------------------------------------------ round 2 on starter :: marks *)
Section R2.
  Variable has is_mark is_space : N -> bool.
  Variable ccc : N -> N.

  Lemma round2_S f l i :
    round2 (S f) l i =
      if (length l <=? i)%nat then l
      else if mcc (nth i l dinfo) =? 0 then round2 f l (S i)
      else
        let e := (i + 1 + length (take_while (fun y => negb (N.eqb (mcc y) 0)) (skipn (S i) l)))%nat in
        let l' := if (N.of_nat (e - i) <=? MAX_COMBINING_MARKS) then sort l i e else l in
        round2 f l' (e + 1).
  Proof. reflexivity. Qed.

  Lemma round2_starter_marks s ms :
    mcc s = 0 -> Forall (fun m => mcc m <> 0) ms -> N.of_nat (length ms) <= MAX_COMBINING_MARKS ->
    round2 (S (length (s :: ms))) (s :: ms) 0 = sort (s :: ms) 1 (S (length ms)).
  Proof.
    intros Hs Hm Hlen. destruct ms as [|m ms].
    - rewrite round2_S. cbn [length Nat.leb nth]. rewrite Hs. reflexivity.
    - rewrite round2_S. cbn [length Nat.leb nth]. rewrite Hs.
      replace (0 =? 0) with true by reflexivity.
      rewrite round2_S. cbn [length Nat.leb nth skipn].
      inversion Hm as [|? ? Hm1 Hm2]; subst.
      destruct (N.eqb_spec (mcc m) 0) as [E|_]; [contradiction|].
      assert (Htw : take_while (fun y => negb (N.eqb (mcc y) 0)) ms = ms).
      { apply take_while_all. eapply Forall_impl; [|exact Hm2]. cbv beta. intros a Ha.
        destruct (N.eqb_spec (mcc a) 0); [contradiction|reflexivity]. }
      cbv zeta. rewrite Htw. replace (1 + 1 + length ms)%nat with (S (S (length ms))) by lia.
      replace (S (S (length ms)) - 1)%nat with (S (length ms)) by lia.
      cbn [length] in Hlen.
      destruct (N.leb_spec (N.of_nat (S (length ms))) MAX_COMBINING_MARKS) as [_|H]; [|lia].
      set (r := sort (s :: m :: ms) 1 (S (S (length ms)))).
      assert (Lr : length r = S (S (length ms))).
      { unfold r. destruct (sort_correct (s :: m :: ms) 1 (S (S (length ms)))) as [L _]; [cbn [length]; lia|].
        rewrite L. reflexivity. }
      destruct (length ms) as [|n] eqn:En.
      + cbn [round2]. rewrite Lr. reflexivity.
      + rewrite round2_S, Lr.
        destruct (Nat.leb_spec (S (S (S n))) (S (S (S n)) + 1)) as [_|H]; [reflexivity|lia].
  Qed.
End R2.

(* ------------------------------------------------------------------ round 3 without clusters *)
Section R3.
  Variable has is_mark is_space : N -> bool.
  Variable ccc : N -> N.

  Notation props' := (props is_mark is_space ccc).

  (* the modified combining class as `props` stores it *)
  Definition Kfn (c : N) : N := if (128 <=? c) && is_mark c then mcc_fn ccc c else 0.

  Definition try_composeC (out : list coreT) (starter : nat) (cur : coreT) : option N :=
    if mkc cur && ((starter =? length out - 1)%nat || (keyc (last out dcore) <? keyc cur))
    then match compose_fn (cpc (nth starter out dcore)) (cpc cur) with
         | Some c => if has c then Some c else None
         | None => None
         end
    else None.

  Fixpoint round3c (fuel : nat) (out rest : list coreT) (starter : nat) : list coreT :=
    match fuel with
    | O => out ++ rest
    | S f =>
      match rest with
      | [] => out
      | cur :: tl =>
        match try_composeC out starter cur with
        | Some c => round3c f (upd out starter (core (props' c c 0))) tl starter
        | None => round3c f (out ++ [cur]) tl (if keyc cur =? 0 then (length (out ++ [cur]) - 1)%nat else starter)
        end
      end
    end.

  Lemma merge_out_core out rest s e :
    map core (fst (merge_out_clusters out rest s e)) = map core out
    /\ map core (snd (merge_out_clusters out rest s e)) = map core rest.
  Proof.
    unfold merge_out_clusters. destruct (e - s <? 2)%nat; [split; reflexivity|]. cbn [fst snd]. split.
    - unfold mapi. apply map_core_mapi_aux. intros k y. destruct (_ && _); reflexivity.
    - destruct (_ =? _)%nat; [|reflexivity].
      set (n := length (take_while _ rest)).
      rewrite map_app, map_map. cbn [core set_cl cp gl mk_ mcc].
      rewrite <- (firstn_skipn n rest) at 3. rewrite map_app. reflexivity.
  Qed.

  Lemma core_props c g k k' : core (props' c g k) = core (props' c g k').
  Proof. reflexivity. Qed.

  Lemma try_compose_core out starter cur :
    try_compose has out starter cur = try_composeC (map core out) starter (core cur).
  Proof.
    unfold try_compose, try_composeC. rewrite map_length. unfold dcore.
    rewrite last_map, map_nth. reflexivity.
  Qed.

  Lemma round3_core : forall fuel out rest starter,
    map core (round3 has is_mark is_space ccc fuel out rest starter)
    = round3c fuel (map core out) (map core rest) starter.
  Proof.
    induction fuel as [|f IH]; intros out rest starter; cbn [round3 round3c].
    - apply map_app.
    - destruct rest as [|cur tl]; cbn [map]; [reflexivity|].
      rewrite try_compose_core. destruct (try_composeC (map core out) starter (core cur)) as [c|].
      + destruct (merge_out_core (out ++ [cur]) tl starter (length (out ++ [cur]))) as [M1 M2].
        destruct (merge_out_clusters (out ++ [cur]) tl starter (length (out ++ [cur]))) as [out2 tl2].
        cbn [fst snd] in M1, M2.
        assert (E : map core (removelast out2) = map core out).
        { rewrite map_app in M1. cbn [map] in M1.
          assert (Hl : length out2 = length (out ++ [cur])).
          { rewrite <- (map_length core out2), M1, app_length, app_length, map_length. reflexivity. }
          destruct (exists_last (l := out2)) as [o [z Ho]].
          { intros ->. rewrite app_length in Hl. cbn [length] in Hl. lia. }
          subst out2. rewrite removelast_last. rewrite map_app in M1. cbn [map] in M1.
          apply app_inj_tail in M1. tauto. }
        rewrite IH, upd_map, M2, E. reflexivity.
      + rewrite IH, map_app. cbn [map]. rewrite !app_length, map_length. reflexivity.
  Qed.

  (* ---------------------------------------------------------------- the D117 reading *)
  Fixpoint sortedF (l : list N) : Prop :=
    match l with
    | [] => True
    | x :: t => Forall (fun y => x <= y) t /\ sortedF t
    end.

  Lemma sortedF_del P x R : sortedF (P ++ x :: R) -> sortedF (P ++ R).
  Proof.
    induction P as [|a P IH]; cbn [app sortedF]; [tauto|]. intros [H1 H2]. split; [|apply IH; exact H2].
    apply Forall_app in H1 as [Ha Hb]. apply Forall_app. split; [exact Ha|]. inversion Hb; assumption.
  Qed.

  Lemma sortedF_mid P x R : sortedF (P ++ x :: R) -> forall b, In b P -> b <= x.
  Proof.
    induction P as [|a P IH]; cbn [app sortedF In]; [tauto|]. intros [H1 H2] b [<-|Hb].
    - rewrite Forall_forall in H1. apply H1. apply in_elt.
    - apply IH; assumption.
  Qed.

  Lemma sortedF_of_nth (l : list N) :
    (forall p q, (p <= q)%nat -> (q < length l)%nat -> nth p l 0 <= nth q l 0) -> sortedF l.
  Proof.
    induction l as [|x l IH]; intros H; cbn [sortedF]; [exact I|]. split.
    - apply Forall_forall. intros y Hy. apply (In_nth _ _ 0) in Hy as [n [Hn <-]].
      apply (H 0%nat (S n)); cbn [length]; lia.
    - apply IH. intros p q Hpq Hq. apply (H (S p) (S q)); cbn [length]; lia.
  Qed.

  (* a mark of the run: it is a mark, its stored class is non-zero and is the class of its character *)
  Definition goodc (m : coreT) : Prop := mkc m = true /\ keyc m <> 0 /\ keyc m = Kfn (cpc m).

  Lemma last_In {A} (l : list A) d : l <> [] -> In (last l d) l.
  Proof.
    intros Hne. destruct (exists_last Hne) as [o [z ->]]. rewrite last_last.
    apply in_or_app. right. left. reflexivity.
  Qed.

  Lemma le_last (P : list coreT) : sortedF (map keyc P) -> forall b, In b P -> keyc b <= keyc (last P dcore).
  Proof.
    induction P as [|a P IH]; intros Hs b Hb; [contradiction|].
    cbn [map sortedF] in Hs. destruct Hs as [H1 H2]. destruct P as [|a' P].
    - destruct Hb as [<-|[]]. cbn [last]. lia.
    - change (last (a :: a' :: P) dcore) with (last (a' :: P) dcore). destruct Hb as [<-|Hb].
      + rewrite Forall_forall in H1. apply H1. apply in_map. apply last_In. discriminate.
      + apply IH; assumption.
  Qed.

  (* D115 "blocked" quantifies over every character between the starter and the mark; on a sorted run it
     is decided by the last one, which is what the code looks at *)
  Lemma blocked_last (P : list coreT) (cur : coreT) :
    Forall goodc P -> goodc cur -> sortedF (map keyc P) ->
    blocked Kfn (rev (map cpc P)) (cpc cur) = negb (match P with [] => true | _ => keyc (last P dcore) <? keyc cur end).
  Proof.
    intros Hg [_ [_ Hc]] Hs. rewrite Forall_forall in Hg. unfold blocked.
    destruct P as [|a P']; [reflexivity|]. set (P := a :: P') in *.
    assert (Hne : P <> []) by discriminate.
    destruct (N.ltb_spec (keyc (last P dcore)) (keyc cur)) as [Hlt|Hge]; cbn [negb].
    - apply not_true_is_false. intros Hex. apply existsb_exists in Hex as [x [Hx Hb]].
      apply in_rev in Hx. apply in_map_iff in Hx as [b [<- Hb']].
      destruct (Hg b Hb') as [_ [Hnz Hk]]. pose proof (le_last P Hs b Hb') as Hbl.
      apply orb_true_iff in Hb as [Hb|Hb].
      + apply N.eqb_eq in Hb. rewrite <- Hk in Hb. contradiction.
      + apply N.leb_le in Hb. rewrite <- Hk, <- Hc in Hb. lia.
    - apply existsb_exists. exists (cpc (last P dcore)). split.
      + apply in_rev. rewrite rev_involutive. apply in_map. apply last_In. exact Hne.
      + apply orb_true_iff. right. apply N.leb_le.
        destruct (Hg _ (last_In P dcore Hne)) as [_ [_ Hk]]. rewrite <- Hk, <- Hc. exact Hge.
  Qed.

  Lemma goodc_cons_sorted P cur R :
    sortedF (map keyc (P ++ cur :: R)) -> sortedF (map keyc P).
  Proof.
    rewrite map_app. generalize (map keyc P) as p, (map keyc (cur :: R)) as r.
    induction p as [|x p IH]; intros r; cbn [app sortedF]; [tauto|].
    intros [H1 H2]. split; [apply Forall_app in H1; tauto|]. exact (IH r H2).
  Qed.

  Theorem round3c_d117 : forall R P St fuel,
    (length R <= fuel)%nat -> Forall goodc (P ++ R) -> sortedF (map keyc (P ++ R)) ->
    map cpc (round3c fuel (St :: P) R 0) = d117 has compose_fn Kfn (cpc St) (rev (map cpc P)) (map cpc R).
  Proof.
    induction R as [|cur tl IH]; intros P St fuel Hf Hg Hs.
    - cbn [map d117]. rewrite rev_involutive.
      destruct fuel; cbn [round3c]; [rewrite app_nil_r|]; reflexivity.
    - destruct fuel as [|f]; [cbn [length] in Hf; lia|]. cbn [round3c map d117].
      assert (HgP : Forall goodc P) by (apply Forall_app in Hg; tauto).
      assert (Hgc : goodc cur) by (apply Forall_app in Hg as [_ Hg]; inversion Hg; assumption).
      pose proof (blocked_last P cur HgP Hgc (goodc_cons_sorted _ _ _ Hs)) as Hb.
      unfold try_composeC. destruct Hgc as [Hmk [Hnz Hk]]. rewrite Hmk. cbn [andb length nth].
      assert (Hcond : ((0 =? Datatypes.S (length P) - 1)%nat || (keyc (last (St :: P) dcore) <? keyc cur))
                      = negb (blocked Kfn (rev (map cpc P)) (cpc cur))).
      { rewrite Hb, negb_involutive. destruct P as [|a P']; reflexivity. }
      rewrite Hcond.
      assert (Hg' : Forall goodc (P ++ tl)).
      { apply Forall_app in Hg as [H1 H2]. apply Forall_app. split; [exact H1|]. inversion H2; assumption. }
      assert (Hs' : sortedF (map keyc (P ++ tl))).
      { rewrite map_app in *. cbn [map] in Hs. exact (sortedF_del _ _ _ Hs). }
      assert (Hskip : map cpc (round3c f ((St :: P) ++ [cur]) tl
                                 (if keyc cur =? 0 then (length ((St :: P) ++ [cur]) - 1)%nat else 0%nat))
                      = d117 has compose_fn Kfn (cpc St) (cpc cur :: rev (map cpc P)) (map cpc tl)).
      { destruct (N.eqb_spec (keyc cur) 0) as [E|_]; [contradiction|].
        change ((St :: P) ++ [cur]) with (St :: (P ++ [cur])).
        rewrite (IH (P ++ [cur]) St f); [|cbn [length] in Hf; lia| |].
        - rewrite map_app, rev_app_distr. reflexivity.
        - rewrite <- app_assoc. exact Hg.
        - rewrite <- app_assoc. exact Hs. }
      destruct (blocked Kfn (rev (map cpc P)) (cpc cur)); cbn [negb]; [exact Hskip|].
      destruct (compose_fn (cpc St) (cpc cur)) as [c|]; [|exact Hskip].
      destruct (has c); [|exact Hskip].
      unfold upd. cbn [length Nat.ltb Nat.leb firstn skipn app].
      rewrite (IH P _ f); [reflexivity|cbn [length] in Hf; lia|exact Hg'|exact Hs'].
  Qed.

  (* glyphs: everything that was mapped stays mapped, composites carry their own glyph *)
  Lemma round3c_gl : forall fuel out rest starter,
    Forall (fun c => glc c = cpc c) out -> Forall (fun c => glc c = cpc c) rest ->
    Forall (fun c => glc c = cpc c) (round3c fuel out rest starter).
  Proof.
    induction fuel as [|f IH]; intros out rest starter Ho Hr; cbn [round3c].
    - apply Forall_app. split; assumption.
    - destruct rest as [|cur tl]; [exact Ho|]. inversion Hr as [|? ? Hc Ht]; subst.
      destruct (try_composeC out starter cur) as [c|].
      + apply IH; [|exact Ht]. unfold upd. destruct (starter <? length out)%nat; [|exact Ho].
        apply Forall_app. split.
        * rewrite <- (firstn_skipn starter out) in Ho. apply Forall_app in Ho. tauto.
        * constructor; [reflexivity|].
          rewrite <- (firstn_skipn (Datatypes.S starter) out) in Ho. apply Forall_app in Ho. tauto.
      + apply IH; [|exact Ht]. apply Forall_app. split; [exact Ho|]. constructor; [exact Hc|constructor].
  Qed.
End R3.

(* ------------------------------------------------------------------ model-level statements *)
Section R3Model.
  Variable has is_mark is_space : N -> bool.
  Variable ccc : N -> N.

  (* a mark as round 1 / round 2 leave it: general category M*, non-zero stored class = class of its character *)
  Definition good_mark (m : info) : Prop :=
    mk_ m = true /\ mcc m <> 0 /\ mcc m = Kfn is_mark ccc (cp m).

  Lemma good_mark_props c g k : is_mark c = true -> Kfn is_mark ccc c <> 0 ->
    good_mark (props is_mark is_space ccc c g k).
  Proof.
    intros Hm Hk. unfold good_mark, props. cbn [mk_ mcc cp]. unfold Kfn in *. rewrite Hm in *.
    rewrite andb_true_r in *. split; [reflexivity|]. split; [exact Hk|reflexivity].
  Qed.

  Theorem round3_d117 (s : info) (marks : list info) :
    Forall good_mark marks -> sortedF (map mcc marks) ->
    map cp (round3 has is_mark is_space ccc (S (length marks)) [s] marks 0)
    = d117 has compose_fn (Kfn is_mark ccc) (cp s) [] (map cp marks).
  Proof.
    intros Hg Hs.
    replace (map cp (round3 has is_mark is_space ccc (S (length marks)) [s] marks 0))
      with (map cpc (map core (round3 has is_mark is_space ccc (S (length marks)) [s] marks 0)))
      by (rewrite map_map; reflexivity).
    rewrite round3_core. cbn [map].
    rewrite (round3c_d117 has is_mark is_space ccc (map core marks) [] (core s)).
    - cbn [map rev]. rewrite map_map. reflexivity.
    - rewrite map_length. lia.
    - cbn [app]. apply Forall_map. eapply Forall_impl; [|exact Hg]. intros m H. exact H.
    - cbn [app]. rewrite map_map. exact Hs.
  Qed.

  Theorem round3_glyphs (s : info) (marks : list info) :
    Forall (fun x => gl x = cp x) (s :: marks) ->
    Forall (fun x => gl x = cp x) (round3 has is_mark is_space ccc (S (length marks)) [s] marks 0).
  Proof.
    intros H.
    assert (G : Forall (fun c => glc c = cpc c)
                  (map core (round3 has is_mark is_space ccc (S (length marks)) [s] marks 0))).
    { rewrite round3_core. apply round3c_gl.
      - inversion H; subst. constructor; [assumption|constructor].
      - inversion H; subst. apply Forall_map. assumption. }
    rewrite Forall_map in G. exact G.
  Qed.
End R3Model.
