(* Proofs/NormalizeSortP.v — round 2 of the normalizer: hb_buffer_t::sort (the literal insertion loop with its
   element shifting and cluster merging) yields a stable, sorted permutation of the mark run (C09_reorder). *)
From Coq Require Import List NArith Bool Lia Arith Permutation.
From RB Require Import Gen.NormTables Model.Normalize.
Import ListNotations.
Local Open Scope N_scope.

Arguments N.add : simpl never.
Arguments N.sub : simpl never.
Arguments N.mul : simpl never.
Arguments N.eqb : simpl never.
Arguments N.ltb : simpl never.
Arguments N.leb : simpl never.

(* ------------------------------------------------------------------ generic list facts *)
Section ListFacts.
  Variable A : Type.
  Variable d : A.

  Lemma nth_firstn_lt (l : list A) : forall n p, (p < n)%nat -> nth p (firstn n l) d = nth p l d.
  Proof.
    induction l as [|x l IH]; intros [|n] [|p] H; cbn [firstn nth]; try lia; try reflexivity.
    apply IH. lia.
  Qed.

  Lemma nth_skipn (l : list A) : forall n p, nth p (skipn n l) d = nth (n + p) l d.
  Proof.
    induction l as [|x l IH]; intros [|n] p; cbn [skipn Nat.add]; try reflexivity.
    - destruct p; reflexivity.
    - cbn [nth]. apply IH.
  Qed.

  Lemma skipn_nth_cons (l : list A) : forall i, (i < length l)%nat -> skipn i l = nth i l d :: skipn (S i) l.
  Proof.
    induction l as [|x l IH]; intros [|i] H; cbn [length] in H; try lia; [reflexivity|].
    cbn [skipn nth]. rewrite (IH i) by lia. reflexivity.
  Qed.

  Lemma skipn_skipn' (l : list A) : forall a b, skipn a (skipn b l) = skipn (b + a) l.
  Proof.
    induction l as [|x l IH]; intros a [|b]; cbn [skipn Nat.add]; try reflexivity.
    - destruct a; reflexivity.
    - apply IH.
  Qed.

  Lemma decomp3 (l : list A) j i : (j <= i < length l)%nat ->
    l = firstn j l ++ firstn (i - j) (skipn j l) ++ nth i l d :: skipn (S i) l.
  Proof.
    intros H. rewrite <- (firstn_skipn j l) at 1. f_equal.
    rewrite <- (firstn_skipn (i - j) (skipn j l)) at 1. f_equal.
    rewrite skipn_skipn'. replace (j + (i - j))%nat with i by lia. apply skipn_nth_cons. lia.
  Qed.

  Lemma upd_app_mid (a b : list A) x v : upd (a ++ x :: b) (length a) v = a ++ v :: b.
  Proof.
    unfold upd. rewrite app_length. cbn [length].
    destruct (Nat.ltb_spec (length a) (length a + S (length b))) as [_|H]; [|lia].
    rewrite firstn_app, Nat.sub_diag, firstn_all. cbn [firstn]. rewrite app_nil_r. f_equal.
    replace (S (length a)) with (length a + 1)%nat by lia.
    rewrite skipn_app. rewrite skipn_all2 by lia. replace (length a + 1 - length a)%nat with 1%nat by lia.
    reflexivity.
  Qed.

  Lemma upd_length (l : list A) k v : length (upd l k v) = length l.
  Proof.
    unfold upd. destruct (Nat.ltb_spec k (length l)) as [H|H]; [|reflexivity].
    rewrite app_length. cbn [length]. rewrite firstn_length, skipn_length. lia.
  Qed.

  Lemma perm_insert (pre seg : list A) z post :
    Permutation (pre ++ z :: seg ++ post) (pre ++ seg ++ z :: post).
  Proof. apply Permutation_app_head. apply Permutation_middle. Qed.

  Lemma filter_none (p : A -> bool) l : (forall x, In x l -> p x = false) -> filter p l = [].
  Proof.
    induction l as [|x l IH]; intros H; [reflexivity|]. cbn [filter].
    rewrite (H x (or_introl eq_refl)). apply IH. intros y Hy. apply H. right. exact Hy.
  Qed.

  Lemma filter_insert (p : A -> bool) pre seg z post :
    (p z = true -> forall x, In x seg -> p x = false) ->
    filter p (pre ++ z :: seg ++ post) = filter p (pre ++ seg ++ z :: post).
  Proof.
    intros H. rewrite !filter_app. cbn [filter]. rewrite filter_app. f_equal.
    destruct (p z) eqn:Ez; [|reflexivity]. rewrite (filter_none p seg (H eq_refl)). reflexivity.
  Qed.
End ListFacts.

Arguments nth_firstn_lt {A}.
Arguments nth_skipn {A}.
Arguments decomp3 {A}.
Arguments upd_app_mid {A}.
Arguments upd_length {A}.

(* ------------------------------------------------------------------ the insertion step, abstractly *)
Section InsSort.
  Variable A : Type.
  Variable key : A -> N.
  Variable d : A.

  Fixpoint find_jG (l : list A) (i start j : nat) : nat :=
    match j with
    | O => O
    | S j' => if (start <? j)%nat && (key (nth i l d) <? key (nth j' l d)) then find_jG l i start j' else j
    end.

  (* move element i in front of element j *)
  Definition splice (l : list A) (j i : nat) : list A :=
    firstn j l ++ nth i l d :: firstn (i - j) (skipn j l) ++ skipn (S i) l.

  Definition stepG (start : nat) (l : list A) (i : nat) : list A :=
    let j := find_jG l i start i in if (i =? j)%nat then l else splice l j i.

  Lemma find_jG_spec l i start : forall j0, (start <= j0)%nat ->
    (start <= find_jG l i start j0 <= j0)%nat /\
    (forall p, (find_jG l i start j0 <= p < j0)%nat -> key (nth i l d) < key (nth p l d)) /\
    (find_jG l i start j0 = start \/ key (nth (find_jG l i start j0 - 1) l d) <= key (nth i l d)).
  Proof.
    induction j0 as [|j0 IH]; intros Hs; cbn [find_jG].
    - split; [lia|]. split; [intros; lia|]. left; lia.
    - destruct (Nat.ltb_spec start (S j0)) as [Hlt|Hge]; cbn [andb].
      + destruct (N.ltb_spec (key (nth i l d)) (key (nth j0 l d))) as [Hk|Hk].
        * destruct (IH ltac:(lia)) as [H1 [H2 H3]]. split; [lia|]. split; [|exact H3].
          intros p Hp. destruct (Nat.eq_dec p j0) as [->|]; [exact Hk|apply H2; lia].
        * split; [lia|]. split; [intros; lia|]. right. replace (S j0 - 1)%nat with j0 by lia. exact Hk.
      + split; [lia|]. split; [intros; lia|]. left; lia.
  Qed.

  Lemma find_jG_le l i start : forall j0, (find_jG l i start j0 <= j0)%nat.
  Proof. induction j0 as [|j0 IH]; cbn [find_jG]; [lia|]. destruct (_ && _); lia. Qed.

  Lemma splice_length l j i : (j <= i < length l)%nat -> length (splice l j i) = length l.
  Proof.
    intros H. unfold splice. rewrite app_length. cbn [length]. rewrite app_length.
    rewrite !firstn_length, !skipn_length. lia.
  Qed.

  Lemma nth_splice l j i p : (j <= i < length l)%nat ->
    nth p (splice l j i) d =
      if (p <? j)%nat then nth p l d
      else if (p =? j)%nat then nth i l d
      else if (p <=? i)%nat then nth (p - 1) l d
      else nth p l d.
  Proof.
    intros H. unfold splice.
    assert (Hlen : length (firstn j l) = j) by (rewrite firstn_length; lia).
    destruct (Nat.ltb_spec p j) as [Hp|Hp].
    - rewrite app_nth1 by lia. apply nth_firstn_lt. exact Hp.
    - rewrite app_nth2 by lia. rewrite Hlen.
      destruct (Nat.eqb_spec p j) as [->|Hne].
      + rewrite Nat.sub_diag. reflexivity.
      + destruct (p - j)%nat as [|q] eqn:Eq; [lia|]. cbn [nth].
        assert (Hlen2 : length (firstn (i - j) (skipn j l)) = (i - j)%nat)
          by (rewrite firstn_length, skipn_length; lia).
        destruct (Nat.leb_spec p i) as [Hpi|Hpi].
        * rewrite app_nth1 by lia. rewrite nth_firstn_lt by lia. rewrite nth_skipn. f_equal. lia.
        * rewrite app_nth2 by lia. rewrite Hlen2, nth_skipn. f_equal. lia.
  Qed.

  Definition sorted_seg (l : list A) (a b : nat) : Prop :=
    forall p q, (a <= p <= q)%nat -> (q < b)%nat -> key (nth p l d) <= key (nth q l d).

  Lemma In_seg l j i x : (j <= i < length l)%nat -> In x (firstn (i - j) (skipn j l)) ->
    exists p, (j <= p < i)%nat /\ x = nth p l d.
  Proof.
    intros H Hx. apply (In_nth _ _ d) in Hx as [n [Hn Hx]].
    rewrite firstn_length, skipn_length in Hn.
    rewrite nth_firstn_lt in Hx by lia. rewrite nth_skipn in Hx.
    exists (j + n)%nat. split; [lia|]. symmetry. exact Hx.
  Qed.

  Lemma stepG_facts start l i : (start <= i < length l)%nat -> sorted_seg l start i ->
    length (stepG start l i) = length l
    /\ Permutation (stepG start l i) l
    /\ (forall k, filter (fun x => key x =? k) (stepG start l i) = filter (fun x => key x =? k) l)
    /\ (forall p, (p < start \/ i < p)%nat -> nth p (stepG start l i) d = nth p l d)
    /\ sorted_seg (stepG start l i) start (S i).
  Proof.
    intros Hi Hs. unfold stepG.
    destruct (find_jG_spec l i start i ltac:(lia)) as [Hj [Hgt Hle]].
    set (j := find_jG l i start i) in *.
    destruct (Nat.eqb_spec i j) as [E|E].
    - (* already in place *)
      split; [reflexivity|]. split; [apply Permutation_refl|]. split; [reflexivity|]. split; [reflexivity|].
      intros p q Hpq Hq. destruct (Nat.eq_dec q i) as [->|Hqi]; [|apply Hs; lia].
      destruct (Nat.eq_dec p i) as [->|Hpi]; [lia|].
      destruct Hle as [Hle|Hle]; [lia|]. rewrite <- E in Hle.
      pose proof (Hs p (i - 1)%nat ltac:(lia) ltac:(lia)). lia.
    - assert (Hji : (j <= i < length l)%nat) by lia.
      split; [apply splice_length; exact Hji|].
      pose proof (decomp3 d l j i Hji) as Hl.
      assert (Hseg : forall x, In x (firstn (i - j) (skipn j l)) -> key (nth i l d) < key x).
      { intros x Hx. apply In_seg in Hx as [p [Hp ->]]; [|exact Hji]. apply Hgt. exact Hp. }
      split; [|split; [|split]].
      + unfold splice. rewrite Hl at 5. apply perm_insert.
      + intros k. unfold splice. rewrite Hl at 5. apply filter_insert.
        intros Hz x Hx. apply N.eqb_eq in Hz. apply N.eqb_neq. specialize (Hseg x Hx). lia.
      + intros p Hp. rewrite nth_splice by exact Hji.
        destruct (Nat.ltb_spec p j); [reflexivity|]. destruct (Nat.eqb_spec p j); [lia|].
        destruct (Nat.leb_spec p i); [lia|reflexivity].
      + intros p q Hpq Hq. rewrite !nth_splice by exact Hji.
        destruct (Nat.ltb_spec p j) as [Hpj|Hpj]; destruct (Nat.ltb_spec q j) as [Hqj|Hqj]; try lia.
        * apply Hs; lia.
        * destruct Hle as [Hle|Hle]; [lia|].
          pose proof (Hs p (j - 1)%nat ltac:(lia) ltac:(lia)) as Hp1.
          destruct (Nat.eqb_spec q j) as [_|Hqne]; [lia|].
          destruct (Nat.leb_spec q i) as [_|Hqi]; [|lia].
          destruct (Nat.eq_dec (q - 1) (j - 1)) as [Eq|Nq]; [rewrite Eq; exact Hp1|].
          pose proof (Hgt (q - 1)%nat ltac:(lia)). lia.
        * destruct (Nat.eqb_spec p j) as [Epj|Npj]; destruct (Nat.eqb_spec q j) as [Eqj|Nqj]; try lia.
          -- destruct (Nat.leb_spec q i) as [_|Hqi]; [|lia].
             pose proof (Hgt (q - 1)%nat ltac:(lia)). lia.
          -- destruct (Nat.leb_spec p i) as [_|Hpi]; [|lia]. destruct (Nat.leb_spec q i) as [_|Hqi]; [|lia].
             apply Hs; lia.
  Qed.

  Lemma sortG_facts start : forall n i0 l,
    (start < i0)%nat -> (i0 + n <= length l)%nat -> sorted_seg l start i0 ->
    let r := fold_left (stepG start) (seq i0 n) l in
    length r = length l
    /\ Permutation r l
    /\ (forall k, filter (fun x => key x =? k) r = filter (fun x => key x =? k) l)
    /\ (forall p, (p < start \/ i0 + n <= p)%nat -> nth p r d = nth p l d)
    /\ sorted_seg r start (i0 + n).
  Proof.
    induction n as [|n IH]; intros i0 l Hi Hn Hs; cbn [seq fold_left].
    - rewrite Nat.add_0_r. split; [reflexivity|]. split; [apply Permutation_refl|].
      split; [reflexivity|]. split; [reflexivity|exact Hs].
    - destruct (stepG_facts start l i0 ltac:(lia) Hs) as [L1 [P1 [F1 [O1 S1]]]].
      destruct (IH (S i0) (stepG start l i0) ltac:(lia) ltac:(lia) S1) as [L2 [P2 [F2 [O2 S2]]]].
      cbv zeta. split; [lia|]. split; [eapply Permutation_trans; eassumption|].
      split; [intros k; rewrite F2; apply F1|].
      split; [intros p Hp; rewrite O2 by lia; apply O1; lia|].
      replace (i0 + S n)%nat with (S i0 + n)%nat by lia. exact S2.
  Qed.
End InsSort.

(* ------------------------------------------------------------------ the model's loop is that insertion step *)

Definition keyc (c : N * N * bool * N) : N := snd c.
Definition dcore := core dinfo.

Lemma shift_right_app (pre : list info) : forall seg z post,
  shift_right (pre ++ seg ++ z :: post) (length pre) (length seg) = pre ++ hd z seg :: seg ++ post.
Proof.
  intros seg. induction seg as [|y s IH] using rev_ind; intros z post.
  - reflexivity.
  - rewrite app_length. cbn [length]. rewrite Nat.add_1_r. unfold shift_right.
    rewrite seq_S, rev_app_distr. cbn [rev app fold_left Nat.add].
    fold (shift_right (upd (pre ++ (s ++ [y]) ++ z :: post) (length s + length pre + 1)
                           (nth (length s + length pre) (pre ++ (s ++ [y]) ++ z :: post) dinfo))
                      (length pre) (length s)).
    replace (pre ++ (s ++ [y]) ++ z :: post) with ((pre ++ s) ++ y :: z :: post)
      by (rewrite <- !app_assoc; reflexivity).
    replace (length s + length pre)%nat with (length (pre ++ s)) by (rewrite app_length; lia).
    rewrite nth_middle.
    replace ((pre ++ s) ++ y :: z :: post) with ((pre ++ s ++ [y]) ++ z :: post)
      by (rewrite <- !app_assoc; reflexivity).
    replace (length (pre ++ s) + 1)%nat with (length (pre ++ s ++ [y])) by (rewrite !app_length; cbn [length]; lia).
    rewrite upd_app_mid.
    replace ((pre ++ s ++ [y]) ++ y :: post) with (pre ++ s ++ y :: y :: post)
      by (rewrite <- !app_assoc; reflexivity).
    rewrite IH. rewrite <- !app_assoc. cbn [app]. destruct s; reflexivity.
Qed.

Lemma sort_step_splice (l : list info) j i : (j <= i < length l)%nat ->
  upd (shift_right l j (i - j)) j (nth i l dinfo) = splice info dinfo l j i.
Proof.
  intros H. unfold splice.
  set (pre := firstn j l). set (seg := firstn (i - j) (skipn j l)). set (z := nth i l dinfo).
  set (post := skipn (S i) l).
  assert (Hl : l = pre ++ seg ++ z :: post) by (apply decomp3; exact H).
  assert (Lp : length pre = j) by (unfold pre; rewrite firstn_length; lia).
  assert (Ls : length seg = (i - j)%nat) by (unfold seg; rewrite firstn_length, skipn_length; lia).
  rewrite Hl at 1. rewrite <- Lp at 1 3. rewrite <- Ls. rewrite shift_right_app.
  rewrite (upd_app_mid pre (seg ++ post) (hd z seg) z). reflexivity.
Qed.

Lemma map_core_mapi_aux (f : nat -> info -> info) :
  (forall k y, core (f k y) = core y) -> forall l i, map core (mapi_aux f i l) = map core l.
Proof.
  intros Hf l. induction l as [|x l IH]; intros i; cbn [mapi_aux map]; [reflexivity|].
  rewrite Hf, IH. reflexivity.
Qed.

Lemma merge_clusters_core l s e : map core (merge_clusters l s e) = map core l.
Proof.
  unfold merge_clusters. destruct (e - s <? 2)%nat; [reflexivity|].
  unfold mapi. apply map_core_mapi_aux. intros k y.
  destruct ((s <=? k)%nat && _); reflexivity.
Qed.

Lemma mcc_keyc x : mcc x = keyc (core x).
Proof. reflexivity. Qed.

Lemma find_j_core l i start : forall j,
  find_j l i start j = find_jG _ keyc dcore (map core l) i start j.
Proof.
  induction j as [|j IH]; cbn [find_j find_jG]; [reflexivity|].
  unfold dcore. rewrite !map_nth, <- !mcc_keyc, IH. reflexivity.
Qed.

Lemma map_splice (l : list info) j i :
  map core (splice info dinfo l j i) = splice _ dcore (map core l) j i.
Proof.
  unfold splice, dcore. rewrite map_app. cbn [map]. rewrite map_app, !skipn_map, !firstn_map, map_nth.
  reflexivity.
Qed.

Lemma sort_step_core start l i : (i < length l)%nat ->
  map core (sort_step start l i) = stepG _ keyc dcore start (map core l) i.
Proof.
  intros Hi. unfold sort_step, stepG. rewrite <- find_j_core.
  destruct (i =? find_j l i start i)%nat eqn:E; [reflexivity|].
  assert (Hj : (find_j l i start i <= i)%nat).
  { rewrite find_j_core. apply find_jG_le. }
  set (j := find_j l i start i) in *.
  assert (Hlen : length (merge_clusters l j (i + 1)) = length l).
  { rewrite <- (map_length core), merge_clusters_core, map_length. reflexivity. }
  rewrite sort_step_splice by lia. rewrite map_splice, merge_clusters_core. reflexivity.
Qed.

Lemma sort_core start : forall is_ l, (forall i, In i is_ -> (i < length l)%nat) ->
  map core (fold_left (sort_step start) is_ l) = fold_left (stepG _ keyc dcore start) is_ (map core l).
Proof.
  induction is_ as [|i is_ IH]; intros l H; cbn [fold_left]; [reflexivity|].
  rewrite IH.
  - rewrite sort_step_core by (apply H; left; reflexivity). reflexivity.
  - intros k Hk.
    assert (length (sort_step start l i) = length l) as ->.
    { rewrite <- (map_length core), sort_step_core by (apply H; left; reflexivity).
      unfold stepG. destruct (_ =? _)%nat; [apply map_length|].
      rewrite splice_length; [apply map_length|]. rewrite map_length.
      split; [apply find_jG_le|apply H; left; reflexivity]. }
    apply H. right. exact Hk.
Qed.

(* hb_buffer_t::sort(start, end, compare_combining_class) on the model's buffer: a stable sorted permutation
   of the segment; nothing but clusters changes, and nothing outside [start, end) moves *)
Theorem sort_correct (l : list info) (start e : nat) : (start <= e <= length l)%nat ->
  let r := sort l start e in
  length r = length l
  /\ Permutation (map core r) (map core l)
  /\ (forall k, filter (fun c => keyc c =? k) (map core r) = filter (fun c => keyc c =? k) (map core l))
  /\ (forall p, (p < start \/ e <= p)%nat -> core (nth p r dinfo) = core (nth p l dinfo))
  /\ (forall p q, (start <= p <= q)%nat -> (q < e)%nat -> mcc (nth p r dinfo) <= mcc (nth q r dinfo)).
Proof.
  intros H. cbv zeta. unfold sort.
  assert (Hin : forall i, In i (seq (start + 1) (e - start - 1)) -> (i < length l)%nat).
  { intros i Hi. apply in_seq in Hi. lia. }
  pose proof (sort_core start _ l Hin) as Hc.
  set (r := fold_left (sort_step start) (seq (start + 1) (e - start - 1)) l) in *.
  destruct (Nat.le_gt_cases e start) as [Hes|Hes].
  - (* empty range: the loop does not run *)
    assert (E0 : (e - start - 1 = 0)%nat) by lia. subst r. clear Hc Hin. rewrite E0. cbn [seq fold_left].
    split; [reflexivity|]. split; [apply Permutation_refl|]. split; [reflexivity|]. split; [reflexivity|].
    intros; lia.
  - assert (S0 : sorted_seg _ keyc dcore (map core l) start (start + 1)).
    { intros p q Hpq Hq. replace q with p by lia. lia. }
    destruct (sortG_facts _ keyc dcore start (e - start - 1) (start + 1)%nat (map core l)
                ltac:(lia) ltac:(rewrite map_length; lia) S0) as [L [P [F [O S]]]].
    rewrite <- Hc in L, P, F, O, S. rewrite !map_length in L.
    replace (start + 1 + (e - start - 1))%nat with e in * by lia.
    split; [exact L|]. split; [exact P|]. split; [exact F|]. split.
    + intros p Hp. specialize (O p Hp). unfold dcore in O. rewrite !map_nth in O. exact O.
    + intros p q Hpq Hq. specialize (S p q Hpq Hq). unfold dcore in S. rewrite !map_nth in S. exact S.
Qed.
