(* Proofs/PipelineP.v — what an order fact about the pass sequence buys: an invariant established by one pass and
   preserved by every later pass holds at the end, whatever the passes before it did. *)
From Coq Require Import List String Bool.
From RB Require Import Model.Pipeline.
Import ListNotations.
Local Open Scope string_scope.

Section Invariant.
  Variable St : Type.
  Variable interp : string -> St -> St.
  Variable Z : St -> Prop.
  Variable z : string.
  Variable benign : string -> bool.
  Hypothesis z_establishes : forall s, Z (interp z s).
  Hypothesis benign_preserves : forall n s, benign n = true -> Z s -> Z (interp n s).

  Lemma run_cons : forall n l s, run St interp (n :: l) s = run St interp l (interp n s).
  Proof. reflexivity. Qed.

  Lemma run_benign : forall l s, forallb benign l = true -> Z s -> Z (run St interp l s).
  Proof.
    induction l as [|n l IH]; intros s Hb Hz; [exact Hz|].
    cbn [forallb] in Hb. apply andb_true_iff in Hb as [Hn Hl].
    rewrite run_cons. apply IH; [exact Hl|]. apply benign_preserves; assumption.
  Qed.

  Theorem established_then_preserved : forall l s,
    mem z l = true -> forallb benign (after z l) = true -> Z (run St interp l s).
  Proof.
    induction l as [|n l IH]; intros s Hm Hb; [discriminate Hm|].
    rewrite run_cons. cbn [after] in Hb. cbn [mem existsb] in Hm.
    destruct (String.eqb n z) eqn:E.
    - apply String.eqb_eq in E. subst n. apply run_benign; [exact Hb|apply z_establishes].
    - apply IH; [|exact Hb]. rewrite String.eqb_sym in Hm. rewrite E in Hm. exact Hm.
  Qed.
End Invariant.

Lemma forallb_mem_In : forall (allowed l : list string),
  forallb (fun n => mem n allowed) l = true -> forall n, In n l -> In n allowed.
Proof.
  intros allowed l H n Hin. rewrite forallb_forall in H. specialize (H n Hin).
  unfold mem in H. apply existsb_exists in H as [x [Hx He]]. apply String.eqb_eq in He. subst x. exact Hx.
Qed.

(* ---------------------------------------------------------------------------------------------------------
   Facts about the sequence regenerated from the source (closed computations over Gen/Pipeline.v) *)
From RB Require Import Gen.Pipeline.

Definition zero_pass : string := "zero_width_default_ignorables".
Definition hide_pass : string := "hide_default_ignorables".

(* every pass that writes advances or offsets from the font's tables *)
Definition positioning_passes : list string :=
  ["clear_positions"; "glyph_h_advance"; "glyph_v_advance"; "glyph_h_origin"; "glyph_v_origin";
   "_hb_ot_shape_fallback_spaces"; "position_start"; "zero_mark_widths_by_gdef"; "ot_layout_gpos_table::position";
   "hb_aat_layout_position"; "hb_ot_layout_kern"; "_hb_ot_shape_fallback_kern"; "hb_aat_layout_track";
   "position_finish_advances"].

(* the passes that may follow the zeroing: none of them writes the advance of an ignorable glyph; two of them write
   offsets of ATTACHED glyphs (position_finish_offsets, position_marks), which is the content of the known finding
   gpos_attached_ignorable_keeps_attachment_offset and the hypothesis a user of C13_zeroing_survives has to discharge *)
Definition passes_allowed_after_zeroing : list string :=
  ["hb_aat_layout_zero_width_deleted_glyphs"; "position_finish_offsets"; "position_marks"; "reverse";
   "hb_aat_layout_remove_deleted_glyphs"; "deal_with_variation_selectors"; "hide_default_ignorables";
   "shaper.postprocess_glyphs"; "propagate_flags"; "leave"].

Definition zeroing_order_ok : bool :=
  pipeline_shape_ok
  && Nat.eqb (count_of zero_pass (passes_of pipeline)) 1
  && Nat.eqb (count_of hide_pass (passes_of pipeline)) 1
  && all_before positioning_passes zero_pass (passes_of pipeline)
  && before zero_pass hide_pass (passes_of pipeline)
  && before "deal_with_variation_selectors" hide_pass (passes_of pipeline)
  && forallb (fun n => mem n passes_allowed_after_zeroing) (after zero_pass (passes_of pipeline))
  && match guard_of zero_pass 0 pipeline, guard_of hide_pass 0 pipeline with
     | Some g1, Some g2 => String.eqb g1 "" && String.eqb g2 ""      (* both run unconditionally *)
     | _, _ => false
     end.

Lemma zeroing_order_holds : zeroing_order_ok = true.
Proof. vm_compute. reflexivity. Qed.

Lemma zeroing_survives : forall (St : Type) (interp : string -> St -> St) (Z : St -> Prop),
  (forall s, Z (interp zero_pass s)) ->
  (forall n s, In n passes_allowed_after_zeroing -> Z s -> Z (interp n s)) ->
  forall s, Z (run St interp (passes_of pipeline) s).
Proof.
  intros St interp Z Hz Hb s.
  apply established_then_preserved with (z := zero_pass) (benign := fun n => mem n passes_allowed_after_zeroing).
  - exact Hz.
  - intros n s0 Hm Hs. apply Hb; [|exact Hs].
    unfold mem in Hm. apply existsb_exists in Hm as [x [Hx He]]. apply String.eqb_eq in He. subst x. exact Hx.
  - vm_compute. reflexivity.
  - vm_compute. reflexivity.
Qed.

(* morx deletion markers: two removal sites with complementary guards *)
Definition removal_pass : string := "hb_aat_layout_remove_deleted_glyphs".

Definition eval_removal_guard (morx gpos : bool) (g : string) : option bool :=
  if String.eqb g "ctx.plan.apply_morx&&ctx.plan.apply_gpos" then Some (morx && gpos)
  else if String.eqb g "ctx.plan.apply_morx&&!ctx.plan.apply_gpos" then Some (morx && negb gpos)
  else None.

Definition removal_sites : list string := map snd (filter (fun s => String.eqb (fst s) removal_pass) pipeline).

Definition removals_run (morx gpos : bool) : option nat :=
  fold_right (fun g acc => match eval_removal_guard morx gpos g, acc with
                           | Some b, Some k => Some ((if b then 1 else 0) + k)
                           | _, _ => None end) (Some 0) removal_sites.

Lemma removal_exactly_once : forall morx gpos,
  removals_run morx gpos = Some (if morx then 1 else 0).
Proof. intros [|] [|]; vm_compute; reflexivity. Qed.

Definition removal_order_ok : bool :=
  pipeline_shape_ok
  && Nat.eqb (List.length removal_sites) 2
  (* the site that runs with GPOS comes after substitution and before anything is positioned *)
  && match index_of removal_pass (passes_of pipeline), index_of "clear_positions" (passes_of pipeline),
           last_index_of "hb_aat_layout_substitute" (passes_of pipeline) with
     | Some r, Some c, Some sub => Nat.ltb sub r && Nat.ltb r c
     | _, _, _ => false
     end
  (* the site that runs without GPOS comes after all positioning, the zeroing of deleted glyphs included *)
  && match last_index_of removal_pass (passes_of pipeline), last_index_of "hb_aat_layout_zero_width_deleted_glyphs" (passes_of pipeline),
           index_of hide_pass (passes_of pipeline) with
     | Some r, Some zw, Some h => Nat.ltb zw r && Nat.ltb r h
     | _, _, _ => false
     end
  && match nth_error removal_sites 0, nth_error removal_sites 1 with
     | Some g1, Some g2 => String.eqb g1 "ctx.plan.apply_morx&&ctx.plan.apply_gpos" && String.eqb g2 "ctx.plan.apply_morx&&!ctx.plan.apply_gpos"
     | _, _ => false
     end.

Lemma removal_order_holds : removal_order_ok = true.
Proof. vm_compute. reflexivity. Qed.
