(* Proofs/PrefilterP.v — transparency of the lookup-skip decision (Model/Prefilter.v). *)
From Coq Require Import List NArith Bool Lia.
From RB Require Import Model.Digest Model.Prefilter Proofs.DigestP.
Import ListNotations.
Local Open Scope N_scope.

Section SkipP.
Variable shifts : list N.
Variable lookup buf : Type.
Variable apply : lookup -> buf -> buf.
Variable ldig : lookup -> digest.
Variable track : lookup -> buf -> digest -> digest.
Variable bdig : buf -> digest.
Variable glyphs : buf -> list N.           (* the glyph ids in the buffer *)
Variable cov : lookup -> N -> Prop.        (* some subtable of the lookup covers the glyph as first glyph *)

(* the context digest covers every glyph of the buffer *)
Definition Covers (d : digest) (b : buf) : Prop :=
  length d = length shifts /\ forall g, In g (glyphs b) -> d_may_have_glyph shifts d g = true.

(* (1) lookup digests over-approximate coverage [DigestP: digests built by add / add_array / add_range] *)
Hypothesis H_ldig : forall l, Sound shifts (ldig l) (cov l).
(* (2) a lookup that covers no glyph of the buffer leaves it unchanged [on/off differential] *)
Hypothesis H_id : forall l b, (forall g, In g (glyphs b) -> ~ cov l g) -> apply l b = b.
(* (3) the context digest keeps covering the buffer while lookups substitute [monitor hook] *)
Hypothesis H_track : forall l b d, Covers d b -> Covers (track l b d) (apply l b).
(* (4) a freshly computed buffer digest covers the buffer [DigestP d_add_array_Sound] *)
Hypothesis H_bdig : forall b, Covers (bdig b) b.

(* a pause is well behaved when it asks for a refresh unless it keeps the glyph set *)
Definition pause_ok (p : buf -> bool * buf) : Prop :=
  forall b, fst (p b) = false -> forall g, In g (glyphs (snd (p b))) -> In g (glyphs b).
Definition stage_ok (s : stage lookup buf) : Prop :=
  match st_pause s with None => True | Some p => pause_ok p end.

Lemma skip_is_identity l b d : Covers d b -> d_may_have (ldig l) d = false -> apply l b = b.
Proof.
  intros [Hlen Hc] Hm. apply H_id. intros g Hg Hcov.
  destruct (H_ldig l) as [Hl Hs].
  assert (E : d_may_have (ldig l) d = true).
  { apply (d_may_have_sound shifts (ldig l) d g); auto. }
  rewrite E in Hm. discriminate.
Qed.

Lemma lookups_agree ls : forall b d, Covers d b ->
  fst (fold_left (step_filtered lookup buf apply ldig track) ls (b, d)) = fold_left (step_plain lookup buf apply) ls b /\
  Covers (snd (fold_left (step_filtered lookup buf apply ldig track) ls (b, d)))
         (fst (fold_left (step_filtered lookup buf apply ldig track) ls (b, d))).
Proof.
  induction ls as [|l ls IH]; intros b d Hc; cbn [fold_left].
  - split; [reflexivity|exact Hc].
  - unfold step_filtered at 2 4 6. unfold step_plain at 2.
    destruct (d_may_have (ldig l) d) eqn:E.
    + apply IH. apply H_track. exact Hc.
    + rewrite (skip_is_identity l b d Hc E). apply IH. exact Hc.
Qed.

Lemma stage_agrees s b d : stage_ok s -> Covers d b ->
  fst (stage_filtered lookup buf apply ldig track bdig (b, d) s) = stage_plain lookup buf apply b s /\
  Covers (snd (stage_filtered lookup buf apply ldig track bdig (b, d) s)) (fst (stage_filtered lookup buf apply ldig track bdig (b, d) s)).
Proof.
  intros Hs Hc. unfold stage_filtered, stage_plain.
  destruct (lookups_agree (st_lookups s) b d Hc) as [E1 C1].
  destruct (fold_left (step_filtered lookup buf apply ldig track) (st_lookups s) (b, d)) as [b1 d1] eqn:F.
  cbn [fst snd] in E1, C1. rewrite <- E1.
  unfold stage_ok in Hs. destruct (st_pause s) as [p|]; [|split; [reflexivity|exact C1]].
  specialize (Hs b1). destruct (p b1) as [r b'] eqn:P. cbn [fst snd] in *.
  split; [reflexivity|]. destruct r; [apply H_bdig|].
  destruct C1 as [Hl Hc1]. split; [exact Hl|]. intros g Hg. apply Hc1. apply Hs; [reflexivity|exact Hg].
Qed.

Theorem skip_transparent ss : forall b d, Forall stage_ok ss -> Covers d b ->
  fst (fold_left (stage_filtered lookup buf apply ldig track bdig) ss (b, d)) = fold_left (stage_plain lookup buf apply) ss b.
Proof.
  induction ss as [|s ss IH]; intros b d Hall Hc; cbn [fold_left]; [reflexivity|].
  inversion Hall as [|s' ss' Hs Hrest]; subst.
  destruct (stage_agrees s b d Hs Hc) as [E C].
  destruct (stage_filtered lookup buf apply ldig track bdig (b, d) s) as [b1 d1]. cbn [fst snd] in E, C.
  rewrite <- E. apply IH; assumption.
Qed.

Theorem run_transparent ss b : Forall stage_ok ss ->
  run_filtered lookup buf apply ldig track bdig b ss = run_plain lookup buf apply b ss.
Proof. intros H. unfold run_filtered, run_plain. apply skip_transparent; [exact H|apply H_bdig]. Qed.

End SkipP.

(* the refresh matters: a pause that inserts a glyph without asking for a refresh makes a later lookup
   on that glyph be skipped (witness over a toy interpreter: buffers are glyph lists, a lookup is a
   single substitution a -> b with digest {a}) *)
Definition toy_apply (l : N * N) (b : list N) : list N := map (fun g => if g =? fst l then snd l else g) b.
Definition toy_shifts : list N := [4; 0; 9].
Definition toy_ldig (l : N * N) : digest := d_add toy_shifts (d_new toy_shifts) (fst l).
Definition toy_track (l : N * N) (b : list N) (d : digest) : digest := d_add toy_shifts d (snd l).
Definition toy_bdig (b : list N) : digest := d_add_array toy_shifts (d_new toy_shifts) b.
Definition bad_pause (b : list N) : bool * list N := (false, 1000 :: b).

Lemma stale_digest_changes_result :
  run_filtered (N * N) (list N) toy_apply toy_ldig toy_track toy_bdig [1]
     [mkStage [] (Some bad_pause); mkStage [(1000, 7)] None]
  <> run_plain (N * N) (list N) toy_apply [1] [mkStage [] (Some bad_pause); mkStage [(1000, 7)] None].
Proof. vm_compute. discriminate. Qed.

(* buffer.digest() = add_array over the glyph ids: it covers the buffer (hypothesis (4) discharged) *)
Lemma bdig_covers shifts (buf : Type) (glyphs : buf -> list N) b :
  Covers shifts buf glyphs (d_add_array shifts (d_new shifts) (glyphs b)) b.
Proof.
  destruct (d_add_array_Sound shifts (glyphs b) (d_new shifts) (fun _ => False) (d_new_Sound shifts)) as [Hl Hs].
  split; [exact Hl|]. intros g Hg. apply Hs. right. exact Hg.
Qed.

Theorem run_transparent_digest shifts (lookup buf : Type) (apply : lookup -> buf -> buf) (ldig : lookup -> digest)
  (track : lookup -> buf -> digest -> digest) (glyphs : buf -> list N) (cov : lookup -> N -> Prop) :
  (forall l, Sound shifts (ldig l) (cov l)) ->
  (forall l b, (forall g, In g (glyphs b) -> ~ cov l g) -> apply l b = b) ->
  (forall l b d, Covers shifts buf glyphs d b -> Covers shifts buf glyphs (track l b d) (apply l b)) ->
  forall ss b, Forall (stage_ok lookup buf glyphs) ss ->
  run_filtered lookup buf apply ldig track (fun b => d_add_array shifts (d_new shifts) (glyphs b)) b ss = run_plain lookup buf apply b ss.
Proof.
  intros H1 H2 H3 ss b Hss.
  apply (run_transparent shifts lookup buf apply ldig track _ glyphs cov H1 H2 H3 (bdig_covers shifts buf glyphs)). exact Hss.
Qed.

(* the toy interpreter satisfies the hypotheses: the theorem is not vacuous *)
Definition toy_cov (l : N * N) (g : N) : Prop := g = fst l.
Lemma toy_hyps :
  (forall l, Sound toy_shifts (toy_ldig l) (toy_cov l)) /\
  (forall l b, (forall g, In g b -> ~ toy_cov l g) -> toy_apply l b = b) /\
  (forall l b d, Covers toy_shifts (list N) (fun b => b) d b -> Covers toy_shifts (list N) (fun b => b) (toy_track l b d) (toy_apply l b)).
Proof.
  split; [|split].
  - intros l. unfold toy_ldig, toy_cov.
    destruct (d_add_Sound toy_shifts (d_new toy_shifts) (fun _ => False) (fst l) (d_new_Sound toy_shifts)) as [Hl Hs].
    split; [exact Hl|]. intros g ->. apply Hs. right. reflexivity.
  - intros l b H. unfold toy_apply. induction b as [|x b IH]; [reflexivity|]. cbn [map].
    destruct (x =? fst l) eqn:E.
    + apply N.eqb_eq in E. exfalso. apply (H x); [left; reflexivity|exact E].
    + f_equal. apply IH. intros g Hg. apply H. right. exact Hg.
  - intros l b d [Hl Hc]. unfold toy_track, toy_apply.
    destruct (d_add_Sound toy_shifts d (fun g => In g b) (snd l) (conj Hl Hc)) as [Hl' Hs'].
    split; [exact Hl'|]. intros g Hg. apply in_map_iff in Hg. destruct Hg as [x [Hx Hin]].
    apply Hs'. destruct (x =? fst l); [right; symmetry; exact Hx|left; subst; exact Hin].
Qed.
