(* Proofs/SimpleP.v — lemmas about Model/Simple.v for property C16. *)
From Coq Require Import List NArith ZArith Bool Lia.
From RB Require Import Model.Font Model.Simple.
Import ListNotations.
Local Open Scope N_scope.

(* ================================================================== small facts *)
Lemma nsm_is_mark : forall gc, gc_is_nsm gc = true -> gc_is_mark gc = true.
Proof. intros gc H. unfold gc_is_nsm in H. unfold gc_is_mark. rewrite H. apply orb_true_r. Qed.

Lemma is_backward_reverse : forall d, is_backward (dir_reverse d) = negb (is_backward d).
Proof. destruct d; reflexivity. Qed.
Lemma is_horizontal_reverse : forall d, is_horizontal (dir_reverse d) = is_horizontal d.
Proof. destruct d; reflexivity. Qed.

Lemma rot_cp_ltr : forall f o c, rot_cp f o LTR c = c.
Proof. reflexivity. Qed.
Lemma rot_cp_no_alternate : forall f o d c, o_mirror o c = None -> o_vert o c = None -> rot_cp f o d c = c.
Proof. intros f o d c Hm Hv. unfold rot_cp, rot_one. rewrite Hm. destruct (is_backward d), (is_vertical d); rewrite ?Hv; reflexivity. Qed.
(* an alternate that the font does not map is not used either *)
Lemma rot_cp_unmapped_alternates : forall f o d c,
  (forall m, o_mirror o c = Some m -> cmap_lookup f m = None) ->
  (forall v, o_vert o c = Some v -> cmap_lookup f v = None) -> rot_cp f o d c = c.
Proof.
  intros f o d c Hm Hv. unfold rot_cp.
  assert (E1 : rot_one f (o_mirror o) c = c).
  { unfold rot_one, has_glyph. destruct (o_mirror o c) eqn:E; [rewrite (Hm _ eq_refl)|]; reflexivity. }
  assert (E2 : rot_one f (o_vert o) c = c).
  { unfold rot_one, has_glyph. destruct (o_vert o c) eqn:E; [rewrite (Hv _ eq_refl)|]; reflexivity. }
  destruct (is_backward d), (is_vertical d); rewrite ?E1, ?E2; reflexivity.
Qed.

Lemma nominal_mapped : forall f c g, cmap_lookup f c = Some g -> nominal f c = g.
Proof. intros f c g H. unfold nominal. rewrite H. reflexivity. Qed.

(* ================================================================== plain glyphs *)
(* what the pipeline needs to know about a glyph of a non-mark, non-ignorable character *)
Definition plain (g : glyph) : Prop := g_umark g = false /\ g_ign g = false /\ g_vs g = false.

Lemma plain_not_cont : forall g, plain g -> g_cont g = false.
Proof. intros g [H _]. exact H. Qed.
Lemma plain_not_classmark : forall g, plain g -> g_classmark g = false.
Proof.
  intros g [H _]. unfold g_classmark. unfold g_umark in H.
  destruct (gc_is_nsm (g_gc g)) eqn:E; [|reflexivity]. apply nsm_is_mark in E. congruence.
Qed.

Definition singleton (g : glyph) : list glyph := [g].

Lemma groups_aux_plain : forall l x, Forall plain l -> groups_aux [x] l = map singleton (x :: l).
Proof.
  induction l as [|h t IH]; intros x Hl.
  - reflexivity.
  - inversion Hl as [|? ? Hh Ht]; subst. cbn [groups_aux]. rewrite (plain_not_cont h Hh).
    rewrite IH by assumption. reflexivity.
Qed.

Lemma groups_plain : forall l, Forall plain l -> groups l = map singleton l.
Proof.
  intros [|h t] Hl; [reflexivity|]. inversion Hl; subst. unfold groups. cbn [groups_aux].
  apply groups_aux_plain. assumption.
Qed.

Lemma concat_map_singleton : forall l : list glyph, concat (map singleton l) = l.
Proof. induction l as [|h t IH]; [reflexivity|]. cbn. rewrite IH. reflexivity. Qed.

Lemma form_clusters_plain : forall level l, Forall plain l -> form_clusters level l = l.
Proof.
  intros level l Hl. unfold form_clusters. destruct (level =? 0); [|reflexivity].
  rewrite (groups_plain l Hl), map_map. cbn [merge_group singleton]. apply concat_map_singleton.
Qed.

Lemma concat_rev_singleton : forall l : list glyph, concat (rev (map singleton l)) = rev l.
Proof. intro l. rewrite <- map_rev. apply concat_map_singleton. Qed.

Lemma reverse_graphemes_plain : forall level l, Forall plain l -> reverse_graphemes level l = rev l.
Proof.
  intros level l Hl. unfold reverse_graphemes. rewrite (groups_plain l Hl), map_map.
  replace (map (fun x => if level =? 1 then merge_group (singleton x) else singleton x) l) with (map singleton l).
  - apply concat_rev_singleton.
  - apply map_ext. intro a. destruct (level =? 1); reflexivity.
Qed.

Lemma ensure_plain : forall hor level d l, Forall plain l ->
  ensure_native_direction hor level d l = (l, d) \/ ensure_native_direction hor level d l = (rev l, dir_reverse d).
Proof.
  intros hor level d l Hl. unfold ensure_native_direction.
  destruct (needs_flip (native_hor hor d l) d); [right|left]; [|reflexivity].
  rewrite (reverse_graphemes_plain level l Hl). reflexivity.
Qed.

(* --- normalize on plain glyphs: nominal glyph for everyone *)
Definition map_gid (f : font) (g : glyph) : glyph := set_gid g (nominal f (g_cp g)).

Lemma normalize_cons2 : forall f level nf b v t',
  normalize f level nf (b :: v :: t') =
  if g_umark v && is_vs_cp (g_cp v) then
    match cmap14_lookup (f_cmap14 f) (g_cp b) (g_cp v) with
    | Some g => set_cluster (if level =? 2 then g_cluster b else N.min (g_cluster b) (g_cluster v)) (set_gid b g)
                :: normalize f level nf t'
    | None => set_gid b (nominal f (g_cp b))
              :: set_gid (set_flags v (match nf with Some _ => false | None => g_ign v end) true) (nominal f (g_cp v))
              :: normalize f level nf t'
    end
  else set_gid b (nominal f (g_cp b)) :: normalize f level nf (v :: t').
Proof. reflexivity. Qed.

Lemma normalize_plain : forall f level nf l, Forall plain l -> normalize f level nf l = map (map_gid f) l.
Proof.
  intros f level nf. induction l as [|b t IH]; intro Hl; [reflexivity|].
  inversion Hl as [|? ? Hb Ht]; subst. specialize (IH Ht).
  destruct t as [|v t'].
  - reflexivity.
  - rewrite normalize_cons2. inversion Ht as [|? ? Hv _]; subst. destruct Hv as [Hv _]. rewrite Hv. cbn [andb].
    rewrite IH. reflexivity.
Qed.

(* --- positioning on plain glyphs *)
Lemma zero_mark_widths_plain : forall adj l, Forall plain l -> zero_mark_widths adj l = l.
Proof.
  intros adj l Hl. unfold zero_mark_widths. induction Hl as [|g t Hg Ht IH]; [reflexivity|].
  cbn [map]. rewrite (plain_not_classmark g Hg), IH. reflexivity.
Qed.
Lemma zero_ignorables_plain : forall en l, Forall plain l -> zero_ignorables en l = l.
Proof.
  intros en l Hl. unfold zero_ignorables. destruct en; [|reflexivity].
  induction Hl as [|g t Hg Ht IH]; [reflexivity|]. cbn [map]. destruct Hg as (_ & Hi & _). rewrite Hi, IH. reflexivity.
Qed.
Lemma fallback_marks_plain : forall adj seen l, Forall plain l -> fallback_marks adj seen l = l.
Proof.
  intros adj seen l Hl. revert seen. induction Hl as [|g t Hg Ht IH]; intro seen; [reflexivity|].
  cbn [fallback_marks]. destruct Hg as (Hm & _). rewrite Hm, IH. reflexivity.
Qed.
Lemma deal_with_vs_plain : forall nf l, Forall plain l -> deal_with_vs nf l = l.
Proof.
  intros nf l Hl. unfold deal_with_vs. destruct nf; [|reflexivity].
  induction Hl as [|g t Hg Ht IH]; [reflexivity|]. cbn [map]. destruct Hg as (_ & _ & Hv). rewrite Hv, IH. reflexivity.
Qed.

Lemma plain_set_cp : forall g c, plain g -> plain (set_cp g c).
Proof. intros g c H. exact H. Qed.
Lemma plain_set_gid : forall g c, plain g -> plain (set_gid g c).
Proof. intros g c H. exact H. Qed.
Lemma plain_set_pos : forall g a b c d, plain g -> plain (set_pos g a b c d).
Proof. intros g a b c d H. exact H. Qed.
Lemma plain_position_default_one : forall f d g, plain g -> plain (position_default_one f d g).
Proof. intros f d g H. unfold position_default_one. destruct (is_horizontal d); exact H. Qed.

(* the composite per-glyph function of the pipeline on plain glyphs *)
Definition plain_step (f : font) (o : oracle) (target d : dir) (g : glyph) : glyph :=
  position_default_one f d (set_pos (map_gid f (set_cp g (rot_cp f o target (g_cp g)))) 0 0 0 0).

Lemma plain_step_plain : forall f o t d g, plain g -> plain (plain_step f o t d g).
Proof. intros. unfold plain_step. apply plain_position_default_one. assumption. Qed.

Lemma plain_step_reverse : forall f o t d g, plain_step f o t (dir_reverse d) g = plain_step f o t d g.
Proof. intros. unfold plain_step, position_default_one. rewrite is_horizontal_reverse. reflexivity. Qed.

Lemma Forall_plain_map : forall (h : glyph -> glyph) l, (forall g, plain g -> plain (h g)) -> Forall plain l -> Forall plain (map h l).
Proof. intros h l Hh Hl. apply Forall_map. eapply Forall_impl; [|exact Hl]. exact Hh. Qed.

(* everything after ensure_native_direction, on a plain buffer *)
Lemma tail_plain : forall f o r d l, Forall plain l ->
  deal_with_vs (r_nf r) (position f d (r_zero_ign r) (normalize f (r_level r) (r_nf r) (rotate_chars f o (r_dir r) l)))
  = (if is_backward d then rev (map (plain_step f o (r_dir r) d) l) else map (plain_step f o (r_dir r) d) l).
Proof.
  intros f o r d l Hl.
  assert (H1 : Forall plain (rotate_chars f o (r_dir r) l)).
  { unfold rotate_chars. apply Forall_plain_map; [|assumption]. intros; apply plain_set_cp; assumption. }
  rewrite (normalize_plain _ _ _ _ H1).
  assert (H2 : Forall plain (map (map_gid f) (rotate_chars f o (r_dir r) l))).
  { apply Forall_plain_map; [|assumption]. intros; apply plain_set_gid; assumption. }
  unfold position.
  assert (H3 : Forall plain (position_default f d (clear_positions (map (map_gid f) (rotate_chars f o (r_dir r) l))))).
  { unfold position_default, clear_positions. apply Forall_plain_map; [intros; apply plain_position_default_one; assumption|].
    apply Forall_plain_map; [intros; apply plain_set_pos; assumption|]. assumption. }
  rewrite (zero_mark_widths_plain _ _ H3), (zero_ignorables_plain _ _ H3), (fallback_marks_plain _ _ _ H3).
  assert (E : position_default f d (clear_positions (map (map_gid f) (rotate_chars f o (r_dir r) l)))
              = map (plain_step f o (r_dir r) d) l).
  { unfold position_default, clear_positions, rotate_chars. rewrite !map_map. reflexivity. }
  rewrite E in *.
  destruct (is_backward d).
  - apply deal_with_vs_plain. apply Forall_rev. assumption.
  - apply deal_with_vs_plain. assumption.
Qed.

Lemma shape_glyphs_plain : forall f o r text, Forall plain (init_glyphs o text) ->
  shape_glyphs f o r text
  = (if is_backward (r_dir r) then rev (map (plain_step f o (r_dir r) (r_dir r)) (init_glyphs o text))
     else map (plain_step f o (r_dir r) (r_dir r)) (init_glyphs o text)).
Proof.
  intros f o r text Hl. unfold shape_glyphs.
  rewrite (form_clusters_plain _ _ Hl).
  destruct (ensure_plain (r_hor r) (r_level r) (r_dir r) _ Hl) as [E|E]; rewrite E.
  - apply tail_plain. assumption.
  - rewrite tail_plain by (apply Forall_rev; assumption).
    rewrite is_backward_reverse.
    replace (map (plain_step f o (r_dir r) (dir_reverse (r_dir r))) (rev (init_glyphs o text)))
      with (rev (map (plain_step f o (r_dir r) (r_dir r)) (init_glyphs o text))).
    + destruct (is_backward (r_dir r)); cbn [negb]; [reflexivity|apply rev_involutive].
    + rewrite map_rev. f_equal. apply map_ext. intro g. symmetry. apply plain_step_reverse.
Qed.

(* ================================================================== C16_simple *)
Definition plain_text (o : oracle) (text : list (N * N)) : Prop :=
  forall c cl, In (c, cl) text -> gc_is_mark (o_gc o c) = false /\ ((128 <=? c) && o_ign o c) = false.

Definition no_alternates (f : font) (o : oracle) (d : dir) (text : list (N * N)) : Prop :=
  forall c cl, In (c, cl) text -> rot_cp f o d c = c.

Lemma init_plain : forall o text, plain_text o text -> Forall plain (init_glyphs o text).
Proof.
  intros o text H. unfold init_glyphs. apply Forall_map. apply Forall_forall. intros [c cl] Hin.
  destruct (H c cl Hin) as [Hm Hi]. unfold plain, g_umark. cbn. auto.
Qed.

(* expected result for one character, horizontal and vertical *)
Definition expect_h (f : font) (cc : N * N) : outg :=
  let g := nominal f (fst cc) in (g, snd cc, Z.of_N (hadv_of f g), 0%Z, 0%Z, 0%Z).
Definition expect_v (f : font) (cc : N * N) : outg :=
  let g := nominal f (fst cc) in
  (g, snd cc, 0%Z, v_advance f g, (- (Z.of_N (hadv_of f g) / 2))%Z, (- f_ascender f)%Z).

Lemma out_step_h : forall f o t d cc, is_horizontal d = true -> rot_cp f o t (fst cc) = fst cc ->
  out_of (plain_step f o t d (init_glyph o cc)) = expect_h f cc.
Proof.
  intros f o t d [c cl] Hd Hr. cbn [fst] in Hr. unfold plain_step, position_default_one. rewrite Hd.
  unfold init_glyph. cbn. rewrite Hr. reflexivity.
Qed.

Lemma out_step_v : forall f o t d cc, is_horizontal d = false -> rot_cp f o t (fst cc) = fst cc ->
  out_of (plain_step f o t d (init_glyph o cc)) = expect_v f cc.
Proof.
  intros f o t d [c cl] Hd Hr. cbn [fst] in Hr. unfold plain_step, position_default_one. rewrite Hd.
  unfold init_glyph. cbn. rewrite Hr. unfold expect_v, h_origin, v_origin, h_advance. cbn [fst snd].
  first [reflexivity | rewrite ?Z.sub_0_l; reflexivity].
Qed.

Lemma map_out_steps : forall f o t d (e : N * N -> outg) text,
  (forall cc, In cc text -> out_of (plain_step f o t d (init_glyph o cc)) = e cc) ->
  map out_of (map (plain_step f o t d) (init_glyphs o text)) = map e text.
Proof.
  intros f o t d e text H. unfold init_glyphs. rewrite !map_map. apply map_ext_in. exact H.
Qed.

Lemma simple_general : forall f o r text (e : N * N -> outg),
  plain_text o text ->
  (forall cc, In cc text -> out_of (plain_step f o (r_dir r) (r_dir r) (init_glyph o cc)) = e cc) ->
  shape_simple f o r text = if is_backward (r_dir r) then rev (map e text) else map e text.
Proof.
  intros f o r text e Hp He. unfold shape_simple. rewrite (shape_glyphs_plain f o r text (init_plain o text Hp)).
  destruct (is_backward (r_dir r)); [rewrite map_rev|]; rewrite (map_out_steps f o _ _ e text He); reflexivity.
Qed.

Theorem simple_h : forall f o r text, plain_text o text -> no_alternates f o (r_dir r) text ->
  (r_dir r = LTR -> shape_simple f o r text = map (expect_h f) text) /\
  (r_dir r = RTL -> shape_simple f o r text = rev (map (expect_h f) text)).
Proof.
  intros f o r text Hp Hn. split; intro Hd;
    rewrite (simple_general f o r text (expect_h f) Hp); rewrite ?Hd; try reflexivity;
    intros [c cl] Hin; apply out_step_h; try reflexivity; cbn [fst]; rewrite <- Hd; eapply Hn; eassumption.
Qed.

Theorem simple_v : forall f o r text, plain_text o text -> no_alternates f o (r_dir r) text ->
  (r_dir r = TTB -> shape_simple f o r text = map (expect_v f) text) /\
  (r_dir r = BTT -> shape_simple f o r text = rev (map (expect_v f) text)).
Proof.
  intros f o r text Hp Hn. split; intro Hd;
    rewrite (simple_general f o r text (expect_v f) Hp); rewrite ?Hd; try reflexivity;
    intros [c cl] Hin; apply out_step_v; try reflexivity; cbn [fst]; rewrite <- Hd; eapply Hn; eassumption.
Qed.

(* with alternates: the same statements with the rotated code point (mirrored for backward targets,
   then vertical form for vertical targets, each only when the font maps the alternate) *)
Definition expect_h_rot (f : font) (o : oracle) (t : dir) (cc : N * N) : outg := expect_h f (rot_cp f o t (fst cc), snd cc).
Definition expect_v_rot (f : font) (o : oracle) (t : dir) (cc : N * N) : outg := expect_v f (rot_cp f o t (fst cc), snd cc).

Theorem simple_rot : forall f o r text, plain_text o text ->
  shape_simple f o r text =
  let e := if is_horizontal (r_dir r) then expect_h_rot f o (r_dir r) else expect_v_rot f o (r_dir r) in
  if is_backward (r_dir r) then rev (map e text) else map e text.
Proof.
  intros f o r text Hp. cbv zeta. apply simple_general; [assumption|].
  intros [c cl] _. unfold plain_step, position_default_one, init_glyph.
  destruct (is_horizontal (r_dir r)) eqn:Hd; cbn.
  - reflexivity.
  - unfold expect_v_rot, expect_v, h_origin, v_origin, h_advance. cbn [fst snd]. first [reflexivity | rewrite ?Z.sub_0_l; reflexivity].
Qed.

(* the vertical advance, spelled out *)
Lemma v_advance_vmtx : forall f vm g, f_vmetrics f = Some vm -> v_advance f g = (- Z.of_N (nth (N.to_nat g) (vm_vadv vm) 0%N))%Z.
Proof. intros f vm g H. unfold v_advance. rewrite H. reflexivity. Qed.

Lemma v_advance_fallback : forall f g, f_vmetrics f = None -> v_advance f g = (- (f_ascender f - f_descender f))%Z.
Proof. intros f g H. unfold v_advance. rewrite H. reflexivity. Qed.

(* regression for the defect fixed in /repo 836488e: ascender 30000, descender -10000 (difference beyond
   i16) gives y_advance -40000 *)
Definition tall_font : font :=
  mkFont 2 1000 30000%Z (-10000)%Z 0%Z [500; 600] None [(65, 1)] [] None None None None None.
Lemma v_advance_tall : v_advance tall_font 1 = (-40000)%Z.
Proof. reflexivity. Qed.

(* ================================================================== C16_axis *)
Definition axis_ok (d : dir) (g : glyph) : Prop :=
  (is_horizontal d = true -> g_ya g = 0%Z) /\ (is_vertical d = true -> g_xa g = 0%Z).

Lemma axis_position_default : forall f d l, Forall (axis_ok d) (position_default f d (clear_positions l)).
Proof.
  intros f d l. unfold position_default, clear_positions. rewrite map_map. apply Forall_map, Forall_forall. intros g _.
  unfold axis_ok, position_default_one, is_vertical. destruct (is_horizontal d); cbn; split; intro; congruence.
Qed.

Lemma axis_zero_mark : forall d adj g, axis_ok d g -> axis_ok d (zero_mark adj g).
Proof. intros d adj g _. unfold axis_ok, zero_mark. destruct adj; cbn; auto. Qed.

Lemma axis_zero_mark_widths : forall d adj l, Forall (axis_ok d) l -> Forall (axis_ok d) (zero_mark_widths adj l).
Proof.
  intros d adj l H. unfold zero_mark_widths. apply Forall_map. eapply Forall_impl; [|exact H].
  intros g Hg. destruct (g_classmark g); [apply axis_zero_mark|]; assumption.
Qed.

Lemma axis_zero_ignorables : forall d en l, Forall (axis_ok d) l -> Forall (axis_ok d) (zero_ignorables en l).
Proof.
  intros d en l H. unfold zero_ignorables. destruct en; [|assumption]. apply Forall_map. eapply Forall_impl; [|exact H].
  intros g Hg. destruct (g_ign g); [|assumption]. unfold axis_ok. cbn. auto.
Qed.

Lemma axis_fallback_marks : forall d adj l seen, Forall (axis_ok d) l -> Forall (axis_ok d) (fallback_marks adj seen l).
Proof.
  intros d adj l. induction l as [|g t IH]; intros seen H; [constructor|].
  inversion H as [|? ? Hg Ht]; subst. cbn [fallback_marks].
  destruct (g_umark g).
  - constructor; [|apply IH; assumption]. destruct (seen && gc_is_nsm (g_gc g)); [apply axis_zero_mark|]; assumption.
  - constructor; [assumption|apply IH; assumption].
Qed.

Lemma axis_deal_with_vs : forall d nf l, Forall (axis_ok d) l -> Forall (axis_ok d) (deal_with_vs nf l).
Proof.
  intros d nf l H. unfold deal_with_vs. destruct nf; [|assumption]. apply Forall_map. eapply Forall_impl; [|exact H].
  intros g Hg. destruct (g_vs g); [|assumption]. unfold axis_ok. cbn. auto.
Qed.

Lemma axis_position : forall f d zi l, Forall (axis_ok d) (position f d zi l).
Proof.
  intros f d zi l. unfold position.
  assert (H : Forall (axis_ok d)
    (fallback_marks (is_forward d) false (zero_ignorables zi (zero_mark_widths (is_forward d) (position_default f d (clear_positions l)))))).
  { apply axis_fallback_marks, axis_zero_ignorables, axis_zero_mark_widths, axis_position_default. }
  destruct (is_backward d); [apply Forall_rev|]; assumption.
Qed.

Lemma axis_ok_reverse : forall d g, axis_ok (dir_reverse d) g <-> axis_ok d g.
Proof. intros d g. unfold axis_ok, is_vertical. rewrite is_horizontal_reverse. tauto. Qed.

Lemma ensure_dir : forall hor level d l, snd (ensure_native_direction hor level d l) = d \/
                                          snd (ensure_native_direction hor level d l) = dir_reverse d.
Proof. intros. unfold ensure_native_direction. destruct (needs_flip _ _); [right|left]; reflexivity. Qed.

Theorem axis_pipeline_glyphs : forall f o r text, Forall (axis_ok (r_dir r)) (shape_glyphs f o r text).
Proof.
  intros f o r text. unfold shape_glyphs.
  destruct (ensure_native_direction (r_hor r) (r_level r) (r_dir r) (form_clusters (r_level r) (init_glyphs o text))) as [l2 d] eqn:E.
  assert (Hd : d = r_dir r \/ d = dir_reverse (r_dir r)).
  { pose proof (ensure_dir (r_hor r) (r_level r) (r_dir r) (form_clusters (r_level r) (init_glyphs o text))) as H. rewrite E in H. exact H. }
  apply axis_deal_with_vs.
  destruct Hd as [-> | ->].
  - apply axis_position.
  - eapply Forall_impl; [|apply axis_position]. intros g. apply axis_ok_reverse.
Qed.

Definition out_axis_ok (d : dir) (x : outg) : Prop :=
  (is_horizontal d = true -> og_ya x = 0%Z) /\ (is_vertical d = true -> og_xa x = 0%Z).

Theorem axis_pipeline : forall f o r text, Forall (out_axis_ok (r_dir r)) (shape_simple f o r text).
Proof.
  intros f o r text. unfold shape_simple. apply Forall_map. eapply Forall_impl; [|apply axis_pipeline_glyphs].
  intros g H. exact H.
Qed.

(* --- the GPOS / kern position writers *)
Definition axis4 (horizontal : bool) (p : pos4) : Prop :=
  let '(xa, ya, _, _) := p in (horizontal = true -> ya = 0%Z) /\ (horizontal = false -> xa = 0%Z).

Lemma axis_apply_value : forall h v p, axis4 h p -> axis4 h (apply_value h v p).
Proof.
  intros h v [[[xa ya] xo] yo] [H1 H2]. unfold apply_value, axis4.
  destruct h; cbn [andb negb]; rewrite ?andb_false_r, ?andb_true_r; split; intro; try discriminate; auto.
Qed.

Lemma axis_cursive_main : forall d ex en pi pj, axis4 (is_horizontal d) pi -> axis4 (is_horizontal d) pj ->
  axis4 (is_horizontal d) (fst (cursive_main d ex en pi pj)) /\ axis4 (is_horizontal d) (snd (cursive_main d ex en pi pj)).
Proof.
  intros d [ex ey] [nx ny] [[[xai yai] xoi] yoi] [[[xaj yaj] xoj] yoj] [H1 H2] [H3 H4].
  destruct d; cbn in *; repeat split; intros; try discriminate; auto.
Qed.

Lemma axis_kern_pair : forall h cs k pi pj, axis4 h pi -> axis4 h pj ->
  axis4 h (fst (kern_pair h cs k pi pj)) /\ axis4 h (snd (kern_pair h cs k pi pj)).
Proof.
  intros h cs k [[[xai yai] xoi] yoi] [[[xaj yaj] xoj] yoj] [H1 H2] [H3 H4]. unfold kern_pair.
  destruct (k =? 0)%Z; [cbn; auto|].
  destruct h, cs; cbn; repeat split; intros; try discriminate; auto.
Qed.

(* ================================================================== C16_gid16 *)
Definition font_gids16 (f : font) : Prop :=
  (forall c g, In (c, g) (f_cmap f) -> g < 2 ^ 16) /\ (forall b s g, In (b, s, g) (f_cmap14 f) -> g < 2 ^ 16).

Lemma assoc_In : forall l c g, assoc c l = Some g -> exists k, In (k, g) l.
Proof.
  induction l as [|[k v] t IH]; intros c g H; [discriminate|]. cbn in H.
  destruct (k =? c); [inversion H; subst; exists k; left; reflexivity|].
  destruct (IH _ _ H) as [k' Hk]. exists k'. right. exact Hk.
Qed.

Lemma nominal_16 : forall f c, font_gids16 f -> nominal f c < 2 ^ 16.
Proof.
  intros f c [H _]. unfold nominal, cmap_lookup. destruct (assoc c (f_cmap f)) eqn:E; [|reflexivity].
  destruct (assoc_In _ _ _ E) as [k Hk]. eapply H. exact Hk.
Qed.

Lemma cmap14_In : forall l b s g, cmap14_lookup l b s = Some g -> exists b' s', In (b', s', g) l.
Proof.
  induction l as [|[[b0 s0] g0] t IH]; intros b s g H; [discriminate|]. cbn in H.
  destruct ((b0 =? b) && (s0 =? s)); [inversion H; subst; exists b0, s0; left; reflexivity|].
  destruct (IH _ _ _ H) as (b' & s' & Hk). exists b', s'. right. exact Hk.
Qed.

Definition gid16 (g : glyph) : Prop := g_gid g < 2 ^ 16.

Lemma normalize_gid16 : forall f level nf, font_gids16 f -> forall l, Forall gid16 (normalize f level nf l).
Proof.
  intros f level nf Hf.
  assert (Hn : forall g c, gid16 (set_gid g (nominal f c))) by (intros; unfold gid16; cbn; apply nominal_16; assumption).
  (* strong induction through the two-step recursion *)
  assert (H : forall n l, (length l <= n)%nat -> Forall gid16 (normalize f level nf l)).
  { induction n as [|n IH]; intros l Hl.
    - destruct l; [constructor|cbn in Hl; lia].
    - destruct l as [|b t]; [constructor|]. destruct t as [|v t'].
      + cbn. constructor; [apply Hn|constructor].
      + rewrite normalize_cons2. cbn [length] in Hl.
        destruct (g_umark v && is_vs_cp (g_cp v)).
        * destruct (cmap14_lookup (f_cmap14 f) (g_cp b) (g_cp v)) eqn:E.
          -- constructor; [|apply IH; cbn; lia]. unfold gid16. cbn.
             destruct (cmap14_In _ _ _ _ E) as (b' & s' & Hk). destruct Hf as [_ H14]. eapply H14. exact Hk.
          -- constructor; [apply Hn|]. constructor; [unfold gid16; cbn; apply nominal_16; assumption|]. apply IH. cbn. lia.
        * constructor; [apply Hn|]. apply IH. cbn [length]. lia. }
  intro l. apply (H (length l)). lia.
Qed.

Lemma position_gid16 : forall f d zi l, Forall gid16 l -> Forall gid16 (position f d zi l).
Proof.
  intros f d zi l H. unfold position.
  assert (H1 : Forall gid16 (position_default f d (clear_positions l))).
  { unfold position_default, clear_positions. rewrite map_map. apply Forall_map. eapply Forall_impl; [|exact H].
    intros g Hg. unfold position_default_one. destruct (is_horizontal d); exact Hg. }
  assert (H2 : Forall gid16 (zero_mark_widths (is_forward d) (position_default f d (clear_positions l)))).
  { unfold zero_mark_widths. apply Forall_map. eapply Forall_impl; [|exact H1].
    intros g Hg. destruct (g_classmark g); [|exact Hg]. unfold zero_mark. destruct (is_forward d); exact Hg. }
  assert (H3 : Forall gid16 (zero_ignorables zi (zero_mark_widths (is_forward d) (position_default f d (clear_positions l))))).
  { unfold zero_ignorables. destruct zi; [|exact H2]. apply Forall_map. eapply Forall_impl; [|exact H2].
    intros g Hg. destruct (g_ign g); exact Hg. }
  assert (H4 : forall seen l', Forall gid16 l' -> Forall gid16 (fallback_marks (is_forward d) seen l')).
  { intros seen l'. revert seen. induction l' as [|g t IH]; intros seen Hl; [constructor|].
    inversion Hl; subst. cbn [fallback_marks]. destruct (g_umark g).
    - constructor; [|apply IH; assumption]. destruct (seen && gc_is_nsm (g_gc g)); [|assumption].
      unfold zero_mark. destruct (is_forward d); assumption.
    - constructor; [assumption|apply IH; assumption]. }
  destruct (is_backward d); [apply Forall_rev|]; apply H4; exact H3.
Qed.

Definition gid16_or_nf (nf : option N) (x : outg) : Prop := og_gid x < 2 ^ 16 \/ nf = Some (og_gid x).

Theorem gid16_writers : forall f o r text, font_gids16 f -> Forall (gid16_or_nf (r_nf r)) (shape_simple f o r text).
Proof.
  intros f o r text Hf. unfold shape_simple, shape_glyphs.
  destruct (ensure_native_direction (r_hor r) (r_level r) (r_dir r) (form_clusters (r_level r) (init_glyphs o text))) as [l2 d].
  apply Forall_map.
  assert (H : Forall gid16 (position f d (r_zero_ign r) (normalize f (r_level r) (r_nf r) (rotate_chars f o (r_dir r) l2)))).
  { apply position_gid16, normalize_gid16. assumption. }
  unfold deal_with_vs. destruct (r_nf r) as [n|].
  - apply Forall_map. eapply Forall_impl; [|exact H]. intros g Hg. unfold gid16_or_nf.
    destruct (g_vs g); [right; reflexivity|left; exact Hg].
  - eapply Forall_impl; [|exact H]. intros g Hg. left. exact Hg.
Qed.

Theorem gid16_outside_known : forall f o r text, font_gids16 f -> (forall g, r_nf r = Some g -> g < 2 ^ 16) ->
  Forall (fun x => og_gid x < 2 ^ 16) (shape_simple f o r text).
Proof.
  intros f o r text Hf Hnf. eapply Forall_impl; [|apply gid16_writers; exact Hf].
  intros x [H|H]; [exact H|]. apply Hnf. exact H.
Qed.

(* the refutation: FontSpec::basic(4) of the harness, text <U+E000, U+FE00>, not-found glyph 0x12345 *)
Definition wit_font : font :=
  mkFont 4 1000 800%Z (-200)%Z 0%Z [500; 510; 520; 530] None [(57344, 1); (57345, 2); (57346, 3)] [] None None None None None.
Definition wit_oracle : oracle :=
  mkOracle (fun c => if is_vs_cp c then 12 else 3) (fun c => is_vs_cp c) (fun _ => None) (fun _ => None).
Definition wit_req : request := mkReq LTR HInvalid 0 (Some 74565) true.
Definition wit_text : list (N * N) := [(57344, 0); (65024, 1)].

Lemma wit_font_gids16 : font_gids16 wit_font.
Proof.
  split.
  - intros c g H. cbn in H. repeat (destruct H as [H|H]; [inversion H; subst; reflexivity|]). contradiction.
  - intros b s g H. cbn in H. contradiction.
Qed.

Theorem gid16_refuted :
  font_gids16 wit_font /\ in_domain wit_font wit_oracle wit_req wit_text = true /\
  shape_simple wit_font wit_oracle wit_req wit_text = [(1, 0, 510%Z, 0%Z, 0%Z, 0%Z); (74565, 0, 0%Z, 0%Z, 0%Z, 0%Z)] /\
  Exists (fun x => 2 ^ 16 <= og_gid x) (shape_simple wit_font wit_oracle wit_req wit_text).
Proof.
  split; [exact wit_font_gids16|]. split; [vm_compute; reflexivity|].
  assert (E : shape_simple wit_font wit_oracle wit_req wit_text = [(1, 0, 510%Z, 0%Z, 0%Z, 0%Z); (74565, 0, 0%Z, 0%Z, 0%Z, 0%Z)])
    by (vm_compute; reflexivity).
  split; [exact E|]. rewrite E. apply Exists_cons_tl, Exists_cons_hd. cbn. intro C. discriminate C.
Qed.
