(* Proofs/TagP.v — lemmas about Model/Tag.v (C18) *)
From Coq Require Import List NArith Bool Arith Lia.
From RB Require Import Base.Bytes Base.ListX Gen.LangTable Model.Tag.
Import ListNotations.
Local Open Scope N_scope.
