(* Proofs/TagP.v — lemmas about Model/Tag.v (C18) *)
From Coq Require Import List NArith Bool Arith Lia ZifyBool ZifyN ZifyNat.
From RB Require Import Base.Bytes Base.ListX Gen.LangTable Model.Tag.
Import ListNotations.
Local Open Scope N_scope.

(* the code-shape constants stay abstract in the generic lemmas, so that the proofs do not depend on
   their current values; the theorems of Props/C18.v supply `eq_refl` for the values they need *)
Local Opaque strncmp_bytes lang_cmp_bytes language_lowercases registry_len_adjust.

Arguments N.add : simpl never.
Arguments N.sub : simpl never.
Arguments N.mul : simpl never.
Arguments N.eqb : simpl never.
Arguments N.ltb : simpl never.
Arguments N.leb : simpl never.

(* ================================================================== char boundaries *)

Lemma is_cont_ascii b : b < 128 -> is_cont b = false.
Proof. unfold is_cont. intros. lia. Qed.

Lemma boundary_len s : boundary s (length s) = true.
Proof.
  unfold boundary. destruct (length s) eqn:E; [reflexivity|].
  rewrite <- E. assert (H : nth_error s (length s) = None) by (apply nth_error_None; lia).
  rewrite H. apply Nat.eqb_refl.
Qed.

Lemma boundary_ascii s i b : nth_error s i = Some b -> b < 128 -> boundary s i = true.
Proof.
  intros H Hb. unfold boundary. destruct i; [reflexivity|]. rewrite H, is_cont_ascii by exact Hb. reflexivity.
Qed.

(* the consequence of UTF-8 well-formedness that the code relies on: the byte after an ASCII byte
   starts a character (or is the end of the string) *)
Definition afol (s : bytes) : Prop :=
  forall i b, nth_error s i = Some b -> b < 128 -> boundary s (S i) = true.

Lemma boundary_S_cons a s i : boundary (a :: s) (S (S i)) = boundary s (S i).
Proof. reflexivity. Qed.

Lemma afol_cons_ascii a s : afol s -> boundary (a :: s) 1 = true -> afol (a :: s).
Proof.
  intros H H1 i b Hn Hb. destruct i as [|i]; [exact H1|].
  rewrite boundary_S_cons. cbn [nth_error] in Hn. exact (H i b Hn Hb).
Qed.

Lemma afol_cons_high a s : afol s -> 128 <= a -> afol (a :: s).
Proof.
  intros H Ha i b Hn Hb. destruct i as [|i].
  - cbn [nth_error] in Hn. injection Hn as ->. lia.
  - rewrite boundary_S_cons. cbn [nth_error] in Hn. exact (H i b Hn Hb).
Qed.

Lemma afol_nil : afol [].
Proof. intros i b H. destruct i; discriminate. Qed.

(* a well-formed string never starts with a continuation byte *)
Lemma utf8_valid_head b s : utf8_valid (b :: s) = true -> is_cont b = false.
Proof.
  cbn [utf8_valid]. unfold is_cont, in_range.
  destruct (b <? 128) eqn:E1; [lia|].
  destruct ((194 <=? b) && (b <=? 223)) eqn:E2; [lia|].
  destruct ((224 <=? b) && (b <=? 239)) eqn:E3; [lia|].
  destruct ((240 <=? b) && (b <=? 244)) eqn:E4; [lia|]. discriminate.
Qed.

Lemma boundary_1_valid a s : utf8_valid s = true -> boundary (a :: s) 1 = true.
Proof.
  intros H. unfold boundary. cbn [nth_error]. destruct s as [|b s]; [reflexivity|].
  cbn [nth_error]. rewrite (utf8_valid_head b s H). reflexivity.
Qed.

Lemma utf8_valid_afol_len : forall n s, (length s <= n)%nat -> utf8_valid s = true -> afol s.
Proof.
  induction n as [|n IH]; intros s Hl Hv.
  - destruct s; [apply afol_nil|cbn in Hl; lia].
  - destruct s as [|b0 t]; [apply afol_nil|].
    cbn [utf8_valid] in Hv. cbn [length] in Hl. unfold in_range in Hv.
    destruct (b0 <? 128) eqn:E1.
    { apply afol_cons_ascii; [apply IH; [lia|exact Hv]|apply boundary_1_valid; exact Hv]. }
    destruct ((194 <=? b0) && (b0 <=? 223)) eqn:E2.
    { destruct t as [|b1 t1]; [discriminate|]. apply andb_true_iff in Hv. destruct Hv as [H1 Hv].
      cbn [length] in Hl.
      apply afol_cons_high; [|lia]. apply afol_cons_high; [|lia]. apply IH; [lia|exact Hv]. }
    destruct ((224 <=? b0) && (b0 <=? 239)) eqn:E3.
    { destruct t as [|b1 [|b2 t2]]; try discriminate.
      apply andb_true_iff in Hv. destruct Hv as [Hv Hv2]. apply andb_true_iff in Hv. destruct Hv as [H1 H2].
      cbn [length] in Hl.
      apply afol_cons_high; [|lia]. apply afol_cons_high.
      2:{ destruct (b0 =? 224); [lia|]. destruct (b0 =? 237); lia. }
      apply afol_cons_high; [|lia]. apply IH; [lia|exact Hv2]. }
    destruct ((240 <=? b0) && (b0 <=? 244)) eqn:E4; [|discriminate].
    destruct t as [|b1 [|b2 [|b3 t3]]]; try discriminate.
    apply andb_true_iff in Hv. destruct Hv as [Hv Hv3]. apply andb_true_iff in Hv. destruct Hv as [Hv H3].
    apply andb_true_iff in Hv. destruct Hv as [H1 H2]. cbn [length] in Hl.
    apply afol_cons_high; [|lia]. apply afol_cons_high.
    2:{ destruct (b0 =? 240); [lia|]. destruct (b0 =? 244); lia. }
    apply afol_cons_high; [|lia]. apply afol_cons_high; [|lia]. apply IH; [lia|exact Hv3].
Qed.

Lemma utf8_valid_afol s : utf8_valid s = true -> afol s.
Proof. apply (utf8_valid_afol_len (length s)). lia. Qed.

(* ---- afol is closed under the slicing and case operations of the code ---- *)

Lemma nth_error_firstn_some : forall k (s : bytes) i b,
  nth_error (firstn k s) i = Some b -> (i < k)%nat /\ nth_error s i = Some b.
Proof.
  induction k as [|k IH]; intros s i b H.
  - destruct i; discriminate.
  - destruct s as [|a s]; [destruct i; discriminate|]. destruct i as [|i].
    + split; [lia|exact H].
    + cbn [firstn nth_error] in H. destruct (IH s i b H). split; [lia|assumption].
Qed.

Lemma nth_error_firstn_lt : forall k (s : bytes) i, (i < k)%nat -> nth_error (firstn k s) i = nth_error s i.
Proof.
  induction k as [|k IH]; intros s i H; [lia|].
  destruct s as [|a s]; [destruct i; reflexivity|]. destruct i as [|i]; [reflexivity|].
  cbn [firstn nth_error]. apply IH. lia.
Qed.

Lemma nth_error_skipn_add : forall k (s : bytes) i, nth_error (skipn k s) i = nth_error s (k + i).
Proof.
  induction k as [|k IH]; intros s i; [reflexivity|].
  destruct s as [|a s]; [destruct i; reflexivity|]. cbn [skipn Nat.add nth_error]. apply IH.
Qed.

Lemma afol_firstn k s : afol s -> afol (firstn k s).
Proof.
  intros H i b Hn Hb. destruct (nth_error_firstn_some k s i b Hn) as [Hik Hs].
  specialize (H i b Hs Hb). unfold boundary in *.
  destruct (nth_error (firstn k s) (S i)) as [c|] eqn:E.
  - destruct (nth_error_firstn_some k s (S i) c E) as [_ E2]. rewrite E2 in H. exact H.
  - apply nth_error_None in E. apply Nat.eqb_eq.
    assert (i < length (firstn k s))%nat by (apply nth_error_Some; rewrite Hn; discriminate). lia.
Qed.

Lemma afol_skipn k s : afol s -> afol (skipn k s).
Proof.
  intros H i b Hn Hb. rewrite nth_error_skipn_add in Hn. specialize (H (k + i)%nat b Hn Hb).
  unfold boundary in *. rewrite nth_error_skipn_add. replace (k + S i)%nat with (S (k + i)) by lia.
  destruct (nth_error s (S (k + i))) as [c|] eqn:E; [exact H|].
  apply Nat.eqb_eq in H. apply Nat.eqb_eq. rewrite skipn_length. lia.
Qed.

Lemma lower_b_cont c : is_cont (lower_b c) = is_cont c.
Proof. unfold lower_b, is_upper, in_range, is_cont. destruct ((65 <=? c) && (c <=? 90)) eqn:E; lia. Qed.

Lemma lower_b_ascii c : lower_b c < 128 -> c < 128.
Proof. unfold lower_b, is_upper, in_range. destruct ((65 <=? c) && (c <=? 90)) eqn:E; lia. Qed.

Lemma afol_lower s : afol s -> afol (lower s).
Proof.
  intros H i b Hn Hb. unfold lower in *. rewrite nth_error_map in Hn.
  destruct (nth_error s i) as [c|] eqn:E; [|discriminate]. cbn in Hn. injection Hn as <-.
  specialize (H i c E (lower_b_ascii c Hb)). unfold boundary in *. rewrite nth_error_map, map_length.
  destruct (nth_error s (S i)) as [d|]; cbn [option_map]; [rewrite lower_b_cont|]; exact H.
Qed.

Lemma str_to_afol s i r : afol s -> str_to s i = Some r -> afol r.
Proof. unfold str_to. intros H. destruct (boundary s i); [|discriminate]. intros [= <-]. apply afol_firstn, H. Qed.

Lemma str_from_afol s i r : afol s -> str_from s i = Some r -> afol r.
Proof. unfold str_from. intros H. destruct (boundary s i); [|discriminate]. intros [= <-]. apply afol_skipn, H. Qed.

Lemma str_to_ok s i : boundary s i = true -> str_to s i = Some (firstn i s).
Proof. unfold str_to. intros ->. reflexivity. Qed.
Lemma str_from_ok s i : boundary s i = true -> str_from s i = Some (skipn i s).
Proof. unfold str_from. intros ->. reflexivity. Qed.

(* ---- searching ---- *)

Lemma find_byte_nth c : forall s i, find_byte c s = Some i -> nth_error s i = Some c.
Proof.
  induction s as [|x t IH]; intros i H; [discriminate|]. cbn [find_byte] in H.
  destruct (x =? c) eqn:E.
  - injection H as <-. apply N.eqb_eq in E. subst. reflexivity.
  - destruct (find_byte c t) as [j|]; [|discriminate]. cbn in H. injection H as <-. cbn [nth_error]. apply IH. reflexivity.
Qed.

Lemma find_byte_lt c s i : find_byte c s = Some i -> (i < length s)%nat.
Proof. intros H. apply nth_error_Some. rewrite (find_byte_nth c s i H). discriminate. Qed.

Lemma is_prefix_nth : forall p s k b, is_prefix p s = true -> nth_error p k = Some b -> nth_error s k = Some b.
Proof.
  induction p as [|x p IH]; intros s k b Hp Hk; [destruct k; discriminate|].
  destruct s as [|y s]; [discriminate|]. cbn [is_prefix] in Hp. apply andb_true_iff in Hp. destruct Hp as [E Hp].
  apply N.eqb_eq in E. subst y. destruct k as [|k]; [exact Hk|]. cbn [nth_error] in *. eapply IH; eassumption.
Qed.

Lemma find_sub_prefix p : forall s i, find_sub p s = Some i -> is_prefix p (skipn i s) = true.
Proof.
  induction s as [|x t IH]; intros i H.
  - cbn [find_sub] in H. destruct (is_prefix p []) eqn:E; [|discriminate]. injection H as <-. exact E.
  - cbn [find_sub] in H. destruct (is_prefix p (x :: t)) eqn:E.
    + injection H as <-. exact E.
    + destruct (find_sub p t) as [j|] eqn:F; [|discriminate]. cbn in H. injection H as <-. cbn [skipn]. apply IH. reflexivity.
Qed.

(* after an occurrence of a non-empty ASCII pattern the string can be cut *)
Lemma boundary_after_sub p s i :
  afol s -> p <> [] -> forallb (fun b => b <? 128) p = true ->
  find_sub p s = Some i -> boundary s (i + length p) = true.
Proof.
  intros Ha Hne Hp Hf. pose proof (find_sub_prefix p s i Hf) as Hpre.
  destruct (nth_error p (length p - 1)) as [b|] eqn:E.
  2:{ apply nth_error_None in E. destruct p; [contradiction|cbn [length] in E; lia]. }
  assert (Hb : b < 128).
  { rewrite forallb_forall in Hp. specialize (Hp b (nth_error_In _ _ E)). lia. }
  pose proof (is_prefix_nth p _ _ b Hpre E) as Hs. rewrite nth_error_skipn_add in Hs.
  replace (i + length p)%nat with (S (i + (length p - 1))).
  - exact (Ha _ b Hs Hb).
  - destruct p; [contradiction|cbn [length]; lia].
Qed.

(* ================================================================== totality (no panic) *)

Lemma byte_is_nth s k c : byte_is s k c = true -> nth_error s k = Some c.
Proof.
  unfold byte_is. destruct (nth_error s k) as [b|]; [|discriminate]. intros H. apply N.eqb_eq in H. subst. reflexivity.
Qed.

Lemma pu_scan_ok lang : forall fuel i prefix,
  (i <= length lang)%nat -> (length lang - i <= fuel)%nat ->
  exists pv p i', pu_scan lang fuel i prefix = Some (pv, p, i') /\ boundary lang i' = true
    /\ (p = prefix \/ exists k, p = firstn k lang) /\ (forall v, pv = Some v -> exists k, v = skipn k lang).
Proof.
  induction fuel as [|f IH]; intros i prefix Hi Hf.
  - exists None, prefix, i. cbn [pu_scan]. replace i with (length lang) by lia.
    repeat split; [apply boundary_len|left; reflexivity|discriminate].
  - cbn [pu_scan]. destruct (i <? length lang)%nat eqn:Elt; cbn [negb].
    2:{ exists None, prefix, i. replace i with (length lang) by lia.
        repeat split; [apply boundary_len|left; reflexivity|discriminate]. }
    destruct (byte_is lang (i - 1) DASH && byte_is lang (i + 1) DASH) eqn:Ed.
    + apply andb_true_iff in Ed. destruct Ed as [Ed1 _].
      assert (Hb1 : boundary lang (i - 1) = true).
      { eapply boundary_ascii; [apply byte_is_nth; exact Ed1|unfold DASH; lia]. }
      destruct (byte_is lang i 120) eqn:Ex.
      * assert (Hbi : boundary lang i = true).
        { eapply boundary_ascii; [apply byte_is_nth; exact Ex|lia]. }
        rewrite (str_from_ok _ _ Hbi). destruct (is_nil prefix).
        -- rewrite (str_to_ok _ _ Hb1). exists (Some (skipn i lang)), (firstn (i - 1) lang), i.
           repeat split; [exact Hbi|right; eexists; reflexivity|]. intros v [= <-]. eexists; reflexivity.
        -- exists (Some (skipn i lang)), prefix, i.
           repeat split; [exact Hbi|left; reflexivity|]. intros v [= <-]. eexists; reflexivity.
      * rewrite (str_to_ok _ _ Hb1).
        destruct (IH (S i) (firstn (i - 1) lang)) as (pv & p & i' & E & Hb & Hp & Hv); [lia|lia|].
        exists pv, p, i'. repeat split; [exact E|exact Hb| |exact Hv].
        destruct Hp as [->|Hp]; [right; eexists; reflexivity|right; exact Hp].
    + destruct (IH (S i) prefix) as (pv & p & i' & E & Hb & Hp & Hv); [lia|lia|].
      exists pv, p, i'. repeat split; assumption.
Qed.

Lemma split_language_ok lang :
  afol lang -> lang <> [] ->
  exists pv p, split_language lang = Some (pv, p) /\ afol p /\ (forall v, pv = Some v -> afol v).
Proof.
  intros Ha Hne. unfold split_language. destruct (is_prefix [120; DASH] lang).
  - exists (Some lang), []. repeat split; [apply afol_nil|]. intros v [= <-]. exact Ha.
  - destruct (pu_scan_ok lang (length lang) 1 []) as (pv & p & i' & E & Hb & Hp & Hv).
    { destruct lang; [contradiction|cbn [length]; lia]. } { lia. }
    rewrite E.
    assert (Hvv : forall v, pv = Some v -> afol v).
    { intros v Hvs. destruct (Hv v Hvs) as [k ->]. apply afol_skipn, Ha. }
    destruct (is_nil p) eqn:En.
    + rewrite (str_to_ok _ _ Hb). exists pv, (firstn i' lang). repeat split; [apply afol_firstn, Ha|exact Hvv].
    + exists pv, p. repeat split; [|exact Hvv].
      destruct Hp as [->|[k ->]]; [discriminate|apply afol_firstn, Ha].
Qed.

Lemma parse_private_ok pv pat norm :
  (forall v, pv = Some v -> afol v) -> pat <> [] -> forallb (fun b => b <? 128) pat = true ->
  parse_private pv pat norm <> None.
Proof.
  intros Hv Hne Hp. unfold parse_private. destruct pv as [v|]; [|discriminate].
  destruct (find_sub pat v) as [idx|] eqn:E; [|discriminate].
  rewrite (str_from_ok _ _ (boundary_after_sub pat v idx (Hv v eq_refl) Hne Hp E)).
  destruct (is_nil _); discriminate.
Qed.

Lemma eval_rules_total language rest :
  strncmp_bytes = true -> forall rules, eval_rules language rest rules <> None.
Proof.
  intros Hs. induction rules as [|[c tags] t IH]; [discriminate|]. cbn [eval_rules].
  assert (Hc : eval_cond language rest c <> None).
  { destruct c; cbn [eval_cond].
    1-3: intros X; discriminate X.
    unfold strncmp. rewrite Hs. destruct (bytes_eqb _ _); intros X; discriminate X. }
  destruct (eval_cond language rest c) as [[|]|]; [discriminate|exact IH|contradiction].
Qed.

Lemma arm_of_key b : forall arms, arm_of b arms <> [] -> In b (map fst arms).
Proof.
  induction arms as [|[a r] t IH]; intros H; [contradiction|]. cbn [arm_of] in H. cbn [map fst In].
  destruct (a =? b) eqn:E; [left; apply N.eqb_eq; exact E|right; apply IH; exact H].
Qed.

Lemma complex_arms_ascii : forallb (fun a => fst a <? 128) complex_arms = true.
Proof. vm_compute. reflexivity. Qed.

Lemma complex_ok p : strncmp_bytes = true -> afol p -> p <> [] -> complex p <> None.
Proof.
  intros Hs Ha Hne. unfold complex.
  pose proof (eval_rules_total p [] Hs complex_prelude) as H1.
  destruct (eval_rules p [] complex_prelude) as [[t|]|]; [discriminate| |contradiction].
  destruct p as [|b0 r]; [contradiction|].
  destruct (arm_of b0 complex_arms) as [|rule rules] eqn:E; [discriminate|].
  assert (Hb : b0 < 128).
  { assert (Hin : In b0 (map fst complex_arms)) by (apply arm_of_key; rewrite E; discriminate).
    apply in_map_iff in Hin. destruct Hin as [a [Ha1 Ha2]].
    pose proof complex_arms_ascii as Hall. rewrite forallb_forall in Hall. specialize (Hall a Ha2). subst b0. lia. }
  rewrite (str_from_ok _ _ (Ha 0%nat b0 eq_refl Hb)). apply eval_rules_total. exact Hs.
Qed.

Lemma sublang_ok p : afol p -> sublang_of p <> None.
Proof.
  intros Ha. unfold sublang_of. destruct (find_byte DASH p) as [i|] eqn:E; [|discriminate].
  destruct (6 <=? length p)%nat; [|discriminate].
  pose proof (find_byte_nth _ _ _ E) as Hn.
  assert (Hb : boundary p (i + 1) = true).
  { replace (i + 1)%nat with (S i) by lia. apply (Ha i DASH Hn). unfold DASH. lia. }
  rewrite (str_from_ok _ _ Hb).
  destruct (match find_byte DASH (skipn (i + 1) p) with Some idx => Nat.eqb idx 3 | None => Nat.eqb (length p - i - 1) 3 end) eqn:Ex;
    [|discriminate].
  destruct (nth_error p (i + 1)) as [b|] eqn:En; [destruct (is_alpha b); discriminate|].
  exfalso. apply nth_error_None in En.
  destruct (find_byte DASH (skipn (i + 1) p)) as [idx|] eqn:F.
  - apply find_byte_lt in F. rewrite skipn_length in F. lia.
  - apply Nat.eqb_eq in Ex. lia.
Qed.

Lemma tags_from_language_ok srch p :
  strncmp_bytes = true -> (forall sub, srch sub <> None) -> afol p -> p <> [] ->
  tags_from_language srch p <> None.
Proof.
  intros Hs Hsr Ha Hne. unfold tags_from_language, tfl_pre.
  pose proof (complex_ok p Hs Ha Hne) as Hc. destruct (complex p) as [[t|]|]; [discriminate| |contradiction].
  pose proof (sublang_ok p Ha) as Hsub. destruct (sublang_of p) as [sub|]; [|contradiction].
  unfold tfl_post. specialize (Hsr sub). destruct (srch sub) as [[idx|]|]; [discriminate|discriminate|contradiction].
Qed.

Lemma language_of_some raw p : language_of raw = Some p -> p <> [] /\ (afol raw -> afol p).
Proof.
  unfold language_of. destruct raw as [|a r]; [discriminate|]. cbn [is_nil]. intros [= <-].
  destruct language_lowercases; split; try discriminate; [apply afol_lower|trivial].
Qed.

Lemma tags_of_language_ok srch sc lang :
  strncmp_bytes = true -> (forall sub, srch sub <> None) -> afol lang -> lang <> [] ->
  tags_of_language srch sc lang <> None.
Proof.
  intros Hs Hsr Ha Hne. unfold tags_of_language.
  destruct (split_language_ok lang Ha Hne) as (pv & p & E & Hp & Hv). rewrite E.
  pose proof (parse_private_ok pv HBSC lower_b Hv ltac:(discriminate) eq_refl) as H1.
  destruct (parse_private pv HBSC lower_b) as [scr|]; [|contradiction].
  pose proof (parse_private_ok pv HBOT upper_b Hv ltac:(discriminate) eq_refl) as H2.
  destruct (parse_private pv HBOT upper_b) as [[t|]|]; [discriminate| |contradiction].
  destruct (language_of p) as [q|] eqn:Eq; [|discriminate].
  destruct (language_of_some p q Eq) as [Hq1 Hq2].
  pose proof (tags_from_language_ok srch q Hs Hsr (Hq2 Hp) Hq1) as H3.
  destruct (tags_from_language srch q); [discriminate|contradiction].
Qed.

Lemma tags_gen_total srch sc lang :
  strncmp_bytes = true -> (forall sub, srch sub <> None) -> utf8_valid lang = true ->
  tags_gen srch sc (Some lang) <> None.
Proof.
  intros Hs Hsr Hv. unfold tags_gen. destruct (language_of lang) as [l|] eqn:E; [|discriminate].
  destruct (language_of_some lang l E) as [H1 H2].
  apply tags_of_language_ok; auto. apply H2, utf8_valid_afol, Hv.
Qed.

(* the executable search never panics once lang_cmp compares bytes *)
Lemma lang_cmp_total a b : lang_cmp_bytes = true -> lang_cmp a b <> None.
Proof. intros H. unfold lang_cmp. rewrite H. intros X; discriminate X. Qed.

Lemma search_from_total sub : lang_cmp_bytes = true -> forall tbl i, search_from tbl sub i <> None.
Proof.
  intros H. induction tbl as [|[l t] r IH]; intros i; [discriminate|]. cbn [search_from].
  pose proof (lang_cmp_total l sub H) as Hc.
  destruct (lang_cmp l sub) as [[| |]|]; [intros X; discriminate X|apply IH|apply IH|contradiction].
Qed.

Lemma tags_total sc lang :
  lang_cmp_bytes = true -> strncmp_bytes = true -> utf8_valid lang = true -> tags sc (Some lang) <> None.
Proof.
  intros H1 H2 Hv. unfold tags. apply tags_gen_total; auto. intros sub. apply search_from_total. exact H1.
Qed.

(* ================================================================== case-insensitivity *)

Lemma lower_b_idem b : lower_b (lower_b b) = lower_b b.
Proof. unfold lower_b, is_upper, in_range. destruct ((65 <=? b) && (b <=? 90)) eqn:E; [|rewrite E; reflexivity].
  destruct ((65 <=? b + 32) && (b + 32 <=? 90)) eqn:E2; [lia|reflexivity]. Qed.

Lemma lower_idem s : lower (lower s) = lower s.
Proof. unfold lower. rewrite map_map. apply map_ext. apply lower_b_idem. Qed.

Lemma language_of_case a b : language_lowercases = true -> lower a = lower b -> language_of a = language_of b.
Proof.
  intros Hl H. unfold language_of. rewrite Hl.
  assert (Hn : is_nil a = is_nil b).
  { destruct a, b; try reflexivity; discriminate. }
  rewrite Hn, H. reflexivity.
Qed.

Lemma tags_gen_case srch sc a b :
  language_lowercases = true -> lower a = lower b -> tags_gen srch sc (Some a) = tags_gen srch sc (Some b).
Proof. intros Hl H. unfold tags_gen. rewrite (language_of_case a b Hl H). reflexivity. Qed.

(* ================================================================== private-use subtags *)

Lemma split_language_x lang : is_prefix [120; DASH] lang = true -> split_language lang = Some (Some lang, []).
Proof. intros H. unfold split_language. rewrite H. reflexivity. Qed.

(* whatever the rest of the language says, a private-use `-hbot` tag is the only language tag and a
   private-use `-hbsc` tag the only script tag *)
Lemma private_use_override srch sc lang pv prefix scr lg :
  split_language lang = Some (Some pv, prefix) ->
  parse_private (Some pv) HBSC lower_b = Some scr ->
  parse_private (Some pv) HBOT upper_b = Some lg ->
  (forall t, lg = Some t -> exists st, tags_of_language srch sc lang = Some (st, [t])) /\
  (forall s, scr = Some s -> tags_of_language srch sc lang = None \/ exists lt, tags_of_language srch sc lang = Some ([s], lt)) /\
  (scr = None -> tags_of_language srch sc lang = None \/ exists lt, tags_of_language srch sc lang = Some (all_tags_from_script sc, lt)).
Proof.
  intros Hs H1 H2. unfold tags_of_language. rewrite Hs, H1, H2. repeat split.
  - intros t ->. eexists. reflexivity.
  - intros s ->. destruct lg as [t|]; [right; eexists; reflexivity|].
    destruct (language_of prefix) as [p|]; [|right; eexists; reflexivity].
    destruct (tags_from_language srch p); [right; eexists; reflexivity|left; reflexivity].
  - intros ->. destruct lg as [t|]; [right; eexists; reflexivity|].
    destruct (language_of prefix) as [p|]; [|right; eexists; reflexivity].
    destruct (tags_from_language srch p); [right; eexists; reflexivity|left; reflexivity].
Qed.

Lemma take_alnum_app : forall body rest n,
  forallb is_alnum body = true -> (length body <= n)%nat ->
  (length body = n \/ rest = [] \/ exists c r, rest = c :: r /\ is_alnum c = false) ->
  take_alnum n (body ++ rest) = body.
Proof.
  induction body as [|c body IH]; intros rest n Ha Hl Hr.
  - cbn [app]. destruct n; [destruct rest; reflexivity|].
    destruct Hr as [Hr|[->|(c & r & -> & Hc)]]; [cbn in Hr; lia|reflexivity|]. cbn [take_alnum]. rewrite Hc. reflexivity.
  - cbn [forallb] in Ha. apply andb_true_iff in Ha. destruct Ha as [Hc Ha]. cbn [length] in Hl.
    destruct n; [lia|]. cbn [app take_alnum]. rewrite Hc. f_equal. apply IH; [exact Ha|lia|].
    destruct Hr as [Hr|Hr]; [left; cbn [length] in Hr; lia|right; exact Hr].
Qed.

Lemma is_alnum_ascii c : is_alnum c = true -> c < 128.
Proof. unfold is_alnum, is_alpha, is_upper, is_lower, is_digit, in_range. lia. Qed.

(* "x-hbot" / "x-hbsc" followed by one to four alphanumerics *)
Lemma parse_private_x pat norm body rest :
  (pat = HBOT \/ pat = HBSC) ->
  body <> [] -> forallb is_alnum body = true -> (length body <= 4)%nat ->
  (length body = 4%nat \/ rest = [] \/ exists c r, rest = c :: r /\ is_alnum c = false) ->
  parse_private (Some (120 :: pat ++ body ++ rest)) pat norm = Some (Some (dflt_quirk (tag_lossy (map norm body)))).
Proof.
  intros Hpat Hne Ha Hl Hr. unfold parse_private.
  assert (Hf : find_sub pat (120 :: pat ++ body ++ rest) = Some 1%nat).
  { destruct Hpat as [-> | ->]; reflexivity. }
  rewrite Hf.
  assert (Hlen : length pat = 5%nat) by (destruct Hpat as [-> | ->]; reflexivity).
  rewrite Hlen. unfold str_from.
  assert (Hsk : skipn (1 + 5) (120 :: pat ++ body ++ rest) = body ++ rest).
  { destruct Hpat as [-> | ->]; reflexivity. }
  assert (Hb : boundary (120 :: pat ++ body ++ rest) (1 + 5) = true).
  { destruct body as [|c body]; [contradiction|]. cbn [forallb] in Ha. apply andb_true_iff in Ha. destruct Ha as [Hc _].
    apply (boundary_ascii _ _ c); [destruct Hpat as [-> | ->]; reflexivity|apply is_alnum_ascii, Hc]. }
  rewrite Hb, Hsk, (take_alnum_app body rest 4 Ha Hl Hr).
  destruct body; [contradiction|reflexivity].
Qed.

(* ================================================================== script / language / features on a font *)

Lemma first_index_app keys : forall a b,
  first_index keys (a ++ b) = match first_index keys a with Some r => Some r | None => first_index keys b end.
Proof.
  induction a as [|t a IH]; intros b; [reflexivity|]. cbn [app first_index].
  destruct (index_of t keys 0); [reflexivity|apply IH].
Qed.

(* select_script = first present among the script's own tags followed by the fallback list; `found`
   says whether it was one of the script's own *)
Lemma select_script_order ly tags :
  option_map (fun r => (snd (fst r), snd r)) (select_script ly tags)
    = first_index (map fst (ly_scripts ly)) (tags ++ script_fallbacks)
  /\ (forall r, select_script ly tags = Some r ->
        fst (fst r) = match first_index (map fst (ly_scripts ly)) tags with Some _ => true | None => false end).
Proof.
  unfold select_script. rewrite first_index_app.
  destruct (first_index (map fst (ly_scripts ly)) tags) as [[i t]|].
  - split; [reflexivity|]. intros r [= <-]. reflexivity.
  - destruct (first_index (map fst (ly_scripts ly)) script_fallbacks) as [[i t]|].
    + split; [reflexivity|]. intros r [= <-]. reflexivity.
    + split; [reflexivity|]. intros r H. discriminate H.
Qed.

Lemma index_of_spec t : forall keys i j, index_of t keys i = Some j ->
  (i <= j)%nat /\ nth_error keys (j - i) = Some t /\ (forall k, (k < j - i)%nat -> nth_error keys k <> Some t).
Proof.
  induction keys as [|k r IH]; intros i j H; [discriminate|]. cbn [index_of] in H.
  destruct (k =? t) eqn:E.
  - injection H as <-. apply N.eqb_eq in E. subst. rewrite Nat.sub_diag. repeat split; [lia|]. intros k Hk. lia.
  - destruct (IH (S i) j H) as (H1 & H2 & H3). repeat split; [lia| |].
    + replace (j - i)%nat with (S (j - S i)) by lia. exact H2.
    + intros m Hm. destruct m as [|m]; [cbn; intros [= ->]; rewrite N.eqb_refl in E; discriminate|].
      cbn [nth_error]. apply H3. lia.
Qed.

Lemma index_of_none t : forall keys i, index_of t keys i = None -> ~ In t keys.
Proof.
  induction keys as [|k r IH]; intros i H; [intros []|]. cbn [index_of] in H.
  destruct (k =? t) eqn:E; [discriminate|]. intros [->|Hin]; [rewrite N.eqb_refl in E; discriminate|exact (IH _ H Hin)].
Qed.

(* first_index returns the first candidate (in candidate order) that is a key, with its position *)
Lemma first_index_spec keys : forall cands i t,
  first_index keys cands = Some (i, t) ->
  nth_error keys i = Some t /\ exists pre post, cands = pre ++ t :: post /\ (forall x, In x pre -> ~ In x keys).
Proof.
  induction cands as [|c r IH]; intros i t H; [discriminate|]. cbn [first_index] in H.
  destruct (index_of c keys 0) as [j|] eqn:E.
  - injection H as <- <-. destruct (index_of_spec c keys 0 j E) as (_ & H2 & _). rewrite Nat.sub_0_r in H2.
    split; [exact H2|]. exists [], r. split; [reflexivity|]. intros x [].
  - destruct (IH i t H) as (H1 & pre & post & -> & Hpre). split; [exact H1|].
    exists (c :: pre), post. split; [reflexivity|]. intros x [<-|Hx]; [exact (index_of_none _ _ _ E)|exact (Hpre x Hx)].
Qed.

Lemma first_index_none keys : forall cands, first_index keys cands = None -> forall x, In x cands -> ~ In x keys.
Proof.
  induction cands as [|c r IH]; intros H x Hx; [destruct Hx|]. cbn [first_index] in H.
  destruct (index_of c keys 0) eqn:E; [discriminate|]. destruct Hx as [<-|Hx]; [exact (index_of_none _ _ _ E)|exact (IH H x Hx)].
Qed.

(* select_script_language: first existing among the language tags, then the fallback tag *)
Lemma select_language_order ly sidx ltags tag sr :
  nth_error (ly_scripts ly) sidx = Some (tag, sr) ->
  select_script_language ly sidx ltags
    = option_map fst (first_index (map fst (sc_langs sr)) (ltags ++ [lang_fallback])).
Proof.
  intros H. unfold select_script_language. rewrite H, first_index_app.
  destruct (first_index (map fst (sc_langs sr)) ltags) as [[i t]|]; [reflexivity|].
  cbn [first_index]. destruct (index_of lang_fallback (map fst (sc_langs sr)) 0); reflexivity.
Qed.

(* the language system whose features are used: the selected record, else the script's default *)
Lemma sys_of_selected ly sidx tag sr lidx :
  nth_error (ly_scripts ly) sidx = Some (tag, sr) ->
  sys_of ly sidx lidx = match lidx with Some i => option_map snd (nth_error (sc_langs sr) i) | None => sc_default sr end.
Proof. intros H. unfold sys_of. rewrite H. reflexivity. Qed.

Lemma find_in_feats_spec feats ftag : forall idxs i,
  find_in_feats feats idxs ftag = Some i -> In i idxs /\ nth_error feats i = Some ftag.
Proof.
  induction idxs as [|j r IH]; intros i H; [discriminate|]. cbn [find_in_feats] in H.
  destruct (nth_error feats j) as [t|] eqn:E.
  - destruct (t =? ftag) eqn:Et.
    + injection H as <-. apply N.eqb_eq in Et. subst. split; [left; reflexivity|exact E].
    + destruct (IH i H). split; [right|]; assumption.
  - destruct (IH i H). split; [right|]; assumption.
Qed.

Lemma find_in_feats_none feats ftag : forall idxs,
  find_in_feats feats idxs ftag = None -> forall i, In i idxs -> nth_error feats i <> Some ftag.
Proof.
  induction idxs as [|j r IH]; intros H i Hi; [destruct Hi|]. cbn [find_in_feats] in H.
  destruct (nth_error feats j) as [t|] eqn:E.
  - destruct (t =? ftag) eqn:Et; [discriminate|]. destruct Hi as [<-|Hi]; [|exact (IH H i Hi)].
    rewrite E. intros [= ->]. rewrite N.eqb_refl in Et. discriminate.
  - destruct Hi as [<-|Hi]; [rewrite E; discriminate|exact (IH H i Hi)].
Qed.

(* exactly the features listed by the selected language system (among the requested tags), plus its
   required feature *)
Lemma active_features_spec ly stags ltags requested found sidx tag i :
  select_script ly stags = Some (found, sidx, tag) ->
  let lidx := select_script_language ly sidx ltags in
  In i (active_features ly stags ltags requested) <->
    (exists t, required_feature ly sidx lidx = Some (i, t)) \/
    (exists sys t, sys_of ly sidx lidx = Some sys /\ In t requested /\
                   find_in_feats (ly_feats ly) (ls_feats sys) t = Some i).
Proof.
  intros Hs lidx. unfold active_features. rewrite Hs. fold lidx. rewrite in_app_iff, in_flat_map. split.
  - intros [H|[t [Ht H]]].
    + left. destruct (required_feature ly sidx lidx) as [[j t]|]; [|destruct H]. cbn in H. destruct H as [<-|[]]. eexists; reflexivity.
    + right. unfold find_language_feature in H. destruct (sys_of ly sidx lidx) as [sys|]; [|destruct H].
      destruct (find_in_feats (ly_feats ly) (ls_feats sys) t) as [j|] eqn:E; [|destruct H].
      cbn in H. destruct H as [<-|[]]. exists sys, t. auto.
  - intros [[t H]|(sys & t & H1 & H2 & H3)].
    + left. rewrite H. left. reflexivity.
    + right. exists t. split; [exact H2|]. unfold find_language_feature. rewrite H1, H3. left. reflexivity.
Qed.

Lemma active_features_none ly stags ltags requested :
  select_script ly stags = None -> active_features ly stags ltags requested = [].
Proof. intros H. unfold active_features. rewrite H. reflexivity. Qed.

Lemma required_feature_spec ly sidx lidx i t :
  required_feature ly sidx lidx = Some (i, t) <->
  exists sys, sys_of ly sidx lidx = Some sys /\ ls_req sys = Some i /\ nth_error (ly_feats ly) i = Some t.
Proof.
  unfold required_feature. split.
  - destruct (sys_of ly sidx lidx) as [sys|]; [|discriminate]. destruct (ls_req sys) as [j|] eqn:E; [|discriminate].
    destruct (nth_error (ly_feats ly) j) as [u|] eqn:F; [|discriminate]. intros [= <- <-]. exists sys. auto.
  - intros (sys & -> & -> & ->). reflexivity.
Qed.

(* ================================================================== script tags *)

Lemma assoc_app k : forall a b, assoc k (a ++ b) = match assoc k a with Some v => Some v | None => assoc k b end.
Proof.
  induction a as [|[x y] a IH]; intros b; [reflexivity|]. cbn [app assoc]. destruct (x =? k); [reflexivity|apply IH].
Qed.

Lemma assoc_In k v : forall l, assoc k l = Some v -> In (k, v) l.
Proof.
  induction l as [|[x y] l IH]; intros H; [discriminate|]. cbn [assoc] in H. destruct (x =? k) eqn:E.
  - injection H as <-. apply N.eqb_eq in E. subst. left. reflexivity.
  - right. apply IH, H.
Qed.

(* the statement: scripts of `two` have three tags (generation 3, generation 2, old), scripts of
   `v2` two (generation 2, old), all others the old tag only *)
Definition spec_old_tag (old : list (N * N)) (sc : N) : N :=
  match assoc sc old with Some t => t | None => N.lor sc 536870912 end.
Definition spec_script_tags (two v2 old : list (N * N)) (sc : N) : list N :=
  match assoc sc two with
  | Some t2 => [t2 / 256 * 256 + 51; t2; spec_old_tag old sc]
  | None => match assoc sc v2 with
            | Some t2 => [t2; spec_old_tag old sc]
            | None => [spec_old_tag old sc]
            end
  end.

Lemma all_tags_spec two v2 old sc :
  new_script_tags = two ++ v2 -> old_script_special = old ->
  forallb (fun p => negb (snd p =? no_gen3_tag)) two = true ->
  forallb (fun p => snd p =? no_gen3_tag) v2 = true ->
  all_tags_from_script (Some sc) = spec_script_tags two v2 old sc.
Proof.
  intros Hn Ho H2 H1. unfold all_tags_from_script, spec_script_tags, old_tag, spec_old_tag. rewrite Hn, Ho, assoc_app.
  destruct (assoc sc two) as [t2|] eqn:E.
  - rewrite forallb_forall in H2. specialize (H2 _ (assoc_In _ _ _ E)). cbn [snd] in H2.
    apply negb_true_iff in H2. rewrite H2. reflexivity.
  - destruct (assoc sc v2) as [t2|] eqn:F; [|reflexivity].
    rewrite forallb_forall in H1. specialize (H1 _ (assoc_In _ _ _ F)). cbn [snd] in H1. rewrite H1. reflexivity.
Qed.

(* ================================================================== the registry *)

Definition le_code (c : option comparison) : bool := match c with Some Lt | Some Eq => true | _ => false end.
Definition is_eq (c : option comparison) : bool := match c with Some Eq => true | _ => false end.

Fixpoint all_pairs_le (l : list row) : bool :=
  match l with
  | [] => true
  | a :: t => forallb (fun b => le_code (lang_cmp (fst a) (fst b))) t && all_pairs_le t
  end.

Lemma all_pairs_le_use d : forall l, all_pairs_le l = true ->
  forall i j, (i < j)%nat -> (j < length l)%nat -> le_code (lang_cmp (fst (nth i l d)) (fst (nth j l d))) = true.
Proof.
  induction l as [|a t IH]; intros H i j Hij Hj; [cbn in Hj; lia|].
  cbn [all_pairs_le] in H. apply andb_true_iff in H. destruct H as [Ha Ht]. cbn [length] in Hj.
  destruct j as [|j]; [lia|]. destruct i as [|i].
  - cbn [nth]. rewrite forallb_forall in Ha. apply Ha. apply nth_In. lia.
  - cbn [nth]. apply IH; [exact Ht|lia|lia].
Qed.

Lemma registry_pairs : all_pairs_le lang_table = true.
Proof. vm_compute. reflexivity. Qed.

Lemma registry_sorted i j : (i < j)%nat -> (j < nrows)%nat ->
  le_code (lang_cmp (fst (row_at i)) (fst (row_at j))) = true.
Proof. intros. unfold row_at. apply all_pairs_le_use; [exact registry_pairs|assumption|assumption]. Qed.

(* ---- every registry language reaches its first registered tag, whatever index the search returns ---- *)

Definition first_registered (l : bytes) : option N :=
  match find (fun r => bytes_eqb (fst r) l) lang_table with
  | Some (_, t) => if t =? 0 then None else Some t
  | None => None
  end.

(* the contract of binary_search_by for the probe string `sub` *)
Definition search_ok (sub : bytes) (r : option (option nat)) : Prop :=
  match r with
  | None => exists i, (i < nrows)%nat /\ lang_cmp (fst (row_at i)) sub = None
  | Some (Some i) => (i < nrows)%nat /\ lang_cmp (fst (row_at i)) sub = Some Eq
  | Some None => forall i, (i < nrows)%nat -> lang_cmp (fst (row_at i)) sub <> Some Eq
  end.

(* the plain path of tags_from_script_and_language up to the registry search:
   (language handed to tags_from_language, probe string, script override) *)
Definition probe_of (l : bytes) : option (bytes * bytes * option N) :=
  match language_of l with
  | None => None
  | Some lang =>
    match split_language lang with
    | Some (pv, prefix) =>
      match parse_private pv HBSC lower_b, parse_private pv HBOT upper_b with
      | Some scr, Some None =>
        match language_of prefix with
        | Some p => match tfl_pre p with LSearch sub => Some (p, sub, scr) | LDone _ => None end
        | None => None
        end
      | _, _ => None
      end
    | None => None
    end
  end.

Lemma tags_gen_probe srch sc l p sub scr :
  probe_of l = Some (p, sub, scr) ->
  tags_gen srch sc (Some l) =
    match tfl_post p (srch sub) with
    | None => None
    | Some ls => Some (match scr with
                       | Some t => [t]
                       | None => all_tags_from_script (match sc with Some s => script_of s | None => None end)
                       end, ls)
    end.
Proof.
  unfold probe_of, tags_gen, tags_of_language. destruct (language_of l) as [lang|]; [|discriminate].
  destruct (split_language lang) as [[pv prefix]|]; [|discriminate].
  destruct (parse_private pv HBSC lower_b) as [scr'|]; [|discriminate].
  destruct (parse_private pv HBOT upper_b) as [[t|]|]; [discriminate| |discriminate].
  destruct (language_of prefix) as [q|]; [|discriminate]. unfold tags_from_language.
  destruct (tfl_pre q) as [r|sub']; [discriminate|]. intros [= <- <- <-]. reflexivity.
Qed.

Definition optN_eqb (a b : option N) : bool :=
  match a, b with Some x, Some y => x =? y | None, None => true | _, _ => false end.

Lemma optN_eqb_eq a b : optN_eqb a b = true -> a = b.
Proof. destruct a, b; cbn; try discriminate; [|reflexivity]. intros H. apply N.eqb_eq in H. subst. reflexivity. Qed.

Fixpoint check_rows (tbl : list row) (i : nat) (sub : bytes) (want : option N) : bool :=
  match tbl with
  | [] => true
  | r :: t =>
    (match lang_cmp (fst r) sub with
     | None => false
     | Some Eq => optN_eqb (hd_error (tfl_found i)) want
     | Some _ => true
     end) && check_rows t (S i) sub want
  end.

Lemma check_rows_use sub want d : forall tbl k, check_rows tbl k sub want = true ->
  forall i, (i < length tbl)%nat ->
    lang_cmp (fst (nth i tbl d)) sub <> None /\
    (lang_cmp (fst (nth i tbl d)) sub = Some Eq -> hd_error (tfl_found (k + i)) = want).
Proof.
  induction tbl as [|r t IH]; intros k H i Hi; [cbn in Hi; lia|].
  cbn [check_rows] in H. apply andb_true_iff in H. destruct H as [Hr Ht]. destruct i as [|i].
  - cbn [nth]. rewrite Nat.add_0_r. destruct (lang_cmp (fst r) sub) as [[| |]|]; try discriminate; split; try discriminate.
    intros _. apply optN_eqb_eq, Hr.
  - cbn [nth]. cbn [length] in Hi. replace (k + S i)%nat with (S k + i)%nat by lia. apply IH; [exact Ht|lia].
Qed.

Definition hit_ok (l : bytes) : bool :=
  match probe_of l with
  | Some (_, sub, _) =>
      check_rows lang_table 0 sub (first_registered l) && existsb (fun r => is_eq (lang_cmp (fst r) sub)) lang_table
  | None => false
  end.

Lemma hit_ok_sound l : hit_ok l = true ->
  forall srch, (forall sub, search_ok sub (srch sub)) ->
  forall sc, exists st lt, tags_gen srch sc (Some l) = Some (st, lt) /\ hd_error lt = first_registered l.
Proof.
  unfold hit_ok. destruct (probe_of l) as [[[p sub] scr]|] eqn:E; [|discriminate].
  intros H srch Hs sc. apply andb_true_iff in H. destruct H as [Hc Hex].
  rewrite (tags_gen_probe srch sc l p sub scr E). specialize (Hs sub).
  pose proof (check_rows_use sub (first_registered l) ([], 0) lang_table 0%nat Hc) as Hu.
  destruct (srch sub) as [[i|]|]; cbn [search_ok tfl_post] in *.
  - destruct Hs as [Hi Heq]. destruct (Hu i Hi) as [_ H2]. eexists; eexists. split; [reflexivity|]. apply (H2 Heq).
  - exfalso. apply existsb_exists in Hex. destruct Hex as [r [Hin Hr]].
    destruct (In_nth _ _ ([], 0) Hin) as [i [Hi Hn]]. apply (Hs i Hi). unfold row_at. rewrite Hn.
    destruct (lang_cmp (fst r) sub) as [[| |]|]; try discriminate. reflexivity.
  - exfalso. destruct Hs as [i [Hi Hn]]. destruct (Hu i Hi) as [H1 _]. exact (H1 Hn).
Qed.

Definition sweep_rows (P : bytes -> bool) (tbl : list row) : bool := forallb (fun r => P (fst r)) tbl.

Lemma sweep_rows_use P tbl : sweep_rows P tbl = true -> forall l t, In (l, t) tbl -> P l = true.
Proof. unfold sweep_rows. intros H l t Hin. rewrite forallb_forall in H. exact (H (l, t) Hin). Qed.

Lemma registry_sorted_or i j : (i < j)%nat -> (j < nrows)%nat ->
  lang_cmp (fst (row_at i)) (fst (row_at j)) = Some Lt \/ lang_cmp (fst (row_at i)) (fst (row_at j)) = Some Eq.
Proof.
  intros Hij Hj. pose proof (registry_sorted i j Hij Hj) as H.
  destruct (lang_cmp (fst (row_at i)) (fst (row_at j))) as [[| |]|]; cbn in H; try discriminate H; auto.
Qed.

Lemma registry_hits_sweep : sweep_rows hit_ok lang_table = true.
Proof. vm_compute. reflexivity. Qed.

Lemma registry_hits srch : (forall sub, search_ok sub (srch sub)) ->
  forall l t, In (l, t) lang_table ->
  forall sc, exists st lt, tags_gen srch sc (Some l) = Some (st, lt) /\ hd_error lt = first_registered l.
Proof.
  intros Hs l t Hin. apply hit_ok_sound; [|exact Hs]. exact (sweep_rows_use hit_ok lang_table registry_hits_sweep l t Hin).
Qed.

(* the executable search satisfies the contract *)
Lemma search_from_spec sub d : forall tbl k,
  match search_from tbl sub k with
  | None => exists i, (i < length tbl)%nat /\ lang_cmp (fst (nth i tbl d)) sub = None
  | Some (Some j) => exists i, j = (k + i)%nat /\ (i < length tbl)%nat /\ lang_cmp (fst (nth i tbl d)) sub = Some Eq
  | Some None => forall i, (i < length tbl)%nat -> lang_cmp (fst (nth i tbl d)) sub <> Some Eq
  end.
Proof.
  induction tbl as [|[l t] r IH]; intros k; cbn [search_from].
  - intros i Hi. cbn in Hi. lia.
  - destruct (lang_cmp l sub) as [[| |]|] eqn:E.
    + exists 0%nat. cbn [nth fst length]. repeat split; [lia|lia|exact E].
    + specialize (IH (S k)). destruct (search_from r sub (S k)) as [[j|]|].
      * destruct IH as (i & -> & Hi & Hc). exists (S i). cbn [nth length]. repeat split; [lia|lia|exact Hc].
      * intros [|i] Hi; cbn [nth fst]; [rewrite E; discriminate|apply IH; cbn [length] in Hi; lia].
      * destruct IH as (i & Hi & Hc). exists (S i). cbn [nth length]. split; [lia|exact Hc].
    + specialize (IH (S k)). destruct (search_from r sub (S k)) as [[j|]|].
      * destruct IH as (i & -> & Hi & Hc). exists (S i). cbn [nth length]. repeat split; [lia|lia|exact Hc].
      * intros [|i] Hi; cbn [nth fst]; [rewrite E; discriminate|apply IH; cbn [length] in Hi; lia].
      * destruct IH as (i & Hi & Hc). exists (S i). cbn [nth length]. split; [lia|exact Hc].
    + exists 0%nat. cbn [nth fst length]. split; [lia|exact E].
Qed.

Lemma search_first_ok sub : search_ok sub (search_first sub).
Proof.
  unfold search_first, search_ok. pose proof (search_from_spec sub ([], 0) lang_table 0%nat) as H.
  destruct (search_from lang_table sub 0) as [[j|]|].
  - destruct H as (i & -> & Hi & Hc). split; [exact Hi|exact Hc].
  - exact H.
  - exact H.
Qed.

Lemma registry_hits_exec l t : In (l, t) lang_table ->
  forall sc, exists st lt, tags sc (Some l) = Some (st, lt) /\ hd_error lt = first_registered l.
Proof. intros Hin. exact (registry_hits search_first search_first_ok l t Hin). Qed.

Lemma first_index_meaning keys cands :
  match first_index keys cands with
  | Some (i, t) => nth_error keys i = Some t /\
                   exists pre post, cands = pre ++ t :: post /\ (forall x, In x pre -> ~ In x keys)
  | None => forall x, In x cands -> ~ In x keys
  end.
Proof.
  destruct (first_index keys cands) as [[i t]|] eqn:E; [exact (first_index_spec keys cands i t E)|exact (first_index_none keys cands E)].
Qed.

Lemma find_in_feats_meaning feats ftag idxs :
  match find_in_feats feats idxs ftag with
  | Some i => In i idxs /\ nth_error feats i = Some ftag
  | None => forall i, In i idxs -> nth_error feats i <> Some ftag
  end.
Proof.
  destruct (find_in_feats feats idxs ftag) as [i|] eqn:E; [exact (find_in_feats_spec feats ftag idxs i E)|exact (find_in_feats_none feats ftag idxs E)].
Qed.

Lemma lang_order ly sidx ltags tag sr :
  nth_error (ly_scripts ly) sidx = Some (tag, sr) ->
  select_script_language ly sidx ltags = option_map fst (first_index (map fst (sc_langs sr)) (ltags ++ [lang_fallback]))
  /\ forall lidx, sys_of ly sidx lidx =
       match lidx with Some i => option_map snd (nth_error (sc_langs sr) i) | None => sc_default sr end.
Proof. intros H. split; [exact (select_language_order ly sidx ltags tag sr H)|exact (fun lidx => sys_of_selected ly sidx tag sr lidx H)]. Qed.

Lemma private_use_x pat norm body rest :
  (pat = HBOT \/ pat = HBSC) ->
  body <> [] -> forallb is_alnum body = true -> (length body <= 4)%nat ->
  (length body = 4%nat \/ rest = [] \/ exists c r, rest = c :: r /\ is_alnum c = false) ->
  split_language (120 :: pat ++ body ++ rest) = Some (Some (120 :: pat ++ body ++ rest), []) /\
  parse_private (Some (120 :: pat ++ body ++ rest)) pat norm = Some (Some (dflt_quirk (tag_lossy (map norm body)))).
Proof.
  intros Hp Hne Ha Hl Hr. split; [|exact (parse_private_x pat norm body rest Hp Hne Ha Hl Hr)].
  apply split_language_x. destruct Hp as [-> | ->]; reflexivity.
Qed.

(* ================================================================== the registry is partitioned by every probe string
   (the precondition under which binary_search_by finds an Equal row whenever there is one) *)

Definition first_subtag (s : bytes) : bytes :=
  firstn (match find_byte DASH s with Some i => i | None => length s end) s.

Lemma cmp_bytes_refl a : cmp_bytes a a = Eq.
Proof. induction a as [|x a IH]; [reflexivity|]. cbn [cmp_bytes]. rewrite N.compare_refl. exact IH. Qed.

Lemma cmp_bytes_eq : forall a b, cmp_bytes a b = Eq -> a = b.
Proof.
  induction a as [|x a IH]; intros [|y b] H; try discriminate; [reflexivity|]. cbn [cmp_bytes] in H.
  destruct (x ?= y) eqn:E; try discriminate. apply N.compare_eq in E. subst. f_equal. apply IH, H.
Qed.

Lemma cmp_bytes_antisym : forall a b, cmp_bytes b a = CompOpp (cmp_bytes a b).
Proof.
  induction a as [|x a IH]; intros [|y b]; try reflexivity. cbn [cmp_bytes].
  rewrite (N.compare_antisym x y). destruct (x ?= y); cbn [CompOpp]; [apply IH|reflexivity|reflexivity].
Qed.

Lemma cmp_bytes_lt_trans : forall a b c, cmp_bytes a b = Lt -> cmp_bytes b c = Lt -> cmp_bytes a c = Lt.
Proof.
  induction a as [|x a IH]; intros [|y b] [|z c] H1 H2; try discriminate; try reflexivity.
  cbn [cmp_bytes] in *.
  destruct (x ?= y) eqn:E1; try discriminate; destruct (y ?= z) eqn:E2; try discriminate.
  - apply N.compare_eq in E1. apply N.compare_eq in E2. subst. rewrite N.compare_refl. eapply IH; eassumption.
  - apply N.compare_eq in E1. subst. rewrite E2. reflexivity.
  - apply N.compare_eq in E2. subst. rewrite E1. reflexivity.
  - rewrite N.compare_lt_iff in *. assert (Hxz : x < z) by lia. apply N.compare_lt_iff in Hxz. rewrite Hxz. reflexivity.
Qed.

Lemma firstn_min_len {A} : forall k (l : list A), firstn (Nat.min k (length l)) l = firstn k l.
Proof.
  induction k as [|k IH]; intros l; [reflexivity|]. destruct l as [|a l]; [reflexivity|].
  cbn [length Nat.min firstn]. f_equal. apply IH.
Qed.

Lemma cmp_cut : forall k v S m d e,
  (k < m)%nat -> nth_error S k = Some d -> nth_error v k = Some e -> d < e ->
  cmp_bytes v (firstn m S) = cmp_bytes v (firstn k S).
Proof.
  induction k as [|k IH]; intros v S m d e Hm HS Hv Hde.
  - destruct v as [|x v]; [discriminate|]. destruct S as [|y S]; [discriminate|]. destruct m; [lia|].
    cbn in HS, Hv. injection HS as ->. injection Hv as ->. cbn [firstn cmp_bytes].
    apply N.compare_gt_iff in Hde. rewrite Hde. reflexivity.
  - destruct v as [|x v]; [discriminate|]. destruct S as [|y S]; [discriminate|]. destruct m; [lia|].
    cbn [nth_error] in HS, Hv. cbn [firstn cmp_bytes]. destruct (x ?= y); try reflexivity.
    apply (IH v S m d e); [lia|assumption|assumption|assumption].
Qed.

Lemma find_byte_none_len c : forall s, find_byte c s = None -> forall i b, nth_error s i = Some b -> b <> c.
Proof.
  induction s as [|x t IH]; intros H i b Hn; [destruct i; discriminate|]. cbn [find_byte] in H.
  destruct (x =? c) eqn:E; [discriminate|]. destruct (find_byte c t) eqn:F; [discriminate|].
  destruct i as [|i]; cbn [nth_error] in Hn; [injection Hn as <-; apply N.eqb_neq; exact E|exact (IH eq_refl i b Hn)].
Qed.

(* a registry-like row (no '-', every byte above '-') compares with any probe string exactly as it
   compares, lexicographically, with the probe's first subtag *)
Lemma lang_cmp_row v S :
  lang_cmp_bytes = true -> find_byte DASH v = None -> forallb (fun b => 45 <? b) v = true ->
  lang_cmp v S = Some (cmp_bytes v (first_subtag S)).
Proof.
  intros Hb Hv Hgt. unfold lang_cmp, first_subtag. rewrite Hb, Hv. f_equal.
  set (db := match find_byte DASH S with Some i => i | None => length S end).
  assert (Hdb : (db <= length S)%nat).
  { unfold db. destruct (find_byte DASH S) eqn:E; [apply find_byte_lt in E; lia|lia]. }
  replace (Nat.min (Nat.max (length v) db) (length v)) with (length v) by lia.
  rewrite firstn_all, firstn_min_len.
  destruct (Nat.le_gt_cases (length v) db) as [Hle|Hgt'].
  - replace (Nat.max (length v) db) with db by lia. reflexivity.
  - replace (Nat.max (length v) db) with (length v) by lia.
    unfold db in *. destruct (find_byte DASH S) as [i|] eqn:E.
    + destruct (nth_error v i) as [e|] eqn:En; [|apply nth_error_None in En; lia].
      apply (cmp_cut i v S (length v) DASH e); [lia|exact (find_byte_nth _ _ _ E)|exact En|].
      rewrite forallb_forall in Hgt. specialize (Hgt e (nth_error_In _ _ En)). unfold DASH. lia.
    + rewrite !firstn_all2 by lia. reflexivity.
Qed.

Definition row_plain (r : row) : bool :=
  (match find_byte DASH (fst r) with None => true | Some _ => false end) && forallb (fun b => 45 <? b) (fst r).

Lemma registry_rows_plain : forallb row_plain lang_table = true.
Proof. vm_compute. reflexivity. Qed.

Lemma row_at_plain i : (i < nrows)%nat ->
  find_byte DASH (fst (row_at i)) = None /\ forallb (fun b => 45 <? b) (fst (row_at i)) = true.
Proof.
  intros Hi. pose proof registry_rows_plain as H. rewrite forallb_forall in H.
  specialize (H (row_at i) (nth_In _ _ Hi)). unfold row_plain in H. apply andb_true_iff in H. destruct H as [H1 H2].
  destruct (find_byte DASH (fst (row_at i))); [discriminate|]. split; [reflexivity|exact H2].
Qed.

Definition rank3 (c : option comparison) : nat :=
  match c with Some Lt => 0 | Some Eq => 1 | Some Gt => 2 | None => 3 end.

Lemma registry_partitioned :
  lang_cmp_bytes = true ->
  forall sub i j, (i < j)%nat -> (j < nrows)%nat ->
  (rank3 (lang_cmp (fst (row_at i)) sub) <= rank3 (lang_cmp (fst (row_at j)) sub) <= 2)%nat.
Proof.
  intros Hb sub i j Hij Hj.
  destruct (row_at_plain i ltac:(lia)) as [Hi1 Hi2]. destruct (row_at_plain j Hj) as [Hj1 Hj2].
  pose proof (registry_sorted i j Hij Hj) as Hs.
  rewrite (lang_cmp_row _ _ Hb Hi1 Hi2) in Hs. unfold first_subtag in Hs. rewrite Hj1, firstn_all in Hs.
  rewrite (lang_cmp_row _ sub Hb Hi1 Hi2), (lang_cmp_row _ sub Hb Hj1 Hj2).
  set (v := fst (row_at i)) in *. set (w := fst (row_at j)) in *. set (p := first_subtag sub).
  assert (Hvw : cmp_bytes v w = Lt \/ v = w).
  { destruct (cmp_bytes v w) eqn:E; [right; apply cmp_bytes_eq, E|left; reflexivity|discriminate Hs]. }
  destruct Hvw as [Hlt|<-].
  2:{ destruct (cmp_bytes v p); cbn; lia. }
  destruct (cmp_bytes v p) eqn:Evp; cbn [rank3].
  - apply cmp_bytes_eq in Evp. subst p. rewrite <- Evp. rewrite (cmp_bytes_antisym v w), Hlt. cbn. lia.
  - destruct (cmp_bytes w p); cbn; lia.
  - assert (Hpv : cmp_bytes p v = Lt) by (rewrite (cmp_bytes_antisym v p), Evp; reflexivity).
    pose proof (cmp_bytes_lt_trans p v w Hpv Hlt) as Hpw.
    rewrite (cmp_bytes_antisym p w), Hpw. cbn. lia.
Qed.
