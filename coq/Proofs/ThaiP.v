(* Proofs/ThaiP.v — the SARA AM split (Model/Thai.v) with the repaired (backward) loop neither loses nor
   duplicates a character (unbounded), and keeps every character in its cluster (all strings <= 6 over the
   class representatives, three cluster regimes, by computation); with the forward loop it does not. *)
From Coq Require Import List NArith Bool Lia Arith Permutation.
From RB Require Import Base.Result Gen.CopyLoops Model.Buffer Model.CopyLoop Model.Thai Proofs.CopyLoopP Proofs.BufferSortP.
Import ListNotations.
Local Open Scope N_scope.

Arguments N.add : simpl never.
Arguments N.sub : simpl never.
Arguments N.eqb : simpl never.
Arguments N.leb : simpl never.
Arguments N.ldiff : simpl never.

Lemma set_cluster_gid i c m : gid (set_cluster i c m) = gid i.
Proof. unfold set_cluster. destruct (cluster i =? c); reflexivity. Qed.

Lemma map_partial_gid (f : info -> info) n (l : list info) : (forall x, gid (f x) = gid x) ->
  map gid (map f (firstn n l) ++ skipn n l) = map gid l.
Proof. intros H. rewrite map_app, map_map. rewrite (map_ext _ gid) by exact H. rewrite <- map_app, firstn_skipn. reflexivity. Qed.

Lemma merge_out_clusters_gid b s e b' : merge_out_clusters b s e = Ok b' ->
  map gid (pre b') = map gid (pre b) /\ map gid (rest b') = map gid (rest b) /\ level b' = level b.
Proof.
  unfold merge_out_clusters. destruct (level b =? 2); [intros H; injection H as <-; auto|].
  destruct (e - s <? 2)%nat; [intros H; injection H as <-; auto|].
  destruct (nth_error (pre b) s) as [f|]; [|discriminate]. destruct (nth_error (pre b) (e - 1)) as [l|]; [|discriminate].
  intros H. injection H as <-. cbn [pre rest level with_pr]. split; [|split; [|reflexivity]].
  - apply map_range_map. intros; apply set_cluster_gid.
  - destruct (_ =? _)%nat; [|reflexivity]. apply map_partial_gid. intros; apply set_cluster_gid.
Qed.

Lemma walk_back_le out : forall k, (walk_back out k <= k)%nat.
Proof.
  induction k as [|k IH]; cbn [walk_back]; [lia|]. destruct (nth_error out k) as [x|]; [|lia].
  destruct (is_above_base_mark (gid x)); lia.
Qed.

Lemma expand_not_sara u : is_sara_am u = false -> expand u = [u].
Proof. unfold expand. intros ->. reflexivity. Qed.
Lemma expand_sara u : is_sara_am u = true -> expand u = [nikhahit_from_sara_am u; sara_aa_from_sara_am u].
Proof. unfold expand. intros ->. reflexivity. Qed.

(* one iteration: the out-buffer gains exactly the expansion of the current character *)
Lemma thai_step_chars b x t b1 : thai_step Bwd b x t = Ok b1 ->
  Permutation (map gid (pre b1)) (map gid (pre b) ++ expand (gid x)) /\ map gid (rest b1) = map gid t.
Proof.
  unfold thai_step. destruct (is_sara_am (gid x)) eqn:Es; cbn [negb].
  2:{ intros H. injection H as <-. cbn [pre rest with_pr]. rewrite map_app, (expand_not_sara _ Es). split; [apply Permutation_refl|reflexivity]. }
  rewrite (expand_sara _ Es).
  set (out := pre b ++ [set_gid x (nikhahit_from_sara_am (gid x)); set_gid x (sara_aa_from_sara_am (gid x))]).
  set (b2 := with_pr b out t (S (dead b))).
  assert (Hout : map gid out = map gid (pre b) ++ [nikhahit_from_sara_am (gid x); sara_aa_from_sara_am (gid x)]).
  { unfold out. rewrite map_app. reflexivity. }
  assert (Lout : length out = (length (pre b) + 2)%nat) by (unfold out; rewrite app_length; reflexivity).
  change (pre b2) with out. change (rest b2) with t.
  set (e := length out). set (s := walk_back out (e - 2)).
  assert (Hs : (s <= e - 2)%nat) by apply walk_back_le.
  destruct (s + 2 <? e)%nat eqn:Ese.
  - destruct (merge_out_clusters b2 s e) as [b3|] eqn:Em; cbn [bind]; [|discriminate].
    apply merge_out_clusters_gid in Em as [Hp [Hr _]]. change (pre b2) with out in Hp. change (rest b2) with t in Hr.
    assert (L3 : length (pre b3) = e) by (rewrite <- (map_length gid), Hp, map_length; reflexivity).
    destruct (nth_error (pre b3) (e - 2)) as [nk|] eqn:En; [|discriminate].
    intros H. injection H as <-. cbn [pre rest with_pr]. split; [|exact Hr].
    apply Nat.ltb_lt in Ese.
    replace (e - s - 2)%nat with (e - 2 - s)%nat by lia.
    rewrite (shift_loop_is_move_elem (pre b3) (e - 2) s nk) by (try exact En; lia).
    rewrite <- Hout, <- Hp. apply Permutation_map. apply move_elem_perm. lia.
  - destruct (negb (s =? 0)%nat && (level b2 =? 0))%bool.
    + intros Em. apply merge_out_clusters_gid in Em as [Hp [Hr _]]. rewrite Hp, Hr. change (pre b2) with out.
      rewrite Hout. split; [apply Permutation_refl|reflexivity].
    + intros H. injection H as <-. change (pre b2) with out. rewrite Hout. split; [apply Permutation_refl|reflexivity].
Qed.

Lemma thai_loop_chars : forall fuel b b', (length (rest b) <= fuel)%nat -> thai_loop Bwd fuel b = Ok b' ->
  rest b' = [] /\ Permutation (map gid (pre b')) (map gid (pre b) ++ flat_map expand (map gid (rest b))).
Proof.
  induction fuel as [|fuel IH]; intros b b' Hl; cbn [thai_loop].
  - intros H. injection H as <-. destruct (rest b); [|cbn [length] in Hl; lia]. cbn [map flat_map]. rewrite app_nil_r.
    split; [reflexivity|apply Permutation_refl].
  - destruct (rest b) as [|x t] eqn:Er.
    + intros H. injection H as <-. rewrite Er. cbn [map flat_map]. rewrite app_nil_r. split; [reflexivity|apply Permutation_refl].
    + destruct (thai_step Bwd b x t) as [b1|] eqn:Est; cbn [bind]; [|discriminate].
      apply thai_step_chars in Est as [Hp Hr]. intros H.
      assert (L1 : length (rest b1) = length t) by (rewrite <- (map_length gid), Hr, map_length; reflexivity).
      apply IH in H; [|cbn [length] in Hl; lia]. destruct H as [H1 H2]. split; [exact H1|].
      rewrite Hr in H2. cbn [map flat_map]. eapply Permutation_trans; [exact H2|].
      rewrite app_assoc. apply Permutation_app_tail. exact Hp.
Qed.

(* unbounded: every text, every cluster level — no character lost or duplicated, SARA AM expanded *)
Theorem thai_chars lvl (l : list info) b : preprocess_thai Bwd lvl l = Ok b ->
  rest b = [] /\ Permutation (map gid (pre b)) (flat_map expand (map gid l)).
Proof. unfold preprocess_thai. intros H. apply thai_loop_chars in H; [exact H|reflexivity]. Qed.

(* ---------------------------------------------------------------- per-cluster content: complete sweep *)
Lemma strings_eq_complete alpha : forall s, Forall (fun a => In a alpha) s -> In s (strings_eq alpha (length s)).
Proof.
  induction s as [|a s IH]; intros H; cbn [strings_eq length]; [left; reflexivity|].
  inversion H as [|? ? Ha Hs]; subst. apply in_flat_map. exists s. split; [apply IH; exact Hs|].
  apply (in_map (fun a0 => a0 :: s)). exact Ha.
Qed.

Lemma strings_complete alpha s : forall n, (length s <= n)%nat -> Forall (fun a => In a alpha) s -> In s (strings alpha n).
Proof.
  induction n as [|n IH]; intros Hl H.
  - destruct s; [left; reflexivity|cbn [length] in Hl; lia].
  - cbn [strings]. apply in_or_app. destruct (Nat.eq_dec (length s) (S n)) as [E|E].
    + right. rewrite <- E. apply strings_eq_complete. exact H.
    + left. apply IH; [lia|exact H].
Qed.

Lemma sweep_use {A} (P : A -> bool) (l : list A) : forallb P l = true -> forall x, In x l -> P x = true.
Proof. intros H x Hx. rewrite forallb_forall in H. apply H. exact Hx. Qed.

Definition THAI_BOUND : nat := 6.
Lemma thai_sweep_ok : forallb P_thai (strings thai_alphabet THAI_BOUND) = true.
Proof. vm_compute. reflexivity. Qed.
Lemma lao_sweep_ok : forallb P_thai (strings lao_alphabet THAI_BOUND) = true.
Proof. vm_compute. reflexivity. Qed.

Theorem thai_clusters_bounded (s : list N) : (length s <= THAI_BOUND)%nat ->
  Forall (fun a => In a thai_alphabet) s \/ Forall (fun a => In a lao_alphabet) s -> P_thai s = true.
Proof.
  intros Hl [H|H].
  - apply (sweep_use P_thai _ thai_sweep_ok). apply strings_complete; assumption.
  - apply (sweep_use P_thai _ lao_sweep_ok). apply strings_complete; assumption.
Qed.

(* the loop as it stood (forward): the known text loses MAI THO and duplicates MAI EK *)
Lemma thai_forward_refuted :
  let input := clusters_grapheme [3585; 3656; 3657; 3635] in
  (match preprocess_thai Fwd 0 input with Ok b => map gid (pre b) | Error _ => [] end) = [3585; 3661; 3656; 3656; 3634]
  /\ thai_ok Fwd 0 input = false
  /\ (match preprocess_thai Bwd 0 input with Ok b => map gid (pre b) | Error _ => [] end) = [3585; 3661; 3656; 3657; 3634].
Proof. vm_compute. repeat split. Qed.
