(* Props/C01.v — property C01 (shaping is total; output length is bounded), buffer part.
   The length budget is an invariant of EVERY operation of the buffer alphabet and of every finite
   sequence of operations: J b says that, in output mode, the out-buffer and the input side each fit
   max_len, and in in-place mode the whole array does.  With the budget that enter() computes from n
   input characters this is the bound max(64 n, 16384) of the property.  Totality of the individual
   components is stated where they are modelled (C10 add_range_no_overflow, C18_total, C07 attachment
   depth, C06 nesting/fuel, C17 drive_total); panics of the real code are compared in every
   correspondence (a panic where the model says Ok is a disagreement) and searched for by the crash
   search of props/C01.py. *)
From Coq Require Import List NArith Bool Lia.
From RB Require Import Gen.Flags Base.Result Model.Buffer Model.BufferOps Proofs.BufferBoundP Proofs.BufferFrameP Proofs.BufferBoundFrameP.
Import ListNotations.
Local Open Scope N_scope.

Theorem C01_budget_constants :
  buf_max_len_factor = MAX_LEN_FACTOR /\ buf_max_len_min = MAX_LEN_MIN /\ buf_max_len_default = MAX_LEN_DEFAULT.
Proof. repeat split; exact eq_refl. Qed.
Print Assumptions C01_budget_constants.

Theorem C01_len_bound_step : forall b o r b', step b o = Ok (Some (r, b')) -> J b -> J b'.
Proof. exact step_J. Qed.
Print Assumptions C01_len_bound_step.

Theorem C01_len_bound : forall ops b b', run b ops = Ok (Some b') -> J b -> J b'.
Proof. exact run_J. Qed.
Print Assumptions C01_len_bound.

(* after enter() on n characters the invariant holds, with max_len = max (64 n) 16384 *)
Theorem C01_initial : forall l lvl fl, N.of_nat (length l) * MAX_LEN_FACTOR <= USIZE_MAX ->
  J (init_buf l lvl fl) /\ max_len (init_buf l lvl fl) = N.max (N.of_nat (length l) * 64) 16384.
Proof. exact init_J_and_budget. Qed.
Print Assumptions C01_initial.

(* the statement of the property: whatever sequence of buffer operations the shaper performs on a
   buffer of n characters, a completed (in-place) buffer never holds more than max(64 n, 16384) glyphs *)
Theorem C01_output_length : forall l lvl fl ops b',
  N.of_nat (length l) * MAX_LEN_FACTOR <= USIZE_MAX ->
  run (init_buf l lvl fl) ops = Ok (Some b') -> out_mode b' = false -> max_len b' = max_len (init_buf l lvl fl) ->
  N.of_nat (length (pre b' ++ rest b')) <= N.max (N.of_nat (length l) * 64) 16384.
Proof. exact run_output_length. Qed.
Print Assumptions C01_output_length.

(* the same with no hypothesis on the final buffer: no operation ever writes max_len, the cluster level or
   the buffer flags (frame theorem over every operation and every sequence) *)
Theorem C01_frame : forall ops b b', run b ops = Ok (Some b') ->
  max_len b' = max_len b /\ level b' = level b /\ bflags b' = bflags b.
Proof. exact run_frame. Qed.
Print Assumptions C01_frame.

Theorem C01_output_length_unconditional : forall l lvl fl ops b',
  N.of_nat (length l) * MAX_LEN_FACTOR <= USIZE_MAX ->
  run (init_buf l lvl fl) ops = Ok (Some b') -> out_mode b' = false ->
  N.of_nat (length (pre b' ++ rest b')) <= N.max (N.of_nat (length l) * 64) 16384.
Proof. exact run_output_length_all. Qed.
Print Assumptions C01_output_length_unconditional.

Theorem C01_output_length_in_output_mode : forall l lvl fl ops b',
  N.of_nat (length l) * MAX_LEN_FACTOR <= USIZE_MAX ->
  run (init_buf l lvl fl) ops = Ok (Some b') -> out_mode b' = true ->
  N.of_nat (length (pre b')) <= N.max (N.of_nat (length l) * 64) 16384 /\
  N.of_nat (dead b' + length (rest b')) <= N.max (N.of_nat (length l) * 64) 16384.
Proof. exact run_output_length_outmode. Qed.
Print Assumptions C01_output_length_in_output_mode.

Example C01_example :
  J (init_buf [mkInfo 1 0 0 0 0; mkInfo 2 0 1 0 0] 0 3) /\
  match run (init_buf [mkInfo 1 0 0 0 0; mkInfo 2 0 1 0 0] 0 3) [OClearOutput; OReplaceGlyphs 1 [7; 8; 9]; ONextGlyph; OSync] with
  | Ok (Some b) => length (pre b ++ rest b) = 4%nat
  | _ => False
  end.
Proof. split; [apply J_init; vm_compute; discriminate|vm_compute; reflexivity]. Qed.
