(* Props/C02.v — property C02 (output clusters come from the input and are monotone in the text
   direction), buffer part.  Statements only; proofs in Proofs/BufferP.v and Proofs/BufferMonoP.v.
   `bop` (Model/BufferOps.v) is the operation alphabet of hb_buffer_t; `step`/`run` its semantics over
   the zipper model, the same functions the correspondence check replays real operation sequences on. *)
From Coq Require Import List NArith Bool Sorted.
From RB Require Import Base.Result Model.Buffer Model.BufferOps Proofs.BufferP Proofs.BufferMonoP Proofs.BufferMonoInplaceP.
From RB Require Gen.Sorts.
Import ListNotations.
Local Open Scope N_scope.

(* Value subset, all three cluster levels, EVERY operation of the alphabet (streaming and in-place,
   incl. sort, reverse_groups, delete_glyphs_inplace, merges, flag calls) and every finite sequence:
   if all clusters of the buffer lie in S, and every glyph info handed to output_info has its cluster in S,
   then after the sequence all clusters lie in S. *)
Theorem C02_subset : forall (S : list N) (ops : list bop) (b b' : zbuf),
  Forall (op_ok S) ops -> Inv S b -> run b ops = Ok (Some b') -> Inv S b'.
Proof. exact run_ok. Qed.
Print Assumptions C02_subset.

Theorem C02_subset_step : forall (S : list N) (b : zbuf) (o : bop) (r : bool) (b' : zbuf),
  op_ok S o -> Inv S b -> step b o = Ok (Some (r, b')) -> Inv S b'.
Proof. exact step_ok. Qed.
Print Assumptions C02_subset_step.

(* Monotone levels (0 and 1): merging a range of a non-decreasing array keeps it non-decreasing, the
   range minimum is the first element's cluster (so nothing has to be patched in the out-buffer), no
   cluster value is invented and the length is unchanged. *)
Theorem C02_merge_monotone : forall l s e r c0 c,
  nd (cls l) -> (s < e)%nat -> (e <= length l)%nat -> merge_array l s e = Ok (r, c0, c) ->
  c = c0 /\ nd (cls r) /\ (forall x, In x (cls r) -> In x (cls l)) /\ length r = length l.
Proof. exact merge_array_nd. Qed.
Print Assumptions C02_merge_monotone.

(* PARTIAL.  Full statement: every operation of the alphabet preserves "non-decreasing" and
   "non-increasing" at levels 0/1 (reverse/reverse_groups swap the two; sort and the shaper moves are
   preceded by the merge the code performs).  Proved: every STREAMING operation (the ones GSUB, morx and
   the shapers' preprocessing use in output mode: next_glyph(s), skip_glyph, replace_glyph(s),
   output_glyph, copy_glyph, delete_glyph, move_to, merge_clusters on the input side, the four
   unsafe_to_* calls, sync) preserves non-decreasing clusters, for every sequence of them.
   Not covered here: merge_out_clusters, output_info (arbitrary cluster by design), the in-place
   operations (delete_glyphs_inplace: Props/C13.v proves minimum/subset on its own model) and the
   non-increasing direction. *)
Theorem C02_monotone_streaming_partial : forall (ops : list bop) (b b' : zbuf),
  Mono b -> guarded b ops -> run b ops = Ok (Some b') -> Mono b'.
Proof. exact run_mono. Qed.
Print Assumptions C02_monotone_streaming_partial.

Theorem C02_monotone_step_partial : forall b o r b',
  stream_op b o -> Mono b -> Lvl01 b -> out_mode b = true -> step b o = Ok (Some (r, b')) -> Mono b'.
Proof. exact step_mono. Qed.
Print Assumptions C02_monotone_step_partial.

(* the flag calls never touch a cluster value *)
(* both modes: every sequence of streaming operations (issued in output mode) and in-place operations
   (merge_clusters, unsafe_to_break/concat, reset_masks, set_masks, sort, delete_glyphs_inplace, clear_output;
   issued in in-place mode) at cluster levels 0/1 keeps non-decreasing clusters non-decreasing.
   Still partial: reverse_range / reverse_groups (forced direction), move_to and next_glyph in in-place mode,
   and output_info are outside the alphabet; the shapers' own reordering is search-only. *)
Theorem C02_monotone_both_modes_partial : forall (ops : list bop) (b b' : zbuf),
  Mono b -> guarded2 b ops -> run b ops = Ok (Some b') -> Mono b'.
Proof. exact run_mono2. Qed.
Print Assumptions C02_monotone_both_modes_partial.

(* backward results: the final reversal (ot_shape.rs position: reverse when the direction is backward) of a
   buffer with non-decreasing clusters has non-increasing clusters *)
Theorem C02_backward_is_non_increasing : forall (ops : list bop) (b b1 b2 : zbuf),
  Mono b -> guarded2 b ops -> run b ops = Ok (Some b1) -> Idle0 b1 -> reverse b1 = Ok b2 -> AMono b2.
Proof. exact run_then_reverse. Qed.
Print Assumptions C02_backward_is_non_increasing.

(* the same as one operation sequence: any guarded sequence, then sync, then the final reverse *)
Theorem C02_backward_pipeline : forall (ops : list bop) (b b2 : zbuf),
  Mono b -> guarded2 b (ops ++ [OSync]) -> run b (ops ++ [OSync; OReverse]) = Ok (Some b2) -> AMono b2.
Proof. exact run_sync_reverse. Qed.
Print Assumptions C02_backward_pipeline.

Theorem C02_sort_keeps_monotone : forall cmp b s e b',
  Mono b -> Lvl01 b -> out_mode b = false -> sort cmp b s e = Ok b' -> Mono b'.
Proof. exact sort_mono. Qed.
Print Assumptions C02_sort_keeps_monotone.

(* the shapers' own reordering sorts a syllable's glyphs by position class with the standard library's sort and relies
   on ties keeping their logical order (clusters before the base are not merged at that point): no call site of an
   UNSTABLE sorting routine anywhere in the source (call sites regenerated on every run, Gen/Sorts.v) *)
Theorem C02_sorts_are_stable : Sorts.unstable_sort_sites = 0%N.
Proof. exact eq_refl. Qed.
Print Assumptions C02_sorts_are_stable.

(* the hypotheses are met by a sequence that uses both modes; the reversed result is non-increasing *)
Example C02_both_modes_example : Mono ex_buf /\ guarded2 ex_buf ex_ops /\
  match run ex_buf ex_ops with
  | Ok (Some b1) => Idle0 b1 /\ match reverse b1 with Ok b2 => map cluster (arr b2) = [5; 0] | _ => False end
  | _ => False
  end.
Proof. exact ex_guarded. Qed.

Theorem C02_flags_keep_clusters : forall b m s e interior from_out b',
  set_glyph_flags b m s e interior from_out = Ok b' -> cls (pre b' ++ rest b') = cls (pre b ++ rest b).
Proof. exact set_glyph_flags_cls. Qed.
Print Assumptions C02_flags_keep_clusters.

(* non-vacuity: a concrete monotone buffer in output mode, a ligature-like replace_glyphs over two
   clusters followed by a copy and a sync: hypotheses hold and the result is as expected *)
Definition ex_buf : zbuf :=
  mkZ [] [mkInfo 10 0 0 0 0; mkInfo 11 0 2 0 0; mkInfo 12 0 2 0 0; mkInfo 13 0 5 0 0] 0 true 0 3 true 16384 0.
Definition ex_ops : list bop := [ONextGlyph; OReplaceGlyphs 2 [99]; OCopyGlyph; OSync].

Example C02_example :
  Mono ex_buf /\ guarded ex_buf ex_ops /\ Inv [0; 2; 5] ex_buf /\
  (match run ex_buf ex_ops with
   | Ok (Some b) => map (fun i => (gid i, cluster i)) (pre b ++ rest b)
   | _ => [] end) = [(10, 0); (99, 2); (13, 5); (13, 5)].
Proof.
  split; [|split; [|split]].
  - unfold Mono, nd, cls. cbn. repeat (constructor; [|repeat (constructor; try (cbv; discriminate))]). constructor.
  - vm_compute. repeat split; try discriminate; try (intros; discriminate); auto.
  - split; cbn; repeat (constructor; [cbn; auto 10|]); constructor.
  - vm_compute. reflexivity.
Qed.
