(* Props/C03.v — property C03 (a cluster start without UNSAFE_TO_BREAK is a safe place to break):
   what the flag primitives guarantee.  PARTIAL by design: the full property is a statement about the
   whole shaping engine (locality of every lookup and shaper); it is not proved.  Proved here, for all
   buffers: the minimum cluster of a non-decreasing range is found correctly at both monotone levels,
   unsafe_to_break flags exactly the glyphs of the range whose cluster is not that minimum (every
   cluster boundary strictly inside the range), flag calls change no cluster, flags survive on a glyph
   whose cluster does not change.  The engine-wide statement is covered by the flag correspondence of
   every lookup property and by the piece-reshaping search (see props/C03.py). *)
From Coq Require Import List NArith Bool Sorted.
From RB Require Import Base.Result Model.Buffer Model.BufferOps Model.Font Model.Skip Model.Gsub Proofs.BufferMonoP Proofs.BufferFlagsP Proofs.GsubConcatP.
Import ListNotations.
Local Open Scope N_scope.

Theorem C03_min_cluster : forall lvl l s e init first,
  nd (cls l) -> (s < e)%nat -> (e <= length l)%nat -> nth_error l s = Some first ->
  find_min_cluster lvl l s e init = Ok (N.min init (cluster first)).
Proof. exact find_min_cluster_nd. Qed.
Print Assumptions C03_min_cluster.

(* levels 0 and 1: exactly the glyphs of [s,e) whose cluster is not the range minimum are flagged;
   everything outside the range, and every glyph id and cluster, is untouched *)
Theorem C03_interior_flagged : forall lvl l s e m first,
  lvl <> 2 -> nd (cls l) -> (s < e)%nat -> (e <= length l)%nat -> nth_error l s = Some first ->
  exists ap, infos_set_glyph_flags lvl l s e (cluster first) m =
    Ok (firstn s l ++ map (flag_ne (cluster first) m) (slice l s e) ++ skipn e l, ap).
Proof. exact infos_set_glyph_flags_nd. Qed.
Print Assumptions C03_interior_flagged.

(* level 2 (arbitrary cluster order): every glyph of the range with a different cluster is flagged *)
Theorem C03_interior_flagged_level2 : forall l s e c m first last,
  (s < e)%nat -> nth_error l s = Some first -> nth_error l (e - 1) = Some last ->
  infos_set_glyph_flags 2 l s e c m =
    Ok (firstn s l ++ map (flag_ne c m) (slice l s e) ++ skipn e l,
        existsb (fun x => negb (cluster x =? c)) (slice l s e)).
Proof. exact infos_set_glyph_flags_lvl2. Qed.
Print Assumptions C03_interior_flagged_level2.

Theorem C03_flagged_has_bits : forall c m x, cluster x <> c -> N.land (mask (flag_ne c m x)) m = m.
Proof. exact flag_ne_has_mask. Qed.
Print Assumptions C03_flagged_has_bits.

Theorem C03_flagging_keeps_glyph : forall c m x, cluster (flag_ne c m x) = cluster x /\ gid (flag_ne c m x) = gid x.
Proof. exact flag_ne_keeps. Qed.
Print Assumptions C03_flagging_keeps_glyph.

(* the buffer call itself, in-place mode, monotone level, non-decreasing buffer *)
Theorem C03_unsafe_to_break_buffer : forall b s e first,
  out_mode b = false -> level b <> 2 -> Mono b -> (s + 2 <= e)%nat -> (e <= blen b)%nat ->
  nth_error (pre b ++ rest b) s = Some first -> dead b = length (pre b) -> cluster first <= U32_MAX ->
  exists b', unsafe_to_break b (Some s) (Some e) = Ok b' /\
    pre b' ++ rest b' = firstn s (arr b) ++ map (flag_ne (cluster first) BREAK_CONCAT) (slice (arr b) s e) ++ skipn e (arr b).
Proof. exact unsafe_to_break_inplace_nd. Qed.
Print Assumptions C03_unsafe_to_break_buffer.

(* no flag call changes a cluster value (all four calls, both modes, all levels) *)
Theorem C03_flag_calls_keep_clusters : forall b m s e interior from_out b',
  set_glyph_flags b m s e interior from_out = Ok b' -> cls (pre b' ++ rest b') = cls (pre b ++ rest b).
Proof. exact set_glyph_flags_cls. Qed.
Print Assumptions C03_flag_calls_keep_clusters.

(* set_cluster resets glyph flags only when the cluster value changes *)
Theorem C03_flags_survive : forall x m, set_cluster x (cluster x) m = x.
Proof. exact set_cluster_same. Qed.
Print Assumptions C03_flags_survive.

(* lookup level (Model/Gsub.v, the interpreter C06's correspondence runs against the implementation): a context rule
   that matches info[idx..en) hands its nested lookups a buffer in which exactly the glyphs of the match range whose
   cluster is not the range's minimum carry UNSAFE_TO_BREAK (and UNSAFE_TO_CONCAT); nothing else changed.  Levels 0/1,
   clusters non-decreasing in processing order (C02's invariant). *)
Theorem C03_context_match_flags_range : forall f e props rec cof preds recs c ps en t first,
  out_mode (buf c) = true -> level (buf c) <> 2 -> nd (cls (rest (buf c))) ->
  (dead (buf c) + 2 <= en)%nat -> (en <= blen (buf c))%nat ->
  nth_error (rest (buf c)) 0 = Some first -> cluster first <= U32_MAX ->
  match_input f e props (buf c) preds = Ok (MIok ps en t) ->
  exists b', rest b' = map (flag_ne (cluster first) BREAK_CONCAT) (firstn (en - dead (buf c)) (rest (buf c)))
                       ++ skipn (en - dead (buf c)) (rest (buf c))
             /\ pre b' = pre (buf c)
             /\ apply_context f e props rec cof preds recs c
                = (do c' <- apply_lookup rec (with_buf c b') ps en recs; Ok (true, c')).
Proof. exact context_match_flags_range. Qed.
Print Assumptions C03_context_match_flags_range.

(* non-vacuity: clusters 0 0 1 2 2 3, unsafe_to_break(1, 5): the glyphs of clusters 1 and 2 get the
   flags, the glyph of cluster 0 inside the range does not *)
Example C03_example :
  let b := mkZ [] [mkInfo 1 0 0 0 0; mkInfo 2 0 0 0 0; mkInfo 3 0 1 0 0; mkInfo 4 0 2 0 0; mkInfo 5 0 2 0 0; mkInfo 6 0 3 0 0]
               0 false 0 3 true 16384 0 in
  match unsafe_to_break b (Some 1%nat) (Some 5%nat) with
  | Ok b' => map mask (pre b' ++ rest b') = [0; 0; 3; 3; 3; 0]
  | Error _ => False
  end.
Proof. vm_compute. reflexivity. Qed.
