(* Props/C04.v — property C04 (UNSAFE_TO_CONCAT sound; flags clean and uniform per cluster).
   Statements only.  The constants and the shape of propagate_flags are the ones of the CURRENT source
   (Gen/Flags.v): `propagate_flags propagate_writeback_unconditional ...` is the model of what the code
   does now, so the theorems below fail to type-check when the write-back regresses or the two PRODUCE
   flags share a bit again. *)
From Coq Require Import List NArith Bool.
From RB Require Import Base.Result Gen.Flags Model.Buffer Model.Flags Model.Font Model.Skip Model.Gsub Proofs.FlagsP Proofs.GsubConcatP.
From RB Require Model.BufferOps Proofs.BufferMaskP Proofs.BufferFlagFrameP.
Import ListNotations.
Local Open Scope N_scope.

Definition is_single_bit (v : N) : bool := (0 <? v) && (N.land v (v - 1) =? 0).
Fixpoint pairwise_distinct (l : list N) : bool :=
  match l with [] => true | x :: t => negb (existsb (N.eqb x) t) && pairwise_distinct t end.

(* the named BufferFlags constants are pairwise distinct single bits inside DEFINED *)
Theorem C04_buffer_flags_distinct :
  pairwise_distinct buffer_flag_values = true /\
  forallb is_single_bit buffer_flag_values = true /\
  forallb (fun v => N.land v buffer_flags_defined =? v) buffer_flag_values = true /\
  flag_produce_unsafe_to_concat <> flag_produce_safe_to_insert_tatweel.
Proof. repeat split; try (vm_compute; reflexivity). vm_compute. discriminate. Qed.
Print Assumptions C04_buffer_flags_distinct.

(* the glyph-flag constants of the model are the source's *)
Theorem C04_glyph_flag_constants :
  glyph_flag_unsafe_to_break = UNSAFE_TO_BREAK /\ glyph_flag_unsafe_to_concat = UNSAFE_TO_CONCAT /\
  glyph_flag_safe_to_insert_tatweel = SAFE_TO_INSERT_TATWEEL /\ glyph_flag_defined = GLYPH_FLAGS_DEFINED.
Proof. repeat split; exact eq_refl. Qed.
Print Assumptions C04_glyph_flag_constants.

Definition propagate (bflags scratch : N) (l : list info) : list info :=
  propagate_flags propagate_writeback_unconditional flag_produce_unsafe_to_concat
                  flag_produce_safe_to_insert_tatweel bflags scratch l.

(* every glyph of the result carries exactly the adjusted OR of the flags of its cluster group:
   all glyphs of one cluster expose the same flags, for every subset of the two PRODUCE flags *)
Theorem C04_uniform : forall bflags scratch l x,
  N.land scratch SCRATCH_HAS_GLYPH_FLAGS <> 0 -> In x (propagate bflags scratch l) ->
  exists grp, In grp (cluster_groups l) /\
    mask x = adjust_mask (flip_tatweel_of bflags flag_produce_safe_to_insert_tatweel)
                         (clear_concat_of bflags flag_produce_unsafe_to_concat) (group_mask grp).
Proof. exact (propagate_flags_spec flag_produce_unsafe_to_concat flag_produce_safe_to_insert_tatweel). Qed.
Print Assumptions C04_uniform.

Theorem C04_group_uniform : forall f c grp, uniform (propagate_group propagate_writeback_unconditional f c grp).
Proof. exact propagate_group_uniform. Qed.
Print Assumptions C04_group_uniform.

(* no bit outside the defined flag set survives *)
Theorem C04_defined_only : forall bflags scratch l x,
  N.land scratch SCRATCH_HAS_GLYPH_FLAGS <> 0 -> In x (propagate bflags scratch l) -> mask x < 8.
Proof. exact (propagate_flags_defined_only flag_produce_unsafe_to_concat flag_produce_safe_to_insert_tatweel). Qed.
Print Assumptions C04_defined_only.

(* UNSAFE_TO_CONCAT appears only when PRODUCE_UNSAFE_TO_CONCAT was requested *)
Theorem C04_concat_gated : forall bflags scratch l x,
  N.land scratch SCRATCH_HAS_GLYPH_FLAGS <> 0 -> N.land bflags flag_produce_unsafe_to_concat = 0 ->
  In x (propagate bflags scratch l) -> N.testbit (mask x) 1 = false.
Proof. exact (propagate_flags_concat_gated flag_produce_unsafe_to_concat flag_produce_safe_to_insert_tatweel). Qed.
Print Assumptions C04_concat_gated.

(* with PRODUCE_UNSAFE_TO_CONCAT every UNSAFE_TO_BREAK glyph is also UNSAFE_TO_CONCAT, provided the
   setters kept that implication per glyph (they OR both bits together, see Buffer.unsafe_to_break) *)
Theorem C04_break_implies_concat : forall bflags scratch l x,
  N.land scratch SCRATCH_HAS_GLYPH_FLAGS <> 0 -> N.land bflags flag_produce_unsafe_to_concat <> 0 ->
  (forall y, In y l -> N.testbit (exposed y) 0 = true -> N.testbit (exposed y) 1 = true) ->
  In x (propagate bflags scratch l) -> N.testbit (mask x) 0 = true -> N.testbit (mask x) 1 = true.
Proof. exact (propagate_flags_break_implies_concat flag_produce_unsafe_to_concat flag_produce_safe_to_insert_tatweel). Qed.
Print Assumptions C04_break_implies_concat.

(* SAFE_TO_INSERT_TATWEEL is never created by the propagation when its PRODUCE flag is off *)
Theorem C04_tatweel_gated : forall bflags scratch l x,
  N.land scratch SCRATCH_HAS_GLYPH_FLAGS <> 0 -> N.land bflags flag_produce_safe_to_insert_tatweel = 0 ->
  (forall y, In y l -> N.testbit (exposed y) 2 = false) ->
  In x (propagate bflags scratch l) -> N.testbit (mask x) 2 = false.
Proof. exact (propagate_flags_tatweel_gated flag_produce_unsafe_to_concat flag_produce_safe_to_insert_tatweel). Qed.
Print Assumptions C04_tatweel_gated.

(* the propagation changes neither glyph ids nor clusters *)
Theorem C04_frame : forall w f c grp,
  map cluster (propagate_group w f c grp) = map cluster grp /\ map gid (propagate_group w f c grp) = map gid grp.
Proof. intros; split; [apply propagate_group_clusters|apply propagate_group_gids]. Qed.
Print Assumptions C04_frame.

(* the repaired defect, kept as a lemma about the OLD shape (write-back only without PRODUCE_UNSAFE_TO_CONCAT) *)
Theorem C04_old_writeback_refuted : exists grp, ~ uniform (propagate_group false false false grp).
Proof. exact propagate_not_uniform_without_writeback. Qed.
Print Assumptions C04_old_writeback_refuted.

(* ---- second sentence, lookup level: a contextual rule that does not match flags what it inspected ----
   Model/Gsub.v is the GSUB interpreter the C06 correspondence runs against the implementation (flags included).
   A plain context rule (formats 1-3; formats 1/2 since /repo a48a496) whose input fails at `en` leaves
   UNSAFE_TO_CONCAT on every glyph of info[idx..min(en,len)). *)
Theorem C04_context_mismatch_flags_inspected : forall f e props rec preds recs c c' en,
  out_mode (buf c) = true -> produce_concat (buf c) = true ->
  match_input f e props (buf c) preds = Ok (MIfail (Some en)) ->
  apply_context f e props rec true preds recs c = Ok (false, c') ->
  forall k g, (k < Nat.min en (blen (buf c)) - dead (buf c))%nat ->
              nth_error (rest (buf c')) k = Some g -> has_concat g = true.
Proof. exact context_mismatch_flags_inspected. Qed.
Print Assumptions C04_context_mismatch_flags_inspected.

(* a chain context rule whose INPUT fails at `en` does the same (since /repo cce4fb5; HarfBuzz flags nothing there) *)
Theorem C04_chain_input_mismatch_flags_inspected : forall f e props rec back inp ahead recs c c' en,
  out_mode (buf c) = true -> produce_concat (buf c) = true ->
  match_input f e props (buf c) inp = Ok (MIfail (Some en)) ->
  apply_chain_context f e props rec back inp ahead recs c = Ok (false, c') ->
  forall k g, (k < Nat.min en (blen (buf c)) - dead (buf c))%nat ->
              nth_error (rest (buf c')) k = Some g -> has_concat g = true.
Proof. exact chain_input_mismatch_flags_inspected. Qed.
Print Assumptions C04_chain_input_mismatch_flags_inspected.

(* UNSAFE_TO_CONCAT appears only when requested: without the PRODUCE flag a failed rule changes nothing *)
Theorem C04_context_mismatch_silent_when_not_requested : forall f e props rec preds recs c c' en,
  produce_concat (buf c) = false ->
  match_input f e props (buf c) preds = Ok (MIfail en) ->
  apply_context f e props rec true preds recs c = Ok (false, c') -> c' = c.
Proof. exact context_mismatch_silent_when_not_requested. Qed.
Print Assumptions C04_context_mismatch_silent_when_not_requested.

(* the formats 1/2 rule sets of the model do pass `true` (what a48a496 changed): a subtable whose only rule fails *)
Example C04_context1_calls_with_concat_on_fail :
  forall f e props n rec cov rs c x k,
    cur (buf c) = Ok x -> coverage_index cov (gid x) = Some k ->
    subtable_apply f e props n rec (SContext1 cov rs) c
    = first_apply (fun r => apply_context f e props rec true (preds_glyph (sr_input r)) (sr_lookups r))
                  (match nth_error rs (N.to_nat k) with Some l => l | None => [] end) c.
Proof. intros. cbn [subtable_apply]. rewrite H. cbn [bind]. rewrite H0. reflexivity. Qed.

(* non-vacuity: two clusters, flags on one glyph of each, PRODUCE_UNSAFE_TO_CONCAT requested *)
(* the flag calls of the buffer (unsafe_to_break, unsafe_to_concat and their out-buffer forms are all set_glyph_flags with a
   flag value) write flag bits and nothing else: the sequence of glyph ids and, glyph by glyph, every mask bit outside the
   three flag bits are as before, in every mode and for every range (clusters: C02_flags_keep_clusters) *)
Theorem C04_flag_calls_keep_glyphs : forall b m s e interior from_out b',
  set_glyph_flags b m s e interior from_out = Ok b' -> map gid (pre b' ++ rest b') = map gid (pre b ++ rest b).
Proof. exact BufferFlagFrameP.set_glyph_flags_gids. Qed.
Print Assumptions C04_flag_calls_keep_glyphs.

Theorem C04_flag_calls_keep_feature_bits : forall b m s e interior from_out b', N.ldiff m GLYPH_FLAGS_DEFINED = 0%N ->
  set_glyph_flags b m s e interior from_out = Ok b' ->
  map BufferMaskP.fbits (pre b' ++ rest b') = map BufferMaskP.fbits (pre b ++ rest b).
Proof. exact BufferFlagFrameP.set_glyph_flags_fbits. Qed.
Print Assumptions C04_flag_calls_keep_feature_bits.

(* ... and so does every finite sequence of pure bookkeeping operations - cluster merges in both buffers, the four flag calls
   and the cursor steps next_glyph / next_glyphs, with any
   arguments, in any mode, at any cluster level (operation alphabet and `run` of Model/BufferOps.v, the model the
   operation-sequence correspondence replays) *)
Theorem C04_bookkeeping_sequences_keep_glyphs : forall ops b b', forallb BufferFlagFrameP.bookkeeping ops = true ->
  BufferOps.run b ops = Ok (Some b') -> map gid (pre b' ++ rest b') = map gid (pre b ++ rest b).
Proof. exact BufferFlagFrameP.run_bookkeeping_gids. Qed.
Print Assumptions C04_bookkeeping_sequences_keep_glyphs.

Theorem C04_bookkeeping_sequences_keep_feature_bits : forall ops b b', forallb BufferFlagFrameP.bookkeeping ops = true ->
  BufferOps.run b ops = Ok (Some b') -> map BufferMaskP.fbits (pre b' ++ rest b') = map BufferMaskP.fbits (pre b ++ rest b).
Proof. exact BufferFlagFrameP.run_bookkeeping_fbits. Qed.
Print Assumptions C04_bookkeeping_sequences_keep_feature_bits.

Example C04_example :
  map (fun i => (cluster i, mask i))
      (propagate 64 32 [mkInfo 1 0 0 0 0; mkInfo 2 3 0 0 0; mkInfo 3 16 4 0 0; mkInfo 4 2 4 0 0])
  = [(0, 3); (0, 3); (4, 2); (4, 2)].
Proof. vm_compute. reflexivity. Qed.
