(* Props/C05.v — property C05 (shaping is a pure function: repeatable; buffer / plan reuse and
   threads are safe).  Statements over Model/Api.v, the public buffer API as a state machine; the shaping
   core is an arbitrary function of the observable request and the per-call budgets (Section variable:
   the theorems hold for every core).  The code-shape fact `shape_with_plan_leave_unconditional` and the
   budget constants come from the current source (Gen/Flags.v); the audit counts from Gen/Audit.v. *)
From Coq Require Import List NArith ZArith Bool.
From RB Require Import Gen.Flags Gen.Audit Model.Api Proofs.ApiP.
Import ListNotations.
Local Open Scope N_scope.

Theorem C05_constants :
  buf_max_len_factor = MAX_LEN_FACTOR /\ buf_max_len_min = MAX_LEN_MIN /\ buf_max_len_default = MAX_LEN_DEFAULT /\
  buf_max_ops_factor = MAX_OPS_FACTOR /\ buf_max_ops_min = MAX_OPS_MIN /\ buf_max_ops_default = MAX_OPS_DEFAULT.
Proof. repeat split; exact eq_refl. Qed.
Print Assumptions C05_constants.

(* every state reachable by fill / shape / clear histories is Idle: budgets at their defaults, nothing
   in progress — for every core, every history of requests (texts below the default budget 0x3FFFFFFF) *)
Theorem C05_idle_inv : forall (result : Type) (core : request -> N -> N -> result) (empty : result) (rs : list request),
  Forall small rs -> Idle (history result core empty shape_with_plan_leave_unconditional a_new rs).
Proof. intros. apply history_idle; [apply Idle_new|assumption]. Qed.
Print Assumptions C05_idle_inv.

(* the result of a request issued after ANY history on a recycled buffer equals the result on a fresh buffer *)
Theorem C05_history_independent : forall (result : Type) (core : request -> N -> N -> result) (empty : result) rs r,
  Forall small rs -> small r ->
  fst (use_once result core empty shape_with_plan_leave_unconditional
                (history result core empty shape_with_plan_leave_unconditional a_new rs) r)
  = fresh_result result core empty shape_with_plan_leave_unconditional r.
Proof. exact history_independent. Qed.
Print Assumptions C05_history_independent.

(* GlyphBuffer::clear gives a fresh buffer except for the flags, which the caller sets with each request *)
Theorem C05_clear_fresh : forall b, a_max_len b = MAX_LEN_DEFAULT -> a_max_ops b = MAX_OPS_DEFAULT ->
  a_clear b = mkA [] [] [] 0 0 [] (a_flags b) 0 None MAX_LEN_DEFAULT MAX_OPS_DEFAULT 0 0 false false true 0 0.
Proof. exact clear_fresh. Qed.
Print Assumptions C05_clear_fresh.

(* repeating a call: the same request on the same (Idle) state gives the same result — a function *)
Theorem C05_repeatable : forall (result : Type) (core : request -> N -> N -> result) (empty : result) b r,
  fst (use_once result core empty shape_with_plan_leave_unconditional b r)
  = fst (use_once result core empty shape_with_plan_leave_unconditional b r).
Proof. reflexivity. Qed.
Print Assumptions C05_repeatable.

(* threads that own their buffers and share only immutable data: any interleaving leaves every thread
   on its way to the state it reaches when run alone *)
Theorem C05_schedule_independent : forall (St Op : Type) (stp : St -> Op -> St) sched ths,
  map (final_of St Op stp) (run_sched St Op stp ths sched) = map (final_of St Op stp) ths.
Proof. intros. apply schedule_independent. Qed.
Print Assumptions C05_schedule_independent.

(* the premise of that model, checked on the current source: no global item with interior mutability,
   no unsafe code beyond the bytemuck marker impls, no mention of an interior-mutability type (Cell, RefCell, Atomic*, Mutex,
   OnceCell, ...) anywhere outside the reviewed call-local uses *)
Theorem C05_no_shared_mutable_state : shared_mutable_statics = 0 /\ unsafe_sites = 0 /\ unreviewed_interior_mutability_sites = 0.
Proof. repeat split; exact eq_refl. Qed.
Print Assumptions C05_no_shared_mutable_state.

(* the repaired defect, as a statement about the OLD shape (no leave() for an empty buffer) *)
Theorem C05_old_shape_refuted :
  let core := fun (r : request) (_ _ : N) => N.of_nat (length (r_text r)) in
  fst (use_once N core 0 false (history N core 0 false a_new [req_of_text []]) (req_of_text (long_text (N.to_nat 16400))))
  <> fresh_result N core 0 false (req_of_text (long_text (N.to_nat 16400))).
Proof. exact old_shape_drops_text. Qed.
Print Assumptions C05_old_shape_refuted.

Example C05_example : small (req_of_text (long_text 5)) /\ Idle a_new.
Proof. split; [vm_compute; discriminate|apply Idle_new]. Qed.
