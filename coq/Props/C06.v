(* Props/C06.v — property C06: GSUB lookups are applied as the OpenType substitution model prescribes.
   The operational model is the interpreter Model/Gsub.v over the zipper buffer (Model/Buffer.v), driven by the
   plan of Model/OtMap.v and the pipeline Model/GsubPipe.v; its tie to the implementation is the
   correspondence check (Corr/GsubC.v, props/C06.py).  This file only states theorems, each closed by `exact`. *)
From Coq Require Import List NArith ZArith Bool Arith Sorting.Sorted.
From RB Require Import Base.Result Model.Buffer Model.Font Model.Skip Model.OtMap Model.Gsub Model.GsubPipe.
From RB Require Import Proofs.GsubMapP Proofs.GsubP Proofs.GsubLigP Proofs.GsubFlatP Proofs.GsubMultP.
Import ListNotations.
Local Open Scope N_scope.

(* ---- single substitution: the pass of a lookup made of single-substitution subtables over a glyph string l
   is `map` of the substitution over the glyphs that are mask-enabled, not skipped by the lookup flags
   (glyph_enabled = mask test && check_glyph_property) and covered (first covering subtable wins);
   `at_rest b l`: b is a buffer between lookups holding the string l *)
Theorem C06_single : forall f e lk c l,
  forallb is_single (lk_subtables lk) = true ->
  at_rest (buf c) l -> l <> [] -> le_mask e <> 0 -> N.of_nat (length l) <= max_len (buf c) ->
  exists b', apply_string f e lk c = Ok (Some (with_buf c b'))
             /\ at_rest b' (map (single_map f e lk) l)
             /\ level b' = level (buf c) /\ bflags b' = bflags (buf c) /\ max_len b' = max_len (buf c)
             /\ scratch b' = scratch (buf c).
Proof. exact single_apply_string. Qed.
Print Assumptions C06_single.

(* ... and a replaced glyph keeps its cluster, mask and unicode props; its id is the substitute *)
Theorem C06_single_unchanged_fields : forall f e lk sub x,
  cluster (repl f e lk sub x) = cluster x /\ mask (repl f e lk sub x) = mask x /\ var2 (repl f e lk sub x) = var2 x
  /\ gid (repl f e lk sub x) = (if glyph_enabled f e (lookup_props_of lk) x
                                then match sub x with Some g => g | None => gid x end else gid x).
Proof. exact repl_fields. Qed.
Print Assumptions C06_single_unchanged_fields.

(* ---- alternate substitution (any feature but `rand`): the k-th alternate, k read from the glyph's mask
   field of the feature (alt_index = (lookup_mask & glyph mask) >> trailing_zeros(lookup_mask)) *)
Theorem C06_alternate : forall f e lk c l,
  le_random e = false ->
  forallb is_alternate (lk_subtables lk) = true ->
  at_rest (buf c) l -> l <> [] -> le_mask e <> 0 -> N.of_nat (length l) <= max_len (buf c) ->
  exists b', apply_string f e lk c = Ok (Some (with_buf c b'))
             /\ at_rest b' (map (alternate_map f e lk) l)
             /\ level b' = level (buf c) /\ bflags b' = bflags (buf c) /\ max_len b' = max_len (buf c)
             /\ scratch b' = scratch (buf c).
Proof. exact alternate_apply_string. Qed.
Print Assumptions C06_alternate.

(* ---- multiple substitution without deletion: the pass is `flat_map`; a covered, enabled glyph becomes the glyphs
   of its sequence (first covering subtable), each with the cluster and the mask of the original.
   K bounds the sequence lengths (room in the buffer: K * length l <= max_len).
   FULL statement (deletion included) is not proved: an empty sequence runs delete_glyph, which merges the
   deleted glyph's cluster into a neighbour (backward into the out-buffer, else forward); that case is covered
   by the correspondence runs and by the independent flat_map oracle of the harness (glyph ids). *)
Theorem C06_multiple_partial : forall f e lk K c l,
  (1 <= K)%nat -> forallb (is_multiple_nodel K) (lk_subtables lk) = true ->
  at_rest (buf c) l -> l <> [] -> le_mask e <> 0 -> N.of_nat (K * length l) <= max_len (buf c) ->
  exists b', apply_string f e lk c = Ok (Some (with_buf c b'))
             /\ at_rest b' (flat_map (multiple_map f e lk) l)
             /\ level b' = level (buf c) /\ bflags b' = bflags (buf c) /\ max_len b' = max_len (buf c)
             /\ scratch b' = scratch (buf c).
Proof. exact multiple_apply_string. Qed.
Print Assumptions C06_multiple_partial.

Theorem C06_multiple_fields : forall f e lk x,
  (forall y, In y (multiple_map f e lk x) -> cluster y = cluster x /\ mask y = mask x)
  /\ map gid (multiple_map f e lk x)
     = (if glyph_enabled f e (lookup_props_of lk) x
        then match multiple_sub (lk_subtables lk) (gid x) with Some gs => gs | None => [gid x] end else [gid x]).
Proof. exact multiple_map_fields. Qed.
Print Assumptions C06_multiple_fields.

(* ---- ligatures: for ALL inputs of ligate_input at cluster levels 0 and 1, the ligature glyph (written at the
   end of the out-buffer) has the given glyph id and its cluster is the minimum of the clusters of the matched
   range info[idx .. match_end), which contains every component (and the skipped glyphs between them; with no
   skipping the range is exactly the components) *)
Theorem C06_ligature_cluster_min : forall f c mps match_end total g c',
  level (buf c) <> 2 -> out_mode (buf c) = true ->
  (dead (buf c) + 2 <= match_end)%nat -> (match_end <= dead (buf c) + length (rest (buf c)))%nat ->
  N.of_nat (length (pre (buf c)) + length (rest (buf c))) <= max_len (buf c) ->
  ligate_input f c mps match_end total g = Ok c' ->
  exists lig, nth_error (pre (buf c')) (length (pre (buf c))) = Some lig /\ gid lig = g
              /\ is_min_of (cluster lig) (firstn (match_end - dead (buf c)) (rest (buf c))).
Proof. exact ligate_input_cluster_min. Qed.
Print Assumptions C06_ligature_cluster_min.

(* ---- stage order: every stage of the compiled plan lists its lookups in strictly ascending lookup-index
   order (hence without duplicates), for all fonts, directions and user feature lists *)
Theorem C06_stage_order : forall f rtl user st,
  In st (pl_stages (compile_plan f rtl user)) -> StronglySorted idx_lt st.
Proof. exact plan_stage_ascending. Qed.
Print Assumptions C06_stage_order.

(* ... a stage is sort_dedup of the lookups collected for it; sort_dedup keeps exactly the collected lookup
   indices, and the mask of an entry is the OR of the masks of all collected entries with that index *)
Theorem C06_stage_is_sort_dedup : forall f rtl user st,
  In st (pl_stages (compile_plan f rtl user)) -> exists collected, st = sort_dedup collected.
Proof. exact plan_stage_is_sort_dedup. Qed.
Print Assumptions C06_stage_is_sort_dedup.

Theorem C06_stage_indices : forall l i, In i (map lm_index (sort_dedup l)) <-> In i (map lm_index l).
Proof. exact sort_dedup_indices. Qed.
Print Assumptions C06_stage_indices.

Theorem C06_stage_masks_ored : forall l m, In m (sort_dedup l) ->
  lm_mask m = or_masks (filter (same_index (lm_index m)) l).
Proof. exact sort_dedup_masks. Qed.
Print Assumptions C06_stage_masks_ored.

(* ---- termination.  FULL statement (not proved): for every lookup, apply_forward (forward_fuel b) never returns
   OutOfFuel.  Proved here: for lookups whose subtables are contextual / chained-contextual (all formats) without
   nested lookup records, any fuel >= the input length suffices (forward_fuel is larger); for single and alternate
   lookups C06_single / C06_alternate give an `Ok` result directly.  Multiple, ligature and nested lookups are
   covered by the correspondence runs only (no OutOfFuel outcome is tolerated there). *)
Theorem C06_total_partial : forall f e lk fuel c,
  flat_lookup lk = true -> out_mode (buf c) = true -> (length (rest (buf c)) <= fuel)%nat ->
  apply_forward fuel f e lk c <> Error OutOfFuel.
Proof. exact flat_forward_total. Qed.
Print Assumptions C06_total_partial.

Theorem C06_fuel_supplied : forall b, (length (rest b) <= forward_fuel b)%nat.
Proof. exact forward_fuel_enough. Qed.
Print Assumptions C06_fuel_supplied.

(* nesting: `recurse` is structural on the nesting level left, which starts at 64 (HB_MAX_NESTING_LEVEL); at level 0
   it refuses and flags the buffer *)
Theorem C06_nesting_bound : MAX_NESTING_LEVEL = 64%nat /\
  forall f e li c, recurse_n f e 0 li c = Ok (false, set_failed c).
Proof. exact (conj eq_refl (fun f e li c => eq_refl)). Qed.
Print Assumptions C06_nesting_bound.

(* ---- a contextual lookup whose rules carry no nested lookup records leaves glyph ids, clusters and glyph
   properties unchanged (strip = everything but the mask); only masks (glyph flags) may change *)
Theorem C06_no_nested_is_identity : forall f e lk c c' l,
  flat_lookup lk = true -> at_rest (buf c) l -> apply_string f e lk c = Ok (Some c') ->
  map strip (arr (buf c')) = map strip l.
Proof. exact flat_apply_string_identity. Qed.
Print Assumptions C06_no_nested_is_identity.

(* ================= non-vacuity: concrete fonts evaluated by the model ================= *)

(* glyphs 1..9 <- U+E000..; one ligature lookup 1 2 -> 6 under liga *)
Definition ex_font (lookups : list (lookup subst_subtable)) (feats : list (N * list N)) : font :=
  mkFont 10 1000 800%Z (-200)%Z 0%Z [] None
         [(57344, 1); (57345, 2); (57346, 3); (57347, 4); (57348, 5); (57349, 6); (57350, 7); (57351, 8); (57352, 9)] []
         None
         (Some (mkLayout [mkScript T_DFLT (Some (mkLangSys None (map N.of_nat (seq 0 (length feats))))) []] feats lookups))
         None None None.

Definition ex_req (t : list (N * N)) (lvl : N) : request := mkReq t false lvl 0 [].

(* single substitution 1 -> 5, 3 -> 7 is a map; clusters kept *)
Example C06_example_single :
  shape_model (ex_font [mkLookup 0 None [SSingle2 (CovGlyphs [1; 3]) [5; 7]]] [(T_liga, [0])])
              (ex_req [(57344, 0); (57345, 1); (57346, 2); (57344, 3)] 0)
  = OutGlyphs [(5, 0, 0); (2, 1, 0); (7, 2, 0); (5, 3, 0)].
Proof. vm_compute. reflexivity. Qed.

(* multiple substitution 1 -> 4 5 6, 2 -> (deleted): flat_map; the deleted glyph's cluster 1 disappears (nothing to merge:
   the previous cluster 0 is smaller) *)
Example C06_example_multiple :
  shape_model (ex_font [mkLookup 0 None [SMultiple (CovGlyphs [1; 2]) [[4; 5; 6]; []]]] [(T_ccmp, [0])])
              (ex_req [(57344, 0); (57345, 1); (57346, 2)] 0)
  = OutGlyphs [(4, 0, 0); (5, 0, 0); (6, 0, 0); (3, 2, 0)].
Proof. vm_compute. reflexivity. Qed.

(* ligature 1 2 -> 6 with clusters 5,3: the ligature takes cluster 3 (levels 0, 1); at level 2 clusters are not merged *)
Example C06_example_ligature_min :
  let f := ex_font [mkLookup 0 None [SLigature (CovGlyphs [1]) [[mkLig 6 [2]]]]] [(T_liga, [0])] in
  shape_model f (ex_req [(57346, 9); (57344, 5); (57345, 3); (57347, 8)] 0) = OutGlyphs [(3, 9, 0); (6, 3, 0); (4, 8, 0)]
  /\ shape_model f (ex_req [(57346, 9); (57344, 5); (57345, 3); (57347, 8)] 1) = OutGlyphs [(3, 9, 0); (6, 3, 0); (4, 8, 0)]
  /\ shape_model f (ex_req [(57346, 9); (57344, 5); (57345, 3); (57347, 8)] 2) = OutGlyphs [(3, 9, 0); (6, 5, 1); (4, 8, 0)].
Proof. vm_compute. repeat split; reflexivity. Qed.

(* stage order: lookup 1 under rvrn (stage 0) runs before lookup 0 under liga; lookups shared by two features of a
   stage appear once with OR-ed masks *)
Example C06_example_stage_order :
  let f := ex_font [mkLookup 0 None [SSingle2 (CovGlyphs [2]) [3]]; mkLookup 0 None [SSingle2 (CovGlyphs [1]) [2]]]
                   [(T_rvrn, [1]); (T_liga, [0; 1]); (tag4 115 115 48 49, [0; 1])] in
  map (map lm_index) (pl_stages (compile_plan f false [mkUF (tag4 115 115 48 49) 1 2 5])) = [[1]; [0; 1]]
  /\ map (map lm_mask) (pl_stages (compile_plan f false [mkUF (tag4 115 115 48 49) 1 2 5]))
     = [[GLOBAL_BIT_MASK]; [GLOBAL_BIT_MASK + 16; GLOBAL_BIT_MASK + 16]]
  /\ shape_model f (ex_req [(57344, 0)] 0) = OutGlyphs [(3, 0, 0)].
Proof. vm_compute. repeat split; reflexivity. Qed.

(* a context lookup without nested records: ids and clusters unchanged, the matched range is flagged unsafe-to-break *)
Example C06_example_no_nested :
  shape_model (ex_font [mkLookup 0 None [SContext1 (CovGlyphs [1]) [[mkSeqRule [2] []]]]] [(T_liga, [0])])
              (ex_req [(57344, 0); (57345, 1); (57346, 2)] 0)
  = OutGlyphs [(1, 0, 0); (2, 1, 1); (3, 2, 0)].
Proof. vm_compute. reflexivity. Qed.

(* the regression font of the move_to rewind defect: rules a b -> [0 -> lig], c d -> [1 -> (d -> D), 0 -> (c -> C)] *)
Example C06_example_move_to_rewind :
  shape_model (ex_font [mkLookup 0 None [SContext1 (CovGlyphs [1; 3]) [[mkSeqRule [2] [(0, 1)]]; [mkSeqRule [4] [(1, 2); (0, 3)]]]];
                        mkLookup 0 None [SLigature (CovGlyphs [1]) [[mkLig 6 [2]]]];
                        mkLookup 0 None [SSingle2 (CovGlyphs [4]) [8]];
                        mkLookup 0 None [SSingle2 (CovGlyphs [3]) [7]]] [(T_liga, [0])])
              (ex_req [(57344, 0); (57345, 1); (57346, 2); (57347, 3); (57348, 4)] 0)
  = OutGlyphs [(6, 0, 0); (7, 2, 0); (8, 3, 1); (5, 4, 0)].
Proof. vm_compute. reflexivity. Qed.

(* the hypotheses of C06_single / C06_alternate / C06_no_nested_is_identity are satisfiable *)
Example C06_example_hypotheses :
  let b := init_buf [mkInfo 1 GLOBAL_BIT_MASK 0 2 3; mkInfo 2 GLOBAL_BIT_MASK 1 2 3] 0 0 in
  at_rest b (rest b) /\ rest b <> [] /\ N.of_nat (length (rest b)) <= max_len b
  /\ flat_lookup (mkLookup 0 None [SContext1 (CovGlyphs [1]) [[mkSeqRule [2] []]]]) = true
  /\ forallb is_single (lk_subtables (mkLookup 0 None [SSingle2 (CovGlyphs [1; 3]) [5; 7]])) = true.
Proof. vm_compute. repeat split; try reflexivity; discriminate. Qed.
