(* Props/C07.v — property C07 (GPOS/kern geometry).  Only statements, each closed by `exact`. *)
From Coq Require Import List NArith ZArith Bool.
From RB Require Import Model.Buffer Model.Font Model.Gpos Model.Attach Model.Kern Model.PosPipe Proofs.KernP.
Import ListNotations.

Theorem C07_processing_directions : forall dir hor numeric,
  fst (ensure_native_direction dir hor numeric) <> BTT.
Proof. exact processing_direction_not_btt. Qed.
Print Assumptions C07_processing_directions.
