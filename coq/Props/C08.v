(* Props/C08.v — property C08 (cmap-only fonts: no character is lost, duplicated or moved across clusters):
   the element-moving code.  Only statements, each closed by `exact`, with Print Assumptions beneath.

   Scope of the proof part (the per-cluster canonical-equivalence predicate over ALL shapers is the
   end-to-end search of props/C08.py, not a theorem):
     * every hand-written element-wise copy loop of src/hb (site list regenerated on every run) is a memmove;
     * hb_buffer_t::sort / the rotation it performs / delete_glyphs_inplace on the shared buffer model;
     * the Thai/Lao SARA AM split with the repaired loop.
   Not proved (search only): Indic/Khmer/Myanmar/USE reordering, Hangul, Arabic mark reordering, Hebrew
   composition, the normalizer rounds (C09 owns those), dotted-circle insertion. *)
From Coq Require Import String List NArith Bool Arith Permutation.
From RB Require Import Base.Result Gen.CopyLoops Model.Buffer Model.CopyLoop Model.Thai
                       Proofs.CopyLoopP Proofs.CopyLoopSitesP Proofs.BufferSortP Proofs.ThaiP.
From RB Require Proofs.BufferMaskP Proofs.BufferFlagFrameP.
Import ListNotations.

(* ---------------------------------------------------------------- copy loops *)

(* `for k in 0..n [rev] { x[k+a] = x[k+b] }` equals the simultaneous copy whenever it runs forward with the
   destination below the source, backward with the destination above, in place, or over disjoint ranges *)
Theorem C08_shift_loop : forall (T : Type) (d : cl_dir) (n a b : nat) (x : list T),
  n + a <= length x -> n + b <= length x ->
  (a < b /\ d = Fwd) \/ (a > b /\ d = Bwd) \/ a = b \/ (a + n <= b \/ b + n <= a) ->
  copy_loop d n a b x = memmove n a b x.
Proof. exact (@shift_loop). Qed.
Print Assumptions C08_shift_loop.

(* what `memmove` means: the block x[b .. b+n) lands at x[a .. a+n), everything else is untouched *)
Theorem C08_memmove_closed : forall (T : Type) (n a b : nat) (x : list T),
  n + a <= length x -> n + b <= length x ->
  memmove n a b x = firstn a x ++ firstn n (skipn b x) ++ skipn (a + n) x.
Proof. exact (@memmove_closed). Qed.
Print Assumptions C08_memmove_closed.

(* the converse direction: forward with destination = source + 1 smears the first element over the range *)
Theorem C08_forward_overlap_duplicates : forall (T : Type) (b : nat) (x : list T) (n : nat),
  b + n + 1 <= length x -> forall i, i <= n -> nth_error (copy_loop Fwd n (b + 1) b x) (b + i) = nth_error x b.
Proof. exact (@forward_overlap_duplicates). Qed.
Print Assumptions C08_forward_overlap_duplicates.

Theorem C08_forward_overlap_refuted :
  exists (x : list nat) (n a b : nat),
    a = b + 1 /\ n + a <= length x /\ n + b <= length x /\
    copy_loop Fwd n a b x = [1; 1; 1] /\ memmove n a b x = [1; 1; 2] /\
    copy_loop Fwd n a b x <> memmove n a b x.
Proof. exact forward_overlap_refuted. Qed.
Print Assumptions C08_forward_overlap_refuted.

(* THE OBLIGATION OVER THE CURRENT SOURCE: computed on the site list the translator regenerated in this run *)
Theorem C08_all_copy_loops_ok : forallb loop_ok copy_loops = true /\ unclassified_loops = [] /\ bad_loops = [].
Proof. exact all_copy_loops_ok. Qed.
Print Assumptions C08_all_copy_loops_ok.

Theorem C08_listed_loops_are_memmove : forall s : cl_site, In s copy_loops ->
  forall (T : Type) (n a b : nat),
    (cl_same_array s = true -> rel_holds (cl_rel_ s) a b ->
       forall x : list T, n + a <= length x -> n + b <= length x ->
       copy_loop (cl_dir_ s) n a b x = memmove n a b x)
    /\ (cl_same_array s = false ->
       forall src dst : list T, n + a <= length dst -> n + b <= length src ->
       copy_loop2 (cl_dir_ s) n a b src dst = copy_loop2 Fwd n a b src dst).
Proof. exact listed_loops_are_memmove. Qed.
Print Assumptions C08_listed_loops_are_memmove.

Example C08_sites_nonempty :
  existsb (fun s => (cl_file s =? "src/hb/buffer.rs")%string) copy_loops = true
  /\ existsb (fun s => (cl_file s =? "src/hb/ot_shaper_thai.rs")%string) copy_loops = true.
Proof. exact sites_nonempty. Qed.

(* ---------------------------------------------------------------- buffer.rs: sort, its rotation, delete_glyphs_inplace *)

Local Open Scope N_scope.

(* hb_buffer_t::sort(start, end, cmp) — Model/Buffer.v `sort`, the literal insertion loop with merge_clusters
   before every move — in in-place mode at EVERY cluster level, for every comparison that is a strict order on
   a key of the glyph's identity (gid, var1, var2): nothing outside [start,end) moves; inside, the glyph
   identities are a permutation of the input, stable and sorted by key; only cluster and mask fields change
   and every cluster value of the result was a cluster value of the input (clusters are merged, not invented) *)
Theorem C08_sort_perm : forall (key : N * N * N -> N) (cmp : info -> info -> bool),
  (forall x y, cmp x y = (key (core y) <? key (core x))) ->
  forall (b b' : zbuf) (s e : nat),
  out_mode b = false -> (s <= e <= length (arr b))%nat -> sort cmp b s e = Ok b' ->
  let l := map core (arr b) in
  let r := map core (arr b') in
  length r = length l
  /\ firstn s r = firstn s l /\ skipn e r = skipn e l
  /\ Permutation (slice r s e) (slice l s e)
  /\ (forall k, filter (fun c => key c =? k) (slice r s e) = filter (fun c => key c =? k) (slice l s e))
  /\ (forall p q, (s <= p <= q)%nat -> (q < e)%nat -> key (nth p r dcore) <= key (nth q r dcore))
  /\ clusters_from (arr b') (arr b).
Proof. exact sort_perm. Qed.
Print Assumptions C08_sort_perm.

(* move_elem (t = a[i]; shift a[j..i) up by one; a[j] = t) is a rotation, hence a permutation *)
Theorem C08_move_elem_perm : forall (a : list info) (i j : nat), (j <= i < length a)%nat ->
  Permutation (move_elem a i j) a /\ length (move_elem a i j) = length a.
Proof. exact move_elem_perm. Qed.
Print Assumptions C08_move_elem_perm.

(* ... and it is what the source's backward shift loop computes (ties `sort`'s model to the copy-loop site) *)
Theorem C08_sort_shift_is_rotation : forall (a : list info) (i j : nat) (t : info),
  (j <= i < length a)%nat -> nth_error a i = Some t ->
  set_nth j t (copy_loop Bwd (i - j) (j + 1) j a) = move_elem a i j.
Proof. exact shift_loop_is_move_elem. Qed.
Print Assumptions C08_sort_shift_is_rotation.

(* delete_glyphs_inplace(filter): exactly the glyphs the filter keeps, in order (identity fields; clusters and
   masks are merged).  The filter must look at the glyph identity only. *)
Theorem C08_delete_inplace_content : forall (fc : N * N * N -> bool) (flt : info -> bool),
  (forall x, flt x = fc (core x)) ->
  forall (lvl : N) (l : list info),
  map core (fst (delete_glyphs_inplace lvl flt l)) = map core (filter (fun x => negb (flt x)) l).
Proof. exact delete_inplace_content. Qed.
Print Assumptions C08_delete_inplace_content.

(* cluster bookkeeping never changes which glyphs the buffer holds or their order: merge_clusters keeps the sequence of
   glyph ids; delete_glyph (output mode - where GSUB deletes -, every cluster level) removes exactly the current glyph *)
Theorem C08_merge_clusters_keeps_glyphs : forall b s e b', merge_clusters b s e = Ok b' ->
  map gid (pre b' ++ rest b') = map gid (pre b ++ rest b).
Proof. exact BufferMaskP.merge_clusters_gids. Qed.
Print Assumptions C08_merge_clusters_keeps_glyphs.

Theorem C08_delete_glyph_removes_one : forall b b', out_mode b = true -> delete_glyph b = Ok b' ->
  exists x t, rest b = x :: t /\ map gid (pre b') = map gid (pre b) /\ map gid (rest b') = map gid t.
Proof. exact BufferFlagFrameP.delete_glyph_gids_all_levels. Qed.
Print Assumptions C08_delete_glyph_removes_one.

(* non-vacuity: a concrete sort that moves two glyphs over one and merges their clusters *)
Example C08_sort_example :
  let cmp := fun x y : info => var1 y <? var1 x in
  let b := init_buf [mkInfo 10 0 0 0 0; mkInfo 11 0 1 230 0; mkInfo 12 0 2 220 0; mkInfo 13 0 3 220 0] 0 0 in
  match sort cmp b 1 4 with
  | Ok b' => map (fun i => (gid i, cluster i)) (arr b') = [(10, 0); (12, 1); (13, 1); (11, 1)]
  | Error _ => False
  end.
Proof. vm_compute. reflexivity. Qed.

Example C08_delete_example :
  map gid (fst (delete_glyphs_inplace 0 (fun x => gid x =? 7) [mkInfo 1 0 0 0 0; mkInfo 7 0 1 0 0; mkInfo 2 0 2 0 0; mkInfo 7 0 3 0 0]))
  = [1; 2].
Proof. vm_compute. reflexivity. Qed.

(* ---------------------------------------------------------------- Thai / Lao SARA AM *)

(* unbounded, every cluster level: the repaired split neither loses nor duplicates a character; the output
   characters are, up to order, the input with every SARA AM replaced by NIKHAHIT + SARA AA *)
Theorem C08_thai_sara_am : forall (lvl : N) (l : list info) (b : zbuf),
  preprocess_thai Bwd lvl l = Ok b ->
  rest b = [] /\ Permutation (map gid (pre b)) (flat_map expand (map gid l)).
Proof. exact thai_chars. Qed.
Print Assumptions C08_thai_sara_am.

(* per cluster (the rule of the end-to-end oracle: an output cluster c owns the input characters with cluster
   in [c, next output cluster)): complete enumeration of all strings of length <= 6 over the class
   representatives {consonant, two tone marks, SARA AM, SARA AA, below vowel} (Thai) / {consonant, tone, AM, AA}
   (Lao), under three cluster regimes (level 0 after grapheme merging, level 0 and 1 with one cluster per
   character).  The unbounded per-cluster statement
       forall l, monotone clusters l -> per_cluster_ok l (pre (preprocess_thai Bwd lvl l)) = true
   is NOT proved; hence `_partial`. *)
Theorem C08_thai_sara_am_clusters_partial : forall s : list N, (length s <= THAI_BOUND)%nat ->
  Forall (fun a => In a thai_alphabet) s \/ Forall (fun a => In a lao_alphabet) s -> P_thai s = true.
Proof. exact thai_clusters_bounded. Qed.
Print Assumptions C08_thai_sara_am_clusters_partial.

(* the loop as it stood before the repair, on the known text <KO KAI, MAI EK, MAI THO, SARA AM> *)
Theorem C08_thai_forward_refuted :
  let input := clusters_grapheme [3585; 3656; 3657; 3635] in
  (match preprocess_thai Fwd 0 input with Ok b => map gid (pre b) | Error _ => [] end) = [3585; 3661; 3656; 3656; 3634]
  /\ thai_ok Fwd 0 input = false
  /\ (match preprocess_thai Bwd 0 input with Ok b => map gid (pre b) | Error _ => [] end) = [3585; 3661; 3656; 3657; 3634].
Proof. exact thai_forward_refuted. Qed.
Print Assumptions C08_thai_forward_refuted.
