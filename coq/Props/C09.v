(* Props/C09.v — property C09 (normalization picks composed or decomposed forms according to font support).
   Only statements, each closed by `exact`, with Print Assumptions beneath.
   Model: Model/Normalize.v (literal rounds 1-3 of _hb_ot_shape_normalize for the default shaper, unicode.rs
   compose/decompose, buffer.rs sort / merge_clusters / merge_out_clusters).  Crate tables: Gen/NormTables.v.
   Unicode side: Gen/UnicodeSpec.v (CPython unicodedata) — "stable subset" = spec_assigned.
   `has` (the font's cmap), general category and combining class are universally quantified. *)
From Coq Require Import List NArith Arith Bool Sorted Permutation Lia.
From RB Require Import Gen.NormTables Gen.UnicodeSpec Model.Normalize
  Proofs.NormalizeP Proofs.NormalizeSortP Proofs.NormalizeRecompP.
Import ListNotations.
Local Open Scope N_scope.

(* ================================================================== tables *)

(* both tables strictly sorted by key: what binary_search_by needs, and what makes "first match" the lookup *)
Theorem C09_tables_sorted :
  Sorted N.lt (map fst DECOMPOSITION_TABLE) /\ Sorted N.lt (map fst COMPOSITION_TABLE)
  /\ (500 < length DECOMPOSITION_TABLE)%nat /\ (500 < length COMPOSITION_TABLE)%nat.
Proof. exact tables_sorted. Qed.
Print Assumptions C09_tables_sorted.

(* the model's lookups are the source tables *)
Theorem C09_tables_lookup : forall ab a b,
  decompose_fn ab = match decompose_hangul ab with Some r => Some r | None => assoc ab DECOMPOSITION_TABLE end
  /\ compose_fn a b = match compose_hangul a b with Some r => Some r | None => assoc (a * U32 + b) COMPOSITION_TABLE end.
Proof. exact (fun ab a b => conj (decompose_fn_table ab) (compose_fn_table a b)). Qed.
Print Assumptions C09_tables_lookup.

(* every primary composite of Unicode round-trips: composition table >= Unicode's primary composites *)
Theorem C09_tables_roundtrip : forall a b c, In ((a, b), c) SPEC_PRIMARY ->
  decompose_fn c = Some (a, b) /\ compose_fn a b = Some c.
Proof. exact roundtrip. Qed.
Print Assumptions C09_tables_roundtrip.

(* every composition entry undoes a two-character entry of the decomposition table *)
Theorem C09_tables_composition_inverse : forall k c, In (k, c) COMPOSITION_TABLE ->
  exists a b, assoc c DECOMPOSITION_TABLE = Some (a, b) /\ k = a * U32 + b /\ b <> 0.
Proof. exact comp_inverse. Qed.
Print Assumptions C09_tables_composition_inverse.

(* the decomposition table is Unicode's canonical Decomposition_Mapping on the stable subset *)
Theorem C09_tables_decomposition_agrees : forall c, spec_assigned c = true ->
  assoc c DECOMPOSITION_TABLE = assoc c SPEC_DECOMP.
Proof. exact decomp_agrees. Qed.
Print Assumptions C09_tables_decomposition_agrees.

(* composition table <= Unicode's primary composites + the four listed non-starter pairs (stable subset) *)
Theorem C09_tables_composition_agrees : forall k c, In (k, c) COMPOSITION_TABLE -> spec_assigned c = true ->
  spec_primary (k / U32) (k mod U32) = Some c \/ In (k / U32, k mod U32, c) nonstarter_pairs.
Proof. exact comp_in_spec. Qed.
Print Assumptions C09_tables_composition_agrees.

(* (0308,0301)->0344, (0F71,0F72)->0F73, (0F71,0F74)->0F75, (0F71,0F80)->0F81: canonical decompositions that
   Unicode excludes from composition; their first element is a MARK (ccc <> 0), so they can only fire when a
   text begins with that mark (round 3 treats position 0 as the starter whatever its class) *)
Theorem C09_nonstarter_pairs :
  nonstarter_pairs = [(776, 769, 836); (3953, 3954, 3955); (3953, 3956, 3957); (3953, 3968, 3969)]
  /\ (forall a b c, In (a, b, c) nonstarter_pairs ->
        spec_ccc a <> 0 /\ compose_fn a b = Some c /\ spec_decomp c = Some (a, b) /\ spec_primary a b = None)
  /\ (forall k c, In (k, c) COMPOSITION_TABLE -> spec_assigned c = true ->
        spec_ccc (k / U32) = 0 \/ In (k / U32, k mod U32, c) nonstarter_pairs).
Proof. exact (conj eq_refl (conj nonstarter_facts comp_first_is_starter)). Qed.
Print Assumptions C09_nonstarter_pairs.

(* Hangul arithmetic = the closed form of the Unicode standard, on all 19 * 21 * 28 = 11172 syllables;
   and the arithmetic branch fires on nothing else *)
Theorem C09_tables_hangul :
  (forall l v t, l < 19 -> v < 21 -> t < 28 ->
     decompose_hangul (hangul_syllable l v t) = Some (spec_hangul_decomp l v t)
     /\ compose_hangul (fst (spec_hangul_decomp l v t)) (snd (spec_hangul_decomp l v t)) = Some (hangul_syllable l v t))
  /\ (forall c, c < U32 -> (decompose_hangul c <> None <-> 44032 <= c < 44032 + 11172)).
Proof. exact (conj hangul_closed_form decompose_hangul_domain). Qed.
Print Assumptions C09_tables_hangul.

(* the recursion depth of `decompose` is at most 3 for every u32 argument: the model's fuel (16) is never
   exhausted, i.e. the fuel-bounded model is the unbounded recursion of the source *)
Theorem C09_decompose_depth : forall c, c < U32 -> (length (levels decompose_fn DECOMP_FUEL c) <= 3)%nat.
Proof. exact depth_bound. Qed.
Print Assumptions C09_decompose_depth.

(* for every character with a canonical decomposition (stable subset): the chain of partial decompositions the
   code walks is the one Unicode prescribes; each level is canonically equivalent to the character; the last
   level is its full canonical decomposition *)
Theorem C09_levels_unicode : forall c d, In (c, d) SPEC_DECOMP ->
  levels decompose_fn DECOMP_FUEL c = spec_levels c
  /\ (0 < length (spec_levels c) <= 3)%nat
  /\ (forall l, In l (spec_levels c) -> flat_map spec_nfd l = spec_nfd c)
  /\ last (spec_levels c) [] = spec_nfd c.
Proof. exact levels_facts. Qed.
Print Assumptions C09_levels_unicode.

(* ================================================================== a lone character, EVERY font *)

(* `decompose` with shortest = true returns the first, with shortest = false the last (deepest) partial
   decomposition all of whose characters the font maps; [] (the `return 0`) iff there is none *)
Theorem C09_decompose_shortest : forall has f c,
  decompose has f true c = first_supported has (levels decompose_fn f c).
Proof. exact decompose_shortest. Qed.
Print Assumptions C09_decompose_shortest.

Theorem C09_decompose_deepest : forall has f c,
  decompose has f false c = first_supported has (rev (levels decompose_fn f c)).
Proof. exact decompose_deepest. Qed.
Print Assumptions C09_decompose_deepest.

(* exact characterisation of the glyphs of a lone decomposable character, for every cmap, every
   general-category / combining-class assignment: own glyph if mapped; else the shortest partial canonical
   decomposition that is entirely mapped; else space / U+2010 fallback or .notdef (0) *)
Theorem C09_single : forall has is_mark is_space ccc c d, In (c, d) SPEC_DECOMP ->
  single has is_mark is_space ccc c =
    if has c then [c]
    else match first_supported has (spec_levels c) with
         | [] => [fallback has is_space c]
         | l => l
         end.
Proof. exact single_spec. Qed.
Print Assumptions C09_single.

(* the property's second clause literally: not mapped, no shorter form entirely mapped, the full canonical
   decomposition entirely mapped  ==>  exactly the glyphs of the full canonical decomposition *)
Theorem C09_single_full : forall has is_mark is_space ccc c d, In (c, d) SPEC_DECOMP -> has c = false ->
  (forall l, In l (removelast (spec_levels c)) -> forallb has l = false) ->
  forallb has (spec_nfd c) = true ->
  single has is_mark is_space ccc c = spec_nfd c.
Proof. exact single_full. Qed.
Print Assumptions C09_single_full.

(* and whenever anything is shown instead of the character, it is mapped and canonically equivalent to it *)
Theorem C09_single_sound : forall has is_mark is_space ccc c d, In (c, d) SPEC_DECOMP -> has c = false ->
  first_supported has (spec_levels c) <> [] ->
  forallb has (single has is_mark is_space ccc c) = true
  /\ flat_map spec_nfd (single has is_mark is_space ccc c) = spec_nfd c.
Proof. exact single_sound. Qed.
Print Assumptions C09_single_sound.

(* ================================================================== round 2 *)

(* hb_buffer_t::sort (literal insertion loop, element shifting, merge_clusters) with the comparison of
   round 2: a stable permutation of the run, sorted by modified combining class; only clusters change
   elsewhere in the record, nothing outside [start, end) moves *)
Theorem C09_reorder : forall (l : list info) (start e : nat), (start <= e <= length l)%nat ->
  let r := sort l start e in
  length r = length l
  /\ Permutation (map core r) (map core l)
  /\ (forall k, filter (fun c => keyc c =? k) (map core r) = filter (fun c => keyc c =? k) (map core l))
  /\ (forall p, (p < start \/ e <= p)%nat -> core (nth p r dinfo) = core (nth p l dinfo))
  /\ (forall p q, (start <= p <= q)%nat -> (q < e)%nat -> mcc (nth p r dinfo) <= mcc (nth q r dinfo)).
Proof. exact sort_correct. Qed.
Print Assumptions C09_reorder.

(* round 2 on starter :: marks with at most MAX_COMBINING_MARKS marks is that sort of the whole mark run *)
Theorem C09_reorder_round2 : forall s ms,
  mcc s = 0 -> Forall (fun m => mcc m <> 0) ms -> N.of_nat (length ms) <= MAX_COMBINING_MARKS ->
  round2 (S (length (s :: ms))) (s :: ms) 0 = sort (s :: ms) 1 (S (length ms)).
Proof. exact round2_starter_marks. Qed.
Print Assumptions C09_reorder_round2.

(* ================================================================== round 3 *)

(* the literal recomposition loop (out-buffer, starter index, `prev < cur` blocking test, cluster merging)
   on a starter followed by a class-sorted run of marks IS Unicode's canonical composition algorithm (D117,
   with the D115 blocking quantifier over all intervening characters) in which a composite is taken iff the
   font maps it.  Partial in one respect: the pair table is the crate's `compose_fn`; its agreement with
   Unicode's primary composites is C09_tables_roundtrip / C09_tables_composition_agrees (stable subset,
   first element of class 0). *)
Theorem C09_recompose : forall has is_mark is_space ccc (s : info) (marks : list info),
  Forall (good_mark is_mark ccc) marks -> sortedF (map mcc marks) ->
  map cp (round3 has is_mark is_space ccc (S (length marks)) [s] marks 0)
  = d117 has compose_fn (Kfn is_mark ccc) (cp s) [] (map cp marks).
Proof. exact round3_d117. Qed.
Print Assumptions C09_recompose.

Theorem C09_recompose_glyphs : forall has is_mark is_space ccc (s : info) (marks : list info),
  Forall (fun x => gl x = cp x) (s :: marks) ->
  Forall (fun x => gl x = cp x) (round3 has is_mark is_space ccc (S (length marks)) [s] marks 0).
Proof. exact round3_glyphs. Qed.
Print Assumptions C09_recompose_glyphs.

(* NOT proved (checked by correspondence + oracle search only): the end-to-end corollary
     forall has = everything, canonically equivalent strings whose precomposed characters are primary
     composites and whose classes are not remapped  ->  shape_chars gives the same glyphs
   (needs round 1 on arbitrary clusters composed with the three theorems above). *)

(* ================================================================== examples (non-vacuity) *)
Definition ex_font (l : list N) (c : N) : bool := existsb (N.eqb c) l.
(* ================================================================== the class the marks are sorted by *)

(* Round 2 sorts marks by the MODIFIED combining class (unicode.rs MODIFIED_COMBINING_CLASS, regenerated from the
   source).  Canonical equivalence is defined by the canonical class, so the statement "canonically equivalent
   strings get the same glyphs" needs the two to agree wherever HarfBuzz does not deliberately deviate: the table
   is the identity outside the script-specific classes (Hebrew 10-25 and Arabic 27-33, permuted inside their own
   block; Telugu 84/91 and Thai 103, lowered; Tibetan 130/132).  In particular two generic classes (1, 6-9,
   200-240: everything a Latin/Greek/Cyrillic text can contain) are never conflated or swapped. *)
Definition script_specific_classes : list N :=
  [10; 11; 12; 13; 14; 15; 16; 17; 18; 19; 20; 21; 22; 23; 24; 25; 27; 28; 29; 30; 31; 32; 33; 84; 91; 103; 130; 132].
Definition mcc_of_class (k : N) : N := nth (N.to_nat k) MODIFIED_COMBINING_CLASS 0.
Definition mcc_identity_check : bool :=
  forallb (fun i => let k := N.of_nat i in existsb (N.eqb k) script_specific_classes || (mcc_of_class k =? k)) (seq 0 256).
Definition injective_on (l : list N) : bool :=
  forallb (fun a => forallb (fun b => (a =? b) || negb (mcc_of_class a =? mcc_of_class b)) l) l.

Theorem C09_modified_class_is_canonical_class_outside_script_tables : forall k,
  k < 256 -> existsb (N.eqb k) script_specific_classes = false -> mcc_of_class k = k.
Proof.
  intros k Hk Hs.
  assert (H : mcc_identity_check = true) by (vm_compute; reflexivity).
  unfold mcc_identity_check in H. rewrite forallb_forall in H.
  specialize (H (N.to_nat k)). rewrite N2Nat.id in H.
  assert (Hin : In (N.to_nat k) (seq 0 256)).
  { apply in_seq. lia. }
  specialize (H Hin). cbv zeta in H. rewrite Hs in H. cbn [orb] in H. apply N.eqb_eq. exact H.
Qed.
Print Assumptions C09_modified_class_is_canonical_class_outside_script_tables.

(* inside the Hebrew and the Arabic block the modified classes are a permutation: distinct classes stay distinct *)
Theorem C09_modified_class_injective_inside_script_blocks :
  injective_on [10; 11; 12; 13; 14; 15; 16; 17; 18; 19; 20; 21; 22; 23; 24; 25; 26] = true
  /\ injective_on [27; 28; 29; 30; 31; 32; 33; 34; 35; 36] = true
  /\ forallb (fun k => (10 <=? mcc_of_class k) && (mcc_of_class k <=? 26)) [10; 11; 12; 13; 14; 15; 16; 17; 18; 19; 20; 21; 22; 23; 24; 25; 26] = true
  /\ forallb (fun k => (27 <=? mcc_of_class k) && (mcc_of_class k <=? 36)) [27; 28; 29; 30; 31; 32; 33; 34; 35; 36] = true.
Proof. vm_compute. repeat split; reflexivity. Qed.
Print Assumptions C09_modified_class_injective_inside_script_blocks.

(* consequence used by the reordering statements: two generic classes compare as their canonical classes do *)
Theorem C09_generic_classes_keep_their_order : forall a b,
  a < 256 -> b < 256 ->
  existsb (N.eqb a) script_specific_classes = false -> existsb (N.eqb b) script_specific_classes = false ->
  (mcc_of_class a ?= mcc_of_class b) = (a ?= b).
Proof.
  intros a b Ha Hb Sa Sb.
  rewrite (C09_modified_class_is_canonical_class_outside_script_tables a Ha Sa).
  rewrite (C09_modified_class_is_canonical_class_outside_script_tables b Hb Sb). reflexivity.
Qed.
Print Assumptions C09_generic_classes_keep_their_order.

Definition ex_shape (f t : list N) : list N :=
  map fst (shape_chars (ex_font f) spec_is_mark spec_is_space spec_ccc (form_clusters spec_is_mark t)).

(* A + ring: composed iff the font has U+00C5; U+00C5 alone decomposes iff the font lacks it *)
Example C09_example_A_ring :
  ex_shape [65; 778; 197] [65; 778] = [197] /\ ex_shape [65; 778] [65; 778] = [65; 778]
  /\ ex_shape [65; 778] [197] = [65; 778] /\ ex_shape [65; 778; 197] [197] = [197]
  /\ ex_shape [65; 778; 197] [8491] = [197] /\ ex_shape [65; 778; 197; 8491] [8491] = [8491].
Proof. vm_compute. repeat split; reflexivity. Qed.

(* U+1E09 (c-cedilla-acute): three levels; marks typed in the wrong order are reordered, then recomposed *)
Example C09_example_1E09 :
  spec_levels 7689 = [[231; 769]; [99; 807; 769]] /\ spec_nfd 7689 = [99; 807; 769]
  /\ ex_shape [99; 807; 769; 231] [7689] = [231; 769]
  /\ ex_shape [99; 807; 769] [7689] = [99; 807; 769]
  /\ ex_shape [99; 807; 769; 231; 7689] [99; 769; 807] = [7689]
  /\ ex_shape [231; 807; 99] [7689] = [0].
Proof. vm_compute. repeat split; reflexivity. Qed.

(* blocking: a + acute + diaeresis (both class 230): only the acute composes *)
Example C09_example_blocked : ex_shape [97; 769; 776; 225; 228] [97; 769; 776] = [225; 776].
Proof. vm_compute. reflexivity. Qed.

(* the non-starter pair: a text that BEGINS with U+0308 U+0301 composes to U+0344; after a starter it does not *)
Example C09_example_0344 :
  ex_shape [776; 769; 836] [776; 769] = [836] /\ ex_shape [97; 776; 769; 836] [97; 776; 769] = [97; 776; 769].
Proof. vm_compute. repeat split; reflexivity. Qed.

(* the hypotheses of C09_recompose are satisfiable: the marks of the 1E09 example as round 2 leaves them *)
Example C09_example_recompose_hyps :
  let ms := map (fun c => props spec_is_mark spec_is_space spec_ccc c c 0) [807; 769] in
  forallb (fun m => mk_ m && negb (mcc m =? 0) && (mcc m =? Kfn spec_is_mark spec_ccc (cp m))) ms = true
  /\ map mcc ms = [202; 230].
Proof. vm_compute. split; reflexivity. Qed.
