(* Props/C10.v — property C10 (lookup prefilters never change the result): the digest part.
   Only statements, each closed by `exact`, with Print Assumptions beneath. *)
From Coq Require Import List NArith Bool.
From RB Require Import Gen.Consts Model.Digest Proofs.DigestP.
Import ListNotations.
Local Open Scope N_scope.

(* the shifts and the mask width the theorems are about are the ones in the current source *)
Theorem C10_mask_width : digest_mask_bits = MASK_BITS.
Proof. exact eq_refl. Qed.
Print Assumptions C10_mask_width.

(* single pattern, any shift: a glyph added is reported present; adding never removes a bit *)
Theorem C10_pattern_add_sound : forall s m g, may_have_glyph s (add s m g) g = true.
Proof. exact add_sound. Qed.
Print Assumptions C10_pattern_add_sound.

Theorem C10_pattern_add_array_sound : forall s gs m g, In g gs -> may_have_glyph s (add_array s m gs) g = true.
Proof. exact add_array_sound. Qed.
Print Assumptions C10_pattern_add_array_sound.

(* add_range, release arithmetic (every u64 step wraps): every glyph of [a,b] is reported present,
   including the cyclic wrap of bit positions and the saturation branch *)
Theorem C10_pattern_add_range_sound : forall s m a b g,
  b < 2 ^ 16 -> a <= g -> g <= b -> may_have_glyph s (snd (add_range_rel s m a b)) g = true.
Proof. exact add_range_rel_sound. Qed.
Print Assumptions C10_pattern_add_range_sound.

(* overflow-checked build: no arithmetic step traps for ANY glyph ids a, b (an inverted range saturates)
   and the result equals the release one *)
Theorem C10_pattern_add_range_no_overflow : forall s m a b,
  a < 2 ^ 16 -> b < 2 ^ 16 -> add_range_chk s m a b = Some (add_range_rel s m a b).
Proof. exact add_range_chk_ok. Qed.
Print Assumptions C10_pattern_add_range_no_overflow.

(* the combined digest of the source (shifts from Gen/Consts.v), as an over-approximation invariant *)
Theorem C10_new_sound : Sound digest_shifts (d_new digest_shifts) (fun _ => False).
Proof. exact (d_new_Sound digest_shifts). Qed.
Print Assumptions C10_new_sound.

Theorem C10_add_sound : forall d S g,
  Sound digest_shifts d S -> Sound digest_shifts (d_add digest_shifts d g) (fun x => S x \/ x = g).
Proof. exact (d_add_Sound digest_shifts). Qed.
Print Assumptions C10_add_sound.

Theorem C10_add_array_sound : forall gs d S,
  Sound digest_shifts d S -> Sound digest_shifts (d_add_array digest_shifts d gs) (fun x => S x \/ In x gs).
Proof. exact (d_add_array_Sound digest_shifts). Qed.
Print Assumptions C10_add_array_sound.

Theorem C10_add_range_sound : forall d S a b,
  b < 2 ^ 16 -> Sound digest_shifts d S ->
  Sound digest_shifts (snd (d_add_range digest_shifts d a b)) (fun x => S x \/ (a <= x /\ x <= b)).
Proof. exact (d_add_range_Sound digest_shifts). Qed.
Print Assumptions C10_add_range_sound.

Theorem C10_add_range_no_overflow : forall d a b,
  a < 2 ^ 16 -> b < 2 ^ 16 ->
  d_add_range_chk digest_shifts d a b = Some (d_add_range digest_shifts d a b).
Proof. exact (d_add_range_chk_ok digest_shifts). Qed.
Print Assumptions C10_add_range_no_overflow.

(* two digests that both contain some glyph never answer "disjoint" *)
Theorem C10_may_have_sound : forall d o g,
  length d = length digest_shifts -> length o = length digest_shifts ->
  d_may_have_glyph digest_shifts d g = true -> d_may_have_glyph digest_shifts o g = true ->
  d_may_have d o = true.
Proof. exact (d_may_have_sound digest_shifts). Qed.
Print Assumptions C10_may_have_sound.

(* non-vacuity: a concrete digest built by add / add_range is Sound for its glyph set, and the
   range case exercises the cyclic wrap (bit positions 62,63,0,1 for shift 0) *)
Example C10_example :
  d_may_have_glyph digest_shifts (snd (d_add_range digest_shifts (d_add digest_shifts (d_new digest_shifts) 7) 62 65)) 64 = true
  /\ snd (d_add_range digest_shifts (d_new digest_shifts) 62 65) = [2 ^ 3 + 2 ^ 4; 2 ^ 62 + 2 ^ 63 + 1 + 2; 1].
Proof. vm_compute. split; reflexivity. Qed.
