(* Props/C10.v — property C10 (lookup prefilters never change the result): the digest part.
   Only statements, each closed by `exact`, with Print Assumptions beneath. *)
From Coq Require Import List NArith Bool.
From RB Require Import Gen.Consts Model.Digest Proofs.DigestP Model.Prefilter Proofs.PrefilterP.
Import ListNotations.
Local Open Scope N_scope.

(* the shifts and the mask width the theorems are about are the ones in the current source *)
Theorem C10_mask_width : digest_mask_bits = MASK_BITS.
Proof. exact eq_refl. Qed.
Print Assumptions C10_mask_width.

(* single pattern, any shift: a glyph added is reported present; adding never removes a bit *)
Theorem C10_pattern_add_sound : forall s m g, may_have_glyph s (add s m g) g = true.
Proof. exact add_sound. Qed.
Print Assumptions C10_pattern_add_sound.

Theorem C10_pattern_add_array_sound : forall s gs m g, In g gs -> may_have_glyph s (add_array s m gs) g = true.
Proof. exact add_array_sound. Qed.
Print Assumptions C10_pattern_add_array_sound.

(* add_range, release arithmetic (every u64 step wraps): every glyph of [a,b] is reported present,
   including the cyclic wrap of bit positions and the saturation branch *)
Theorem C10_pattern_add_range_sound : forall s m a b g,
  b < 2 ^ 16 -> a <= g -> g <= b -> may_have_glyph s (snd (add_range_rel s m a b)) g = true.
Proof. exact add_range_rel_sound. Qed.
Print Assumptions C10_pattern_add_range_sound.

(* overflow-checked build: no arithmetic step traps for ANY glyph ids a, b (an inverted range saturates)
   and the result equals the release one *)
Theorem C10_pattern_add_range_no_overflow : forall s m a b,
  a < 2 ^ 16 -> b < 2 ^ 16 -> add_range_chk s m a b = Some (add_range_rel s m a b).
Proof. exact add_range_chk_ok. Qed.
Print Assumptions C10_pattern_add_range_no_overflow.

(* the combined digest of the source (shifts from Gen/Consts.v), as an over-approximation invariant *)
Theorem C10_new_sound : Sound digest_shifts (d_new digest_shifts) (fun _ => False).
Proof. exact (d_new_Sound digest_shifts). Qed.
Print Assumptions C10_new_sound.

Theorem C10_add_sound : forall d S g,
  Sound digest_shifts d S -> Sound digest_shifts (d_add digest_shifts d g) (fun x => S x \/ x = g).
Proof. exact (d_add_Sound digest_shifts). Qed.
Print Assumptions C10_add_sound.

Theorem C10_add_array_sound : forall gs d S,
  Sound digest_shifts d S -> Sound digest_shifts (d_add_array digest_shifts d gs) (fun x => S x \/ In x gs).
Proof. exact (d_add_array_Sound digest_shifts). Qed.
Print Assumptions C10_add_array_sound.

Theorem C10_add_range_sound : forall d S a b,
  b < 2 ^ 16 -> Sound digest_shifts d S ->
  Sound digest_shifts (snd (d_add_range digest_shifts d a b)) (fun x => S x \/ (a <= x /\ x <= b)).
Proof. exact (d_add_range_Sound digest_shifts). Qed.
Print Assumptions C10_add_range_sound.

Theorem C10_add_range_no_overflow : forall d a b,
  a < 2 ^ 16 -> b < 2 ^ 16 ->
  d_add_range_chk digest_shifts d a b = Some (d_add_range digest_shifts d a b).
Proof. exact (d_add_range_chk_ok digest_shifts). Qed.
Print Assumptions C10_add_range_no_overflow.

(* two digests that both contain some glyph never answer "disjoint" *)
Theorem C10_may_have_sound : forall d o g,
  length d = length digest_shifts -> length o = length digest_shifts ->
  d_may_have_glyph digest_shifts d g = true -> d_may_have_glyph digest_shifts o g = true ->
  d_may_have d o = true.
Proof. exact (d_may_have_sound digest_shifts). Qed.
Print Assumptions C10_may_have_sound.

(* the skip decision of apply_layout_table is transparent: for EVERY lookup interpreter whose lookups
   (1) carry a digest that over-approximates their first-glyph coverage [C10_add*_sound above],
   (2) leave a buffer unchanged when they cover none of its glyphs [prefilter on/off differential], and
   (3) keep the context digest covering the buffer while they substitute [run-time monitor hook],
   and every pause that does not ask for a refresh keeps the glyph set, applying the lookups with the
   prefilter (context digest = buffer.digest() at the start and after a refreshing pause) gives the same
   buffer as applying every planned lookup. *)
Theorem C10_skip_transparent :
  forall (lookup buf : Type) (apply : lookup -> buf -> buf) (ldig : lookup -> digest)
         (track : lookup -> buf -> digest -> digest) (glyphs : buf -> list N) (cov : lookup -> N -> Prop),
  (forall l, Sound digest_shifts (ldig l) (cov l)) ->
  (forall l b, (forall g, In g (glyphs b) -> ~ cov l g) -> apply l b = b) ->
  (forall l b d, Covers digest_shifts buf glyphs d b -> Covers digest_shifts buf glyphs (track l b d) (apply l b)) ->
  forall ss b, Forall (stage_ok lookup buf glyphs) ss ->
  run_filtered lookup buf apply ldig track (fun b => d_add_array digest_shifts (d_new digest_shifts) (glyphs b)) b ss
  = run_plain lookup buf apply b ss.
Proof. exact (run_transparent_digest digest_shifts). Qed.
Print Assumptions C10_skip_transparent.

(* the refresh condition is necessary: a pause that inserts a glyph without asking for a refresh makes a
   later lookup on that glyph be skipped (toy interpreter) *)
Theorem C10_stale_digest_refuted :
  run_filtered (N * N) (list N) toy_apply toy_ldig toy_track toy_bdig [1]
     [mkStage [] (Some bad_pause); mkStage [(1000, 7)] None]
  <> run_plain (N * N) (list N) toy_apply [1] [mkStage [] (Some bad_pause); mkStage [(1000, 7)] None].
Proof. exact stale_digest_changes_result. Qed.
Print Assumptions C10_stale_digest_refuted.

(* hypotheses (1)-(3) are satisfiable together (toy interpreter) *)
Example C10_skip_hypotheses_satisfiable :
  (forall l, Sound toy_shifts (toy_ldig l) (toy_cov l)) /\
  (forall l b, (forall g, In g b -> ~ toy_cov l g) -> toy_apply l b = b) /\
  (forall l b d, Covers toy_shifts (list N) (fun b => b) d b -> Covers toy_shifts (list N) (fun b => b) (toy_track l b d) (toy_apply l b)).
Proof. exact toy_hyps. Qed.

(* non-vacuity: a concrete digest built by add / add_range is Sound for its glyph set, and the
   range case exercises the cyclic wrap (bit positions 62,63,0,1 for shift 0) *)
Example C10_example :
  d_may_have_glyph digest_shifts (snd (d_add_range digest_shifts (d_add digest_shifts (d_new digest_shifts) 7) 62 65)) 64 = true
  /\ snd (d_add_range digest_shifts (d_new digest_shifts) 62 65) = [2 ^ 3 + 2 ^ 4; 2 ^ 62 + 2 ^ 63 + 1 + 2; 1].
Proof. vm_compute. split; reflexivity. Qed.
