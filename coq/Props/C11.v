(* Props/C11.v — property C11 (joining scripts: positional forms follow the Unicode cursive-joining
   rules).  Only statements, each closed by `exact`, with Print Assumptions beneath.

   `joining pre text post` (Model/JoiningGen.v) is the model of `arabic_joining` of
   src/hb/ot_shaper_arabic.rs run with the STATE_TABLE, enum numbering and CONTEXT_LENGTH extracted from
   the current source; `spec_actions` (Model/Joining.v) is the declarative specification written from
   the Unicode rules R1-R7 and the OpenType Syriac ALAPH rules, per letter, from its nearest
   non-transparent neighbours.  Sequences are sequences of joining classes (U L R D C ALAPH DALATH_RISH T);
   the character -> class map is the crate's table (trusted data, compared exhaustively with the code's
   lookup by the correspondence). *)
From Coq Require Import List NArith Bool.
From RB Require Import Gen.JoiningTable Model.Joining Model.JoiningGen Proofs.JoiningP.
Import ListNotations.
Local Open Scope N_scope.

(* the state table of the current source passes the local-consistency check: every abstract state
   reachable in it assigns, for every letter and every following neighbour, the form the rules require.
   A changed table entry breaks exactly this statement. *)
Theorem C11_table_consistent : table_ok gen_enc state_table = true.
Proof. exact gen_table_ok. Qed.
Print Assumptions C11_table_consistent.

(* arbitrary pre-context, text, post-context (any lengths, any class sequences): the automaton with
   back-patching never indexes out of bounds and assigns exactly the specified actions; of the contexts
   the buffer keeps the nearest `context_length` (= 5) characters *)
Theorem C11_automaton_correct : forall pre text post,
  joining pre text post = Some (acodes (spec_actions (lastn clen pre) text (firstn clen post))).
Proof. exact (automaton_correct gen_enc state_table context_length gen_table_ok). Qed.
Print Assumptions C11_automaton_correct.

Theorem C11_automaton_correct_ctx : forall pre text post,
  (length pre <= clen)%nat -> (length post <= clen)%nat ->
  joining pre text post = Some (acodes (spec_actions pre text post)).
Proof. exact (automaton_correct_short gen_enc state_table context_length gen_table_ok). Qed.
Print Assumptions C11_automaton_correct_ctx.

(* action codes are pairwise distinct, so equal code lists mean equal forms *)
Theorem C11_action_codes_injective : forall a b, acode gen_enc a = acode gen_enc b -> a = b.
Proof. exact acode_inj. Qed.
Print Assumptions C11_action_codes_injective.

(* transparent characters never break or cause joining.  In the text: every other character keeps its
   action and the inserted one gets NONE ... *)
Theorem C11_transparent_inert : forall pre a b post,
  joining pre (a ++ T :: b) post
  = option_map (fun s => firstn (length a) s ++ act_NONE :: skipn (length a) s) (joining pre (a ++ b) post).
Proof. exact (run_T_in_text gen_enc state_table context_length gen_OK). Qed.
Print Assumptions C11_transparent_inert.

(* ... in the contexts (within the window the buffer keeps): no action changes *)
Theorem C11_transparent_inert_pre : forall a b text post,
  (length (a ++ T :: b) <= clen)%nat -> joining (a ++ T :: b) text post = joining (a ++ b) text post.
Proof. exact (run_T_in_pre gen_enc state_table context_length gen_OK). Qed.
Print Assumptions C11_transparent_inert_pre.

Theorem C11_transparent_inert_post : forall pre text a b,
  (length (a ++ T :: b) <= clen)%nat -> joining pre text (a ++ T :: b) = joining pre text (a ++ b).
Proof. exact (run_T_in_post gen_enc state_table context_length gen_OK). Qed.
Print Assumptions C11_transparent_inert_post.

(* ... and in the specification itself, for contexts of any length *)
Theorem C11_spec_transparent_inert : forall pre a b post p1 p2 q1 q2 text,
  spec_actions pre (a ++ T :: b) post
  = firstn (length a) (spec_actions pre (a ++ b) post) ++ NONE :: skipn (length a) (spec_actions pre (a ++ b) post)
  /\ spec_actions (p1 ++ T :: p2) text post = spec_actions (p1 ++ p2) text post
  /\ spec_actions pre text (q1 ++ T :: q2) = spec_actions pre text (q1 ++ q2).
Proof. exact (fun pre a b post p1 p2 q1 q2 text =>
  conj (spec_T_in_text pre a b post) (conj (spec_T_in_pre p1 p2 text post) (spec_T_in_post pre text q1 q2))). Qed.
Print Assumptions C11_spec_transparent_inert.

(* pre-/post-context characters act as neighbours exactly as if they were part of the text: the actions
   of the text are the corresponding slice of the actions of pre ++ text ++ post shaped as plain text
   (contexts of up to context_length = 5 characters, which is all the buffer keeps) *)
Theorem C11_context_as_text : forall pre text post,
  (length pre <= clen)%nat -> (length post <= clen)%nat ->
  exists full, joining [] (pre ++ text ++ post) [] = Some full
               /\ joining pre text post = Some (firstn (length text) (skipn (length pre) full)).
Proof. exact (run_context_as_text gen_enc state_table context_length gen_OK). Qed.
Print Assumptions C11_context_as_text.

(* for longer contexts: exactly the kept window counts *)
Theorem C11_context_window : forall pre text post,
  joining pre text post = joining (lastn clen pre) text (firstn clen post).
Proof. exact (run_window gen_enc state_table context_length gen_OK). Qed.
Print Assumptions C11_context_window.

(* masks: info.mask |= mask_array[action]; the action is the specified one *)
Theorem C11_masks : forall marr pre text post masks,
  (forall a, (N.to_nat (acode gen_enc a) < length marr)%nat) -> length masks = length text ->
  masks_codes marr (codes pre) (codes text) (codes post) masks
  = Some (or_spec gen_enc marr masks (spec_actions (lastn clen pre) text (firstn clen post))).
Proof. exact (masks_correct gen_enc state_table context_length gen_table_ok). Qed.
Print Assumptions C11_masks.

(* with pairwise disjoint feature masks, mask_array[NONE] = 0 and none of the bits set beforehand, the
   bits of feature b are on a letter afterwards iff b is that letter's action *)
Theorem C11_masks_exact : forall (mk : action -> N) m0 a b,
  (forall x y, x <> y -> N.land (mk x) (mk y) = 0) -> mk NONE = 0 -> N.land m0 (mk b) = 0 ->
  N.land (N.lor m0 (mk a)) (mk b) = if action_eqb a b then mk b else 0.
Proof. exact mask_exact. Qed.
Print Assumptions C11_masks_exact.

(* mask_array[i] is filled from ARABIC_FEATURES[i]: the feature at an action's index is the feature
   named after it (isol fina fin2 fin3 medi med2 init), and NONE indexes the extra slot left 0 *)
Theorem C11_feature_of_action : forall a,
  nth_error arabic_features (N.to_nat (acode gen_enc a)) = feature_tag a.
Proof. exact gen_feature_tags. Qed.
Print Assumptions C11_feature_of_action.

(* ------------------------------------------------------------------ non-vacuity *)

(* BEH-like word D D R: initial, medial, final; a mark in between changes nothing *)
Example C11_ex_basic :
  joining [] [D; D; R] [] = Some (acodes [INIT; MEDI; FINA])
  /\ joining [] [D; T; D; T; T; R] [] = Some (acodes [INIT; NONE; MEDI; NONE; NONE; FINA]).
Proof. vm_compute. split; reflexivity. Qed.

(* context: a dual-joining letter before and after the one-letter text makes it medial *)
Example C11_ex_context :
  joining [D] [D] [D] = Some (acodes [MEDI]) /\ joining [] [D] [] = Some (acodes [ISOL])
  /\ joining [D; T] [R] [T; U] = Some (acodes [FINA]).
Proof. vm_compute. repeat split; reflexivity. Qed.

(* Syriac ALAPH: fin2 after a right-joining letter, fin3 after DALATH/RISH, med2 when joined to the
   previous letter and not word-final; fin2/fin3 revert to isolated when not word-final *)
Example C11_ex_alaph :
  joining [] [R; A] [] = Some (acodes [ISOL; FIN2])
  /\ joining [] [DR; A] [] = Some (acodes [ISOL; FIN3])
  /\ joining [] [D; A] [] = Some (acodes [INIT; FINA])
  /\ joining [] [D; A; D] [] = Some (acodes [INIT; MED2; ISOL])
  /\ joining [] [DR; A; R] [] = Some (acodes [ISOL; ISOL; ISOL])
  /\ joining [] [A; A; A] [] = Some (acodes [ISOL; ISOL; FIN2]).
Proof. vm_compute. repeat split; reflexivity. Qed.

(* the hypotheses of C11_context_as_text are needed: a sixth context character is not kept *)
Example C11_ex_window :
  joining [D; T; T; T; T; T] [R] [] = Some (acodes [ISOL])
  /\ joining [] ([D; T; T; T; T; T] ++ [R]) [] = Some (acodes [INIT; NONE; NONE; NONE; NONE; NONE; FINA]).
Proof. vm_compute. split; reflexivity. Qed.
