(* Props/C12.v — property C12: Hangul syllables compose / decompose by Unicode arithmetic, per font support.
   Only statements, each closed by `exact`, with Print Assumptions beneath.
   Model: Model/Hangul.v (`step` = one iteration of the `while` loop of preprocess_text_hangul, `run` = the whole
   function).  A state is (rout = out-buffer REVERSED, rest = unread input, start, end).  `has` is the font
   (face.has_glyph), `zw` its zero-width test for tone marks; both are universally quantified: every font.
   `erase` forgets the UNSAFE_TO_BREAK bit (the statements are about characters, clusters, features).
   Every per-branch theorem holds for EVERY out-buffer `ro` already produced, EVERY unread suffix `suf` and every
   stale start / end: the clusters of the neighbours enter only through `set_while k c`, the buffer's rule that a
   merged cluster value c spreads over the adjacent glyphs that had the cluster k of the merged range's end. *)
From Coq Require Import List NArith Arith Bool Permutation.
From RB Require Import Gen.HangulConsts Model.Hangul Proofs.HangulP.
Import ListNotations.
Local Open Scope N_scope.

(* ------------------------------------------------------------------ arithmetic *)
(* S = 0xAC00 + (l*21 + v)*28 + t is what the shaper composes, it is a syllable, the shaper's decomposition
   indices invert it, and unicode.rs compose_hangul / decompose_hangul agree (constants of both files) *)
Theorem C12_arith : forall l v t, l < L_COUNT -> v < V_COUNT -> t < T_COUNT ->
  let s := compose_s (L_BASE + l) (V_BASE + v) t in
  (s = 44032 + (l * 21 + v) * 28 + t /\ is_combined_s s = true /\
   lindex_of s = l /\ vindex_of s = v /\ tindex_of s = t) /\
  (u_compose_hangul (L_BASE + l) (V_BASE + v) = Some (s - t) /\
   (0 < t -> u_compose_hangul (s - t) (T_BASE + t) = Some s) /\
   u_decompose_hangul s = Some (if t =? 0 then (L_BASE + l, V_BASE + v) else (s - t, T_BASE + t))).
Proof. exact arith_all. Qed.
Print Assumptions C12_arith.

(* conversely every code point of the syllable block is such an S *)
Theorem C12_arith_onto : forall s, is_combined_s s = true ->
  lindex_of s < L_COUNT /\ vindex_of s < V_COUNT /\ tindex_of s < T_COUNT /\
  compose_s (L_BASE + lindex_of s) (V_BASE + vindex_of s) (tindex_of s) = s.
Proof. exact arith_inverse. Qed.
Print Assumptions C12_arith_onto.

(* ------------------------------------------------------------------ composition *)
(* <L,V,T> of modern jamo, font maps S: the single glyph S; cluster = min of the three (levels 0 and 1) *)
Theorem C12_compose_LVT : forall has zw lvl nd ro L V T suf st en,
  is_combining_l (cp L) = true -> is_combining_v (cp V) = true -> is_combining_t (cp T) = true ->
  has (compose_s (cp L) (cp V) (cp T - T_BASE)) = true ->
  lvl <> LEVEL_CHARACTERS ->
  let c := N.min (N.min (cl L) (cl V)) (cl T) in
  exists s', step has zw lvl nd (mkS ro (L :: V :: T :: suf) st en) = Some s' /\
    map erase (rout s') = mkI (compose_s (cp L) (cp V) (cp T - T_BASE)) c (feat L) false (cont L)
                          :: map erase (set_while (cl L) c ro) /\
    rest s' = set_while (cl T) c suf /\ sstart s' = length ro /\ send s' = (length ro + 1)%nat.
Proof. exact compose_LVT. Qed.
Print Assumptions C12_compose_LVT.

(* level Characters: same glyph, no cluster changes, S carries the cluster of L *)
Theorem C12_compose_LVT_characters : forall has zw lvl nd ro L V T suf st en,
  is_combining_l (cp L) = true -> is_combining_v (cp V) = true -> is_combining_t (cp T) = true ->
  has (compose_s (cp L) (cp V) (cp T - T_BASE)) = true ->
  lvl = LEVEL_CHARACTERS ->
  exists s', step has zw lvl nd (mkS ro (L :: V :: T :: suf) st en) = Some s' /\
    map erase (rout s') = mkI (compose_s (cp L) (cp V) (cp T - T_BASE)) (cl L) (feat L) false (cont L) :: map erase ro /\
    rest s' = suf /\ sstart s' = length ro /\ send s' = (length ro + 1)%nat.
Proof. exact compose_LVT_characters. Qed.
Print Assumptions C12_compose_LVT_characters.

(* <L,V> not followed by a trailing jamo *)
Theorem C12_compose_LV : forall has zw lvl nd ro L V suf st en,
  is_combining_l (cp L) = true -> is_combining_v (cp V) = true -> no_t suf ->
  has (compose_s (cp L) (cp V) 0) = true ->
  lvl <> LEVEL_CHARACTERS ->
  let c := N.min (cl L) (cl V) in
  exists s', step has zw lvl nd (mkS ro (L :: V :: suf) st en) = Some s' /\
    map erase (rout s') = mkI (compose_s (cp L) (cp V) 0) c (feat L) false (cont L)
                          :: map erase (set_while (cl L) c ro) /\
    rest s' = set_while (cl V) c suf /\ sstart s' = length ro /\ send s' = (length ro + 1)%nat.
Proof. exact compose_LV. Qed.
Print Assumptions C12_compose_LV.

(* <LV,T>: precomposed LV + modern T, font maps LVT = LV + (T - T_BASE) *)
Theorem C12_compose_LV_T : forall has zw lvl nd ro Sy T suf st en,
  is_combined_s (cp Sy) = true -> tindex_of (cp Sy) = 0 -> is_combining_t (cp T) = true ->
  has (cp Sy + (cp T - T_BASE)) = true ->
  lvl <> LEVEL_CHARACTERS ->
  let c := N.min (cl Sy) (cl T) in
  exists s', step has zw lvl nd (mkS ro (Sy :: T :: suf) st en) = Some s' /\
    map erase (rout s') = mkI (cp Sy + (cp T - T_BASE)) c (feat Sy) false (cont Sy)
                          :: map erase (set_while (cl Sy) c ro) /\
    rest s' = set_while (cl T) c suf /\ sstart s' = length ro /\ send s' = (length ro + 1)%nat.
Proof. exact compose_LV_T. Qed.
Print Assumptions C12_compose_LV_T.

(* ... and LV + (T - T_BASE) is the S of the arithmetic *)
Theorem C12_compose_LV_T_is_S : forall s t, is_combined_s s = true -> tindex_of s = 0 ->
  s + t = compose_s (L_BASE + lindex_of s) (V_BASE + vindex_of s) t.
Proof. exact lv_plus_t. Qed.
Print Assumptions C12_compose_LV_T_is_S.

(* modern jamo whose S the font does NOT map: the jamo stay, tagged ljmo / vjmo / tjmo, one cluster at level 0 *)
Theorem C12_compose_unsupported_LVT : forall has zw lvl nd ro L V T suf st en,
  is_combining_l (cp L) = true -> is_combining_v (cp V) = true -> is_combining_t (cp T) = true ->
  has (compose_s (cp L) (cp V) (cp T - T_BASE)) = false -> lvl = HANGUL_MERGE_LEVEL ->
  let c := N.min (N.min (cl L) (cl V)) (cl T) in
  exists s', step has zw lvl nd (mkS ro (L :: V :: T :: suf) st en) = Some s' /\
    map erase (rout s') = mkI (cp T) c TJMO false true :: mkI (cp V) c VJMO false true
                          :: mkI (cp L) c LJMO false (cont L) :: map erase (set_while (cl L) c ro) /\
    rest s' = set_while (cl T) c suf /\ sstart s' = length ro /\ send s' = (length ro + 3)%nat.
Proof. exact unsupported_LVT. Qed.
Print Assumptions C12_compose_unsupported_LVT.

Theorem C12_compose_unsupported_LV : forall has zw lvl nd ro L V suf st en,
  is_combining_l (cp L) = true -> is_combining_v (cp V) = true -> no_t suf ->
  has (compose_s (cp L) (cp V) 0) = false -> lvl = HANGUL_MERGE_LEVEL ->
  let c := N.min (cl L) (cl V) in
  exists s', step has zw lvl nd (mkS ro (L :: V :: suf) st en) = Some s' /\
    map erase (rout s') = mkI (cp V) c VJMO false true :: mkI (cp L) c LJMO false (cont L)
                          :: map erase (set_while (cl L) c ro) /\
    rest s' = set_while (cl V) c suf /\ sstart s' = length ro /\ send s' = (length ro + 2)%nat.
Proof. exact unsupported_LV. Qed.
Print Assumptions C12_compose_unsupported_LV.

(* the general form (any leading / vowel / trailing jamo that is not composed), at the other cluster levels each
   jamo keeps its own cluster *)
Theorem C12_tagged_other_levels : forall has zw lvl nd ro L V T suf st en,
  is_l (cp L) = true -> is_v (cp V) = true -> is_t (cp T) = true ->
  is_combining_l (cp L) && is_combining_v (cp V) && is_combining_t (cp T)
    && has (compose_s (cp L) (cp V) (cp T - T_BASE)) = false ->
  lvl <> HANGUL_MERGE_LEVEL ->
  exists s', step has zw lvl nd (mkS ro (L :: V :: T :: suf) st en) = Some s' /\
    map erase (rout s') = mkI (cp T) (cl T) TJMO false true :: mkI (cp V) (cl V) VJMO false true
                          :: mkI (cp L) (cl L) LJMO false (cont L) :: map erase ro /\
    rest s' = suf /\ sstart s' = length ro /\ send s' = (length ro + 3)%nat.
Proof. exact tagged_LVT_characters. Qed.
Print Assumptions C12_tagged_other_levels.

(* ------------------------------------------------------------------ old Hangul *)
(* a jamo sequence with some jamo outside the modern combining ranges is never composed — for every font — and
   is still tagged; the jamo of the old-Hangul blocks named in the property are such jamo *)
Theorem C12_old_hangul : forall has zw lvl nd ro L V T suf st en,
  is_l (cp L) = true -> is_v (cp V) = true -> is_t (cp T) = true ->
  is_combining_l (cp L) && is_combining_v (cp V) && is_combining_t (cp T) = false ->
  exists s', step has zw lvl nd (mkS ro (L :: V :: T :: suf) st en) = Some s' /\
    map cp (rout s') = cp T :: cp V :: cp L :: map cp ro /\
    map feat (firstn 3 (rout s')) = [TJMO; VJMO; LJMO] /\ send s' = (length ro + 3)%nat.
Proof. exact old_hangul_LVT. Qed.
Print Assumptions C12_old_hangul.

Theorem C12_old_hangul_blocks : forall l v t,
  ((0x1113 <= l <= 0x115F) \/ (0xA960 <= l <= 0xA97C)) \/
  ((0x1176 <= v <= 0x11A7) \/ v = 0x1160 \/ (0xD7B0 <= v <= 0xD7C6)) \/
  ((0x11C3 <= t <= 0x11FF) \/ (0xD7CB <= t <= 0xD7FB)) ->
  is_combining_l l && is_combining_v v && is_combining_t t = false.
Proof. exact old_blocks. Qed.
Print Assumptions C12_old_hangul_blocks.

Theorem C12_old_hangul_are_jamo : forall u,
  ((0x1113 <= u <= 0x115F \/ 0xA960 <= u <= 0xA97C) -> is_l u = true) /\
  ((0x1176 <= u <= 0x11A7 \/ u = 0x1160 \/ 0xD7B0 <= u <= 0xD7C6) -> is_v u = true) /\
  ((0x11C3 <= u <= 0x11FF \/ 0xD7CB <= u <= 0xD7FB) -> is_t u = true).
Proof. exact old_are_jamo. Qed.
Print Assumptions C12_old_hangul_are_jamo.

(* ------------------------------------------------------------------ decomposition *)
(* <LVT> the font does not map, its three jamo mapped: L V T tagged, all in the syllable's cluster (every level) *)
Theorem C12_decompose_LVT : forall has zw lvl nd ro Sy suf st en,
  is_combined_s (cp Sy) = true -> (tindex_of (cp Sy) =? 0) = false -> has (cp Sy) = false ->
  has (L_BASE + lindex_of (cp Sy)) = true -> has (V_BASE + vindex_of (cp Sy)) = true ->
  has (T_BASE + tindex_of (cp Sy)) = true ->
  exists s', step has zw lvl nd (mkS ro (Sy :: suf) st en) = Some s' /\
    map erase (rout s') = mkI (T_BASE + tindex_of (cp Sy)) (cl Sy) TJMO false true
                          :: mkI (V_BASE + vindex_of (cp Sy)) (cl Sy) VJMO false true
                          :: mkI (L_BASE + lindex_of (cp Sy)) (cl Sy) LJMO false (cont Sy) :: map erase ro /\
    rest s' = suf /\ sstart s' = length ro /\ send s' = (length ro + 3)%nat.
Proof. exact decompose_LVT. Qed.
Print Assumptions C12_decompose_LVT.

(* <LV> the font does not map (and which cannot be composed with a following T), L and V mapped *)
Theorem C12_decompose_LV : forall has zw lvl nd ro Sy suf st en,
  is_combined_s (cp Sy) = true -> tindex_of (cp Sy) = 0 -> has (cp Sy) = false -> no_lvt has Sy suf ->
  has (L_BASE + lindex_of (cp Sy)) = true -> has (V_BASE + vindex_of (cp Sy)) = true ->
  exists s', step has zw lvl nd (mkS ro (Sy :: suf) st en) = Some s' /\
    map erase (rout s') = mkI (V_BASE + vindex_of (cp Sy)) (cl Sy) VJMO false true
                          :: mkI (L_BASE + lindex_of (cp Sy)) (cl Sy) LJMO false (cont Sy) :: map erase ro /\
    map erase (rest s') = map erase suf /\ sstart s' = length ro /\ send s' = (length ro + 2)%nat.
Proof. exact decompose_LV. Qed.
Print Assumptions C12_decompose_LV.

(* some jamo missing: the syllable is left as it is (and is no base for a tone mark: end stays stale) *)
Theorem C12_decompose_missing_jamo : forall has zw lvl nd ro Sy suf st en,
  is_combined_s (cp Sy) = true -> has (cp Sy) = false ->
  no_lvt has Sy suf \/ (tindex_of (cp Sy) =? 0) = false ->
  has (L_BASE + lindex_of (cp Sy)) && has (V_BASE + vindex_of (cp Sy))
    && ((tindex_of (cp Sy) =? 0) || has (T_BASE + tindex_of (cp Sy))) = false ->
  exists s', step has zw lvl nd (mkS ro (Sy :: suf) st en) = Some s' /\
    map erase (rout s') = erase Sy :: map erase ro /\ map erase (rest s') = map erase suf /\
    sstart s' = length ro /\ send s' = en.
Proof. exact keep_unsupported. Qed.
Print Assumptions C12_decompose_missing_jamo.

(* a syllable the font maps, not followed by a trailing jamo, is untouched *)
Theorem C12_supported_syllable_kept : forall has zw lvl nd ro Sy suf st en,
  is_combined_s (cp Sy) = true -> has (cp Sy) = true -> no_t suf ->
  step has zw lvl nd (mkS ro (Sy :: suf) st en) = Some (mkS (Sy :: ro) suf (length ro) (length ro + 1)).
Proof. exact keep_supported. Qed.
Print Assumptions C12_supported_syllable_kept.

(* <LV,T> that cannot be composed, LV MAPPED by the font: LV is decomposed and T joins: one tagged syllable *)
Theorem C12_decompose_LV_T : forall has zw lvl nd ro Sy T suf st en,
  is_combined_s (cp Sy) = true -> tindex_of (cp Sy) = 0 -> is_t (cp T) = true -> has (cp Sy) = true ->
  is_combining_t (cp T) && has (cp Sy + (cp T - T_BASE)) = false ->
  has (L_BASE + lindex_of (cp Sy)) = true -> has (V_BASE + vindex_of (cp Sy)) = true ->
  lvl = HANGUL_MERGE_LEVEL ->
  let c := N.min (cl Sy) (cl T) in
  exists s', step has zw lvl nd (mkS ro (Sy :: T :: suf) st en) = Some s' /\
    map erase (rout s') = mkI (cp T) c TJMO false true
                          :: mkI (V_BASE + vindex_of (cp Sy)) c VJMO false true
                          :: mkI (L_BASE + lindex_of (cp Sy)) c LJMO false (cont Sy)
                          :: map erase (set_while (cl Sy) c ro) /\
    rest s' = set_while (cl T) c suf /\ sstart s' = length ro /\ send s' = (length ro + 3)%nat.
Proof. exact decompose_LV_T. Qed.
Print Assumptions C12_decompose_LV_T.

(* FINDING (faithful model, replayed on the code): the same <LV,T> when the font does NOT map LV (jamo-only
   font): by C12_decompose_LV only L and V form the syllable; T is left behind: no tjmo, its own cluster.
     full statement that fails:  forall has ..., (as C12_decompose_LV_T without `has (cp Sy) = true`) -> L V T tagged, one cluster *)
Theorem C12_lv_t_unsupported_lv_refuted :
  exists has input out,
    has 0x1100 = true /\ has 0x1161 = true /\ has 0x11A8 = true /\ has 0xAC00 = false /\ has 0xAC01 = false /\
    input = mk_input [(0xAC00, 0); (0x11A8, 1)] /\
    run has (fun _ => false) HANGUL_MERGE_LEVEL false input = Some out /\
    out = [mkI 0x1100 0 LJMO false false; mkI 0x1161 0 VJMO false true; mkI 0x11A8 1 0 true false].
Proof.
  exact (ex_intro _ jamo_only_font (ex_intro _ _ (ex_intro _ _
    (conj eq_refl (conj eq_refl (conj eq_refl (conj eq_refl (conj eq_refl (conj eq_refl
      (conj lv_t_unsupported_lv_witness eq_refl)))))))))).
Qed.
Print Assumptions C12_lv_t_unsupported_lv_refuted.

(* ------------------------------------------------------------------ tone marks *)
(* a tone mark after the recognized syllable out[start..end), not zero-width: it is inserted at index `start`,
   nothing else moves: a rotation of the syllable's glyphs, the multiset of characters is preserved *)
Theorem C12_tone_perm : forall has zw lvl nd ro tone suf (st en : nat),
  is_hangul_tone (cp tone) = true -> (st < en)%nat -> en = length ro -> zw (cp tone) = false ->
  exists s', step has zw lvl nd (mkS ro (tone :: suf) st en) = Some s' /\
    map cp (rev (rout s')) = map cp (firstn st (rev ro)) ++ cp tone :: map cp (skipn st (rev ro)) /\
    Permutation (map cp (rev (rout s'))) (map cp (rev ro) ++ [cp tone]).
Proof. exact tone_rotate_forward. Qed.
Print Assumptions C12_tone_perm.

Theorem C12_tone_zero_width_stays : forall has zw lvl nd ro tone suf (st en : nat),
  is_hangul_tone (cp tone) = true -> (st < en)%nat -> en = length ro -> zw (cp tone) = true ->
  exists s', step has zw lvl nd (mkS ro (tone :: suf) st en) = Some s' /\
    map erase (rout s') = erase tone :: map erase ro /\ rest s' = suf.
Proof. exact tone_stays. Qed.
Print Assumptions C12_tone_zero_width_stays.

Theorem C12_tone_without_base : forall has zw lvl nd ro tone suf (st en : nat),
  is_hangul_tone (cp tone) = true -> ((st <? en)%nat && (en =? length ro)%nat) = false ->
  step has zw lvl nd (mkS ro (tone :: suf) st en) =
    if negb nd && has DOTTED_CIRCLE then
      if zw (cp tone)
      then Some (mkS (tone :: with_cp DOTTED_CIRCLE tone :: ro) suf (length ro + 2) (length ro + 2))
      else Some (mkS (with_cp DOTTED_CIRCLE tone :: tone :: ro) suf (length ro + 2) (length ro + 2))
    else Some (mkS (tone :: ro) suf (length ro + 1) (length ro + 1)).
Proof. exact tone_no_base. Qed.
Print Assumptions C12_tone_without_base.

(* ------------------------------------------------------------------ arbitrary input strings *)
(* the function is total: the loop ends within `length input` iterations and no assert fires *)
Theorem C12_total : forall has zw lvl nd input, exists out, run has zw lvl nd input = Some out.
Proof. exact run_total. Qed.
Print Assumptions C12_total.

(* level MonotoneGraphemes, ANY input and font: in the output every glyph that continues a recognized syllable
   (ghost bit `cont`, set where the code sets end = start + n, and on the syllable's first glyph when a tone mark
   is moved in front of it) has the cluster of the glyph before it: all glyphs of one syllable share one cluster *)
Theorem C12_one_cluster : forall has zw nd input out,
  Forall (fun x => cont x = false) input ->
  run has zw HANGUL_MERGE_LEVEL nd input = Some out ->
  forall pre x y post, out = pre ++ x :: y :: post -> cont y = true -> cl y = cl x.
Proof. exact run_one_cluster. Qed.
Print Assumptions C12_one_cluster.

(* every cluster of the output is a cluster of the input (all levels) *)
Theorem C12_clusters_subset : forall has zw lvl nd input out,
  run has zw lvl nd input = Some out -> forall x, In x out -> In (cl x) (map cl input).
Proof. exact run_clusters_subset. Qed.
Print Assumptions C12_clusters_subset.

(* non-decreasing input clusters give non-decreasing output clusters at the two monotone levels
   (`up l`: every element's cluster is <= the clusters of all later elements) *)
Theorem C12_monotone : forall has zw lvl nd input out,
  lvl <> LEVEL_CHARACTERS -> up input -> run has zw lvl nd input = Some out -> up out.
Proof. exact run_monotone. Qed.
Print Assumptions C12_monotone.

(* ------------------------------------------------------------------ the constants are the ones of the property *)
Theorem C12_constants :
  (S_BASE, L_BASE, V_BASE, T_BASE, L_COUNT, V_COUNT, T_COUNT) = (0xAC00, 0x1100, 0x1161, 0x11A7, 19, 21, 28) /\
  (U_S_BASE, U_L_BASE, U_V_BASE, U_T_BASE, U_L_COUNT, U_V_COUNT, U_T_COUNT) = (0xAC00, 0x1100, 0x1161, 0x11A7, 19, 21, 28) /\
  (LJMO, VJMO, TJMO) = (1, 2, 3) /\ hangul_mask_tags_ok = true /\
  HANGUL_MERGE_LEVEL = LEVEL_MONOTONE_GRAPHEMES /\ DOTTED_CIRCLE = 0x25CC.
Proof. exact constants_ok. Qed.
Print Assumptions C12_constants.

(* ------------------------------------------------------------------ non-vacuity *)
Definition all_font (c : N) : bool := true.
Definition no_zw (c : N) : bool := false.

(* U+1112 U+1161 U+11AB -> U+D55C (clusters 5,6,7 -> 5) *)
Example C12_example_compose :
  run all_font no_zw 0 false (mk_input [(0x1112, 5); (0x1161, 6); (0x11AB, 7)]) = Some [mkI 0xD55C 5 0 false false].
Proof. vm_compute. reflexivity. Qed.

(* U+D55C with a jamo-only font -> U+1112 U+1161 U+11AB tagged 1 2 3, one cluster *)
Example C12_example_decompose :
  run jamo_only_font no_zw 0 false (mk_input [(0x61, 0); (0xD55C, 1); (0x62, 2)])
  = Some [mkI 0x61 0 0 false false; mkI 0x1112 1 LJMO false false; mkI 0x1161 1 VJMO false true;
          mkI 0x11AB 1 TJMO false true; mkI 0x62 2 0 false false].
Proof. vm_compute. reflexivity. Qed.

(* old Hangul: U+115F U+1160 (fillers) are tagged, never composed; tone mark U+302E moves in front of them *)
Example C12_example_old_and_tone :
  match run all_font no_zw 0 false (mk_input [(0x115F, 0); (0x1160, 1); (0x302E, 2)]) with
  | Some out => map cp out = [0x302E; 0x115F; 0x1160] /\ map feat out = [0; LJMO; VJMO] /\ map cl out = [0; 0; 0]
                /\ map cont out = [false; true; true]
  | None => False
  end.
Proof. vm_compute. repeat split. Qed.

(* the hypotheses of the per-branch theorems are satisfiable together *)
Example C12_example_hypotheses :
  is_combining_l 0x1112 = true /\ is_combining_v 0x1161 = true /\ is_combining_t 0x11AB = true /\
  compose_s 0x1112 0x1161 (0x11AB - T_BASE) = 0xD55C /\ is_combined_s 0xD55C = true /\
  is_l 0x115F = true /\ is_combining_l 0x115F = false /\ is_hangul_tone 0x302E = true.
Proof. vm_compute. repeat split. Qed.
