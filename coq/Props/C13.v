(* Props/C13.v — property C13: default-ignorable characters are invisible unless preservation is
   requested. Only statements, each closed by `exact`, with Print Assumptions beneath.

   Models: Model/Ignorable.v (delete_glyphs_inplace as the Rust loop, the two passes of ot_shape.rs,
   the simple cmap/hmtx pipeline); is_default_ignorable and all bit constants are regenerated from
   /repo/src into Gen/Ignorable.v on every run. *)
From Coq Require Import List NArith ZArith Bool Sorted.
From Coq Require Import String.
From RB Require Import Gen.Ignorable Model.Ignorable Proofs.IgnorableP Gen.Pipeline Model.Pipeline Proofs.PipelineP.
Import ListNotations.
Local Open Scope N_scope.

(* the translator recognised the shape of `fn is_default_ignorable` (otherwise the function below is a stub) *)
Theorem C13_translation_shape : ignorable_shape_ok = true.
Proof. exact shape_guard_ok. Qed.
Print Assumptions C13_translation_shape.

(* ---- classification. Full statement of the property:
     forall cp, cp < 0x110000 -> is_default_ignorable cp = dicp_minus_fillers cp
   (Unicode 16 Default_Ignorable_Code_Point minus U+115F U+1160 U+3164 U+FFA0). It is FALSE for the
   source on U+1BCA0..U+1BCA3 (excluded on purpose, HarfBuzz issue 503): known finding
   `shorthand_format_controls`; proved outside that class, refuted inside it. *)
Theorem C13_classification_outside_known : forall cp, cp < 0x110000 -> ~ (0x1BCA0 <= cp <= 0x1BCA3) ->
  is_default_ignorable cp = dicp_minus_fillers cp.
Proof. exact classification_outside_known. Qed.
Print Assumptions C13_classification_outside_known.

Lemma C13_classification_refuted : exists cp, (0x1BCA0 <= cp <= 0x1BCA3) /\ is_default_ignorable cp <> dicp_minus_fillers cp.
Proof. exact classification_refuted. Qed.
Print Assumptions C13_classification_refuted.

(* the range list handed to the harness is the same set *)
Theorem C13_spec_ranges : forall cp, in_ranges spec_ranges cp = dicp_minus_fillers cp.
Proof. exact spec_ranges_ok. Qed.
Print Assumptions C13_spec_ranges.

(* ---- delete_glyphs_inplace: for a filter that does not look at cluster/mask (the real filter reads
   the props only: C13_filter_respects), the result is exactly the non-filtered glyphs in order with
   glyph id, props and position untouched; every surviving cluster value is an input value *)
Theorem C13_filter_respects : respects is_ign.
Proof. exact is_ign_respects. Qed.
Print Assumptions C13_filter_respects.

Theorem C13_delete_frame : forall f level l, respects f ->
  map frame (delete_glyphs_inplace f level l) = map frame (filter (fun s => negb (f (fst s))) l)
  /\ incl (clusters (delete_glyphs_inplace f level l)) (clusters l).
Proof. exact (fun f level l Hf => conj (delete_frame f level l Hf) (delete_clusters f level l)). Qed.
Print Assumptions C13_delete_frame.

(* monotone non-decreasing clusters (left-to-right), levels 0 and 1: the first surviving glyph carries
   the first cluster value of the input, which is the minimum *)
Theorem C13_delete_min_kept_ltr : forall f level l, level <> CLUSTER_LEVEL_CHARACTERS ->
  StronglySorted N.le (clusters l) ->
  forall r0 rs, delete_glyphs_inplace f level l = r0 :: rs ->
  exists s0 t, l = s0 :: t /\ cluster (fst r0) = cluster (fst s0) /\ Forall (N.le (cluster (fst s0))) (clusters l).
Proof. exact delete_sorted_first. Qed.
Print Assumptions C13_delete_min_kept_ltr.

(* monotone non-increasing clusters (after the right-to-left reversal), every level: the last
   surviving glyph carries the last (minimum) cluster value of the input *)
Theorem C13_delete_min_kept_rtl : forall f level l, StronglySorted (fun a b => b <= a) (clusters l) ->
  delete_glyphs_inplace f level l <> [] ->
  forall d, last (clusters (delete_glyphs_inplace f level l)) d = last (clusters l) d.
Proof. exact delete_rev_last. Qed.
Print Assumptions C13_delete_min_kept_rtl.

(* nothing to delete: the buffer is untouched (clusters and masks included) *)
Theorem C13_delete_none : forall f level l, Forall (fun s => f (fst s) = false) l ->
  delete_glyphs_inplace f level l = l.
Proof. exact delete_none. Qed.
Print Assumptions C13_delete_none.

(* ---- the passes zero_width_default_ignorables; hide_default_ignorables.
   `is_ign` = IGNORABLE unicode prop and not substituted by the font's lookups. *)

(* PRESERVE: identity *)
Theorem C13_hidden_preserve : forall e l, preserve e = true -> passes e l = l.
Proof. exact passes_preserve. Qed.
Print Assumptions C13_hidden_preserve.

(* default flags, font has a space glyph (or the buffer an invisible glyph): same length, order,
   clusters and masks; ignorable glyphs become that glyph with zero advances and offsets; every
   other glyph is untouched *)
Theorem C13_hidden_space : forall e l inv, has_di e = true -> preserve e = false -> remove e = false ->
  invisible_glyph e = Some inv ->
  passes e l = map (fun s => if is_ign (fst s) then hidden_as inv s else s) l.
Proof. exact passes_hide. Qed.
Print Assumptions C13_hidden_space.

(* REMOVE, or no space glyph: ignorable glyphs are absent, every other glyph keeps id, props and
   position; clusters come from the input, and the minimum cluster survives for monotone input *)
Theorem C13_hidden_removed : forall e l, has_di e = true -> preserve e = false ->
  (remove e = true \/ invisible_glyph e = None) ->
  map frame (passes e l) = map frame (filter (fun s => negb (is_ign (fst s))) l)
  /\ incl (clusters (passes e l)) (clusters l).
Proof. exact (fun e l Hd Hp Hc => conj (passes_delete_frame e l Hd Hp Hc) (passes_delete_clusters e l Hd Hp Hc)). Qed.
Print Assumptions C13_hidden_removed.

Theorem C13_hidden_removed_min_ltr : forall e l, has_di e = true -> preserve e = false ->
  (remove e = true \/ invisible_glyph e = None) ->
  e_level e <> CLUSTER_LEVEL_CHARACTERS -> StronglySorted N.le (clusters l) ->
  forall r0 rs, passes e l = r0 :: rs ->
  exists s0 t, l = s0 :: t /\ cluster (fst r0) = cluster (fst s0) /\ Forall (N.le (cluster (fst s0))) (clusters l).
Proof. exact passes_delete_first. Qed.
Print Assumptions C13_hidden_removed_min_ltr.

Theorem C13_hidden_removed_min_rtl : forall e l, has_di e = true -> preserve e = false ->
  (remove e = true \/ invisible_glyph e = None) ->
  StronglySorted (fun a b => b <= a) (clusters l) -> passes e l <> [] ->
  forall d, last (clusters (passes e l)) d = last (clusters l) d.
Proof. exact passes_delete_last. Qed.
Print Assumptions C13_hidden_removed_min_rtl.

(* the scratch flag is only an accelerator: without any ignorable glyph the passes are the identity
   whatever the flags (init_unicode_props raises the flag together with the IGNORABLE bit: translator
   guard `ignorable_init_props_shape`) *)
Theorem C13_hidden_nothing_to_hide : forall e l, Forall (fun s => is_ign (fst s) = false) l -> passes e l = l.
Proof. exact passes_none. Qed.
Print Assumptions C13_hidden_nothing_to_hide.

(* ---- insertion is inert, model level: one left-to-right horizontal run through cmap, hmtx and the
   passes (no normalisation, no layout tables, no marks). For ANY text, the non-ignorable glyphs of
   the result (id and position) are the result for the text with every default-ignorable character
   taken out — so inserting such characters anywhere changes neither identity nor advances of the
   other glyphs. Clusters are not compared (they are character indices). *)
Theorem C13_insertion_inert : forall ft flags level t,
  has_bit flags FLAG_PRESERVE_DEFAULT_IGNORABLES = false ->
  map visible (filter keeps (simple_shape ft flags level t)) =
  map visible (simple_shape ft flags level (filter (fun cp => negb (ign_cp cp)) t)).
Proof. exact insertion_inert. Qed.
Print Assumptions C13_insertion_inert.

(* with PRESERVE every character, ignorable or not, is drawn with its own glyph at its own advance *)
Theorem C13_preserve_own_glyph : forall ft flags level t,
  has_bit flags FLAG_PRESERVE_DEFAULT_IGNORABLES = true ->
  simple_shape ft flags level t = shape_chars ft 0 t.
Proof. exact simple_shape_preserve. Qed.
Print Assumptions C13_preserve_own_glyph.

(* ---- where the two passes sit in the shaping pipeline (the pass sequence is regenerated from ot_shape.rs on every
   run, Gen/Pipeline.v): the zeroing runs once, unconditionally, behind every pass that writes advances or offsets from
   the font's tables (hmtx/vmtx defaults, space fallback, GPOS, kerx, kern, fallback kern, trak, mark zeroing,
   position_finish_advances); hiding runs once, unconditionally, behind the zeroing and behind the variation-selector
   pass; and only the listed passes follow the zeroing. *)
Theorem C13_pipeline_zeroing_follows_positioning : zeroing_order_ok = true.
Proof. exact zeroing_order_holds. Qed.
Print Assumptions C13_pipeline_zeroing_follows_positioning.

(* what that order buys, for ANY meaning of the passes: a condition on the buffer that the zeroing pass establishes
   (the unsubstituted ignorables have zero advance and offset) and that each of the listed later passes preserves
   holds at the end of shaping, whatever lookups, kerning and tracking did before.  The hypothesis on the later passes
   is where the model stops: `passes` (above) covers zeroing + hiding themselves; that position_finish_offsets and
   position_marks leave an ignorable alone is true for unattached glyphs only (known finding
   gpos_attached_ignorable_keeps_attachment_offset). *)
Theorem C13_zeroing_survives_the_pipeline : forall (St : Type) (interp : string -> St -> St) (Z : St -> Prop),
  (forall s, Z (interp zero_pass s)) ->
  (forall n s, In n passes_allowed_after_zeroing -> Z s -> Z (interp n s)) ->
  forall s, Z (run St interp (passes_of pipeline) s).
Proof. exact zeroing_survives. Qed.
Print Assumptions C13_zeroing_survives_the_pipeline.

(* ---- non-vacuity *)
Definition ex_font (space : option N) : font :=
  mkFont (fun cp => if cp =? 0x20 then 1 else if cp <? 0xE000 then 9 else cp - 0xE000 + 2) (fun g => 500 + Z.of_N g)%Z space.

(* U+E000 U+200D U+E001: hidden as the space glyph 1; removed with REMOVE (flag 8) or without a space
   glyph; own glyph 9 with PRESERVE (flag 4) *)
Example C13_example_shapes :
  map visible (simple_shape (ex_font (Some 1)) 0 0 [0xE000; 0x200D; 0xE001])
    = [(2, mkP 502 0 0 0); (1, mkP 0 0 0 0); (3, mkP 503 0 0 0)]
  /\ map visible (simple_shape (ex_font (Some 1)) 8 0 [0xE000; 0x200D; 0xE001]) = [(2, mkP 502 0 0 0); (3, mkP 503 0 0 0)]
  /\ map visible (simple_shape (ex_font None) 0 0 [0xE000; 0x200D; 0xE001]) = [(2, mkP 502 0 0 0); (3, mkP 503 0 0 0)]
  /\ map visible (simple_shape (ex_font (Some 1)) 4 0 [0xE000; 0x200D; 0xE001])
    = [(2, mkP 502 0 0 0); (9, mkP 509 0 0 0); (3, mkP 503 0 0 0)].
Proof. vm_compute. repeat split; reflexivity. Qed.

(* delete_glyphs_inplace merging clusters: forward (leading ignorable, levels 0/1: the following run
   takes cluster 0), not at level 2 (flags instead), backward for decreasing clusters *)
Example C13_example_delete :
  let ig c := (mkG 7 c 0 UPROPS_IGNORABLE 0, zero_pos) in
  let kp c := (mkG 8 c 0 0 0, zero_pos) in
  clusters (delete_glyphs_inplace is_ign 0 [ig 0; kp 1; kp 1; kp 2]) = [0; 0; 2]
  /\ map (fun s => (cluster (fst s), mask (fst s))) (delete_glyphs_inplace is_ign 2 [ig 0; kp 1; kp 1; kp 2]) = [(1, 3); (1, 0); (2, 0)]
  /\ clusters (delete_glyphs_inplace is_ign 0 [kp 3; kp 2; kp 2; ig 1]) = [3; 1; 1]
  /\ clusters (delete_glyphs_inplace is_ign 0 [kp 0; ig 1; kp 2]) = [0; 2].
Proof. vm_compute. repeat split; reflexivity. Qed.

(* the hypotheses of C13_hidden_space / C13_hidden_removed are satisfiable *)
Example C13_example_env :
  let e := mkEnv 0 SCRATCH_HAS_DEFAULT_IGNORABLES None (Some 1) 0 in
  has_di e = true /\ preserve e = false /\ remove e = false /\ invisible_glyph e = Some 1
  /\ remove (mkEnv 8 SCRATCH_HAS_DEFAULT_IGNORABLES None (Some 1) 0) = true
  /\ preserve (mkEnv 4 0 None None 0) = true.
Proof. vm_compute. repeat split; reflexivity. Qed.
