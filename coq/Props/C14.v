(* Props/C14.v — property C14: user features act on exactly their cluster range with their value.
   Only statements, each closed by `exact`, with Print Assumptions beneath. The model is Model/Feature.v
   (Feature::new, Feature::from_str, set_masks, mask-bit allocation, alternate index); the constants
   (first feature bit 4, global bit 31, MAX_BITS 8, MAX_VALUE 255, glyph flag bits 0x7) are regenerated
   from /repo/src into Gen/FeatureConsts.v on every run.
   Clusters are u32 values below u32::MAX: u32::MAX is the range encoding's "to the end" sentinel
   (set_masks tests `cluster < end`), only the global range reaches a glyph with that cluster value. *)
From Coq Require Import List NArith Bool.
From RB Require Import Gen.FeatureConsts Model.Feature Proofs.FeatureP.
From RB Require Base.Result Model.Buffer Proofs.BufferMaskP Proofs.BufferFlagFrameP.
Import ListNotations.
Local Open Scope N_scope.

(* the constants the theorems below speak about are the ones in the current source *)
Theorem C14_constants :
  feat_first_bit = 4 /\ feat_global_bit = 31 /\ feat_max_bits = 8 /\ feat_max_value = 255 /\
  glyph_flag_defined = 7 /\ feat_global_start = 0 /\ feat_global_end = U32MAX.
Proof. exact (conj eq_refl (conj eq_refl (conj eq_refl (conj eq_refl (conj eq_refl (conj eq_refl eq_refl)))))). Qed.
Print Assumptions C14_constants.

(* ---------------------------------------------------------------- Feature::new *)

(* FULL STATEMENT (refuted below): forall r c, covers (feature_new t v r) c = true <-> In_range r c.
   It holds for the forms without a bounded end ... *)
Theorem C14_new_covers_outside_known : forall t v r c,
  bounded_end r = false -> c < U32MAX \/ r = RFull ->
  (covers (feature_new t v r) c = true <-> In_range r c).
Proof. exact new_covers_outside_known. Qed.
Print Assumptions C14_new_covers_outside_known.

(* ... and for a bounded end (a..b, a..=b, ..b, ..=b) the feature acts on c iff c AND c+1 are in the
   range: exactly the last cluster of the range is left out (known class feature_new_end_bound) *)
Theorem C14_new_bounded_end_characterised : forall t v r c,
  bounded_end r = true -> c < U32MAX ->
  (covers (feature_new t v r) c = true <-> In_range r c /\ In_range r (c + 1)).
Proof. exact new_bounded_characterised. Qed.
Print Assumptions C14_new_bounded_end_characterised.

Lemma C14_new_refuted :
  exists r c, bounded_end r = true /\ c < U32MAX /\ ~ (covers (feature_new 0 1 r) c = true <-> In_range r c).
Proof. exact new_refuted_prop. Qed.
Print Assumptions C14_new_refuted.

(* ---------------------------------------------------------------- set_masks *)

(* exactly the glyphs whose cluster the range covers receive `value` in the bits of `mask`; every other
   bit of every glyph, and every cluster, is unchanged; the list keeps its length (Forall2) *)
Theorem C14_set_masks : forall value mask cs ce l,
  mask < 2 ^ 32 -> Forall (fun g => snd g < 2 ^ 32) l ->
  Forall2 (set_masks_post value mask cs ce) l (set_masks value mask cs ce l).
Proof. exact set_masks_exact. Qed.
Print Assumptions C14_set_masks.

(* with the feature's own field (w bits at shift s) and `value << shift` as setup_masks passes it: a covered
   glyph ends with the field holding v and all bits outside the field as before; others are untouched *)
Theorem C14_set_masks_field : forall s w v cs ce g,
  1 <= w -> s + w <= 32 -> v < 2 ^ w -> snd g < 2 ^ 32 ->
  let g' := set_one (shl32 v s) (field_mask s w) cs ce g in
  if covers_se cs ce (fst g)
  then fst g' = fst g /\ N.land (snd g') (field_mask s w) = N.shiftl v s /\
       N.ldiff (snd g') (field_mask s w) = N.ldiff (snd g) (field_mask s w)
  else g' = g.
Proof. exact set_one_field. Qed.
Print Assumptions C14_set_masks_field.

Theorem C14_set_masks_is_pointwise : forall value mask cs ce l,
  set_masks value mask cs ce l = map (set_one value mask cs ce) l.
Proof. exact set_masks_map. Qed.
Print Assumptions C14_set_masks_is_pointwise.

(* ---------------------------------------------------------------- allocation of mask bits *)

(* for EVERY list of feature infos: each compiled feature either rides on the global bit (31) or owns a
   field of 1..8 bits inside bits 4..29; fields are pairwise disjoint (all global-bit features share bit 31) *)
Theorem C14_alloc : forall infos,
  let fs := fst (fst (alloc infos feat_first_bit GLOBAL_BIT_MASK)) in
  Forall (field_within feat_first_bit (feat_global_bit - 1)) fs /\ ForallOrdPairs masks_compatible fs.
Proof. exact alloc_fields_ok. Qed.
Print Assumptions C14_alloc.

(* the same through compile (merge of duplicates, then allocation, sorted by tag when `simple`): fields are
   clear of the glyph-flag bits 0..2 and of the global bit *)
Theorem C14_compile_fields : forall simple infos f,
  In f (fst (compile_map simple infos)) ->
  field_within feat_first_bit (feat_global_bit - 1) f /\
  N.land (m_mask f) glyph_flag_defined = 0 /\
  (is_global_map f \/ N.land (m_mask f) GLOBAL_BIT_MASK = 0).
Proof. exact compile_fields. Qed.
Print Assumptions C14_compile_fields.

Theorem C14_compile_pairwise : forall infos,
  ForallOrdPairs masks_compatible (fst (compile_map false infos)).
Proof. exact compile_pairwise. Qed.
Print Assumptions C14_compile_pairwise.

(* every compiled field is wide enough for every value up to min(max_value, 255) of its merged info:
   `value << shift` lies inside the mask and reads back as the alternate index *)
Theorem C14_alloc_width : forall simple infos f,
  In f (fst (compile_map simple infos)) ->
  exists i, In i (dedup_infos simple infos) /\ m_tag f = fi_tag i /\
            (uses_global_bit i = true /\ is_global_map f \/
             uses_global_bit i = false /\ m_mask f = field_mask (m_shift f) (bits_needed i) /\
             1 <= bits_needed i /\ m_shift f + bits_needed i <= 32 /\
             forall v, v <= fi_max i -> v <= feat_max_value ->
                       v < 2 ^ bits_needed i /\
                       N.land (shl32 v (m_shift f)) (m_mask f) = N.shiftl v (m_shift f) /\
                       alt_index (shl32 v (m_shift f)) (m_mask f) = v).
Proof. exact compile_width. Qed.
Print Assumptions C14_alloc_width.

(* nothing is dropped while bits are left: a feature that is enabled, present (or has a fallback) and fits
   below the global bit is compiled; conversely (C14_alloc) one that does not fit never overlaps *)
Theorem C14_alloc_keeps_when_room : forall i t nb gm,
  fi_max i <> 0 -> nb + bits_needed i < feat_global_bit ->
  fi_found i = true \/ has_flag (fi_flags i) ff_has_fallback = true ->
  exists f r, fst (fst (alloc (i :: t) nb gm)) = f :: r /\ m_tag f = fi_tag i.
Proof. exact alloc_keeps_when_room. Qed.
Print Assumptions C14_alloc_keeps_when_room.

(* ---------------------------------------------------------------- value: lookup on/off, k-th alternate *)

(* a glyph covered by the range carries the value: value 0 => the lookup mask test fails (feature off
   there), value k => alternate index k => the k-th alternate (none beyond the set); a glyph outside the
   range is untouched *)
Theorem C14_value : forall s w v cs ce g alts rnd,
  1 <= w -> w <= feat_max_bits -> s + w <= 32 -> v < 2 ^ w -> snd g < 2 ^ 32 -> alts <> [] ->
  let fm := field_mask s w in
  let g' := set_one (shl32 v s) fm cs ce g in
  if covers_se cs ce (fst g)
  then alt_index (snd g') fm = v /\
       lookup_applies (snd g') fm = negb (v =? 0) /\
       alternate_apply alts (snd g') fm false rnd = (if v =? 0 then None else nth_error alts (N.to_nat (v - 1)))
  else g' = g.
Proof. exact value_on_glyph. Qed.
Print Assumptions C14_value.

(* ---------------------------------------------------------------- Feature::from_str *)

(* PARTIAL: round trip for the canonical printer `tag[start:end]=value` (end omitted when u32::MAX) over
   tags of 4 characters [A-Za-z0-9_] and numbers below 2^31.
   FULL STATEMENT (not proved): from_str maps every string of the HarfBuzz feature grammar to its meaning;
   the grammar's sugar forms are covered by the Examples below and by the correspondence/search. *)
Theorem C14_parse_print_partial : forall t0 t1 t2 t3 f,
  printable t0 t1 t2 t3 f -> parse_feature (print_feature f) = Some f.
Proof. exact parse_print. Qed.
Print Assumptions C14_parse_print_partial.

(* known class from_str_index_i32: an index >= 2^31 is not read back; the feature becomes global *)
Lemma C14_parse_index_refuted :
  exists f, f_start f = 3000000000 /\ f_end f = 3000000001 /\
            parse_feature (print_feature f) = Some (mkFeature (f_tag f) (f_value f) 0 U32MAX).
Proof. exact parse_index_refuted. Qed.
Print Assumptions C14_parse_index_refuted.

(* ---------------------------------------------------------------- non-vacuity and documented forms *)

Definition bytes_kern : list N := [107; 101; 114; 110].
Definition kern : N := 1801810542.

(* "kern[3:5]" = clusters {3,4}; "kern[3]" = {3}; "kern[:5]", "kern[3:]", "-kern", "kern=off", "aalt[3:5]=2" *)
Example C14_syntax_examples :
  parse_feature (bytes_kern ++ [91; 51; 58; 53; 93]) = Some (mkFeature kern 1 3 5) /\
  parse_feature (bytes_kern ++ [91; 51; 93]) = Some (mkFeature kern 1 3 4) /\
  parse_feature (bytes_kern ++ [91; 58; 53; 93]) = Some (mkFeature kern 1 0 5) /\
  parse_feature (bytes_kern ++ [91; 51; 58; 93]) = Some (mkFeature kern 1 3 U32MAX) /\
  parse_feature (45 :: bytes_kern) = Some (mkFeature kern 0 0 U32MAX) /\
  parse_feature (bytes_kern ++ [61; 111; 102; 102]) = Some (mkFeature kern 0 0 U32MAX) /\
  parse_feature ([97; 97; 108; 116; 91; 51; 58; 53; 93; 61; 50]) = Some (mkFeature 1633774708 2 3 5) /\
  map (covers (mkFeature kern 1 3 5)) [2; 3; 4; 5] = [false; true; true; false].
Proof. vm_compute. repeat split; reflexivity. Qed.

(* Feature::new today: 0..1 -> [0,0), 0..=1 -> [0,1), 2.. -> [2,MAX), .. -> global *)
Example C14_new_examples :
  (f_start (feature_new 0 1 (RHalf 0 1)), f_end (feature_new 0 1 (RHalf 0 1))) = (0, 0) /\
  (f_start (feature_new 0 1 (RIncl 0 1)), f_end (feature_new 0 1 (RIncl 0 1))) = (0, 1) /\
  (f_start (feature_new 0 1 (RFrom 2)), f_end (feature_new 0 1 (RFrom 2))) = (2, U32MAX) /\
  covers (feature_new 0 1 RFull) U32MAX = true /\
  covers (feature_new 0 1 (RFrom 2)) U32MAX = false.
Proof. vm_compute. repeat split; reflexivity. Qed.

(* allocation: a ranged 'salt'=5 next to a ranged 'ss01'=1 and the default global 'liga'; and exhaustion:
   of 30 one-bit features only 26 get a field (bits 4..29), the rest are dropped, none overlaps *)
Definition ex_info (tag maxv flags dflt : N) : finfo := mkInfo tag 0 maxv flags dflt true.
Example C14_alloc_examples :
  map (fun f => (m_shift f, m_mask f))
      (fst (compile_map false [ex_info 30 1 1 1; ex_info 20 5 0 0; ex_info 10 1 0 0]))
    = [(4, 16); (5, 224); (31, 2147483648)] /\
  length (fst (compile_map false (map (fun t => ex_info t 1 0 0) (map N.of_nat (seq 1 30))))) = 26%nat /\
  length (fst (compile_map false (map (fun t => ex_info t 255 0 0) (map N.of_nat (seq 1 30))))) = 3%nat.
Proof. vm_compute. repeat split; reflexivity. Qed.

(* set_masks + alternate index on a concrete buffer: value 3 on clusters [1,3) of a 3-bit field at bit 5 *)
Example C14_value_example :
  map (fun g => alt_index (snd g) (field_mask 5 3))
      (set_masks (shl32 3 5) (field_mask 5 3) 1 3 [(0, 2147483648); (1, 2147483648); (2, 2147483679); (3, 0)])
    = [0; 3; 3; 0] /\
  alternate_apply [100; 101; 102] (N.shiftl 3 5) (field_mask 5 3) false 0 = Some 102 /\
  alternate_apply [100; 101; 102] (N.shiftl 4 5) (field_mask 5 3) false 0 = None /\
  lookup_applies 2147483648 (field_mask 5 3) = false.
Proof. vm_compute. repeat split; reflexivity. Qed.

(* ---- a glyph keeps the feature values it was given, whatever happens to its cluster afterwards.  Over the buffer model
   that the operation-sequence correspondence runs against hb_buffer_t (Model/Buffer.v): the bits of a mask outside the
   three glyph-flag bits - where set_masks stores user-feature values - survive set_cluster, merge_clusters and
   delete_glyph, glyph by glyph.  The backward-merging branch of delete_glyph is the one that hands another glyph's mask
   to set_cluster (only its FLAG bits may arrive).  delete_glyph: in output mode (where GSUB deletes), at every cluster
   level (at level 2 the forward merge turns into a flag call, which writes flag bits only). *)
Theorem C14_set_cluster_keeps_feature_bits : forall i c m, BufferMaskP.fbits (Buffer.set_cluster i c m) = BufferMaskP.fbits i.
Proof. exact BufferMaskP.fbits_set_cluster. Qed.
Print Assumptions C14_set_cluster_keeps_feature_bits.

Theorem C14_merge_clusters_keeps_feature_bits : forall b s e b', Buffer.merge_clusters b s e = Result.Ok b' ->
  map BufferMaskP.fbits (Buffer.pre b') = map BufferMaskP.fbits (Buffer.pre b) /\ map BufferMaskP.fbits (Buffer.rest b') = map BufferMaskP.fbits (Buffer.rest b)
  \/ Buffer.out_mode b = false /\ map BufferMaskP.fbits (Buffer.pre b' ++ Buffer.rest b') = map BufferMaskP.fbits (Buffer.pre b ++ Buffer.rest b).
Proof. exact BufferMaskP.merge_clusters_fbits. Qed.
Print Assumptions C14_merge_clusters_keeps_feature_bits.

Theorem C14_delete_glyph_keeps_feature_bits : forall b b', Buffer.out_mode b = true -> Buffer.delete_glyph b = Result.Ok b' ->
  exists x t, Buffer.rest b = x :: t /\ map BufferMaskP.fbits (Buffer.pre b') = map BufferMaskP.fbits (Buffer.pre b) /\ map BufferMaskP.fbits (Buffer.rest b') = map BufferMaskP.fbits t.
Proof. exact BufferFlagFrameP.delete_glyph_fbits_all_levels. Qed.
Print Assumptions C14_delete_glyph_keeps_feature_bits.

(* the backward-merging branch on a concrete buffer: the survivor takes cluster 0 and the deleted glyph's flag bits (3)
   and keeps its own feature bits (0x100), not the deleted glyph's (0x200) *)
Example C14_delete_backward_example :
  let b := Buffer.mkZ [Buffer.mkInfo 10 0x100 1 0 0] [Buffer.mkInfo 11 0x203 0 0 0] 1 true 0 0 true 16384 0 in
  match Buffer.delete_glyph b with
  | Result.Ok b' => map (fun i => (Buffer.cluster i, Buffer.mask i)) (Buffer.pre b') = [(0, 0x103)] /\ Buffer.rest b' = []
  | Result.Error _ => False
  end.
Proof. exact BufferMaskP.delete_glyph_backward_example. Qed.
