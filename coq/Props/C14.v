(* placeholder *)
From Coq Require Import List NArith Bool.
From RB Require Import Gen.FeatureConsts Model.Feature.
