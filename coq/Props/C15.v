(* Props/C15.v — property C15 (cluster values are opaque labels; the cluster level changes clusters
   and flags only), buffer part.  For every strictly increasing relabelling f of the cluster values,
   EVERY operation of the buffer alphabet (Model/BufferOps.v: all 25 operations incl. the flag calls,
   delete_glyph, replace_glyphs, merge_out_clusters, sort, reverse_groups, delete_glyphs_inplace) and every
   finite sequence of operations commutes with f (`C15_every_operation`, `C15_every_sequence`): running the
   relabelled operations on the relabelled buffer gives the relabelled result, errors and failures included.
   Side conditions: the cluster values in play (a set CS that C02's subset invariant preserves) and their
   relabellings fit a u32 (U32_MAX is the sentinel of the minimum scans), infos handed to output_info carry
   a cluster of CS, and a non-global set_masks range is not relabelled onto the global one.
   The earlier per-primitive statements are kept.  Not covered by a theorem: cluster comparisons made
   outside the buffer layer (shapers' syllable loops, GPOS/GSUB cluster tests) — paired shaping search. *)
From Coq Require Import List NArith Bool Lia.
From RB Require Import Base.Result Model.Buffer Model.BufferOps Proofs.BufferP Proofs.BufferEquivP Proofs.BufferEquivAllP.
Import ListNotations.
Local Open Scope N_scope.

Definition strictly_increasing (f : N -> N) : Prop := forall a b, a < b -> f a < f b.

Theorem C15_set_cluster : forall f, strictly_increasing f ->
  forall x c m, rl f (set_cluster x c m) = set_cluster (rl f x) (f c) m.
Proof. exact rl_set_cluster. Qed.
Print Assumptions C15_set_cluster.

Theorem C15_min_cluster : forall f, strictly_increasing f ->
  forall l init, f (min_cluster_list l init) = min_cluster_list (rll f l) (f init).
Proof. exact rl_min. Qed.
Print Assumptions C15_min_cluster.

Theorem C15_merge_array : forall f, strictly_increasing f -> forall l s e,
  merge_array (rll f l) s e =
  match merge_array l s e with Ok (r, c0, c) => Ok (rll f r, f c0, f c) | Error er => Error er end.
Proof. exact merge_array_equiv. Qed.
Print Assumptions C15_merge_array.

Theorem C15_merge_clusters : forall f, strictly_increasing f -> forall b s e,
  merge_clusters (rlb f b) s e = match merge_clusters b s e with Ok b' => Ok (rlb f b') | Error er => Error er end.
Proof. exact merge_clusters_equiv. Qed.
Print Assumptions C15_merge_clusters.

Theorem C15_set_masks_ranged : forall f, strictly_increasing f -> forall b v m cs ce,
  negb ((cs =? 0) && (ce =? U32_MAX)) = true -> negb ((f cs =? 0) && (f ce =? U32_MAX)) = true ->
  dead b = length (pre b) ->
  set_masks (rlb f b) v m (f cs) (f ce) = rlb f (set_masks b v m cs ce).
Proof. exact set_masks_equiv. Qed.
Print Assumptions C15_set_masks_ranged.

Theorem C15_next_glyph : forall f b,
  next_glyph (rlb f b) = match next_glyph b with Ok b' => Ok (rlb f b') | Error e => Error e end.
Proof. exact next_glyph_equiv. Qed.
Print Assumptions C15_next_glyph.

Theorem C15_skip_glyph : forall f b,
  skip_glyph (rlb f b) = match skip_glyph b with Ok b' => Ok (rlb f b') | Error e => Error e end.
Proof. exact skip_glyph_equiv. Qed.
Print Assumptions C15_skip_glyph.

Theorem C15_replace_glyph : forall f b g,
  replace_glyph (rlb f b) g = match replace_glyph b g with Ok b' => Ok (rlb f b') | Error e => Error e end.
Proof. exact replace_glyph_equiv. Qed.
Print Assumptions C15_replace_glyph.

Theorem C15_copy_glyph : forall f b,
  copy_glyph (rlb f b) = match copy_glyph b with Ok b' => Ok (rlb f b') | Error e => Error e end.
Proof. exact copy_glyph_equiv. Qed.
Print Assumptions C15_copy_glyph.

Theorem C15_output_glyph : forall f b g,
  output_glyph (rlb f b) g = match output_glyph b g with Ok b' => Ok (rlb f b') | Error e => Error e end.
Proof. exact output_glyph_equiv. Qed.
Print Assumptions C15_output_glyph.

(* every operation of the alphabet *)
Theorem C15_every_operation : forall (f : N -> N), strictly_increasing f ->
  forall (CS : list N), (forall c, In c CS -> c <= U32_MAX /\ f c <= U32_MAX) ->
  forall b o, rl_ok f CS o -> Inv CS b -> step (rlb f b) (rl_op f o) = lift_step f (step b o).
Proof. exact step_equiv. Qed.
Print Assumptions C15_every_operation.

(* every finite sequence of operations *)
Theorem C15_every_sequence : forall (f : N -> N), strictly_increasing f ->
  forall (CS : list N), (forall c, In c CS -> c <= U32_MAX /\ f c <= U32_MAX) ->
  forall ops b, Forall (rl_ok f CS) ops -> Inv CS b -> run (rlb f b) (map (rl_op f) ops) = lift_run f (run b ops).
Proof. exact run_equiv. Qed.
Print Assumptions C15_every_sequence.

(* the hypotheses are met: f c = 3c + 7, CS = {0,1,2,5}; a sequence through both modes with a flag call,
   a level-independent merge, a sort, a ranged set_masks and an in-place deletion; both sides computed *)
Definition c15_f (c : N) : N := 3 * c + 7.
Definition c15_cs : list N := [0; 1; 2; 5].
Definition c15_buf : zbuf := init_buf [mkInfo 1 0 0 3 0; mkInfo 2 0 1 2 0; mkInfo 3 0 2 1 0; mkInfo 4 0 5 0 0] 1 3.
Definition c15_ops : list bop :=
  [OClearOutput; ONextGlyph; OReplaceGlyphs 1 [7; 8]; OUnsafeToBreakOut (Some 0%nat) (Some 3%nat); OOutputInfo (mkInfo 9 0 2 0 0);
   ONextGlyph; OSync; OMergeClusters 1 3; OSort 0 4; OSetMasks 1 1 0 2; ODeleteInplace; OReverse].
Example C15_every_sequence_example :
  strictly_increasing c15_f /\ (forall c, In c c15_cs -> c <= U32_MAX /\ c15_f c <= U32_MAX) /\
  Forall (rl_ok c15_f c15_cs) c15_ops /\ Inv c15_cs c15_buf /\
  match run c15_buf c15_ops with Ok (Some b) => map cluster (arr b) <> [] | _ => False end /\
  run (rlb c15_f c15_buf) (map (rl_op c15_f) c15_ops) = lift_run c15_f (run c15_buf c15_ops).
Proof.
  split; [intros a b H; unfold c15_f; lia|].
  split; [intros c Hc; unfold c15_cs, c15_f in *; cbn in Hc; unfold U32_MAX; repeat (destruct Hc as [<-|Hc]; [split; vm_compute; discriminate|]); destruct Hc|].
  split; [unfold c15_ops; repeat (apply Forall_cons; [first [exact I | (right; vm_compute; discriminate) | (cbn; auto 10)]|]); apply Forall_nil|].
  split; [split; cbn [c15_buf init_buf pre rest]; repeat (apply Forall_cons; [unfold okc; cbn; auto 10|]); apply Forall_nil|].
  split; [vm_compute; discriminate|vm_compute; reflexivity].
Qed.

(* non-vacuity: f c = 3c + 7 is strictly increasing; a merge over clusters 0 2 5 relabels to 7 13 22 *)
Example C15_example :
  strictly_increasing (fun c => 3 * c + 7) /\
  merge_array (rll (fun c => 3 * c + 7) [mkInfo 1 0 0 0 0; mkInfo 2 0 2 0 0; mkInfo 3 0 5 0 0]) 1 3
  = Ok ([mkInfo 1 0 7 0 0; mkInfo 2 0 13 0 0; mkInfo 3 0 13 0 0], 13, 13).
Proof. split; [intros a b H; lia|vm_compute; reflexivity]. Qed.
