(* Props/C15.v — property C15 (cluster values are opaque labels; the cluster level changes clusters
   and flags only), buffer part.  For every strictly increasing relabelling f of the cluster values:
   the cluster-reading primitives commute with f.  PARTIAL: proved for merge_array / merge_clusters
   (the only place cluster values are combined), set_cluster, the minimum and run-length scans, set_masks
   with a relabelled range, and the streaming operations next_glyph, skip_glyph, replace_glyph,
   copy_glyph, output_glyph; the remaining operations of the alphabet (delete_glyph, replace_glyphs,
   merge_out_clusters, the flag calls, sort, reverse_groups, delete_glyphs_inplace) read clusters only
   through these primitives and are covered by the operation-sequence correspondence and the paired
   shaping search, not yet by a theorem. *)
From Coq Require Import List NArith Bool Lia.
From RB Require Import Base.Result Model.Buffer Model.BufferOps Proofs.BufferEquivP.
Import ListNotations.
Local Open Scope N_scope.

Definition strictly_increasing (f : N -> N) : Prop := forall a b, a < b -> f a < f b.

Theorem C15_set_cluster : forall f, strictly_increasing f ->
  forall x c m, rl f (set_cluster x c m) = set_cluster (rl f x) (f c) m.
Proof. exact rl_set_cluster. Qed.
Print Assumptions C15_set_cluster.

Theorem C15_min_cluster : forall f, strictly_increasing f ->
  forall l init, f (min_cluster_list l init) = min_cluster_list (rll f l) (f init).
Proof. exact rl_min. Qed.
Print Assumptions C15_min_cluster.

Theorem C15_merge_array : forall f, strictly_increasing f -> forall l s e,
  merge_array (rll f l) s e =
  match merge_array l s e with Ok (r, c0, c) => Ok (rll f r, f c0, f c) | Error er => Error er end.
Proof. exact merge_array_equiv. Qed.
Print Assumptions C15_merge_array.

Theorem C15_merge_clusters : forall f, strictly_increasing f -> forall b s e,
  merge_clusters (rlb f b) s e = match merge_clusters b s e with Ok b' => Ok (rlb f b') | Error er => Error er end.
Proof. exact merge_clusters_equiv. Qed.
Print Assumptions C15_merge_clusters.

Theorem C15_set_masks_ranged : forall f, strictly_increasing f -> forall b v m cs ce,
  negb ((cs =? 0) && (ce =? U32_MAX)) = true -> negb ((f cs =? 0) && (f ce =? U32_MAX)) = true ->
  dead b = length (pre b) ->
  set_masks (rlb f b) v m (f cs) (f ce) = rlb f (set_masks b v m cs ce).
Proof. exact set_masks_equiv. Qed.
Print Assumptions C15_set_masks_ranged.

Theorem C15_next_glyph : forall f b,
  next_glyph (rlb f b) = match next_glyph b with Ok b' => Ok (rlb f b') | Error e => Error e end.
Proof. exact next_glyph_equiv. Qed.
Print Assumptions C15_next_glyph.

Theorem C15_skip_glyph : forall f b,
  skip_glyph (rlb f b) = match skip_glyph b with Ok b' => Ok (rlb f b') | Error e => Error e end.
Proof. exact skip_glyph_equiv. Qed.
Print Assumptions C15_skip_glyph.

Theorem C15_replace_glyph : forall f b g,
  replace_glyph (rlb f b) g = match replace_glyph b g with Ok b' => Ok (rlb f b') | Error e => Error e end.
Proof. exact replace_glyph_equiv. Qed.
Print Assumptions C15_replace_glyph.

Theorem C15_copy_glyph : forall f b,
  copy_glyph (rlb f b) = match copy_glyph b with Ok b' => Ok (rlb f b') | Error e => Error e end.
Proof. exact copy_glyph_equiv. Qed.
Print Assumptions C15_copy_glyph.

Theorem C15_output_glyph : forall f b g,
  output_glyph (rlb f b) g = match output_glyph b g with Ok b' => Ok (rlb f b') | Error e => Error e end.
Proof. exact output_glyph_equiv. Qed.
Print Assumptions C15_output_glyph.

(* non-vacuity: f c = 3c + 7 is strictly increasing; a merge over clusters 0 2 5 relabels to 7 13 22 *)
Example C15_example :
  strictly_increasing (fun c => 3 * c + 7) /\
  merge_array (rll (fun c => 3 * c + 7) [mkInfo 1 0 0 0 0; mkInfo 2 0 2 0 0; mkInfo 3 0 5 0 0]) 1 3
  = Ok ([mkInfo 1 0 7 0 0; mkInfo 2 0 13 0 0; mkInfo 3 0 13 0 0], 13, 13).
Proof. split; [intros a b H; lia|vm_compute; reflexivity]. Qed.
