(* Props/C16.v — property C16: "Without layout tables, glyphs and positions are the font's cmap and
   metrics ... horizontal results have y_advance = 0 on every glyph, vertical results have x_advance = 0,
   and every glyph id is at most 0xFFFF."
   Statements only, each closed by `exact`, Print Assumptions beneath.  The model is Model/Simple.v
   (`shape_simple f o r text`: font view, Unicode oracle, request, (code point, cluster) list ->
   (glyph, cluster, x_advance, y_advance, x_offset, y_offset) list in final order). *)
From Coq Require Import List NArith ZArith Bool.
From RB Require Import Model.Font Model.Simple Proofs.SimpleP.
Import ListNotations.
Local Open Scope N_scope.

(* hypotheses used below (definitions in Proofs/SimpleP.v), restated so that they can be read here *)
Example C16_hyp_plain_text : forall o text,
  plain_text o text <-> (forall c cl, In (c, cl) text -> gc_is_mark (o_gc o c) = false /\ ((128 <=? c) && o_ign o c) = false).
Proof. intros; reflexivity. Qed.
Example C16_hyp_no_alternates : forall f o d text,
  no_alternates f o d text <-> (forall c cl, In (c, cl) text -> rot_cp f o d c = c).
Proof. intros; reflexivity. Qed.
Example C16_hyp_expect : forall f c cl,
  expect_h f (c, cl) = (nominal f c, cl, Z.of_N (hadv_of f (nominal f c)), 0%Z, 0%Z, 0%Z) /\
  expect_v f (c, cl) = (nominal f c, cl, 0%Z, v_advance f (nominal f c), (- (Z.of_N (hadv_of f (nominal f c)) / 2))%Z, (- f_ascender f)%Z).
Proof. intros; split; reflexivity. Qed.

Example C16_hyp_axis : forall d g xa ya xo yo h,
  (axis_ok d g <-> ((is_horizontal d = true -> g_ya g = 0%Z) /\ (is_vertical d = true -> g_xa g = 0%Z))) /\
  (axis4 h (xa, ya, xo, yo) <-> ((h = true -> ya = 0%Z) /\ (h = false -> xa = 0%Z))).
Proof. intros; split; reflexivity. Qed.
Example C16_hyp_font_gids16 : forall f,
  font_gids16 f <-> ((forall c g, In (c, g) (f_cmap f) -> g < 2 ^ 16) /\ (forall b s g, In (b, s, g) (f_cmap14 f) -> g < 2 ^ 16)).
Proof. intros; reflexivity. Qed.

(* ---- first sentence, horizontal: for EVERY font view, oracle, native script direction, cluster level,
   not-found glyph and flag, a text of non-mark, non-ignorable characters without a usable mirrored
   alternate is rendered, character by character, as (cmap glyph (.notdef when unmapped), its cluster,
   hmtx advance, 0, 0, 0); right-to-left: that list reversed *)
Theorem C16_simple_h : forall f o r text, plain_text o text -> no_alternates f o (r_dir r) text ->
  (r_dir r = LTR -> shape_simple f o r text = map (expect_h f) text) /\
  (r_dir r = RTL -> shape_simple f o r text = rev (map (expect_h f) text)).
Proof. exact simple_h. Qed.
Print Assumptions C16_simple_h.

(* ---- first sentence, vertical: (cmap glyph, cluster, 0, -(vertical advance), -(hmtx advance / 2),
   -(hhea ascender)); bottom-to-top: reversed *)
Theorem C16_simple_v : forall f o r text, plain_text o text -> no_alternates f o (r_dir r) text ->
  (r_dir r = TTB -> shape_simple f o r text = map (expect_v f) text) /\
  (r_dir r = BTT -> shape_simple f o r text = rev (map (expect_v f) text)).
Proof. exact simple_v. Qed.
Print Assumptions C16_simple_v.

(* the vertical advance is the vmtx advance, or ascender - descender (no range condition: the code
   subtracts in i32 since the fix 836488e; the i16 subtraction it replaced wrapped beyond 32767) *)
Theorem C16_vadv_vmtx : forall f vm g, f_vmetrics f = Some vm ->
  v_advance f g = (- Z.of_N (nth (N.to_nat g) (vm_vadv vm) 0%N))%Z.
Proof. exact v_advance_vmtx. Qed.
Print Assumptions C16_vadv_vmtx.

Theorem C16_vadv_fallback : forall f g, f_vmetrics f = None -> v_advance f g = (- (f_ascender f - f_descender f))%Z.
Proof. exact v_advance_fallback. Qed.
Print Assumptions C16_vadv_fallback.

Example C16_vadv_tall : v_advance tall_font 1 = (-40000)%Z.
Proof. exact v_advance_tall. Qed.

(* when is there no usable alternate: never for left-to-right; when the Unicode tables have none;
   when the font maps none of them *)
Theorem C16_no_alternate_ltr : forall f o c, rot_cp f o LTR c = c.
Proof. exact rot_cp_ltr. Qed.
Print Assumptions C16_no_alternate_ltr.
Theorem C16_no_alternate_unmapped : forall f o d c,
  (forall m, o_mirror o c = Some m -> cmap_lookup f m = None) ->
  (forall v, o_vert o c = Some v -> cmap_lookup f v = None) -> rot_cp f o d c = c.
Proof. exact rot_cp_unmapped_alternates. Qed.
Print Assumptions C16_no_alternate_unmapped.

(* the same result with alternates in play: the glyph is the cmap glyph of the rotated character *)
Theorem C16_simple_rotated : forall f o r text, plain_text o text ->
  shape_simple f o r text =
  let e := if is_horizontal (r_dir r) then expect_h_rot f o (r_dir r) else expect_v_rot f o (r_dir r) in
  if is_backward (r_dir r) then rev (map e text) else map e text.
Proof. exact simple_rot. Qed.
Print Assumptions C16_simple_rotated.

(* ---- axis discipline: invariant of every positioning step of the model, for arbitrary glyph lists
   (marks, ignorables, selectors included) ... *)
Theorem C16_axis_position_default : forall f d l, Forall (axis_ok d) (position_default f d (clear_positions l)).
Proof. exact axis_position_default. Qed.
Print Assumptions C16_axis_position_default.
Theorem C16_axis_zero_marks : forall d adj l, Forall (axis_ok d) l -> Forall (axis_ok d) (zero_mark_widths adj l).
Proof. exact axis_zero_mark_widths. Qed.
Print Assumptions C16_axis_zero_marks.
Theorem C16_axis_zero_ignorables : forall d en l, Forall (axis_ok d) l -> Forall (axis_ok d) (zero_ignorables en l).
Proof. exact axis_zero_ignorables. Qed.
Print Assumptions C16_axis_zero_ignorables.
Theorem C16_axis_fallback_marks : forall d adj l seen, Forall (axis_ok d) l -> Forall (axis_ok d) (fallback_marks adj seen l).
Proof. exact axis_fallback_marks. Qed.
Print Assumptions C16_axis_fallback_marks.
Theorem C16_axis_not_found_vs : forall d nf l, Forall (axis_ok d) l -> Forall (axis_ok d) (deal_with_vs nf l).
Proof. exact axis_deal_with_vs. Qed.
Print Assumptions C16_axis_not_found_vs.

(* ... and of their composition: every result of the model, for every font view, oracle, request and
   text (no domain hypothesis), has y_advance = 0 when horizontal and x_advance = 0 when vertical *)
Theorem C16_axis : forall f o r text,
  Forall (fun x => (is_horizontal (r_dir r) = true -> og_ya x = 0%Z) /\ (is_vertical (r_dir r) = true -> og_xa x = 0%Z))
         (shape_simple f o r text).
Proof. exact axis_pipeline. Qed.
Print Assumptions C16_axis.

(* the GPOS value record, cursive (main direction) and kern writers keep the discipline too *)
Theorem C16_axis_value_record : forall h v p, axis4 h p -> axis4 h (apply_value h v p).
Proof. exact axis_apply_value. Qed.
Print Assumptions C16_axis_value_record.
Theorem C16_axis_cursive : forall d ex en pi pj, axis4 (is_horizontal d) pi -> axis4 (is_horizontal d) pj ->
  axis4 (is_horizontal d) (fst (cursive_main d ex en pi pj)) /\ axis4 (is_horizontal d) (snd (cursive_main d ex en pi pj)).
Proof. exact axis_cursive_main. Qed.
Print Assumptions C16_axis_cursive.
Theorem C16_axis_kern : forall h cs k pi pj, axis4 h pi -> axis4 h pj ->
  axis4 h (fst (kern_pair h cs k pi pj)) /\ axis4 h (snd (kern_pair h cs k pi pj)).
Proof. exact axis_kern_pair. Qed.
Print Assumptions C16_axis_kern.

(* ---- glyph ids: with 16-bit glyph ids in the font's cmap and cmap-14 tables, every glyph id of every
   result is < 2^16 or is the caller's not-found-variation-selector glyph ... *)
Theorem C16_gid16_writers : forall f o r text, font_gids16 f ->
  Forall (fun x => og_gid x < 2 ^ 16 \/ r_nf r = Some (og_gid x)) (shape_simple f o r text).
Proof. exact gid16_writers. Qed.
Print Assumptions C16_gid16_writers.

(* ... hence outside the known class (a not-found glyph above 0xFFFF) all are < 2^16 *)
Theorem C16_gid16_outside_known : forall f o r text, font_gids16 f -> (forall g, r_nf r = Some g -> g < 2 ^ 16) ->
  Forall (fun x => og_gid x < 2 ^ 16) (shape_simple f o r text).
Proof. exact gid16_outside_known. Qed.
Print Assumptions C16_gid16_outside_known.

(* ... and inside the class the property fails: set_not_found_variation_selector_glyph(0x12345),
   text <U+E000, U+FE00> on a font without cmap-14 entry (replayed on the real code by the driver) *)
Theorem C16_gid16_refuted :
  font_gids16 wit_font /\ in_domain wit_font wit_oracle wit_req wit_text = true /\
  shape_simple wit_font wit_oracle wit_req wit_text = [(1, 0, 510%Z, 0%Z, 0%Z, 0%Z); (74565, 0, 0%Z, 0%Z, 0%Z, 0%Z)] /\
  Exists (fun x => 2 ^ 16 <= og_gid x) (shape_simple wit_font wit_oracle wit_req wit_text).
Proof. exact gid16_refuted. Qed.
Print Assumptions C16_gid16_refuted.

(* ---- non-vacuity: a font with vmtx and one without, a text with an unmapped character, the four
   directions; the hypotheses of the theorems hold for it and the results are the expected ones *)
Definition ex_font (vm : option vmetrics) : font :=
  mkFont 4 1000 800%Z (-200)%Z 0%Z [500; 511; 520; 530] vm [(65, 1); (66, 2); (20013, 3)] [] None None None None None.
Definition ex_oracle : oracle := mkOracle (fun c => if c =? 20013 then 7 else 9) (fun _ => false) (fun _ => None) (fun _ => None).
Definition ex_text : list (N * N) := [(65, 0); (20013, 1); (67, 2)].

Example C16_example_hypotheses :
  plain_text ex_oracle ex_text /\ (forall d, no_alternates (ex_font None) ex_oracle d ex_text) /\ font_gids16 (ex_font None).
Proof.
  split; [|split].
  - intros c cl H. cbn in H. repeat (destruct H as [H|H]; [inversion H; subst; split; reflexivity|]). contradiction.
  - intros d c cl _. apply rot_cp_no_alternate; reflexivity.
  - split; intros; cbn in H; repeat (destruct H as [H|H]; [inversion H; subst; reflexivity|]); contradiction.
Qed.

Example C16_example_results :
  shape_simple (ex_font None) ex_oracle (mkReq LTR HLtr 0 None true) ex_text
    = [(1, 0, 511%Z, 0%Z, 0%Z, 0%Z); (3, 1, 530%Z, 0%Z, 0%Z, 0%Z); (0, 2, 500%Z, 0%Z, 0%Z, 0%Z)]
  /\ shape_simple (ex_font None) ex_oracle (mkReq RTL HLtr 1 None true) ex_text
    = [(0, 2, 500%Z, 0%Z, 0%Z, 0%Z); (3, 1, 530%Z, 0%Z, 0%Z, 0%Z); (1, 0, 511%Z, 0%Z, 0%Z, 0%Z)]
  /\ shape_simple (ex_font None) ex_oracle (mkReq TTB HLtr 2 None true) ex_text
    = [(1, 0, 0%Z, (-1000)%Z, (-255)%Z, (-800)%Z); (3, 1, 0%Z, (-1000)%Z, (-265)%Z, (-800)%Z); (0, 2, 0%Z, (-1000)%Z, (-250)%Z, (-800)%Z)]
  /\ shape_simple (ex_font (Some (mkVMetrics 500%Z (-500)%Z 0%Z [1000; 1010; 1020; 1030]))) ex_oracle (mkReq BTT HInvalid 0 None true) ex_text
    = [(0, 2, 0%Z, (-1000)%Z, (-250)%Z, (-800)%Z); (3, 1, 0%Z, (-1030)%Z, (-265)%Z, (-800)%Z); (1, 0, 0%Z, (-1010)%Z, (-255)%Z, (-800)%Z)].
Proof. vm_compute. repeat split; reflexivity. Qed.
