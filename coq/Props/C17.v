(* Props/C17.v — property C17 (AAT morx subtables run as the extended state-machine model prescribes).
   Only statements, each closed by `exact`, with Print Assumptions beneath. *)
From Coq Require Import List NArith ZArith Bool Arith Permutation.
From RB Require Import Base.Result Model.Buffer Model.Font Model.Morx Model.MorxPipe Proofs.MorxP.
Import ListNotations.
Local Open Scope N_scope.

(* non-contextual subtables map every glyph through the lookup table (glyphs the table does not
   cover stay), for every buffer; clusters are untouched *)
Theorem C17_noncontextual : forall l ng b,
  map gid (arr (apply_noncontextual l ng b)) = map (nonctx_gid l ng) (map gid (arr b))
  /\ map cluster (arr (apply_noncontextual l ng b)) = map cluster (arr b).
Proof. exact (fun l ng b => conj (noncontextual_gids l ng b) (noncontextual_clusters l ng b)). Qed.
Print Assumptions C17_noncontextual.
