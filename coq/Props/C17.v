(* Props/C17.v — property C17 (AAT morx subtables run as the extended state-machine model prescribes).
   Only statements, each closed by `exact`, with Print Assumptions beneath; Examples at the end show
   that the hypotheses are satisfiable and that the model computes the hand-derived results of
   harness/src/fontgen/selftest.rs. *)
From Coq Require Import List NArith ZArith Bool Arith Permutation.
From RB Require Import Base.Result Model.Buffer Model.Font Model.Morx Model.MorxPipe Proofs.MorxP.
Import ListNotations.

(* ------------------------------------------------------------------ 1. rearrangement *)

(* The nibble-MAP implementation (MAP table, l/r/reverse nibbles, the two save loops, the forward or
   backward copy loop over the middle, the two write-back loops, the two swaps — Model/Morx.v
   rearrange_range, loops literal in range-relative indices) equals Apple's verb table for all 16
   verbs and EVERY marked range within HB_MAX_CONTEXT_LENGTH = 64: x is an arbitrary middle. *)
Theorem C17_rearrange : forall (a b c d : info) (x : list info),
  (len_ok x -> rearrange_verb 0 x = x) /\                                                       (* no change *)
  (len_ok (a :: x) -> rearrange_verb 1 (a :: x) = x ++ [a]) /\                                  (* Ax => xA *)
  (len_ok (x ++ [d]) -> rearrange_verb 2 (x ++ [d]) = d :: x) /\                                (* xD => Dx *)
  (len_ok (a :: x ++ [d]) -> rearrange_verb 3 (a :: x ++ [d]) = d :: x ++ [a]) /\               (* AxD => DxA *)
  (len_ok (a :: b :: x) -> rearrange_verb 4 (a :: b :: x) = x ++ [a; b]) /\                     (* ABx => xAB *)
  (len_ok (a :: b :: x) -> rearrange_verb 5 (a :: b :: x) = x ++ [b; a]) /\                     (* ABx => xBA *)
  (len_ok (x ++ [c; d]) -> rearrange_verb 6 (x ++ [c; d]) = c :: d :: x) /\                     (* xCD => CDx *)
  (len_ok (x ++ [c; d]) -> rearrange_verb 7 (x ++ [c; d]) = d :: c :: x) /\                     (* xCD => DCx *)
  (len_ok (a :: x ++ [c; d]) -> rearrange_verb 8 (a :: x ++ [c; d]) = c :: d :: x ++ [a]) /\    (* AxCD => CDxA *)
  (len_ok (a :: x ++ [c; d]) -> rearrange_verb 9 (a :: x ++ [c; d]) = d :: c :: x ++ [a]) /\    (* AxCD => DCxA *)
  (len_ok (a :: b :: x ++ [d]) -> rearrange_verb 10 (a :: b :: x ++ [d]) = d :: x ++ [a; b]) /\ (* ABxD => DxAB *)
  (len_ok (a :: b :: x ++ [d]) -> rearrange_verb 11 (a :: b :: x ++ [d]) = d :: x ++ [b; a]) /\ (* ABxD => DxBA *)
  (len_ok (a :: b :: x ++ [c; d]) -> rearrange_verb 12 (a :: b :: x ++ [c; d]) = c :: d :: x ++ [a; b]) /\  (* ABxCD => CDxAB *)
  (len_ok (a :: b :: x ++ [c; d]) -> rearrange_verb 13 (a :: b :: x ++ [c; d]) = c :: d :: x ++ [b; a]) /\  (* ABxCD => CDxBA *)
  (len_ok (a :: b :: x ++ [c; d]) -> rearrange_verb 14 (a :: b :: x ++ [c; d]) = d :: c :: x ++ [a; b]) /\  (* ABxCD => DCxAB *)
  (len_ok (a :: b :: x ++ [c; d]) -> rearrange_verb 15 (a :: b :: x ++ [c; d]) = d :: c :: x ++ [b; a]).    (* ABxCD => DCxBA *)
Proof. exact verb_table. Qed.
Print Assumptions C17_rearrange.

(* the same for an arbitrary MAP byte m: l = |A| and r = |D| glyphs change sides, reversed when the
   nibble is 3 *)
Theorem C17_rearrange_general : forall m A x D,
  length A = map_l m -> length D = map_r m -> length (A ++ x ++ D) <= MAX_CONTEXT_LENGTH ->
  rearrange_range m (A ++ x ++ D) = swapif (map_rev_r m) D ++ x ++ swapif (map_rev_l m) A.
Proof. exact rearrange_range_spec. Qed.
Print Assumptions C17_rearrange_general.

(* ranges shorter than l + r or longer than 64 glyphs are left alone, as the code's guard says *)
Theorem C17_rearrange_guard : forall m rng,
  (length rng < map_l m + map_r m)%nat \/ (MAX_CONTEXT_LENGTH < length rng)%nat -> rearrange_range m rng = rng.
Proof. exact rearrange_range_skip. Qed.
Print Assumptions C17_rearrange_guard.

(* whatever the MAP byte and the range: a permutation of the range *)
Theorem C17_rearrange_permutation : forall m rng, Permutation (rearrange_range m rng) rng.
Proof. exact rearrange_range_perm. Qed.
Print Assumptions C17_rearrange_permutation.

(* the transition on an in-place buffer (idx = |pre|): the two merge_clusters calls and the verb keep
   the buffer in place, keep its length, cursor, cluster level and success flag, and spend no budget *)
Theorem C17_rearrange_transition_shape : forall c e b ops c' b' ops' a, inplace b ->
  rearr_transition c e b ops = Ok (c', b', ops', a) -> keeps_inplace b b' /\ ops' = ops.
Proof. exact rearr_transition_inplace. Qed.
Print Assumptions C17_rearrange_transition_shape.

(* ------------------------------------------------------------------ 2. non-contextual *)

(* every glyph is mapped through the lookup table (glyphs the table does not cover stay), for every
   buffer; clusters are untouched *)
Theorem C17_noncontextual : forall l ng b,
  map gid (arr (apply_noncontextual l ng b)) = map (nonctx_gid l ng) (map gid (arr b))
  /\ map cluster (arr (apply_noncontextual l ng b)) = map cluster (arr b).
Proof. exact (fun l ng b => conj (noncontextual_gids l ng b) (noncontextual_clusters l ng b)). Qed.
Print Assumptions C17_noncontextual.

(* ------------------------------------------------------------------ 3. the drive loop is total *)

(* Generic: for ANY machine whose transition (when it leaves the buffer successful) keeps an invariant
   and does not raise  |remaining input| + max(max_ops, 0),  and whose next_glyph consumes input,
   fuel = that potential + 1 is never exhausted: every iteration either advances or pays one unit of
   the DONT_ADVANCE budget.  All state tables, states, contexts. *)
Theorem C17_drive_total_generic : forall (E C : Type) (M : machine E C) (st : state_table E) (ng : N) (Inv : zbuf -> Prop),
  (forall c e b ops c' b' ops' a, Inv b -> m_transition M c e b ops = Ok (c', b', ops', a) -> ok b' = true ->
     Inv b' /\ (pot b' ops' <= pot b ops)%nat) ->
  (forall b b2, Inv b -> rest b <> [] -> next_glyph b = Ok b2 -> ok b2 = true -> Inv b2 /\ (length (rest b2) < length (rest b))%nat) ->
  forall fuel state c b ops amb, Inv b -> (pot b ops < fuel)%nat -> drive_loop M st ng fuel state c b ops amb <> None.
Proof. exact (@drive_loop_total). Qed.
Print Assumptions C17_drive_total_generic.

(* instances: rearrangement and contextual subtables, with the fuel `drive` uses *)
Theorem C17_drive_total_rearrangement : forall st ng b ops state c amb, out_mode b = false ->
  drive_loop rearr_machine st ng (drive_fuel (drive_start true b) ops) state c (drive_start true b) ops amb <> None.
Proof. exact rearr_drive_total. Qed.
Print Assumptions C17_drive_total_rearrangement.

Theorem C17_drive_total_contextual : forall subs st ng b ops state c amb, out_mode b = false ->
  drive_loop (ctx_machine subs ng) st ng (drive_fuel (drive_start true b) ops) state c (drive_start true b) ops amb <> None.
Proof. exact ctx_drive_total. Qed.
Print Assumptions C17_drive_total_contextual.

(* C17_drive_total for ligature and insertion subtables is PARTIAL: the generic theorem above applies
   once  pot (transition b) <= pot b  is shown for lig_transition / ins_transition (move_to restores
   out_len; insertion pays `count` of max_ops for `count` glyphs).  Full statement:
     forall actions comps ligs st ng b ops, drive_loop (lig_machine actions comps ligs) st ng
        (drive_fuel (drive_start false b) ops) 0 lig_ctx0 (drive_start false b) ops 0 <> None
   and the same for ins_machine.  The correspondence run observes OutOfFuel as a model Error (none seen). *)

(* ------------------------------------------------------------------ 4. contextual transition *)

Theorem C17_contextual_transition_shape : forall subs ng c e b ops c' b' ops' a, inplace b ->
  ctx_transition subs ng c e b ops = Ok (c', b', ops', a) -> keeps_inplace b b' /\ ops' = ops.
Proof. exact ctx_transition_inplace. Qed.
Print Assumptions C17_contextual_transition_shape.

(* ------------------------------------------------------------------ 5. paired reversals *)

(* run_subtable applies the SAME reversal decision before and after the subtable ... *)
Theorem C17_reverse_paired : forall ng d s p p', run_subtable ng d s p = Ok p' ->
  exists b0 b1 ops amb,
    maybe_reverse (sub_reverse d s) (p_buf p) = Ok b0 /\
    apply_subtable (ms_kind s) ng b0 (p_ops p) = Ok (b1, ops, amb) /\
    maybe_reverse (sub_reverse d s) b1 = Ok (p_buf p').
Proof. exact run_subtable_paired. Qed.
Print Assumptions C17_reverse_paired.

(* ... and the two reversals cancel on an in-place buffer, for every decision r (hence for every
   combination of the logical / backwards coverage bits and the buffer direction): the order is as found *)
Theorem C17_reverse_restored : forall r b b0 b1, inplace_inv b ->
  maybe_reverse r b = Ok b0 -> maybe_reverse r b0 = Ok b1 -> arr b1 = arr b /\ dead b1 = dead b.
Proof. exact maybe_reverse_twice. Qed.
Print Assumptions C17_reverse_restored.

(* the decision itself: logical order => the backwards bit; layout order => backwards bit XOR backward direction *)
Theorem C17_reverse_decision : forall d s,
  sub_reverse d s = (if cov_logical s then cov_backwards s else negb (Bool.eqb (cov_backwards s) (dir_backward d))).
Proof. exact sub_reverse_spec. Qed.
Print Assumptions C17_reverse_decision.

(* ------------------------------------------------------------------ 6. feature-flag and direction gating *)

Local Open Scope N_scope.

(* without a `feat` table the compiled chain flags are the chain's default flags *)
Theorem C17_chain_flags : forall c, chain_flags no_feature c = mc_default_flags c.
Proof. exact chain_flags_default. Qed.
Print Assumptions C17_chain_flags.

(* a subtable (that the parser accepts) runs iff its feature flags meet the chain flags and its
   coverage admits the buffer direction; otherwise it is skipped and the buffer passes unchanged *)
Theorem C17_flags_gating : forall ng d flags s t p, kind_parses (ms_kind s) = true ->
  run_subtables ng d flags (s :: t) p =
  (if sub_runs flags d s then (do p1 <- run_subtable ng d s p; run_subtables ng d flags t p1)
   else run_subtables ng d flags t p).
Proof. exact run_subtables_step. Qed.
Print Assumptions C17_flags_gating.

Theorem C17_flags_gating_test : forall flags d s,
  sub_runs flags d s = true <->
  N.land (ms_sub_feature_flags s) flags <> 0 /\
  (N.land (ms_coverage s) 0x20000000 <> 0 \/ (dir_vertical d = true <-> N.land (ms_coverage s) 0x80000000 <> 0)).
Proof. exact sub_runs_spec. Qed.
Print Assumptions C17_flags_gating_test.
