(* Props/C17.v — property C17 (AAT morx subtables run as the extended state-machine model prescribes).
   Only statements, each closed by `exact`, with Print Assumptions beneath; Examples at the end show
   that the hypotheses are satisfiable and that the model computes the hand-derived results of
   harness/src/fontgen/selftest.rs. *)
From Coq Require Import List NArith ZArith Bool Arith Permutation.
From RB Require Import Gen.MorxConsts Gen.MorxFeatMap Base.Result Model.Buffer Model.Font Model.Morx Model.MorxFeat Model.MorxPipe Proofs.MorxP Gen.Pipeline Model.Pipeline Proofs.PipelineP.
Import ListNotations.

(* ------------------------------------------------------------------ 1. rearrangement *)

(* The nibble-MAP implementation (MAP table, l/r/reverse nibbles, the two save loops, the forward or
   backward copy loop over the middle, the two write-back loops, the two swaps — Model/Morx.v
   rearrange_range, loops literal in range-relative indices) equals Apple's verb table for all 16
   verbs and EVERY marked range within HB_MAX_CONTEXT_LENGTH = 64: x is an arbitrary middle. *)
(* the constants the model uses are the ones in the current source (regenerated: Gen/MorxConsts.v) *)
Theorem C17_constants :
  morx_rearrangement_map = REARR_MAP /\ morx_ligature_max_matches = N.of_nat LIG_MAX_MATCHES /\
  morx_lig_action_last = 0x80000000%N /\ morx_lig_action_store = 0x40000000%N /\ morx_lig_action_offset = 0x3FFFFFFF%N /\
  morx_verb = 15%N /\ morx_mark_first = 0x8000%N /\ morx_mark_last = 0x2000%N.
Proof. repeat split; exact eq_refl. Qed.
Print Assumptions C17_constants.

Theorem C17_rearrange : forall (a b c d : info) (x : list info),
  (len_ok x -> rearrange_verb 0 x = x) /\                                                       (* no change *)
  (len_ok (a :: x) -> rearrange_verb 1 (a :: x) = x ++ [a]) /\                                  (* Ax => xA *)
  (len_ok (x ++ [d]) -> rearrange_verb 2 (x ++ [d]) = d :: x) /\                                (* xD => Dx *)
  (len_ok (a :: x ++ [d]) -> rearrange_verb 3 (a :: x ++ [d]) = d :: x ++ [a]) /\               (* AxD => DxA *)
  (len_ok (a :: b :: x) -> rearrange_verb 4 (a :: b :: x) = x ++ [a; b]) /\                     (* ABx => xAB *)
  (len_ok (a :: b :: x) -> rearrange_verb 5 (a :: b :: x) = x ++ [b; a]) /\                     (* ABx => xBA *)
  (len_ok (x ++ [c; d]) -> rearrange_verb 6 (x ++ [c; d]) = c :: d :: x) /\                     (* xCD => CDx *)
  (len_ok (x ++ [c; d]) -> rearrange_verb 7 (x ++ [c; d]) = d :: c :: x) /\                     (* xCD => DCx *)
  (len_ok (a :: x ++ [c; d]) -> rearrange_verb 8 (a :: x ++ [c; d]) = c :: d :: x ++ [a]) /\    (* AxCD => CDxA *)
  (len_ok (a :: x ++ [c; d]) -> rearrange_verb 9 (a :: x ++ [c; d]) = d :: c :: x ++ [a]) /\    (* AxCD => DCxA *)
  (len_ok (a :: b :: x ++ [d]) -> rearrange_verb 10 (a :: b :: x ++ [d]) = d :: x ++ [a; b]) /\ (* ABxD => DxAB *)
  (len_ok (a :: b :: x ++ [d]) -> rearrange_verb 11 (a :: b :: x ++ [d]) = d :: x ++ [b; a]) /\ (* ABxD => DxBA *)
  (len_ok (a :: b :: x ++ [c; d]) -> rearrange_verb 12 (a :: b :: x ++ [c; d]) = c :: d :: x ++ [a; b]) /\  (* ABxCD => CDxAB *)
  (len_ok (a :: b :: x ++ [c; d]) -> rearrange_verb 13 (a :: b :: x ++ [c; d]) = c :: d :: x ++ [b; a]) /\  (* ABxCD => CDxBA *)
  (len_ok (a :: b :: x ++ [c; d]) -> rearrange_verb 14 (a :: b :: x ++ [c; d]) = d :: c :: x ++ [a; b]) /\  (* ABxCD => DCxAB *)
  (len_ok (a :: b :: x ++ [c; d]) -> rearrange_verb 15 (a :: b :: x ++ [c; d]) = d :: c :: x ++ [b; a]).    (* ABxCD => DCxBA *)
Proof. exact verb_table. Qed.
Print Assumptions C17_rearrange.

(* the same for an arbitrary MAP byte m: l = |A| and r = |D| glyphs change sides, reversed when the
   nibble is 3 *)
Theorem C17_rearrange_general : forall m A x D,
  length A = map_l m -> length D = map_r m -> length (A ++ x ++ D) <= MAX_CONTEXT_LENGTH ->
  rearrange_range m (A ++ x ++ D) = swapif (map_rev_r m) D ++ x ++ swapif (map_rev_l m) A.
Proof. exact rearrange_range_spec. Qed.
Print Assumptions C17_rearrange_general.

(* ranges shorter than l + r or longer than 64 glyphs are left alone, as the code's guard says *)
Theorem C17_rearrange_guard : forall m rng,
  (length rng < map_l m + map_r m)%nat \/ (MAX_CONTEXT_LENGTH < length rng)%nat -> rearrange_range m rng = rng.
Proof. exact rearrange_range_skip. Qed.
Print Assumptions C17_rearrange_guard.

(* whatever the MAP byte and the range: a permutation of the range *)
Theorem C17_rearrange_permutation : forall m rng, Permutation (rearrange_range m rng) rng.
Proof. exact rearrange_range_perm. Qed.
Print Assumptions C17_rearrange_permutation.

(* the transition on an in-place buffer (idx = |pre|): the two merge_clusters calls and the verb keep
   the buffer in place, keep its length, cursor, cluster level and success flag, and spend no budget *)
Theorem C17_rearrange_transition_shape : forall c e b ops c' b' ops' a, inplace b ->
  rearr_transition c e b ops = Ok (c', b', ops', a) -> keeps_inplace b b' /\ ops' = ops.
Proof. exact rearr_transition_inplace. Qed.
Print Assumptions C17_rearrange_transition_shape.

(* ------------------------------------------------------------------ 2. non-contextual *)

(* every glyph is mapped through the lookup table (glyphs the table does not cover stay), for every
   buffer; clusters are untouched *)
Theorem C17_noncontextual : forall l ng b,
  map gid (arr (apply_noncontextual l ng b)) = map (nonctx_gid l ng) (map gid (arr b))
  /\ map cluster (arr (apply_noncontextual l ng b)) = map cluster (arr b).
Proof. exact (fun l ng b => conj (noncontextual_gids l ng b) (noncontextual_clusters l ng b)). Qed.
Print Assumptions C17_noncontextual.

(* ------------------------------------------------------------------ 3. the drive loop is total *)

(* Generic: for ANY machine whose transition (when it leaves the buffer successful) keeps an invariant
   and does not raise  |remaining input| + max(max_ops, 0),  and whose next_glyph consumes input,
   fuel = that potential + 1 is never exhausted: every iteration either advances or pays one unit of
   the DONT_ADVANCE budget.  All state tables, states, contexts. *)
Theorem C17_drive_total_generic : forall (E C : Type) (M : machine E C) (st : state_table E) (ng : N) (Inv : zbuf -> Prop),
  (forall c e b ops c' b' ops' a, Inv b -> m_transition M c e b ops = Ok (c', b', ops', a) -> ok b' = true ->
     Inv b' /\ (pot b' ops' <= pot b ops)%nat) ->
  (forall b b2, Inv b -> rest b <> [] -> next_glyph b = Ok b2 -> ok b2 = true -> Inv b2 /\ (length (rest b2) < length (rest b))%nat) ->
  forall fuel state c b ops amb gate lr, Inv b -> (pot b ops < fuel)%nat -> drive_loop M st ng fuel state c b ops amb gate lr <> None.
Proof. exact (@drive_loop_total). Qed.
Print Assumptions C17_drive_total_generic.

(* instances: rearrangement and contextual subtables, with the fuel `drive` uses *)
Theorem C17_drive_total_rearrangement : forall st ng b ops state c amb gate lr, out_mode b = false ->
  drive_loop rearr_machine st ng (drive_fuel (drive_start true b) ops) state c (drive_start true b) ops amb gate lr <> None.
Proof. exact rearr_drive_total. Qed.
Print Assumptions C17_drive_total_rearrangement.

Theorem C17_drive_total_contextual : forall subs st ng b ops state c amb gate lr, out_mode b = false ->
  drive_loop (ctx_machine subs ng) st ng (drive_fuel (drive_start true b) ops) state c (drive_start true b) ops amb gate lr <> None.
Proof. exact ctx_drive_total. Qed.
Print Assumptions C17_drive_total_contextual.

(* ------------------------------------------------------------------ 4. contextual transition *)

Theorem C17_contextual_transition_shape : forall subs ng c e b ops c' b' ops' a, inplace b ->
  ctx_transition subs ng c e b ops = Ok (c', b', ops', a) -> keeps_inplace b b' /\ ops' = ops.
Proof. exact ctx_transition_inplace. Qed.
Print Assumptions C17_contextual_transition_shape.

(* ------------------------------------------------------------------ 5. paired reversals *)

(* run_subtable applies the SAME reversal decision before and after the subtable ... *)
Theorem C17_reverse_paired : forall ng d s p p', run_subtable ng d s p = Ok p' ->
  exists b0 b1 ops amb,
    maybe_reverse (sub_reverse d s) (p_buf p) = Ok b0 /\
    apply_subtable (ms_kind s) ng None (p_ecap p) b0 (p_ops p) = Ok (b1, ops, amb) /\
    maybe_reverse (sub_reverse d s) b1 = Ok (p_buf p').
Proof. exact run_subtable_paired. Qed.
Print Assumptions C17_reverse_paired.

(* ... and the two reversals cancel on an in-place buffer, for every decision r (hence for every
   combination of the logical / backwards coverage bits and the buffer direction): the order is as found *)
Theorem C17_reverse_restored : forall r b b0 b1, inplace_inv b ->
  maybe_reverse r b = Ok b0 -> maybe_reverse r b0 = Ok b1 -> arr b1 = arr b /\ dead b1 = dead b.
Proof. exact maybe_reverse_twice. Qed.
Print Assumptions C17_reverse_restored.

(* the decision itself: logical order => the backwards bit; layout order => backwards bit XOR backward direction *)
Theorem C17_reverse_decision : forall d s,
  sub_reverse d s = (if cov_logical s then cov_backwards s else negb (Bool.eqb (cov_backwards s) (dir_backward d))).
Proof. exact sub_reverse_spec. Qed.
Print Assumptions C17_reverse_decision.

(* ------------------------------------------------------------------ 6. feature-flag and direction gating *)

Local Open Scope N_scope.

(* without a `feat` table the compiled chain flags are the chain's default flags *)
Theorem C17_chain_flags : forall c, chain_flags no_feature c = mc_default_flags c.
Proof. exact chain_flags_default. Qed.
Print Assumptions C17_chain_flags.

(* a subtable (that the parser accepts) runs iff its feature flags meet the chain flags and its
   coverage admits the buffer direction; otherwise it is skipped and the buffer passes unchanged *)
Theorem C17_flags_gating : forall ng d flags s t p, kind_parses (ms_kind s) = true ->
  run_subtables ng d flags (s :: t) p =
  (if sub_runs flags d s then (do p1 <- run_subtable ng d s p; run_subtables ng d flags t p1)
   else run_subtables ng d flags t p).
Proof. exact run_subtables_step. Qed.
Print Assumptions C17_flags_gating.

Theorem C17_flags_gating_test : forall flags d s,
  sub_runs flags d s = true <->
  N.land (ms_sub_feature_flags s) flags <> 0 /\
  (N.land (ms_coverage s) 0x20000000 <> 0 \/ (dir_vertical d = true <-> N.land (ms_coverage s) 0x80000000 <> 0)).
Proof. exact sub_runs_spec. Qed.
Print Assumptions C17_flags_gating_test.

(* ------------------------------------------------------------------ 3b. drive totality, streaming subtables *)

Local Close Scope N_scope.

(* ligature and insertion subtables: the transition restores out_len (ligature) or pays `count` units
   of max_ops for `count` inserted glyphs (insertion), so the same potential argument applies — for
   every buffer, every state table and payload tables *)
Theorem C17_drive_total_ligature : forall actions comps ligs st ng b ops state c amb gate lr,
  drive_loop (lig_machine actions comps ligs) st ng (drive_fuel (drive_start false b) ops) state c (drive_start false b) ops amb gate lr <> None.
Proof. exact lig_drive_total. Qed.
Print Assumptions C17_drive_total_ligature.

Theorem C17_drive_total_insertion : forall glyphs st ng b ops state c amb gate lr,
  drive_loop (ins_machine glyphs) st ng (drive_fuel (drive_start false b) ops) state c (drive_start false b) ops amb gate lr <> None.
Proof. exact ins_drive_total. Qed.
Print Assumptions C17_drive_total_insertion.

(* ------------------------------------------------------------------ 4. single transitions: what lands where *)

(* contextual: the glyph at `mark` goes through substitution table mark_index, then the glyph at
   min(idx, len-1) — as it is after the first substitution — through table current_index; every other
   glyph and all clusters are untouched; SET_MARK records idx *)
Theorem C17_contextual : forall subs ng ms mk e b ops c' b' ops' a gm gc rm rc,
  ((dead b =? blen b) && negb ms)%bool = false -> blen b <> 0 ->
  (ce_mark_index e =? 65535)%N = false -> nth_error (arr b) mk = Some gm ->
  ctx_replacement subs ng (ce_mark_index e) (gid gm) = inl rm ->
  let i := Nat.min (dead b) (blen b - 1) in
  (ce_current_index e =? 65535)%N = false -> nth_error (sub_at mk rm (arr b)) i = Some gc ->
  ctx_replacement subs ng (ce_current_index e) (gid gc) = inl rc ->
  ctx_transition subs ng (ms, mk) e b ops = Ok (c', b', ops', a) ->
  arr b' = sub_at i rc (sub_at mk rm (arr b)) /\
  map cluster (arr b') = map cluster (arr b) /\
  c' = (if has (ce_flags e) 0x8000 then (true, dead b) else (ms, mk)) /\ ops' = ops /\ a = 0%N.
Proof. exact ctx_transition_exact. Qed.
Print Assumptions C17_contextual.

(* insertion at the current glyph x: the listed glyphs land before or after x as flagged, in list
   order, as copies of x (same cluster) with the listed ids; the cursor ends after them, or at the
   start of the block when DONT_ADVANCE is set; `count` units of max_ops are paid *)
Theorem C17_insertion_current : forall glyphs mark e b ops mark' b' ops' a x t gs count,
  out_mode b = true -> rest b = x :: t ->
  ie_marked_index e = 65535%N -> ie_current_index e <> 65535%N ->
  count = N.shiftr (N.land (ie_flags e) 0x03E0) 5 ->
  ins_list glyphs (ie_current_index e) (N.to_nat count) = Some gs ->
  (0 <= ops - Z.of_N count)%Z ->
  ins_transition glyphs mark e b ops = Ok (mark', b', ops', a) -> ok b' = true ->
  arr b' = pre b ++ (if has (ie_flags e) 0x0800 then inserted x gs ++ [x] else x :: inserted x gs) ++ t /\
  length (pre b') = (if has (ie_flags e) 0x4000 then length (pre b) else length (pre b) + length gs) /\
  ops' = (ops - Z.of_N count)%Z /\ a = 0%N /\
  mark' = (if has (ie_flags e) 0x8000 then length (pre b) else mark).
Proof. exact ins_current_exact. Qed.
Print Assumptions C17_insertion_current.

(* insertion at the marked glyph m = out[mark]: before or after m as flagged, copies of m *)
Theorem C17_insertion_marked : forall glyphs e b ops mark' b' ops' a P m Q gs count,
  out_mode b = true -> pre b = P ++ m :: Q ->
  ie_marked_index e <> 65535%N -> ie_current_index e = 65535%N ->
  count = N.land (ie_flags e) 0x1F ->
  ins_list glyphs (ie_marked_index e) (N.to_nat count) = Some gs ->
  (0 < ops - Z.of_N count)%Z ->
  ins_transition glyphs (length P) e b ops = Ok (mark', b', ops', a) -> ok b' = true ->
  arr b' = P ++ (if has (ie_flags e) 0x0400 then inserted m gs ++ [m] else m :: inserted m gs) ++ Q ++ rest b /\
  length (pre b') = length (pre b) + length gs /\
  ops' = (ops - Z.of_N count)%Z /\ a = 0%N.
Proof. exact ins_marked_exact. Qed.
Print Assumptions C17_insertion_marked.

(* ligature, one pair (a on the component stack and in the out-buffer, b current and pushed by this
   entry), action list [act0: component of b; act1: component of a, STORE or LAST]: the pops follow the
   action list from the top of the stack, the ligature glyph ligs[comp(b) + comp(a)] replaces a (the
   stored position), b becomes the deleted glyph 0xFFFF, merge_out_clusters runs over exactly the two,
   the cursor ends where it was *)
Theorem C17_ligature_stack_pair : forall actions comps ligs ps0 e b ops c' b' ops' a P xa xb t act0 act1 c0 c1 lig,
  out_mode b = true -> pre b = P ++ [xa] -> rest b = xb :: t ->
  length ps0 = LIG_MAX_MATCHES -> pos_get ps0 0 = length P ->
  has (le_flags e) 0x8000 = true -> has (le_flags e) 0x2000 = true ->
  nth_error actions (N.to_nat (le_action_index e)) = Some act0 -> has act0 0xC0000000 = false ->
  nth_error actions (N.to_nat (le_action_index e + 1)) = Some act1 -> has act1 0xC0000000 = true ->
  (Z.of_N (gid xb) + lig_offset act0 <? 0)%Z = false ->
  nth_error comps (Z.to_nat (Z.of_N (gid xb) + lig_offset act0)) = Some c0 ->
  (Z.of_N (gid xa) + lig_offset act1 <? 0)%Z = false ->
  nth_error comps (Z.to_nat (Z.of_N (gid xa) + lig_offset act1)) = Some c1 ->
  nth_error ligs (N.to_nat (0 + c0 + c1)) = Some lig ->
  lig_transition actions comps ligs (1, ps0) e b ops = Ok (c', b', ops', a) -> ok b' = true ->
  map gid (arr b') = map gid P ++ [lig; DELETED_GLYPH] ++ map gid t /\ length (pre b') = length P + 1 /\
  (exists b4 b5, pre b4 = P ++ [set_gid xa lig; set_gid xb DELETED_GLYPH] /\ rest b4 = t /\ level b4 = level b /\
                 merge_out_clusters b4 (length P) (length P + 2) = Ok b5 /\ arr b' = arr b5) /\
  ops' = ops /\ a = 0%N /\ fst c' = (if has act1 0x80000000 then 1 else 0).
Proof. exact lig_pair_exact. Qed.
Print Assumptions C17_ligature_stack_pair.

(* levels 0/1: after merge_out_clusters(s, e) every glyph of out[s..e) carries the minimum cluster
   of the range — the ligature and the deleted components share min(clusters) *)
Theorem C17_ligature_cluster_min : forall b s e b' i x, merge_out_clusters b s e = Ok b' ->
  level b <> 2%N -> 2 <= e - s -> s <= i < e -> nth_error (pre b') i = Some x ->
  exists first, nth_error (pre b) s = Some first /\
                cluster x = min_cluster_list (slice (pre b) (S s) e) (cluster first).
Proof. exact merge_out_clusters_min. Qed.
Print Assumptions C17_ligature_cluster_min.

(* C17_ligature_stack for stacks of arbitrary depth and C17_insertion with both insertions in one entry
   are PARTIAL (the pair / single-insertion cases above are proved; the general cases are covered by
   the correspondence run only).  Full statement: for a stack [p_1..p_n] and an action list whose k-th
   action is the first with STORE/LAST, lig_loop visits p_n, p_{n-1}, .. p_{n-k+1}, replaces the glyph
   at p_{n-k+1} by ligs[sum of components], the others by 0xFFFF, and leaves match_length = n-k+1. *)

(* ------------------------------------------------------------------ 7. chain flags with a `feat` table and user features *)

Local Open Scope N_scope.

(* the feature-type / selector constants of the deprecated small-caps fallback are the source's *)
Theorem C17_feature_constants :
  aat_type_letter_case = 3 /\ aat_selector_small_caps = 3 /\ aat_type_lower_case = 37 /\
  aat_selector_lower_case_small_caps = 1 /\ aat_type_character_alternatives = 17 /\
  mapping_find aat_feature_mappings 1936548720 (* 'smcp' *) = Some (37, 1, 0) /\
  mapping_find aat_feature_mappings 1818847073 (* 'liga' *) = Some (1, 2, 3).
Proof. repeat split; exact eq_refl. Qed.
Print Assumptions C17_feature_constants.

(* one chain feature entry: `flags = (flags & disable) | enable` exactly when its (type, setting) is
   requested (or it is the deprecated letter-case small-caps entry and lower-case small caps is) *)
Theorem C17_flag_entry : forall hf flags f,
  flag_step hf flags f =
  if hf (mf_type f) (mf_setting f) || ((mf_type f =? 3) && (mf_setting f =? 3) && hf 37 1)
  then N.lor (N.land flags (mf_disable f)) (mf_enable f) else flags.
Proof. exact flag_step_spec. Qed.
Print Assumptions C17_flag_entry.

(* several entries act in TABLE order: the flags of a chain with entries fs1 ++ fs2 are the fold of
   fs2's updates over the flags after fs1 (overlapping masks: later entries win) *)
Theorem C17_flag_entries_in_table_order : forall hf d fs1 fs2 subs,
  chain_flags hf (mkMorxChain d (fs1 ++ fs2) subs) =
  fold_left (flag_step hf) fs2 (chain_flags hf (mkMorxChain d fs1 subs)).
Proof. exact chain_flags_app. Qed.
Print Assumptions C17_flag_entries_in_table_order.

Theorem C17_flag_single_entry : forall hf d f subs,
  chain_flags hf (mkMorxChain d [f] subs) =
  if entry_active hf f then N.lor (N.land d (mf_disable f)) (mf_enable f) else d.
Proof. exact chain_flags_single. Qed.
Print Assumptions C17_flag_single_entry.

(* no entry requested: the default flags *)
Theorem C17_flags_no_active_entry : forall hf c,
  (forall f, In f (mc_features c) -> entry_active hf f = false) -> chain_flags hf c = mc_default_flags c.
Proof. exact chain_flags_inactive. Qed.
Print Assumptions C17_flags_no_active_entry.

(* a font without `feat`: whatever the user features, one range with no active feature, and every
   chain runs with its default flags (the domain of theorems 6) *)
Theorem C17_no_feat_table : forall fs ng d c p,
  user_ranges None fs = Ok [([], 0, U32MAX)] /\
  run_chain ng d [([], 0, U32MAX)] c p = run_subtables ng d (mc_default_flags c) (mc_subtables c) p.
Proof. exact (fun fs ng d c p => conj (user_ranges_nofeat fs) (run_chain_nofeat ng d c p)). Qed.
Print Assumptions C17_no_feat_table.

(* a user feature that the font's `feat` table does not expose, or that has no AAT mapping, changes
   nothing: the compiled ranges are those of the request without it *)
Theorem C17_feature_absent_from_feat : forall t f ty en dis, uf_tag f <> TAG_AALT ->
  mapping_find aat_feature_mappings (uf_tag f) = Some (ty, en, dis) ->
  feat_exposed t ty = None ->
  ((ty =? aat_type_lower_case) && (en =? aat_selector_lower_case_small_caps) = false \/
   feat_exposed t aat_type_letter_case = None) ->
  add_feature (Some t) f = Ok [].
Proof. exact add_feature_unexposed. Qed.
Print Assumptions C17_feature_absent_from_feat.

Theorem C17_feature_without_mapping : forall t f, uf_tag f <> TAG_AALT ->
  mapping_find aat_feature_mappings (uf_tag f) = None -> add_feature (Some t) f = Ok [].
Proof. exact add_feature_unmapped. Qed.
Print Assumptions C17_feature_without_mapping.

Theorem C17_feature_dropped : forall feat fs1 f fs2, add_feature feat f = Ok [] ->
  user_ranges feat (fs1 ++ f :: fs2) = user_ranges feat (fs1 ++ fs2).
Proof. exact user_ranges_skip. Qed.
Print Assumptions C17_feature_dropped.

(* ranges: a global feature gives one range where it is active; a feature restricted to clusters
   [a, b) gives three ranges and is active in the middle one only *)
Theorem C17_ranges_global : forall i, compile_ranges [mkFR i 0 U32MAX] = [([i], 0, U32MAX)].
Proof. exact compile_ranges_global. Qed.
Print Assumptions C17_ranges_global.

Theorem C17_ranges_restricted : forall i a b, 0 < a -> a < b -> b < U32MAX ->
  compile_ranges [mkFR i a b] = [([], 0, a - 1); ([i], a, b - 1); ([], b, U32MAX)].
Proof. exact compile_ranges_ranged. Qed.
Print Assumptions C17_ranges_restricted.

(* ------------------------------------------------------------------ non-vacuity: the hand-derived results of fontgen's selftest *)

Local Open Scope N_scope.

Definition ex_font (m : morx) : font :=
  mkFont 24 1000 800%Z (-200)%Z 0%Z (repeat 500 24) None
         (map (fun i => (57344 + N.of_nat i, N.of_nat i + 1)) (seq 0 23)) [] None None None None (Some m).
Definition ex_chain (k : morx_kind) (cov : N) : morx := mkMorx 2 [mkMorxChain 1 [] [mkMorxSub cov 1 k]].
Definition ex_text (gs : list N) : list (N * N) := map (fun '(g, i) => (57343 + g, N.of_nat i)) (combine gs (seq 0 (length gs))).
Definition ex_states (e1 e2 : N) : list (list N) := [[0; 0; 0; 0; e1; 0]; [0; 0; 0; 0; e1; 0]; [0; 0; 0; 0; e1; e2]].
Definition ex_out (r : result shaped) : list (N * N) := match r with Ok sh => sh_glyphs sh | Error _ => [(999, 999)] end.

(* 1 2 -> ligature 8 (cluster of the first component), the second component is deleted *)
Example C17_ex_ligature :
  ex_out (shape_morx (ex_font (ex_chain (MLigature
            (mkStateTable 6 (mkAatLookup 6 [(1, 4); (2, 5)] None) (ex_states 1 2)
               [mkLigE 0 0 0; mkLigE 2 0x8000 0; mkLigE 0 0xA000 1])
            [0; 0; 0xC0000002] [9; 9; 1; 2] [20; 21; 22; 8]) 0)) LTR 0 (ex_text [1; 2; 3]))
  = [(8, 0); (3, 2)].
Proof. vm_compute. reflexivity. Qed.

(* after glyph 1 insert glyphs[1..3) = 9 10 (copies of 1: cluster 0) *)
Example C17_ex_insertion :
  ex_out (shape_morx (ex_font (ex_chain (MInsertion
            (mkStateTable 6 (mkAatLookup 0 [(1, 4); (2, 5)] None) [[0; 0; 0; 0; 1; 0]; [0; 0; 0; 0; 1; 0]]
               [mkIns 0 0 65535 65535; mkIns 0 64 1 65535])
            [12; 9; 10; 11]) 0)) LTR 0 (ex_text [1; 3]))
  = [(1, 0); (9, 0); (10, 0); (3, 1)].
Proof. vm_compute. reflexivity. Qed.

(* 1 marks first (the second 1 re-marks), 2 marks last and runs verb 1 (Ax => xA) on [1 2];
   merge_clusters gives both the smaller cluster 2 *)
Example C17_ex_rearrangement :
  ex_out (shape_morx (ex_font (ex_chain (MRearrangement
            (mkStateTable 6 (mkAatLookup 2 [(1, 4); (2, 5)] None) (ex_states 1 2)
               [mkRearr 0 0; mkRearr 2 0x8000; mkRearr 0 0x2001])) 0)) LTR 0 (ex_text [3; 1; 1; 2]))
  = [(3, 0); (1, 1); (2, 2); (1, 2)].
Proof. vm_compute. reflexivity. Qed.

(* contextual, run backwards (coverage bit 0x40000000) over LTR text: matches "2 1" in text order *)
Example C17_ex_contextual_backwards :
  ex_out (shape_morx (ex_font (ex_chain (MContextual
            (mkStateTable 6 (mkAatLookup 2 [(1, 4); (2, 5)] None) (ex_states 1 2)
               [mkCtx 0 0 65535 65535; mkCtx 2 0x8000 65535 65535; mkCtx 0 0 0 1])
            [mkAatLookup 6 [(1, 6)] None; mkAatLookup 6 [(2, 7); (3, 8)] None]) 0x40000000)) LTR 0 (ex_text [2; 1; 3]))
  = [(7, 0); (6, 1); (3, 2)].
Proof. vm_compute. reflexivity. Qed.

(* a subtable whose feature flags miss the chain's default flags is skipped *)
Example C17_ex_gated :
  ex_out (shape_morx (ex_font (mkMorx 2 [mkMorxChain 1 [] [mkMorxSub 0 2 (MNonContextual (mkAatLookup 6 [(1, 5)] None))]]))
                     LTR 0 (ex_text [1; 2]))
  = [(1, 0); (2, 1)].
Proof. vm_compute. reflexivity. Qed.

(* the hypotheses of C17_rearrange are satisfiable with a non-trivial middle *)
Example C17_ex_verb13 :
  map gid (rearrange_verb 13 (map (fun g => mkInfo g 0 0 0 0) [1; 2; 10; 11; 12; 3; 4])) = [3; 4; 10; 11; 12; 2; 1].
Proof. vm_compute. reflexivity. Qed.

(* user features on a font with `feat` (hand-derived in selftest t_morx_feat): chain default flags 1,
   entries ligatures-on enables 1, ligatures-off clears 1, lower-case small caps enables 2; subtable A
   (flags 1) maps 1 -> 5, subtable B (flags 2) maps 2 -> 6 *)
Definition ex_feat_font : font :=
  ex_font (mkMorx 2 [mkMorxChain 1
     [mkMorxFeat 1 2 1 0xFFFFFFFF; mkMorxFeat 1 3 0 0xFFFFFFFE; mkMorxFeat 37 1 2 0xFFFFFFFF; mkMorxFeat 3 3 2 0xFFFFFFFF]
     [mkMorxSub 0 1 (MNonContextual (mkAatLookup 6 [(1, 5)] None)); mkMorxSub 0 2 (MNonContextual (mkAatLookup 6 [(2, 6)] None))]]).
Definition ex_feat : option feat_table := Some [(1, [2; 3], false); (37, [0; 1], true)].
Definition uf (tag v a b : N) : ufeature := mkUF tag v a b.

Example C17_ex_feat_liga_off_smcp_on :
  ex_out (shape_morx_feat ex_feat_font ex_feat [uf 1936548720 1 0 U32MAX; uf 1818847073 0 0 U32MAX] LTR 0 (ex_text [1; 2]))
  = [(1, 0); (6, 1)].
Proof. vm_compute. reflexivity. Qed.

(* smcp[1:2]: only the glyph of cluster 1 meets subtable B (range flags, per glyph) *)
Example C17_ex_feat_ranged :
  ex_out (shape_morx_feat ex_feat_font ex_feat [uf 1936548720 1 1 2] LTR 0 (ex_text [2; 2; 2]))
  = [(2, 0); (6, 1); (2, 2)].
Proof. vm_compute. reflexivity. Qed.

(* the same request on the font without `feat`: ignored *)
Example C17_ex_nofeat_ignored :
  ex_out (shape_morx_feat ex_feat_font None [uf 1936548720 1 0 U32MAX; uf 1818847073 0 0 U32MAX] LTR 0 (ex_text [1; 2]))
  = [(5, 0); (2, 1)].
Proof. vm_compute. reflexivity. Qed.

(* the component stack is a ring of LIGATURE_MAX_MATCHES = 64 positions: 130 unanswered pushes of
   glyph 1 (match_length crosses 64 and 128), then 2 completes the pair with the LAST 1 only *)
Example C17_ex_ligature_deep_stack :
  map fst (ex_out (shape_morx (ex_font (ex_chain (MLigature
            (mkStateTable 6 (mkAatLookup 6 [(1, 4); (2, 5)] None) (ex_states 1 2)
               [mkLigE 0 0 0; mkLigE 2 0x8000 0; mkLigE 0 0xA000 1])
            [0; 0; 0xC0000002] [9; 9; 1; 2] [20; 21; 22; 8]) 0)) LTR 0 (ex_text (repeat 1 130 ++ [2; 3]))))
  = repeat 1 129 ++ [8; 3].
Proof. vm_compute. reflexivity. Qed.

(* ---- morx deletion markers leave the buffer exactly once (pass sequence regenerated from ot_shape.rs, Gen/Pipeline.v):
   there are two removal sites with the guards apply_morx && apply_gpos / apply_morx && !apply_gpos; the first sits
   behind substitution and before any positioning, the second behind all positioning (the zeroing of deleted glyphs
   included) and before ignorables are hidden. *)
Theorem C17_deleted_glyph_removal_sites : removal_order_ok = true.
Proof. exact removal_order_holds. Qed.
Print Assumptions C17_deleted_glyph_removal_sites.

Theorem C17_deleted_glyphs_removed_exactly_once : forall morx gpos : bool,
  removals_run morx gpos = Some (if morx then 1 else 0)%nat.
Proof. exact removal_exactly_once. Qed.
Print Assumptions C17_deleted_glyphs_removed_exactly_once.
