(* Props/C18.v — property C18: script and language select the font's script and language-system
   records.  Only statements, each closed by `exact`, with Print Assumptions beneath.
   The model (Model/Tag.v) reads the registry, the complex-language rules, the script tables, the
   select_script fallback list and five code-shape constants from Gen/LangTable.v, which the
   translator regenerates from /repo/src on every run: when the code regresses, the `eq_refl`
   arguments below stop type-checking. *)
From Coq Require Import List NArith Bool.
From RB Require Import Base.Bytes Gen.LangTable Model.Tag Proofs.TagP.
Import ListNotations.
Local Open Scope N_scope.

(* ------------------------------------------------------------------ the registry *)

(* sorted w.r.t. the comparison the binary search uses: complete enumeration of the
   nrows * (nrows - 1) / 2 pairs of the generated table *)
Theorem C18_registry_sorted : forall i j, (i < j)%nat -> (j < nrows)%nat ->
  lang_cmp (fst (row_at i)) (fst (row_at j)) = Some Lt \/ lang_cmp (fst (row_at i)) (fst (row_at j)) = Some Eq.
Proof. exact registry_sorted_or. Qed.
Print Assumptions C18_registry_sorted.

(* every language string of the registry (all nrows rows, complete enumeration) reaches the FIRST tag
   registered for it — or no tag when that row carries the null tag — for ANY result the binary
   search may return for its probe string (any index whose comparison is Equal; "not found" only if
   no row is Equal; a panic only if some comparison panics), with any script *)
Theorem C18_registry_hits : forall srch, (forall sub, search_ok sub (srch sub)) ->
  forall l t, In (l, t) lang_table ->
  forall sc, exists st lt, tags_gen srch sc (Some l) = Some (st, lt) /\ hd_error lt = first_registered l.
Proof. exact registry_hits. Qed.
Print Assumptions C18_registry_hits.

(* the executable search (first Equal row) satisfies the contract, so the statement covers `tags` *)
Theorem C18_registry_hits_exec : forall l t, In (l, t) lang_table ->
  forall sc, exists st lt, tags sc (Some l) = Some (st, lt) /\ hd_error lt = first_registered l.
Proof. exact registry_hits_exec. Qed.
Print Assumptions C18_registry_hits_exec.

(* for EVERY probe string the rows are partitioned Less* Equal* Greater* (rank Lt=0, Eq=1, Gt=2, panic=3):
   the precondition under which binary_search_by returns an Equal row whenever one exists; it holds
   because a row (no '-', bytes above '-') compares with a probe as it compares lexicographically with
   the probe's first subtag *)
Theorem C18_search_partitioned : forall sub i j, (i < j)%nat -> (j < nrows)%nat ->
  (rank3 (lang_cmp (fst (row_at i)) sub) <= rank3 (lang_cmp (fst (row_at j)) sub) <= 2)%nat.
Proof. exact (registry_partitioned eq_refl). Qed.
Print Assumptions C18_search_partitioned.

Theorem C18_first_subtag_semantics : forall i sub, (i < nrows)%nat ->
  lang_cmp (fst (row_at i)) sub = Some (cmp_bytes (fst (row_at i)) (first_subtag sub)).
Proof. exact (fun i sub Hi => lang_cmp_row (fst (row_at i)) sub eq_refl (proj1 (row_at_plain i Hi)) (proj2 (row_at_plain i Hi))). Qed.
Print Assumptions C18_first_subtag_semantics.

(* ------------------------------------------------------------------ script tags and their order *)

(* OpenType script-tag registry: the nine Indic scripts with a second-generation shaping model
   (tags 'xxx2', and 'xxx3' tried first), Myanmar ('mym2', no 'mym3'), and the five ISO 15924 codes whose
   OpenType tag is not the lower-cased code.  Tags are big-endian u32. *)
Definition TWO_GENERATIONS : list (N * N) :=
  [ (1113943655, 1651402546)  (* Beng bng2 *); (1147500129, 1684370994)  (* Deva dev2 *);
    (1198877298, 1735029298)  (* Gujr gjr2 *); (1198879349, 1735750194)  (* Guru gur2 *);
    (1265525857, 1802396722)  (* Knda knd2 *); (1298954605, 1835822386)  (* Mlym mlm2 *);
    (1332902241, 1869773106)  (* Orya ory2 *); (1415671148, 1953328178)  (* Taml tml2 *);
    (1415933045, 1952803890)  (* Telu tel2 *) ].
Definition V2_ONLY : list (N * N) := [ (1299803506, 1836674354) (* Mymr mym2 *) ].
Definition OLD_EXCEPTIONS : list (N * N) :=
  [ (1214870113, 1801547361)  (* Hira kana *); (1281453935, 1818324768)  (* Laoo 'lao ' *);
    (1500080489, 2036932640)  (* Yiii 'yi  ' *); (1315663727, 1852534560)  (* Nkoo 'nko ' *);
    (1449224553, 1986095392)  (* Vaii 'vai ' *) ].

(* for EVERY script tag: newest generation first, then the old tag (the ISO code with a lower-case
   first letter, or the exception) *)
Theorem C18_script_tags : forall sc,
  all_tags_from_script (Some sc) = spec_script_tags TWO_GENERATIONS V2_ONLY OLD_EXCEPTIONS sc.
Proof. exact (fun sc => all_tags_spec TWO_GENERATIONS V2_ONLY OLD_EXCEPTIONS sc eq_refl eq_refl eq_refl eq_refl). Qed.
Print Assumptions C18_script_tags.

(* for ANY font script list and any script tags: the selected script record is the first present
   among the tags followed by DFLT, dflt, latn; `found` tells whether it is one of the script's own *)
Theorem C18_script_order : forall ly tags,
  option_map (fun r => (snd (fst r), snd r)) (select_script ly tags)
    = first_index (map fst (ly_scripts ly)) (tags ++ [TAG_DFLT; TAG_dflt; TAG_latn])
  /\ (forall r, select_script ly tags = Some r ->
        fst (fst r) = match first_index (map fst (ly_scripts ly)) tags with Some _ => true | None => false end).
Proof. exact select_script_order. Qed.
Print Assumptions C18_script_order.

(* what "first present" means *)
Theorem C18_first_index_meaning : forall keys cands,
  match first_index keys cands with
  | Some (i, t) => nth_error keys i = Some t /\
                   exists pre post, cands = pre ++ t :: post /\ (forall x, In x pre -> ~ In x keys)
  | None => forall x, In x cands -> ~ In x keys
  end.
Proof. exact first_index_meaning. Qed.
Print Assumptions C18_first_index_meaning.

(* ------------------------------------------------------------------ language system and features *)

(* for ANY script record: the first existing language system among the language's tags, then a
   'dflt' record; None = the script's default language system is used *)
Theorem C18_lang_order : forall ly sidx ltags tag sr,
  nth_error (ly_scripts ly) sidx = Some (tag, sr) ->
  select_script_language ly sidx ltags = option_map fst (first_index (map fst (sc_langs sr)) (ltags ++ [TAG_dflt]))
  /\ forall lidx, sys_of ly sidx lidx =
       match lidx with Some i => option_map snd (nth_error (sc_langs sr) i) | None => sc_default sr end.
Proof. exact lang_order. Qed.
Print Assumptions C18_lang_order.

(* exactly the features listed by the selected language system (for the requested tags: the first
   listed feature carrying the tag) take part, and its required feature always does *)
Theorem C18_features : forall ly stags ltags requested found sidx tag i,
  select_script ly stags = Some (found, sidx, tag) ->
  let lidx := select_script_language ly sidx ltags in
  In i (active_features ly stags ltags requested) <->
    (exists t, required_feature ly sidx lidx = Some (i, t)) \/
    (exists sys t, sys_of ly sidx lidx = Some sys /\ In t requested /\
                   find_in_feats (ly_feats ly) (ls_feats sys) t = Some i).
Proof. exact active_features_spec. Qed.
Print Assumptions C18_features.

Theorem C18_features_required : forall ly sidx lidx i t,
  required_feature ly sidx lidx = Some (i, t) <->
  exists sys, sys_of ly sidx lidx = Some sys /\ ls_req sys = Some i /\ nth_error (ly_feats ly) i = Some t.
Proof. exact required_feature_spec. Qed.
Print Assumptions C18_features_required.

Theorem C18_features_listed : forall feats ftag idxs,
  match find_in_feats feats idxs ftag with
  | Some i => In i idxs /\ nth_error feats i = Some ftag
  | None => forall i, In i idxs -> nth_error feats i <> Some ftag
  end.
Proof. exact find_in_feats_meaning. Qed.
Print Assumptions C18_features_listed.

Theorem C18_no_script_no_features : forall ly stags ltags requested,
  select_script ly stags = None -> active_features ly stags ltags requested = [].
Proof. exact active_features_none. Qed.
Print Assumptions C18_no_script_no_features.

(* ------------------------------------------------------------------ private use, case, totality *)

(* an `-hbot` private-use tag is the only language tag, an `-hbsc` one the only script tag, whatever
   the rest of the language string and the buffer's script say *)
Theorem C18_private_use : forall srch sc lang pv prefix scr lg,
  split_language lang = Some (Some pv, prefix) ->
  parse_private (Some pv) HBSC lower_b = Some scr ->
  parse_private (Some pv) HBOT upper_b = Some lg ->
  (forall t, lg = Some t -> exists st, tags_of_language srch sc lang = Some (st, [t])) /\
  (forall s, scr = Some s -> tags_of_language srch sc lang = None \/ exists lt, tags_of_language srch sc lang = Some ([s], lt)) /\
  (scr = None -> tags_of_language srch sc lang = None \/ exists lt, tags_of_language srch sc lang = Some (all_tags_from_script sc, lt)).
Proof. exact private_use_override. Qed.
Print Assumptions C18_private_use.

(* "x-hbot" / "x-hbsc" + one to four alphanumerics (upper- resp. lower-cased, space padded) *)
Theorem C18_private_use_x : forall pat norm body rest,
  (pat = HBOT \/ pat = HBSC) ->
  body <> [] -> forallb is_alnum body = true -> (length body <= 4)%nat ->
  (length body = 4%nat \/ rest = [] \/ exists c r, rest = c :: r /\ is_alnum c = false) ->
  split_language (120 :: pat ++ body ++ rest) = Some (Some (120 :: pat ++ body ++ rest), []) /\
  parse_private (Some (120 :: pat ++ body ++ rest)) pat norm = Some (Some (dflt_quirk (tag_lossy (map norm body)))).
Proof. exact private_use_x. Qed.
Print Assumptions C18_private_use_x.

(* language tags are matched case-insensitively: two strings equal up to ASCII case give the same
   result (for ALL strings, any script, any search) *)
Theorem C18_case : forall srch sc a b, lower a = lower b -> tags_gen srch sc (Some a) = tags_gen srch sc (Some b).
Proof. exact (fun srch sc a b => tags_gen_case srch sc a b eq_refl). Qed.
Print Assumptions C18_case.

(* no panic for any well-formed UTF-8 language string, any script string, any search that does not
   itself panic — and the comparisons of the executable search never do *)
Theorem C18_total : forall srch sc lang,
  (forall sub, srch sub <> None) -> utf8_valid lang = true -> tags_gen srch sc (Some lang) <> None.
Proof. exact (fun srch sc lang Hs Hv => tags_gen_total srch sc lang eq_refl Hs Hv). Qed.
Print Assumptions C18_total.

Theorem C18_total_exec : forall sc lang, utf8_valid lang = true -> tags sc (Some lang) <> None.
Proof. exact (fun sc lang => tags_total sc lang eq_refl eq_refl). Qed.
Print Assumptions C18_total_exec.

Theorem C18_lang_cmp_total : forall a b, lang_cmp a b <> None.
Proof. exact (fun a b => lang_cmp_total a b eq_refl). Qed.
Print Assumptions C18_lang_cmp_total.

(* ------------------------------------------------------------------ non-vacuity *)

(* strings are spelled as byte lists: zzj, mo, aba, ZH-Hant-HK, Deva / en-US, Mymr, Latn / en-x-hbotabc-hbscdev2 *)
Example C18_ex_registry : Nat.ltb 1000 nrows = true
  /\ tags None (Some [122; 122; 106]) = Some ([], [1514684704])                                (* last row: 'ZHA ' *)
  /\ tags None (Some [109; 111]) = Some ([], [1297042464; 1380928800])                      (* 'MOL ', 'ROM ' *)
  /\ tags None (Some [97; 98; 97]) = Some ([], [])                                           (* null row *)
  /\ tags None (Some [90; 72; 45; 72; 97; 110; 116; 45; 72; 75]) = Some ([], [1514686496])                          (* 'ZHH ' *)
  /\ tags (Some [68; 101; 118; 97]) (Some [101; 110; 45; 85; 83]) = Some ([1684370995; 1684370994; 1684371041], [1162757920])
  /\ tags (Some [77; 121; 109; 114]) None = Some ([1836674354; 1836674418], [])
  /\ tags (Some [76; 97; 116; 110]) (Some [101; 110; 45; 120; 45; 104; 98; 111; 116; 97; 98; 99; 45; 104; 98; 115; 99; 100; 101; 118; 50]) = Some ([1684370994], [1094861600]).
Proof. vm_compute. repeat split. Qed.

(* a string with a two-byte character right after the dash: well-formed, and not a panic *)
Example C18_ex_total : utf8_valid [97; 45; 195; 169] = true /\ tags None (Some [97; 45; 195; 169]) = Some ([], [])
  /\ utf8_valid [122; 97; 195; 169] = true /\ tags None (Some [122; 97; 195; 169]) = Some ([], [])
  /\ utf8_valid [195] = false.
Proof. vm_compute. repeat split. Qed.

Example C18_ex_select :
  let sys f := {| ls_req := Some 0%nat; ls_feats := f |} in
  let ly := {| ly_scripts := [(TAG_DFLT, {| sc_default := Some (sys [1%nat]); sc_langs := [] |});
                              (1684370994, {| sc_default := Some (sys [2%nat]); sc_langs := [(1162757920, sys [1%nat; 2%nat])] |});
                              (TAG_latn, {| sc_default := None; sc_langs := [] |})];
               ly_feats := [2054847098; 1667460464; 1818649964] |} in
  select_script ly [1684370995; 1684370994; 1684371041] = Some (true, 1%nat, 1684370994)
  /\ select_script ly [1635017058] = Some (false, 0%nat, TAG_DFLT)
  /\ select_script_language ly 1 [1162757920] = Some 0%nat
  /\ active_features ly [1684370995; 1684370994; 1684371041] [1162757920] [1667460464; 1818649964; 1801810542] = [0%nat; 1%nat; 2%nat]
  /\ active_features ly [1684370995; 1684370994; 1684371041] [] [1667460464; 1818649964] = [0%nat; 2%nat].
Proof. vm_compute. repeat split. Qed.
