(* Props/C18.v — placeholder while the proofs are being built *)
From Coq Require Import List NArith Bool.
From RB Require Import Base.Bytes Gen.LangTable Model.Tag Proofs.TagP.
Import ListNotations.
Local Open Scope N_scope.

Theorem C18_placeholder : lang_table_rows = N.of_nat nrows.
Proof. vm_compute. reflexivity. Qed.
Print Assumptions C18_placeholder.
