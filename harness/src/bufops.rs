//! bufops: random operation sequences on the real `hb_buffer_t` (hook), printed with the
//! logical state after every operation, for the correspondence with coq/Model/Buffer.v.
//!
//! Line protocol:
//!   case <id> level=<l> flags=<f> maxlen=<m>
//!   init <g:m:c:v1:v2> ...
//!   op <name> <args...> => ok|panic ret=<0|1> mode=<0|1> idx=<n> ok=<0|1> scratch=<n> pre=[..] rest=[..]
use crate::util::*;
use rustybuzz::verif::buffer::*;

fn fmt_infos(xs: &[hb_glyph_info_t]) -> String {
    let v: Vec<String> = xs
        .iter()
        .map(|i| {
            let f = info_fields(i);
            format!("{}:{}:{}:{}:{}", f[0], f[1], f[2], f[3], f[4])
        })
        .collect();
    v.join(" ")
}

fn snapshot(b: &hb_buffer_t) -> String {
    let mode = have_output(b);
    let (pre, rest): (Vec<hb_glyph_info_t>, Vec<hb_glyph_info_t>) = if mode {
        (b.out_info()[..b.out_len].to_vec(), b.info[b.idx.min(b.len)..b.len].to_vec())
    } else {
        (b.info[..b.idx.min(b.len)].to_vec(), b.info[b.idx.min(b.len)..b.len].to_vec())
    };
    format!(
        "mode={} idx={} ok={} scratch={} pre=[{}] rest=[{}]",
        mode as u8,
        b.idx,
        b.successful as u8,
        b.scratch_flags,
        fmt_infos(&pre),
        fmt_infos(&rest)
    )
}

#[derive(Clone, Debug)]
enum Op {
    NextGlyph,
    NextGlyphs(usize),
    Skip,
    ReplaceGlyph(u32),
    ReplaceGlyphs(usize, Vec<u32>),
    OutputGlyph(u32),
    OutputInfo([u32; 5]),
    CopyGlyph,
    DeleteGlyph,
    MoveTo(usize),
    MergeClusters(usize, usize),
    MergeOut(usize, usize),
    UnsafeToBreak(Option<usize>, Option<usize>),
    UnsafeToConcat(Option<usize>, Option<usize>),
    UnsafeToBreakOut(Option<usize>, Option<usize>),
    UnsafeToConcatOut(Option<usize>, Option<usize>),
    ClearOutput,
    Sync,
    Reverse,
    ReverseRange(usize, usize),
    ReverseGroups(bool),
    ResetMasks(u32),
    SetMasks(u32, u32, u32, u32),
    Sort(usize, usize),
    DeleteInplace,
}

fn opt(o: Option<usize>) -> String {
    match o {
        Some(x) => x.to_string(),
        None => "-".to_string(),
    }
}

fn fmt_op(op: &Op) -> String {
    match op {
        Op::NextGlyph => "next_glyph".into(),
        Op::NextGlyphs(n) => format!("next_glyphs {}", n),
        Op::Skip => "skip_glyph".into(),
        Op::ReplaceGlyph(g) => format!("replace_glyph {}", g),
        Op::ReplaceGlyphs(n, gs) => format!("replace_glyphs {} {}", n, gs.iter().map(|g| g.to_string()).collect::<Vec<_>>().join(",")),
        Op::OutputGlyph(g) => format!("output_glyph {}", g),
        Op::OutputInfo(f) => format!("output_info {}:{}:{}:{}:{}", f[0], f[1], f[2], f[3], f[4]),
        Op::CopyGlyph => "copy_glyph".into(),
        Op::DeleteGlyph => "delete_glyph".into(),
        Op::MoveTo(i) => format!("move_to {}", i),
        Op::MergeClusters(s, e) => format!("merge_clusters {} {}", s, e),
        Op::MergeOut(s, e) => format!("merge_out_clusters {} {}", s, e),
        Op::UnsafeToBreak(s, e) => format!("unsafe_to_break {} {}", opt(*s), opt(*e)),
        Op::UnsafeToConcat(s, e) => format!("unsafe_to_concat {} {}", opt(*s), opt(*e)),
        Op::UnsafeToBreakOut(s, e) => format!("unsafe_to_break_out {} {}", opt(*s), opt(*e)),
        Op::UnsafeToConcatOut(s, e) => format!("unsafe_to_concat_out {} {}", opt(*s), opt(*e)),
        Op::ClearOutput => "clear_output".into(),
        Op::Sync => "sync".into(),
        Op::Reverse => "reverse".into(),
        Op::ReverseRange(s, e) => format!("reverse_range {} {}", s, e),
        Op::ReverseGroups(m) => format!("reverse_groups {}", *m as u8),
        Op::ResetMasks(m) => format!("reset_masks {}", m),
        Op::SetMasks(v, m, s, e) => format!("set_masks {} {} {} {}", v, m, s, e),
        Op::Sort(s, e) => format!("sort {} {}", s, e),
        Op::DeleteInplace => "delete_inplace".into(),
    }
}

/// Applies an op to the real buffer; returns the op's boolean result (true where none).
fn apply(b: &mut hb_buffer_t, op: &Op) -> bool {
    match op {
        Op::NextGlyph => b.next_glyph(),
        Op::NextGlyphs(n) => b.next_glyphs(*n),
        Op::Skip => b.skip_glyph(),
        Op::ReplaceGlyph(g) => b.replace_glyph(*g),
        Op::ReplaceGlyphs(n, gs) => b.replace_glyphs(*n, gs.len(), gs),
        Op::OutputGlyph(g) => b.output_glyph(*g),
        Op::OutputInfo(f) => b.output_info(info_new(f[0], f[1], f[2], f[3], f[4])),
        Op::CopyGlyph => b.copy_glyph(),
        Op::DeleteGlyph => b.delete_glyph(),
        Op::MoveTo(i) => return b.move_to(*i),
        Op::MergeClusters(s, e) => b.merge_clusters(*s, *e),
        Op::MergeOut(s, e) => b.merge_out_clusters(*s, *e),
        Op::UnsafeToBreak(s, e) => b.unsafe_to_break(*s, *e),
        Op::UnsafeToConcat(s, e) => b.unsafe_to_concat(*s, *e),
        Op::UnsafeToBreakOut(s, e) => b.unsafe_to_break_from_outbuffer(*s, *e),
        Op::UnsafeToConcatOut(s, e) => b.unsafe_to_concat_from_outbuffer(*s, *e),
        Op::ClearOutput => b.clear_output(),
        Op::Sync => return b.sync(),
        Op::Reverse => b.reverse(),
        Op::ReverseRange(s, e) => b.reverse_range(*s, *e),
        Op::ReverseGroups(m) => b.reverse_groups(|_, y| info_fields(y)[4] & 0x80 != 0, *m),
        Op::ResetMasks(m) => b.reset_masks(*m),
        Op::SetMasks(v, m, s, e) => b.set_masks(*v, *m, *s, *e),
        Op::Sort(s, e) => b.sort(*s, *e, |x, y| (info_fields(x)[3] & 0xFF) > (info_fields(y)[3] & 0xFF)),
        Op::DeleteInplace => b.delete_glyphs_inplace(|i| i.glyph_id & 1 == 1),
    }
    true
}

fn rand_gid(r: &mut Rng) -> u32 {
    r.below(40) as u32
}

fn rand_range(r: &mut Rng, lo: usize, hi: usize) -> (usize, usize) {
    // s <= e within [lo, hi]
    let s = lo + r.below((hi - lo + 1) as u64) as usize;
    let e = s + r.below((hi - s + 1) as u64) as usize;
    (s, e)
}

/// Picks an operation that respects the callers' preconditions in the current state.
fn gen_valid(r: &mut Rng, b: &hb_buffer_t) -> Op {
    let mode = have_output(b);
    let idx = b.idx;
    let len = b.len;
    let restn = len.saturating_sub(idx);
    let ol = b.out_len;
    if mode {
        loop {
            match r.below(22) {
                0 | 1 | 2 if restn > 0 => return Op::NextGlyph,
                3 if restn > 0 => return Op::NextGlyphs(r.below(restn as u64 + 1) as usize),
                4 if restn > 0 => return Op::Skip,
                5 | 6 if restn > 0 => return Op::ReplaceGlyph(rand_gid(r)),
                7 | 8 if restn > 0 => {
                    let n_in = 1 + r.below(restn.min(3) as u64) as usize;
                    let n_out = r.below(4) as usize;
                    return Op::ReplaceGlyphs(n_in, (0..n_out).map(|_| rand_gid(r)).collect());
                }
                9 => return Op::OutputGlyph(rand_gid(r)),
                10 => return Op::OutputInfo([rand_gid(r), r.below(8) as u32, r.below(12) as u32, 200 + r.below(50) as u32, 0]),
                11 if restn > 0 => return Op::CopyGlyph,
                12 | 13 if restn > 0 => return Op::DeleteGlyph,
                14 | 15 => return Op::MoveTo(r.below((ol + restn) as u64 + 1) as usize),
                16 if restn > 0 => {
                    let (s, e) = rand_range(r, 0, restn);
                    return Op::MergeClusters(idx + s, idx + e);
                }
                17 if ol > 0 => {
                    let (s, e) = rand_range(r, 0, ol);
                    return Op::MergeOut(s, e);
                }
                18 if restn > 0 => {
                    let (s, e) = rand_range(r, 0, restn);
                    return Op::UnsafeToBreak(Some(idx + s), Some(idx + e));
                }
                19 => {
                    let s = r.below(ol as u64 + 1) as usize;
                    let e = idx + r.below(restn as u64 + 1) as usize;
                    return if r.chance(2, 3) { Op::UnsafeToBreakOut(Some(s), Some(e)) } else { Op::UnsafeToConcatOut(Some(s), Some(e)) };
                }
                20 if restn > 0 => {
                    let (s, e) = rand_range(r, 0, restn);
                    return Op::UnsafeToConcat(Some(idx + s), Some(idx + e));
                }
                21 => return Op::Sync,
                _ => {}
            }
        }
    } else {
        loop {
            match r.below(16) {
                0 | 1 => {
                    let (s, e) = rand_range(r, 0, len);
                    return Op::MergeClusters(s, e);
                }
                2 | 3 => {
                    let (s, e) = rand_range(r, 0, len);
                    return if r.chance(1, 6) { Op::UnsafeToBreak(None, None) } else { Op::UnsafeToBreak(Some(s), Some(e)) };
                }
                4 => {
                    let (s, e) = rand_range(r, 0, len);
                    return Op::UnsafeToConcat(Some(s), Some(e));
                }
                5 => return Op::Reverse,
                6 => {
                    let (s, e) = rand_range(r, 0, len);
                    return Op::ReverseRange(s, e);
                }
                7 => return Op::ReverseGroups(r.chance(1, 2)),
                8 => return Op::ResetMasks((r.below(16) as u32) << 4),
                9 => {
                    let bit = 4 + r.below(6) as u32;
                    let m = ((1u32 << (1 + r.below(3))) - 1) << bit;
                    // ranges are CLUSTER ranges: draw the bounds from the cluster values present, from the buffer
                    // length (a position, not a cluster) and from small numbers; a fifth are the global range
                    let cls: Vec<u32> = b.info[..b.len].iter().map(|i| i.cluster).collect();
                    let (s0, e0) = rand_range(r, 0, 14);
                    let pickc = |r: &mut Rng| -> u32 { if cls.is_empty() { r.below(14) as u32 } else { *r.pick(&cls) } };
                    let s = match r.below(4) { 0 | 1 => 0u32, 2 => pickc(r), _ => s0 as u32 };
                    let e = match r.below(6) { 0 => len as u32, 1 => len as u32 + 1, 2 => pickc(r), 3 => pickc(r) + 1, 4 => s + 1 + r.below(3) as u32, _ => e0 as u32 };
                    let (s, e) = if r.chance(1, 5) { (0u32, u32::MAX) } else { (s, e) };
                    return Op::SetMasks((r.below(8) as u32) << bit, m, s, e);
                }
                10 if len > 0 => {
                    let (s, e) = rand_range(r, 0, len);
                    return Op::Sort(s, e);
                }
                // only with the cursor at 0, where every caller has it (hide_default_ignorables, the morx deleted-glyph pass):
                // the function leaves idx alone, so elsewhere idx can end up beyond len - a state no caller produces
                11 if b.idx == 0 => return Op::DeleteInplace,
                12 => return Op::MoveTo(r.below(len as u64 + 1) as usize),
                13 if restn > 0 => return Op::NextGlyph,
                14 | 15 => return Op::ClearOutput,
                _ => {}
            }
        }
    }
}

/// Arbitrary operation with arbitrary (possibly out-of-range) arguments.
fn gen_wild(r: &mut Rng, b: &hb_buffer_t) -> Op {
    let n = b.len + 3;
    let a = r.below(n as u64) as usize;
    let c = r.below(n as u64) as usize;
    match r.below(14) {
        0 => Op::NextGlyph,
        1 => Op::NextGlyphs(a),
        2 => Op::ReplaceGlyph(rand_gid(r)),
        3 => Op::ReplaceGlyphs(a.min(4), vec![rand_gid(r); c.min(3)]),
        4 => Op::OutputGlyph(rand_gid(r)),
        5 => Op::DeleteGlyph,
        6 => Op::MoveTo(a),
        7 => Op::MergeClusters(a.min(c), a.max(c)),
        8 => Op::MergeOut(a.min(c), a.max(c)),
        9 => Op::UnsafeToBreakOut(Some(a), Some(c)),
        10 => Op::UnsafeToBreak(Some(a.min(c)), Some(a.max(c))),
        11 => Op::Sync,
        12 => Op::ClearOutput,
        _ => Op::CopyGlyph,
    }
}

pub fn run(args: &[String]) {
    quiet_panics();
    let seed = arg_u64(args, "--seed", 1);
    let n = arg_u64(args, "--n", 200);
    let wild_share = arg_u64(args, "--wild", 10); // percent of cases drawing from the malformed stream
    let mut r = Rng::new(seed);
    for case in 0..n {
        let level = r.below(3) as u32;
        let flags = if r.chance(1, 2) { 0x40u32 } else { 0 } | 3;
        let len = r.range(0, 9) as usize;
        let wild = r.below(100) < wild_share;
        let mut b = hb_buffer_t::new();
        b.cluster_level = level;
        b.flags = rustybuzz::BufferFlags::from_bits_truncate(flags);
        let mut cl = r.below(3) as u32;
        let monotone = level < 2 || r.chance(1, 2);
        let mut init = Vec::new();
        for i in 0..len {
            if monotone {
                if r.chance(2, 3) {
                    cl += r.below(3) as u32;
                }
            } else {
                cl = r.below(10) as u32;
            }
            let mask = (r.below(8) as u32) | ((r.below(4) as u32) << 4);
            let mask = if r.chance(1, 2) { mask & !7 } else { mask };
            let v2 = if i > 0 && r.chance(1, 3) { 0x80 } else { 0 };
            let inf = info_new(rand_gid(&mut r), mask, cl, ((i as u32) << 8) | r.below(4) as u32, v2);
            push_info(&mut b, inf);
            init.push(inf);
        }
        enter(&mut b);
        // tight budgets in a share of the cases (logic of the allocation-failure paths)
        if r.chance(1, 5) {
            b.max_len = len + r.below(4) as usize;
        }
        println!("case {} level={} flags={} maxlen={}", case, level, flags, b.max_len);
        println!("init {}", fmt_infos(&init));
        let steps = r.range(3, 16);
        for _ in 0..steps {
            let op = if wild && r.chance(1, 3) { gen_wild(&mut r, &b) } else { gen_valid(&mut r, &b) };
            let opc = op.clone();
            let res = catch(std::panic::AssertUnwindSafe(|| apply(&mut b, &opc)));
            match res {
                Ok(ret) => match catch(std::panic::AssertUnwindSafe(|| snapshot(&b))) {
                    Ok(snap) => println!("op {} => ok ret={} {}", fmt_op(&op), ret as u8, snap),
                    Err(_) => {
                        // indices left outside the arrays (only after an out-of-domain op): treated as a panic
                        println!("op {} => panic Inconsistent", fmt_op(&op));
                        break;
                    }
                },
                Err(c) => {
                    println!("op {} => panic {}", fmt_op(&op), c);
                    break;
                }
            }
            if b.len > 40 || b.out_len > 40 {
                break;
            }
        }
    }
}
