//! C01: harness commands for property C01 (stub).

pub fn run(_args: &[String]) {
    eprintln!("c01: not implemented");
    std::process::exit(2);
}
