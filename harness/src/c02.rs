//! C02: harness commands for property C02 (stub).

pub fn run(_args: &[String]) {
    eprintln!("c02: not implemented");
    std::process::exit(2);
}
