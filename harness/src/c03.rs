//! C03: harness commands for property C03 (stub).

pub fn run(_args: &[String]) {
    eprintln!("c03: not implemented");
    std::process::exit(2);
}
