//! C04: harness commands for property C04 (stub).

pub fn run(_args: &[String]) {
    eprintln!("c04: not implemented");
    std::process::exit(2);
}
