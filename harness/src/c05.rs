//! C05: harness commands for property C05 (stub).

pub fn run(_args: &[String]) {
    eprintln!("c05: not implemented");
    std::process::exit(2);
}
