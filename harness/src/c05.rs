//! C05: histories of the public buffer API with the budget/progress fields observed through the hook
//! after every step, for the correspondence with coq/Model/Api.v.
//!   rbv c05 api --seed S --n N
//! Lines: `hist <id>` / `push <k> => <12 fields>` / `shape => <12 fields>` / `clear => <12 fields>`
use crate::shp::*;
use crate::util::*;
use rustybuzz::verif::buffer::{glyph_state, unicode_state};
use rustybuzz::UnicodeBuffer;

fn fmt(s: [u64; 12]) -> String {
    s.iter().map(|x| x.to_string()).collect::<Vec<_>>().join(" ")
}

/// `rbv c05 enter`: the budgets enter() derives from the buffer length, on the real buffer (hook), for lengths around every
/// threshold of the formula: `enter <n> <max_len> <max_ops>`
fn enter_cmd() {
    use rustybuzz::verif::buffer as hk;
    let mut ns: Vec<usize> = vec![0, 1, 2, 3, 15, 16, 17, 63, 64, 65, 127, 128, 129, 255, 256, 257, 1000, 4095, 4096, 4097, 16383, 16384, 16385, 20000, 65535, 65536, 100000, 262143, 262144, 262145, 1000000, 2097151, 2097152, 2097153, 3000000];
    ns.sort();
    for n in ns {
        let mut b = hk::hb_buffer_t::new();
        b.max_len = usize::MAX; // so that the length itself is not limited while the buffer is filled
        for i in 0..n {
            hk::push_info(&mut b, hk::info_new(1, 0, i as u32, 0, 0));
        }
        b.max_len = 0x3FFF_FFFF;
        b.max_ops = 0x1FFF_FFFF;
        hk::enter(&mut b);
        println!("enter {} {} {}", b.len, b.max_len, b.max_ops);
    }
}

pub fn run(args: &[String]) {
    quiet_panics();
    if args.first().map(|s| s.as_str()) == Some("enter") {
        return enter_cmd();
    }
    let seed = arg_u64(args, "--seed", 1);
    let n = arg_u64(args, "--n", 100);
    let mut r = Rng::new(seed);
    // a small Latin font of the corpus: only lengths and budgets are observed
    let fonts = corpus_fonts(&repo_root());
    let path = fonts.iter().find(|p| p.ends_with("TestGSUBThree.ttf")).cloned().unwrap_or_else(|| fonts[0].clone());
    let data = std::fs::read(&path).expect("font");
    let face_gsub = rustybuzz::Face::from_slice(&data, 0).expect("face");
    // every other history on a font with positioning tables (GPOS + kern): in-place passes leave the cursor at the end of
    // the buffer, so what clear() does to it shows
    let path2 = fonts.iter().find(|p| p.ends_with("PT_Sans-Caption-Web-Regular.ttf")).cloned().unwrap_or_else(|| path.clone());
    let data2 = std::fs::read(&path2).expect("font");
    let face_pos = rustybuzz::Face::from_slice(&data2, 0).expect("face");
    for h in 0..n {
        let face = if h % 2 == 1 { &face_pos } else { &face_gsub };
        println!("hist {}", h);
        let mut ub = UnicodeBuffer::new();
        let steps = r.range(2, 7);
        for _ in 0..steps {
            // push
            let k = match r.below(12) {
                0 | 1 => 0,
                2 if h % 8 == 0 => 16385 + r.below(700) as usize,
                3 if h % 8 == 4 => 16384,
                _ => r.below(40) as usize,
            };
            for i in 0..k {
                ub.add('A', i as u32);
            }
            println!("push {} => {}", k, fmt(unicode_state(&ub)));
            if r.chance(1, 5) {
                // a second push before shaping
                let k2 = r.below(20) as usize;
                for i in 0..k2 {
                    ub.add('B', i as u32);
                }
                println!("push {} => {}", k2, fmt(unicode_state(&ub)));
            }
            let gb = rustybuzz::shape(face, &[], ub);
            println!("shape => {}", fmt(glyph_state(&gb)));
            ub = gb.clear();
            println!("clear => {}", fmt(unicode_state(&ub)));
        }
    }
}
