//! C06: harness commands for property C06 (stub).

pub fn run(_args: &[String]) {
    eprintln!("c06: not implemented");
    std::process::exit(2);
}
