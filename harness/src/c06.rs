//! C06: GSUB applied as the OpenType substitution model prescribes.  Public-API harness.
//!
//!   rbv c06 gen --seed S --fonts N --texts T [--first K] [--only K] [--ops OPS] [--dump]
//!        for every generated font k:   `font <k>` / `coq <term>` / `kinds <type,..>` (lookup kinds by index)
//!        with --dump also               `dbg <FontSpec Debug>` / `b64 <font bytes>`
//!        for every request j:           `req <j> <fmt_req>` / `uf <j> <tag> <value> <start> <end>`* /
//!                                       `out <j> <gid=cluster#flags|...>` or `out <j> panic <class>` /
//!                                       `fired <j> <lookup index,..>` (lookups whose removal changes the result)
//!        --ops: shrink operations applied to the regenerated font/requests (see `apply_ops`)
//!   rbv c06 variants --seed S --only K --text J [--ops OPS]   one-step shrink candidates of font K / request J:
//!        `variant <ops>` followed by the same lines as `gen` for that single request
//!   rbv c06 oracle --seed S --n N     independent oracles (single=map, ligature greedy+min cluster, multiple=flat_map,
//!        alternate=value k, stage ordering): `oracle-fail <kind> ...` lines + `oracle-summary ...`
//!   rbv c06 corpus                    the fixed regression fonts (move_to rewind, ...) in `gen` format
//!   rbv c06 shape-b64 --req "<req>"   font bytes (base64) on stdin, prints `ok <glyphs>` / `panic <class>`
use crate::fontgen::coq::ToCoq;
use crate::fontgen::*;
use crate::shp::*;
use crate::util::*;
use std::io::Read;

pub fn run(args: &[String]) {
    quiet_panics();
    match args.get(0).map(|s| s.as_str()) {
        Some("gen") => gen(args),
        Some("variants") => variants(args),
        Some("oracle") => oracle(args),
        Some("corpus") => corpus(args),
        Some("shape-b64") => shape_b64(args),
        _ => {
            eprintln!("c06 gen|variants|oracle|corpus|shape-b64");
            std::process::exit(2)
        }
    }
}

// ---------------------------------------------------------------------------------------------
// base64

const B64: &[u8; 64] = b"ABCDEFGHIJKLMNOPQRSTUVWXYZabcdefghijklmnopqrstuvwxyz0123456789+/";

pub fn b64_encode(d: &[u8]) -> String {
    let mut s = String::with_capacity(d.len() * 4 / 3 + 4);
    for c in d.chunks(3) {
        let b = [c[0], *c.get(1).unwrap_or(&0), *c.get(2).unwrap_or(&0)];
        let n = ((b[0] as u32) << 16) | ((b[1] as u32) << 8) | b[2] as u32;
        s.push(B64[(n >> 18) as usize & 63] as char);
        s.push(B64[(n >> 12) as usize & 63] as char);
        s.push(if c.len() > 1 { B64[(n >> 6) as usize & 63] as char } else { '=' });
        s.push(if c.len() > 2 { B64[n as usize & 63] as char } else { '=' });
    }
    s
}

pub fn b64_decode(s: &str) -> Vec<u8> {
    let mut out = Vec::new();
    let mut acc = 0u32;
    let mut bits = 0;
    for ch in s.bytes() {
        let v = match ch {
            b'A'..=b'Z' => ch - b'A',
            b'a'..=b'z' => ch - b'a' + 26,
            b'0'..=b'9' => ch - b'0' + 52,
            b'+' => 62,
            b'/' => 63,
            _ => continue,
        } as u32;
        acc = (acc << 6) | v;
        bits += 6;
        if bits >= 8 {
            bits -= 8;
            out.push((acc >> bits) as u8);
            acc &= (1 << bits) - 1;
        }
    }
    out
}

// ---------------------------------------------------------------------------------------------
// generator

#[derive(Clone, Debug)]
pub struct Case {
    pub spec: FontSpec,
    pub reqs: Vec<Req>,
}

struct G0 {
    n: u16,   // number of glyphs (ids 0..n)
    hot: u16, // glyphs 1..=hot are frequent in texts and coverages
    marks: Vec<u16>,
}

fn pick_glyph(r: &mut Rng, g: &G0) -> u16 {
    if r.chance(7, 10) {
        r.range(1, g.hot as u64) as u16
    } else if !g.marks.is_empty() && r.chance(1, 3) {
        *r.pick(&g.marks)
    } else {
        r.range(1, g.n as u64 - 1) as u16
    }
}

fn to_cov(r: &mut Rng, mut gs: Vec<u16>) -> Coverage {
    gs.sort();
    gs.dedup();
    if r.chance(2, 5) {
        let mut rs: Vec<(u16, u16)> = Vec::new();
        for g in gs {
            if let Some(l) = rs.last_mut() {
                if l.1 + 1 == g {
                    l.1 = g;
                    continue;
                }
            }
            rs.push((g, g));
        }
        Coverage::Ranges(rs)
    } else {
        Coverage::Glyphs(gs)
    }
}

fn gen_cov(r: &mut Rng, g: &G0, lo: u64, hi: u64) -> Coverage {
    let k = r.range(lo, hi);
    let gs: Vec<u16> = (0..k).map(|_| pick_glyph(r, g)).collect();
    to_cov(r, gs)
}

fn gen_classdef(r: &mut Rng, g: &G0) -> ClassDef {
    // classes 0..3 per glyph; hot glyphs mostly non-zero
    let mut cl: Vec<u16> = vec![0; g.n as usize];
    for gid in 1..g.n {
        let p = if gid <= g.hot { 8 } else { 3 };
        if r.chance(p, 10) {
            cl[gid as usize] = r.range(1, 3) as u16;
        }
    }
    if r.chance(1, 2) {
        let first = (1..g.n).find(|x| cl[*x as usize] != 0).unwrap_or(1);
        let last = (1..g.n).rev().find(|x| cl[*x as usize] != 0).unwrap_or(1);
        ClassDef::Format1 { start: first, classes: (first..=last).map(|x| cl[x as usize]).collect() }
    } else {
        let mut ranges: Vec<(u16, u16, u16)> = Vec::new();
        for gid in 1..g.n {
            let c = cl[gid as usize];
            if c == 0 {
                continue;
            }
            if let Some(l) = ranges.last_mut() {
                if l.2 == c && l.1 + 1 == gid {
                    l.1 = gid;
                    continue;
                }
            }
            ranges.push((gid, gid, c));
        }
        ClassDef::Format2 { ranges }
    }
}

#[derive(Clone, Copy, PartialEq, Eq, Debug)]
enum Kind {
    Single,
    Multiple,
    Alternate,
    Ligature,
    Context,
    Chain,
    Reverse,
}

fn kind_name(k: Kind) -> &'static str {
    match k {
        Kind::Single => "single",
        Kind::Multiple => "multiple",
        Kind::Alternate => "alternate",
        Kind::Ligature => "ligature",
        Kind::Context => "context",
        Kind::Chain => "chain",
        Kind::Reverse => "reverse",
    }
}

fn kind_of(l: &Lookup<SubstSubtable>) -> &'static str {
    use SubstSubtable::*;
    match l.subtables.first() {
        None => "empty",
        Some(Single1 { .. }) | Some(Single2 { .. }) => "single",
        Some(Multiple { .. }) => "multiple",
        Some(Alternate { .. }) => "alternate",
        Some(Ligature { .. }) => "ligature",
        Some(Context1 { .. }) => "context1",
        Some(Context2 { .. }) => "context2",
        Some(Context3 { .. }) => "context3",
        Some(ChainContext1 { .. }) => "chain1",
        Some(ChainContext2 { .. }) => "chain2",
        Some(ChainContext3 { .. }) => "chain3",
        Some(ReverseChain { .. }) => "reverse",
    }
}

fn gen_records(r: &mut Rng, kinds: &[Kind], input_len: usize, me: usize) -> Vec<SeqLookup> {
    let k = match r.below(10) {
        0 => 0,
        1..=5 => 1,
        6..=8 => 2,
        _ => 3,
    };
    let simple: Vec<usize> = (0..kinds.len()).filter(|i| !matches!(kinds[*i], Kind::Context | Kind::Chain | Kind::Reverse)).collect();
    (0..k)
        .map(|_| {
            let si = if r.chance(1, 12) { input_len as u64 + 1 + r.below(2) } else { r.below(input_len as u64 + 1) };
            let li = if !simple.is_empty() && r.chance(7, 10) {
                *r.pick(&simple) as u64
            } else if r.chance(1, 6) {
                me as u64 // recursion ring
            } else if r.chance(1, 15) {
                kinds.len() as u64 + r.below(2) // out of range
            } else {
                r.below(kinds.len() as u64)
            };
            SeqLookup { sequence_index: si as u16, lookup_index: li as u16 }
        })
        .collect()
}

/// glyph sequence of a rule (input after the first glyph, backtrack, lookahead): short, mostly hot glyphs
fn gen_rule_seq(r: &mut Rng, g: &G0, input: bool) -> Vec<u16> {
    let k = if input {
        match r.below(20) { 0..=5 => 0, 6..=14 => 1, 15..=18 => 2, _ => 3 }
    } else {
        match r.below(10) { 0..=4 => 0, 5..=8 => 1, _ => 2 }
    };
    (0..k).map(|_| if r.chance(9, 10) { r.range(1, g.hot as u64) as u16 } else { pick_glyph(r, g) }).collect()
}

fn gen_rule_classes(r: &mut Rng, input: bool) -> Vec<u16> {
    let k = if input {
        match r.below(20) { 0..=5 => 0, 6..=14 => 1, 15..=18 => 2, _ => 3 }
    } else {
        match r.below(10) { 0..=4 => 0, 5..=8 => 1, _ => 2 }
    };
    (0..k).map(|_| r.below(4) as u16).collect()
}

fn gen_seq(r: &mut Rng, g: &G0, lo: u64, hi: u64) -> Vec<u16> {
    let k = r.range(lo, hi);
    (0..k).map(|_| pick_glyph(r, g)).collect()
}

fn gen_subtable(r: &mut Rng, g: &G0, kind: Kind, kinds: &[Kind], me: usize) -> SubstSubtable {
    use SubstSubtable::*;
    match kind {
        Kind::Single => {
            if r.chance(1, 3) {
                let coverage = gen_cov(r, g, 1, 5);
                let delta = if r.chance(1, 10) { -(r.range(1, g.n as u64) as i16) } else { r.range(1, (g.n as u64 / 2).max(1)) as i16 };
                Single1 { coverage, delta }
            } else {
                let coverage = gen_cov(r, g, 1, 6);
                let n = coverage.len();
                let n = if r.chance(1, 12) { n.saturating_sub(1) } else { n };
                Single2 { coverage, substitutes: (0..n).map(|_| pick_glyph(r, g)).collect() }
            }
        }
        Kind::Multiple => {
            let coverage = gen_cov(r, g, 1, 5);
            let n = coverage.len();
            let sequences = (0..n)
                .map(|_| match r.below(10) {
                    0 | 1 => Vec::new(),
                    2 | 3 => gen_seq(r, g, 1, 1),
                    4..=7 => gen_seq(r, g, 2, 2),
                    _ => gen_seq(r, g, 3, 4),
                })
                .collect();
            Multiple { coverage, sequences }
        }
        Kind::Alternate => {
            let coverage = gen_cov(r, g, 1, 5);
            let n = coverage.len();
            let alternates = (0..n).map(|_| if r.chance(1, 12) { Vec::new() } else { gen_seq(r, g, 1, 4) }).collect();
            Alternate { coverage, alternates }
        }
        Kind::Ligature => {
            let coverage = gen_cov(r, g, 1, 4);
            let n = coverage.len();
            let ligature_sets = (0..n)
                .map(|_| {
                    let k = r.range(1, 3);
                    (0..k)
                        .map(|_| {
                            let components = match r.below(12) {
                                0 => Vec::new(),
                                1..=6 => gen_seq(r, g, 1, 1),
                                7..=9 => gen_seq(r, g, 2, 2),
                                _ => gen_seq(r, g, 3, 5),
                            };
                            crate::fontgen::Ligature { glyph: pick_glyph(r, g), components }
                        })
                        .collect()
                })
                .collect();
            Ligature { coverage, ligature_sets }
        }
        Kind::Context => match r.below(3) {
            0 => {
                let coverage = gen_cov(r, g, 1, 4);
                let n = coverage.len();
                let rule_sets = (0..n)
                    .map(|_| {
                        let k = if r.chance(1, 10) { 0 } else { r.range(1, 3) };
                        (0..k)
                            .map(|_| {
                                let input = gen_rule_seq(r, g, true);
                                let lookups = gen_records(r, kinds, input.len(), me);
                                SeqRule { input, lookups }
                            })
                            .collect()
                    })
                    .collect();
                Context1 { coverage, rule_sets }
            }
            1 => {
                let class_def = gen_classdef(r, g);
                let coverage = gen_cov(r, g, 2, 8);
                let rule_sets = (0..r.range(2, 4))
                    .map(|_| {
                        if r.chance(1, 5) {
                            None
                        } else {
                            Some(
                                (0..r.range(1, 3))
                                    .map(|_| {
                                        let input = gen_rule_classes(r, true);
                                        let lookups = gen_records(r, kinds, input.len(), me);
                                        SeqRule { input, lookups }
                                    })
                                    .collect(),
                            )
                        }
                    })
                    .collect();
                Context2 { coverage, class_def, rule_sets }
            }
            _ => {
                let k = r.range(1, 4);
                let coverages: Vec<Coverage> = (0..k).map(|_| gen_cov(r, g, 1, 6)).collect();
                let lookups = gen_records(r, kinds, k as usize - 1, me);
                Context3 { coverages, lookups }
            }
        },
        Kind::Chain => match r.below(3) {
            0 => {
                let coverage = gen_cov(r, g, 1, 4);
                let n = coverage.len();
                let rule_sets = (0..n)
                    .map(|_| {
                        let k = if r.chance(1, 10) { 0 } else { r.range(1, 3) };
                        (0..k)
                            .map(|_| {
                                let input = gen_rule_seq(r, g, true);
                                let lookups = gen_records(r, kinds, input.len(), me);
                                ChainRule { backtrack: gen_rule_seq(r, g, false), input, lookahead: gen_rule_seq(r, g, false), lookups }
                            })
                            .collect()
                    })
                    .collect();
                ChainContext1 { coverage, rule_sets }
            }
            1 => {
                let coverage = gen_cov(r, g, 2, 8);
                let rule_sets = (0..r.range(2, 4))
                    .map(|_| {
                        if r.chance(1, 5) {
                            None
                        } else {
                            Some(
                                (0..r.range(1, 3))
                                    .map(|_| {
                                        let input = gen_rule_classes(r, true);
                                        let lookups = gen_records(r, kinds, input.len(), me);
                                        ChainRule { backtrack: gen_rule_classes(r, false), input, lookahead: gen_rule_classes(r, false), lookups }
                                    })
                                    .collect(),
                            )
                        }
                    })
                    .collect();
                ChainContext2 {
                    coverage,
                    backtrack_classes: gen_classdef(r, g),
                    input_classes: gen_classdef(r, g),
                    lookahead_classes: gen_classdef(r, g),
                    rule_sets,
                }
            }
            _ => {
                let k = r.range(1, 3);
                let input: Vec<Coverage> = (0..k).map(|_| gen_cov(r, g, 1, 6)).collect();
                let backtrack: Vec<Coverage> = (0..r.range(0, 2)).map(|_| gen_cov(r, g, 1, 8)).collect();
                let lookahead: Vec<Coverage> = (0..r.range(0, 2)).map(|_| gen_cov(r, g, 1, 8)).collect();
                let lookups = gen_records(r, kinds, k as usize - 1, me);
                ChainContext3 { backtrack, input, lookahead, lookups }
            }
        },
        Kind::Reverse => {
            let coverage = gen_cov(r, g, 1, 5);
            let n = coverage.len();
            let n = if r.chance(1, 12) { n.saturating_sub(1) } else { n };
            ReverseChain {
                coverage,
                backtrack: (0..r.range(0, 2)).map(|_| gen_cov(r, g, 1, 8)).collect(),
                lookahead: (0..r.range(0, 2)).map(|_| gen_cov(r, g, 1, 8)).collect(),
                substitutes: (0..n).map(|_| pick_glyph(r, g)).collect(),
            }
        }
    }
}

const DEFAULT_ON: &[&[u8; 4]] = &[b"liga", b"calt", b"ccmp", b"rlig", b"locl", b"clig", b"rclt", b"rvrn", b"ltra", b"ltrm", b"rtla", b"rtlm"];
const USER_TAGS: &[&[u8; 4]] = &[b"ss01", b"ss02", b"smcp", b"aalt", b"salt", b"frac", b"numr"];

fn gen_font(r: &mut Rng) -> (FontSpec, G0) {
    let n: u16 = match r.below(10) {
        0 => r.range(4, 7) as u16,
        1..=7 => r.range(8, 24) as u16,
        _ => r.range(25, 64) as u16,
    };
    let hot = r.range(3, (n as u64 - 1).min(8)) as u16;
    let mut spec = FontSpec::basic(n);
    if r.chance(1, 4) {
        spec.cmap_format = CmapFormat::Format4;
    }
    let mut g = G0 { n, hot, marks: Vec::new() };
    // ---- GDEF
    match r.below(20) {
        0..=2 => {}
        3 | 4 => {
            // GDEF without glyph class definition (mark sets only)
            let set: Vec<u16> = (1..n).filter(|_| r.chance(1, 3)).collect();
            spec.gdef = Some(Gdef { glyph_classes: vec![], mark_attach_classes: vec![], mark_glyph_sets: if set.is_empty() { vec![] } else { vec![set] } });
        }
        _ => {
            let mut glyph_classes = Vec::new();
            let mut mark_attach_classes = Vec::new();
            for gid in 1..n {
                let c = match r.below(20) {
                    0..=9 => 1,
                    10..=14 => 3,
                    15..=17 => 2,
                    18 => 4,
                    _ => 0,
                };
                if c != 0 {
                    glyph_classes.push((gid, c));
                }
                if c == 3 {
                    g.marks.push(gid);
                    if r.chance(2, 3) {
                        mark_attach_classes.push((gid, r.range(1, 3) as u16));
                    }
                } else if r.chance(1, 20) {
                    mark_attach_classes.push((gid, r.range(1, 3) as u16)); // attach class on a non-mark: ignored
                }
            }
            let nsets = r.below(3);
            let mark_glyph_sets: Vec<Vec<u16>> = (0..nsets)
                .map(|_| (1..n).filter(|x| if g.marks.contains(x) { r.chance(1, 2) } else { r.chance(1, 12) }).collect::<Vec<u16>>())
                .collect();
            spec.gdef = Some(Gdef { glyph_classes, mark_attach_classes, mark_glyph_sets });
        }
    }
    let nsets = spec.gdef.as_ref().map(|d| d.mark_glyph_sets.len()).unwrap_or(0);
    // ---- lookups
    let nl = match r.below(12) {
        0 => 1,
        1..=7 => r.range(2, 6),
        8..=10 => r.range(7, 12),
        _ => r.range(13, 24),
    } as usize;
    // focused fonts: one contextual lookup on top, the others (simple ones) reachable only through nesting
    let focused = r.chance(1, 3);
    let nl = if focused { r.range(2, 5) as usize } else { nl };
    let kinds: Vec<Kind> = (0..nl)
        .map(|i| if focused {
            if i == 0 { if r.chance(1, 2) { Kind::Context } else { Kind::Chain } } else {
                match r.below(10) { 0..=2 => Kind::Single, 3..=5 => Kind::Multiple, 6..=8 => Kind::Ligature, _ => Kind::Context }
            }
        } else { match r.below(20) {
            0..=3 => Kind::Single,
            4..=6 => Kind::Multiple,
            7..=8 => Kind::Alternate,
            9..=12 => Kind::Ligature,
            13..=15 => Kind::Context,
            16..=18 => Kind::Chain,
            _ => Kind::Reverse,
        } })
        .collect();
    let mut lookups = Vec::new();
    for (i, k) in kinds.iter().enumerate() {
        let nst = match r.below(10) {
            0..=5 => 1,
            6..=8 => 2,
            _ => r.range(3, 6),
        };
        let subtables: Vec<SubstSubtable> = (0..nst).map(|_| gen_subtable(r, &g, *k, &kinds, i)).collect();
        let mut flags: u16 = 0;
        let mut mfs = None;
        if r.chance(1, 2) {
            if r.chance(1, 2) {
                flags |= lookup_flags::IGNORE_MARKS;
            }
            if r.chance(1, 6) {
                flags |= lookup_flags::IGNORE_BASE_GLYPHS;
            }
            if r.chance(1, 5) {
                flags |= lookup_flags::IGNORE_LIGATURES;
            }
            if r.chance(1, 4) {
                flags |= (r.range(1, 3) as u16) << 8;
            }
            if r.chance(1, 4) {
                // sometimes a set index that does not exist
                mfs = Some(if nsets > 0 && r.chance(5, 6) { r.below(nsets as u64) as u16 } else { nsets as u16 + r.below(2) as u16 });
            }
            if r.chance(1, 10) {
                flags |= lookup_flags::RIGHT_TO_LEFT;
            }
        }
        lookups.push(Lookup { flags, mark_filtering_set: mfs, subtables, use_extension: r.chance(1, 8) });
    }
    // ---- features
    let nf = r.range(1, 5) as usize;
    let mut features: Vec<FeatureRecord> = (0..nf)
        .map(|_| {
            let tag = if r.chance(2, 3) { **r.pick(DEFAULT_ON) } else { **r.pick(USER_TAGS) };
            FeatureRecord { tag, lookup_indices: Vec::new() }
        })
        .collect();
    if focused || r.chance(2, 3) {
        features[0].tag = *b"liga";
    }
    for li in 0..nl {
        let k = if focused {
            if li == 0 { 1 } else if r.chance(1, 4) { 1 } else { 0 }
        } else {
            match r.below(20) {
                0..=14 => 1,
                15..=17 => 2,
                _ => 0,
            }
        };
        for _ in 0..k {
            let f = if focused && li == 0 { 0 } else { r.below(nf as u64) as usize };
            if !features[f].lookup_indices.contains(&(li as u16)) || r.chance(1, 4) {
                features[f].lookup_indices.push(li as u16);
            }
        }
    }
    for f in features.iter_mut() {
        if r.chance(1, 4) {
            // unsorted lookup list
            let k = f.lookup_indices.len();
            for i in (1..k).rev() {
                let j = r.below(i as u64 + 1) as usize;
                f.lookup_indices.swap(i, j);
            }
        }
        if r.chance(1, 15) {
            f.lookup_indices.push(nl as u16 + r.below(2) as u16); // out of range: ignored
        }
    }
    // ---- scripts
    let all: Vec<u16> = (0..nf as u16).collect();
    let subset = |r: &mut Rng| -> Vec<u16> {
        let mut v: Vec<u16> = all.iter().copied().filter(|_| r.chance(9, 10)).collect();
        if r.chance(1, 5) {
            v.reverse();
        }
        v
    };
    let req = |r: &mut Rng| -> Option<u16> {
        if r.chance(1, 5) {
            let extra = if r.chance(1, 10) { 1 } else { 0 };
            Some(r.below(nf as u64 + extra) as u16)
        } else {
            None
        }
    };
    let ls = |r: &mut Rng| LangSys { required_feature: req(r), feature_indices: subset(r) };
    let scripts = match r.below(20) {
        0..=13 => vec![ScriptRecord { tag: *b"DFLT", default_langsys: Some(ls(r)), langsys: vec![] }],
        14 | 15 => vec![ScriptRecord { tag: *b"DFLT", default_langsys: Some(ls(r)), langsys: vec![(*b"dflt", ls(r))] }],
        16 => vec![ScriptRecord { tag: *b"latn", default_langsys: Some(ls(r)), langsys: vec![(*b"ENG ", ls(r))] }],
        17 => vec![
            ScriptRecord { tag: *b"DFLT", default_langsys: Some(ls(r)), langsys: vec![] },
            ScriptRecord { tag: *b"latn", default_langsys: Some(ls(r)), langsys: vec![] },
        ],
        18 => vec![ScriptRecord { tag: *b"dflt", default_langsys: Some(ls(r)), langsys: vec![] }],
        _ => vec![ScriptRecord { tag: *b"DFLT", default_langsys: None, langsys: vec![(*b"ENG ", ls(r))] }],
    };
    spec.gsub = Some(Layout { scripts, features, lookups });
    (spec, g)
}

fn tag_str(t: &Tag) -> String {
    String::from_utf8_lossy(t).to_string()
}

fn gen_req(r: &mut Rng, spec: &FontSpec, g: &G0) -> Req {
    let len = match r.below(20) {
        0 => 1,
        1..=12 => r.range(2, 8),
        13..=17 => r.range(9, 16),
        _ => r.range(17, 40),
    } as usize;
    let gl: Vec<u16> = (0..len)
        .map(|_| if r.chance(3, 4) { r.range(1, g.hot as u64) as u16 } else { pick_glyph(r, g) })
        .collect();
    let clusters: Vec<u32> = match r.below(12) {
        0..=6 => (0..len as u32).collect(),
        7 => (0..len as u32).map(|i| i * 2 + 3).collect(),
        8 => (0..len as u32).map(|i| i / 2).collect(),
        9 => vec![5; len],
        10 => (0..len as u32).rev().collect(),
        _ => (0..len).map(|_| r.below(len as u64 + 2) as u32).collect(),
    };
    let text: Vec<(u32, u32)> = gl.iter().zip(clusters.iter()).map(|(g, c)| (pua(*g as u32 - 1), *c)).collect();
    let dir = match r.below(10) {
        0..=5 => None,
        6 | 7 => Some(rustybuzz::Direction::LeftToRight),
        _ => Some(rustybuzz::Direction::RightToLeft),
    };
    let mut features = Vec::new();
    let ftags: Vec<Tag> = spec.gsub.as_ref().map(|l| l.features.iter().map(|f| f.tag).collect()).unwrap_or_default();
    let nuf = match r.below(10) {
        0..=3 => 0,
        4..=7 => 1,
        8 => 2,
        _ => 3,
    };
    for _ in 0..nuf {
        let tag = if !ftags.is_empty() && r.chance(4, 5) { tag_str(r.pick(&ftags)) } else { tag_str(*r.pick(USER_TAGS)) };
        let maxc = clusters.iter().copied().max().unwrap_or(0) as u64;
        let range = match r.below(6) {
            0..=2 => String::new(),
            3 => {
                let a = r.below(maxc + 2);
                let b = a + r.below(maxc + 2);
                format!("[{}:{}]", a, b)
            }
            4 => format!("[{}:]", r.below(maxc + 2)),
            _ => format!("[{}]", r.below(maxc + 2)),
        };
        let f = match r.below(8) {
            0 | 1 => format!("{}{}", tag, range),
            2 => format!("-{}{}", tag, range),
            3 => format!("{}{}=0", tag, range),
            4 => format!("{}{}=1", tag, range),
            5 => format!("{}{}=2", tag, range),
            6 => format!("{}{}=3", tag, range),
            _ => format!("{}{}={}", tag, range, [4u32, 5, 255, 256, 300][r.below(5) as usize]),
        };
        features.push(f);
    }
    Req {
        text,
        dir,
        script: None,
        lang: None,
        features,
        flags: match r.below(10) {
            0..=5 => 0,
            6 | 7 => 0x40,
            8 => 3,
            _ => 0x43,
        },
        level: match r.below(10) {
            0..=4 => 0,
            5..=7 => 1,
            _ => 2,
        },
        pre: vec![],
        post: vec![],
        nf_vs: None,
        ptem: None,
    }
}

pub fn gen_case(seed: u64, k: u64, texts: u64) -> Case {
    let mut r = Rng::new(seed.wrapping_mul(0x9E37_79B9).wrapping_add(k.wrapping_mul(0x85EB_CA6B)).wrapping_add(0xC06));
    let (spec, g) = gen_font(&mut r);
    let reqs = (0..texts).map(|_| gen_req(&mut r, &spec, &g)).collect();
    Case { spec, reqs }
}

// ---------------------------------------------------------------------------------------------
// shrink operations: `dl:i` empty lookup i; `ds:i:j` drop subtable j of lookup i; `dr:i:j:a:b` drop rule b of
// rule set a of subtable j of lookup i (ligature sets, context/chain rule sets; a ignored for format 3: drop
// record b); `dc:q:p` drop character p of request q; `df:q:i` drop user feature i of request q;
// `zf:i` zero the flags of lookup i; `dg` drop GDEF; `fl:q` buffer flags := 0; `lv:q` level := 0

fn drop_at<T>(v: &mut Vec<T>, i: usize) -> bool {
    if i < v.len() {
        v.remove(i);
        true
    } else {
        false
    }
}

pub fn apply_op(c: &mut Case, op: &str) -> bool {
    let p: Vec<&str> = op.split(':').collect();
    let n = |i: usize| -> usize { p.get(i).and_then(|x| x.parse().ok()).unwrap_or(usize::MAX) };
    let Some(gsub) = c.spec.gsub.as_mut() else { return false };
    use SubstSubtable::*;
    match p[0] {
        "dl" => match gsub.lookups.get_mut(n(1)) {
            Some(l) if !l.subtables.is_empty() => {
                l.subtables.clear();
                true
            }
            _ => false,
        },
        "ds" => gsub.lookups.get_mut(n(1)).map(|l| drop_at(&mut l.subtables, n(2))).unwrap_or(false),
        "dr" => {
            let Some(st) = gsub.lookups.get_mut(n(1)).and_then(|l| l.subtables.get_mut(n(2))) else { return false };
            let (a, b) = (n(3), n(4));
            match st {
                Ligature { ligature_sets, .. } => ligature_sets.get_mut(a).map(|s| drop_at(s, b)).unwrap_or(false),
                Context1 { rule_sets, .. } => rule_sets.get_mut(a).map(|s| drop_at(s, b)).unwrap_or(false),
                ChainContext1 { rule_sets, .. } => rule_sets.get_mut(a).map(|s| drop_at(s, b)).unwrap_or(false),
                Context2 { rule_sets, .. } => rule_sets.get_mut(a).and_then(|s| s.as_mut()).map(|s| drop_at(s, b)).unwrap_or(false),
                ChainContext2 { rule_sets, .. } => rule_sets.get_mut(a).and_then(|s| s.as_mut()).map(|s| drop_at(s, b)).unwrap_or(false),
                Context3 { lookups, .. } => drop_at(lookups, b),
                ChainContext3 { lookups, .. } => drop_at(lookups, b),
                _ => false,
            }
        }
        "zf" => match gsub.lookups.get_mut(n(1)) {
            Some(l) if l.flags != 0 || l.mark_filtering_set.is_some() => {
                l.flags = 0;
                l.mark_filtering_set = None;
                true
            }
            _ => false,
        },
        "dg" => c.spec.gdef.take().is_some(),
        "dc" => c.reqs.get_mut(n(1)).map(|q| q.text.len() > 1 && drop_at(&mut q.text, n(2))).unwrap_or(false),
        "df" => c.reqs.get_mut(n(1)).map(|q| drop_at(&mut q.features, n(2))).unwrap_or(false),
        "fl" => c.reqs.get_mut(n(1)).map(|q| q.flags != 0 && { q.flags = 0; true }).unwrap_or(false),
        "lv" => c.reqs.get_mut(n(1)).map(|q| q.level != 0 && { q.level = 0; true }).unwrap_or(false),
        _ => false,
    }
}

pub fn apply_ops(c: &mut Case, ops: &str) {
    for op in ops.split(',') {
        if !op.is_empty() {
            apply_op(c, op);
        }
    }
}

fn candidate_ops(c: &Case, q: usize) -> Vec<String> {
    let mut v = Vec::new();
    use SubstSubtable::*;
    if let Some(gsub) = &c.spec.gsub {
        for (i, _l) in gsub.lookups.iter().enumerate() {
            v.push(format!("dl:{i}"));
        }
        for (i, l) in gsub.lookups.iter().enumerate() {
            if l.subtables.len() > 1 {
                for j in 0..l.subtables.len() {
                    v.push(format!("ds:{i}:{j}"));
                }
            }
            for (j, st) in l.subtables.iter().enumerate() {
                let sets: Vec<usize> = match st {
                    Ligature { ligature_sets, .. } => ligature_sets.iter().map(|s| s.len()).collect(),
                    Context1 { rule_sets, .. } => rule_sets.iter().map(|s| s.len()).collect(),
                    ChainContext1 { rule_sets, .. } => rule_sets.iter().map(|s| s.len()).collect(),
                    Context2 { rule_sets, .. } => rule_sets.iter().map(|s| s.as_ref().map(|x| x.len()).unwrap_or(0)).collect(),
                    ChainContext2 { rule_sets, .. } => rule_sets.iter().map(|s| s.as_ref().map(|x| x.len()).unwrap_or(0)).collect(),
                    Context3 { lookups, .. } => vec![lookups.len()],
                    ChainContext3 { lookups, .. } => vec![lookups.len()],
                    _ => vec![],
                };
                for (a, k) in sets.iter().enumerate() {
                    for b in 0..*k {
                        v.push(format!("dr:{i}:{j}:{a}:{b}"));
                    }
                }
            }
            v.push(format!("zf:{i}"));
        }
    }
    v.push("dg".into());
    if let Some(rq) = c.reqs.get(q) {
        for p in 0..rq.text.len() {
            v.push(format!("dc:{q}:{p}"));
        }
        for i in 0..rq.features.len() {
            v.push(format!("df:{q}:{i}"));
        }
        v.push(format!("fl:{q}"));
        v.push(format!("lv:{q}"));
    }
    v
}

// ---------------------------------------------------------------------------------------------
// running and printing

fn shape_spec(spec: &FontSpec, req: &Req) -> Result<Vec<G>, String> {
    let bytes = build(spec);
    let req = req.clone();
    catch(move || match rustybuzz::Face::from_slice(&bytes, 0) {
        Some(face) => Ok(shape_req(&face, &req)),
        None => Err("noface".to_string()),
    })
    .and_then(|x| x)
}

fn fmt_out(gs: &[G]) -> String {
    let v: Vec<String> = gs.iter().map(|g| format!("{}={}#{}", g.gid, g.cluster, g.flags)).collect();
    v.join("|")
}

fn print_case(k: u64, c: &Case, dump: bool, only_req: Option<usize>, fired: bool) {
    println!("font {}", k);
    println!("coq {}", c.spec.coq());
    let kinds: Vec<&str> = c.spec.gsub.as_ref().map(|l| l.lookups.iter().map(kind_of).collect()).unwrap_or_default();
    println!("kinds {}", kinds.join(","));
    let bytes = build(&c.spec);
    if dump {
        println!("dbg {:?}", c.spec);
        println!("b64 {}", b64_encode(&bytes));
    }
    // variants with one lookup emptied, for the "fired" statistics
    let nl = kinds.len();
    let variants: Vec<Vec<u8>> = if fired {
        (0..nl)
            .map(|i| {
                let mut s = c.spec.clone();
                if let Some(g) = s.gsub.as_mut() {
                    g.lookups[i].subtables.clear();
                }
                build(&s)
            })
            .collect()
    } else {
        Vec::new()
    };
    for (j, req) in c.reqs.iter().enumerate() {
        if let Some(o) = only_req {
            if o != j {
                continue;
            }
        }
        println!("req {} {}", j, fmt_req(req));
        for f in features_of(req) {
            println!("uf {} {} {} {} {}", j, f.tag.0, f.value, f.start, f.end);
        }
        let b2 = bytes.clone();
        let r2 = req.clone();
        let res = catch(move || rustybuzz::Face::from_slice(&b2, 0).map(|face| shape_req(&face, &r2)));
        match &res {
            Ok(Some(gs)) => println!("out {} {}", j, fmt_out(gs)),
            Ok(None) => println!("out {} panic noface", j),
            Err(cl) => println!("out {} panic {}", j, cl),
        }
        if fired {
            if let Ok(Some(gs)) = &res {
                let mut f: Vec<String> = Vec::new();
                for (i, vb) in variants.iter().enumerate() {
                    let vb = vb.clone();
                    let r3 = req.clone();
                    let o = catch(move || rustybuzz::Face::from_slice(&vb, 0).map(|face| shape_req(&face, &r3)));
                    let same = match &o {
                        Ok(Some(g2)) => g2.len() == gs.len() && g2.iter().zip(gs.iter()).all(|(a, b)| a.gid == b.gid && a.cluster == b.cluster),
                        _ => false,
                    };
                    if !same {
                        f.push(i.to_string());
                    }
                }
                println!("fired {} {}", j, f.join(","));
            }
        }
    }
}

fn gen(args: &[String]) {
    let seed = arg_u64(args, "--seed", 1);
    let fonts = arg_u64(args, "--fonts", 10);
    let texts = arg_u64(args, "--texts", 8);
    let first = arg_u64(args, "--first", 0);
    let only = arg_str(args, "--only").and_then(|x| x.parse::<u64>().ok());
    let dump = args.iter().any(|a| a == "--dump");
    let nofired = args.iter().any(|a| a == "--nofired");
    let ops = arg_str(args, "--ops").unwrap_or("");
    let only_req = arg_str(args, "--text").and_then(|x| x.parse::<usize>().ok());
    let range: Vec<u64> = match only {
        Some(k) => vec![k],
        None => (first..first + fonts).collect(),
    };
    for k in range {
        let mut c = gen_case(seed, k, texts);
        apply_ops(&mut c, ops);
        print_case(k, &c, dump, only_req, !nofired);
    }
}

fn variants(args: &[String]) {
    let seed = arg_u64(args, "--seed", 1);
    let texts = arg_u64(args, "--texts", 8);
    let k = arg_u64(args, "--only", 0);
    let q = arg_u64(args, "--text", 0) as usize;
    let ops = arg_str(args, "--ops").unwrap_or("");
    let mut base = gen_case(seed, k, texts);
    apply_ops(&mut base, ops);
    for op in candidate_ops(&base, q) {
        let mut c = base.clone();
        if !apply_op(&mut c, &op) {
            continue;
        }
        println!("variant {}", if ops.is_empty() { op.clone() } else { format!("{},{}", ops, op) });
        print_case(k, &c, false, Some(q), false);
    }
}

// ---------------------------------------------------------------------------------------------
// fixed regression fonts

fn sub(a: u16, b: u16) -> Lookup<SubstSubtable> {
    Lookup::one(SubstSubtable::Single2 { coverage: Coverage::Glyphs(vec![a]), substitutes: vec![b] })
}

fn req_of(gids: &[u16]) -> Req {
    Req { text: gids.iter().enumerate().map(|(i, g)| (pua(*g as u32 - 1), i as u32)).collect(), ..Req::default() }
}

/// The font that exposed the forward overlapping copy of move_to's rewind:
/// one context lookup with rules `a b -> [0 -> lig]` and `c d -> [1 -> (d -> D), 0 -> (c -> C)]`.
pub fn move_to_rewind_case() -> Case {
    // glyphs: a=1 b=2 c=3 d=4 e=5 X=6 C=7 D=8
    let mut s = FontSpec::basic(10);
    let ctx = Lookup::one(SubstSubtable::Context1 {
        coverage: Coverage::Glyphs(vec![1, 3]),
        rule_sets: vec![
            vec![SeqRule { input: vec![2], lookups: vec![SeqLookup { sequence_index: 0, lookup_index: 1 }] }],
            vec![SeqRule {
                input: vec![4],
                lookups: vec![SeqLookup { sequence_index: 1, lookup_index: 2 }, SeqLookup { sequence_index: 0, lookup_index: 3 }],
            }],
        ],
    });
    let lig = Lookup::one(SubstSubtable::Ligature {
        coverage: Coverage::Glyphs(vec![1]),
        ligature_sets: vec![vec![crate::fontgen::Ligature { glyph: 6, components: vec![2] }]],
    });
    s.gsub = Some(Layout::single_feature_top(*b"liga", 1, vec![ctx, lig, sub(4, 8), sub(3, 7)]));
    let mut reqs = vec![req_of(&[1, 2, 3, 4, 5])];
    for lv in 1..3 {
        let mut q = req_of(&[1, 2, 3, 4, 5, 1, 2, 3, 4]);
        q.level = lv;
        reqs.push(q);
    }
    Case { spec: s, reqs }
}

/// `end` of apply_lookup going below zero: lookup 0 = context format 3 over {a,b} with records
/// [0 -> lookup 1, 0 -> lookup 0]; lookup 1 = multiple a -> (), b -> ().  Text a b b a: everything is deleted.
pub fn end_underflow_case() -> Case {
    let mut s = FontSpec::basic(6);
    let ctx = Lookup::one(SubstSubtable::Context3 {
        coverages: vec![Coverage::Glyphs(vec![1, 2])],
        lookups: vec![SeqLookup { sequence_index: 0, lookup_index: 1 }, SeqLookup { sequence_index: 0, lookup_index: 0 }],
    });
    let del = Lookup::one(SubstSubtable::Multiple { coverage: Coverage::Glyphs(vec![1, 2]), sequences: vec![vec![], vec![]] });
    s.gsub = Some(Layout::single_feature_top(*b"liga", 1, vec![ctx, del]));
    let mut reqs = vec![req_of(&[1, 2, 2, 1]), req_of(&[3, 1, 2, 2, 1, 3]), req_of(&[3, 3, 1, 2, 2, 1])];
    reqs[1].level = 1;
    reqs[2].level = 2;
    Case { spec: s, reqs }
}

fn corpus(_args: &[String]) {
    let c = move_to_rewind_case();
    print_case(0, &c, true, None, true);
    print_case(1, &end_underflow_case(), true, None, true);
    // the documented expectation, checked here independently of the model
    match shape_spec(&c.spec, &c.reqs[0]) {
        Ok(gs) => {
            let ids: Vec<u32> = gs.iter().map(|g| g.gid).collect();
            if ids != vec![6, 7, 8, 5] {
                println!("oracle-fail move-to-rewind expected=[6, 7, 8, 5] got={:?}", ids);
            }
        }
        Err(e) => println!("oracle-fail move-to-rewind panic {}", e),
    }
}

// ---------------------------------------------------------------------------------------------
// independent oracles (no Gallina model involved)

fn oracle_fail(kind: &str, spec: &FontSpec, req: &Req, want: &str, got: &str) {
    println!("oracle-fail {} want={} got={} req=[{}] b64={} dbg={:?}", kind, want, got, fmt_req(req), b64_encode(&build(spec)), spec);
}

fn ids_clusters(gs: &[G]) -> Vec<(u32, u32)> {
    gs.iter().map(|g| (g.gid, g.cluster)).collect()
}

fn distinct_clusters(r: &mut Rng, len: usize) -> Vec<u32> {
    match r.below(3) {
        0 => (0..len as u32).collect(),
        1 => (0..len as u32).map(|i| 3 * i + 1).collect(),
        _ => {
            // a random permutation (non-monotone but distinct)
            let mut v: Vec<u32> = (0..len as u32).collect();
            for i in (1..len).rev() {
                let j = r.below(i as u64 + 1) as usize;
                v.swap(i, j);
            }
            v
        }
    }
}

fn oracle(args: &[String]) {
    let seed = arg_u64(args, "--seed", 1);
    let n = arg_u64(args, "--n", 200);
    let mut r = Rng::new(seed ^ 0x0C06_0C06);
    let mut evals = 0u64;
    let mut nontrivial = 0u64;
    let mut bad = 0u64;
    // ---------- (0) single substitution over ONE wide coverage range (format 2): every covered glyph is mapped, whatever
    //            the width of the range (63..66, 127..130 glyphs and 1000+ around the widths of the lookup accelerator)
    for width in [2u16, 63, 64, 65, 66, 127, 128, 129, 130, 1023, 1024, 1025, 1090] {
        for start in [1u16, 10, 37, 64] {
            let ng = start + width + 120;
            let mut spec = FontSpec::basic(ng);
            spec.cmap = (0..ng as u32 - 1).map(|i| (0xF0000 + i, 1 + i as u16)).collect();
            let st = SubstSubtable::Single1 { coverage: Coverage::Ranges(vec![(start, start + width - 1)]), delta: 100 };
            spec.gsub = Some(Layout::single_feature(*b"liga", vec![Lookup::one(st)]));
            let mut picks: Vec<u16> = vec![start, start + 1, start + width - 1, start + width / 2, start + width, start.saturating_sub(1).max(1)];
            for k in 0..8u16 {
                picks.push(start + (k * 37 + 5) % width);
            }
            for (k, g) in picks.iter().enumerate() {
                // one glyph per text too: the buffer digest then holds nothing else
                let texts: Vec<Vec<u16>> = if k == 0 { vec![picks.clone()] } else { vec![vec![*g]] };
                for t in texts {
                    let q = Req { text: t.iter().enumerate().map(|(i, x)| (0xF0000 + *x as u32 - 1, i as u32)).collect(), dir: Some(rustybuzz::Direction::LeftToRight), flags: 3, ..Default::default() };
                    let want: Vec<(u32, u32)> = t.iter().enumerate().map(|(i, x)| ((if *x >= start && *x < start + width { *x + 100 } else { *x }) as u32, i as u32)).collect();
                    evals += 1;
                    nontrivial += 1;
                    match shape_spec(&spec, &q) {
                        Ok(gs) => {
                            let got = ids_clusters(&gs);
                            if got != want {
                                bad += 1;
                                let mut small = spec.clone();
                                small.hadv.truncate(0);
                                println!("oracle-fail single-wide-range want={:?} got={:?} req=[{}] b64={} dbg=range {}..={}", want, got, fmt_req(&q), b64_encode(&build(&spec)), start, start + width - 1);
                            }
                        }
                        Err(e) => {
                            bad += 1;
                            println!("oracle-fail single-wide-range want={:?} got=panic:{} req=[{}] b64={} dbg=range {}..={}", want, e, fmt_req(&q), b64_encode(&build(&spec)), start, start + width - 1);
                        }
                    }
                }
            }
        }
    }
    for _ in 0..n {
        let ng: u16 = r.range(6, 20) as u16;
        let hot = r.range(3, 5) as u16;
        let g = G0 { n: ng, hot, marks: vec![] };
        let len = r.range(1, 10) as usize;
        let text: Vec<u16> = (0..len).map(|_| r.range(1, (hot as u64 + 1).min(ng as u64 - 1)) as u16).collect();
        let level = r.below(3) as u8;
        // ---------- (i) single substitution = map (also with a ranged user feature)
        {
            let st = gen_subtable(&mut r, &g, Kind::Single, &[Kind::Single], 0);
            let f = |x: u16| -> u16 {
                match &st {
                    SubstSubtable::Single1 { coverage, delta } => {
                        if coverage.index_of(x).is_some() { (x as i32 + *delta as i32) as u16 } else { x }
                    }
                    SubstSubtable::Single2 { coverage, substitutes } => match coverage.index_of(x) {
                        Some(i) => substitutes.get(i as usize).copied().unwrap_or(x),
                        None => x,
                    },
                    _ => x,
                }
            };
            let ranged = r.chance(1, 2);
            let mut spec = FontSpec::basic(ng);
            spec.gsub = Some(Layout::single_feature(if ranged { *b"ss01" } else { *b"liga" }, vec![Lookup::one(st.clone())]));
            let mut q = req_of(&text);
            q.level = level;
            let (a, b) = (r.below(len as u64 + 1) as u32, r.below(len as u64 + 2) as u32);
            if ranged {
                q.features = vec![format!("ss01[{}:{}]", a, b)];
            }
            let want: Vec<(u32, u32)> = text
                .iter()
                .enumerate()
                .map(|(i, x)| {
                    let on = !ranged || ((a == 0 && b == u32::MAX) || (a <= i as u32 && (i as u32) < b));
                    ((if on { f(*x) } else { *x }) as u32, i as u32)
                })
                .collect();
            evals += 1;
            match shape_spec(&spec, &q) {
                Ok(gs) => {
                    let got = ids_clusters(&gs);
                    if got != want {
                        bad += 1;
                        oracle_fail("single-map", &spec, &q, &format!("{:?}", want), &format!("{:?}", got));
                    }
                    if want.iter().zip(text.iter()).any(|(w, t)| w.0 != *t as u32) {
                        nontrivial += 1;
                    }
                }
                Err(e) => {
                    bad += 1;
                    oracle_fail("single-map", &spec, &q, "no panic", &e);
                }
            }
        }
        // ---------- (ii) one ligature lookup, no skipping: greedy first rule, cluster = min (levels 0/1)
        {
            let st = gen_subtable(&mut r, &g, Kind::Ligature, &[Kind::Ligature], 0);
            let mut spec = FontSpec::basic(ng);
            spec.gsub = Some(Layout::single_feature(*b"liga", vec![Lookup::one(st.clone())]));
            let cl = distinct_clusters(&mut r, len);
            let mut q = req_of(&text);
            for (i, t) in q.text.iter_mut().enumerate() {
                t.1 = cl[i];
            }
            q.level = level;
            let mut want: Vec<(u32, u32)> = Vec::new();
            if let SubstSubtable::Ligature { coverage, ligature_sets } = &st {
                let mut i = 0;
                while i < len {
                    let mut done = false;
                    if let Some(ci) = coverage.index_of(text[i]) {
                        if let Some(set) = ligature_sets.get(ci as usize) {
                            for lig in set {
                                let k = lig.components.len();
                                if i + k < len && (0..k).all(|j| text[i + 1 + j] == lig.components[j]) {
                                    let c = if level == 2 { cl[i] } else { (i..=i + k).map(|j| cl[j]).min().unwrap() };
                                    want.push((lig.glyph as u32, c));
                                    i += k + 1;
                                    done = true;
                                    break;
                                }
                            }
                        }
                    }
                    if !done {
                        want.push((text[i] as u32, cl[i]));
                        i += 1;
                    }
                }
            }
            evals += 1;
            match shape_spec(&spec, &q) {
                Ok(gs) => {
                    let got = ids_clusters(&gs);
                    if got != want {
                        bad += 1;
                        oracle_fail("ligature-greedy-min", &spec, &q, &format!("{:?}", want), &format!("{:?}", got));
                    }
                    if want.len() != len {
                        nontrivial += 1;
                    }
                }
                Err(e) => {
                    bad += 1;
                    oracle_fail("ligature-greedy-min", &spec, &q, "no panic", &e);
                }
            }
        }
        // ---------- (iii) multiple substitution = flat_map (glyph ids; clusters when nothing is deleted)
        {
            let st = gen_subtable(&mut r, &g, Kind::Multiple, &[Kind::Multiple], 0);
            let mut spec = FontSpec::basic(ng);
            spec.gsub = Some(Layout::single_feature(*b"ccmp", vec![Lookup::one(st.clone())]));
            let mut q = req_of(&text);
            q.level = level;
            let mut want: Vec<(u32, u32)> = Vec::new();
            let mut deleted = false;
            if let SubstSubtable::Multiple { coverage, sequences } = &st {
                for (i, x) in text.iter().enumerate() {
                    match coverage.index_of(*x).and_then(|ci| sequences.get(ci as usize)) {
                        Some(seq) => {
                            if seq.is_empty() {
                                deleted = true;
                            }
                            for y in seq {
                                want.push((*y as u32, i as u32));
                            }
                        }
                        None => want.push((*x as u32, i as u32)),
                    }
                }
            }
            evals += 1;
            match shape_spec(&spec, &q) {
                Ok(gs) => {
                    let got = ids_clusters(&gs);
                    let okk = if deleted {
                        got.iter().map(|x| x.0).collect::<Vec<_>>() == want.iter().map(|x| x.0).collect::<Vec<_>>()
                    } else {
                        got == want
                    };
                    if !okk {
                        bad += 1;
                        oracle_fail("multiple-flat-map", &spec, &q, &format!("{:?}", want), &format!("{:?}", got));
                    }
                    if want.len() != len || want.iter().zip(text.iter()).any(|(w, t)| w.0 != *t as u32) {
                        nontrivial += 1;
                    }
                }
                Err(e) => {
                    bad += 1;
                    oracle_fail("multiple-flat-map", &spec, &q, "no panic", &e);
                }
            }
        }
        // ---------- (iv) alternate with value k
        {
            let st = gen_subtable(&mut r, &g, Kind::Alternate, &[Kind::Alternate], 0);
            let mut spec = FontSpec::basic(ng);
            spec.gsub = Some(Layout::single_feature(*b"aalt", vec![Lookup::one(st.clone())]));
            let k = r.range(0, 5) as u32;
            let mut q = req_of(&text);
            q.level = level;
            q.features = vec![format!("aalt={}", k)];
            let want: Vec<(u32, u32)> = text
                .iter()
                .enumerate()
                .map(|(i, x)| {
                    let y = match &st {
                        SubstSubtable::Alternate { coverage, alternates } => match coverage.index_of(*x).and_then(|ci| alternates.get(ci as usize)) {
                            Some(alts) if k >= 1 && (k as usize) <= alts.len() => alts[k as usize - 1],
                            _ => *x,
                        },
                        _ => *x,
                    };
                    (y as u32, i as u32)
                })
                .collect();
            evals += 1;
            match shape_spec(&spec, &q) {
                Ok(gs) => {
                    let got = ids_clusters(&gs);
                    if got != want {
                        bad += 1;
                        oracle_fail("alternate-value", &spec, &q, &format!("{:?}", want), &format!("{:?}", got));
                    }
                    if want.iter().zip(text.iter()).any(|(w, t)| w.0 != *t as u32) {
                        nontrivial += 1;
                    }
                }
                Err(e) => {
                    bad += 1;
                    oracle_fail("alternate-value", &spec, &q, "no panic", &e);
                }
            }
        }
        // ---------- (v) stage order: lookup 1 (x->y) in `rvrn` (stage 0) runs before lookup 0 (y->z) in `liga`
        //                 (stage 1); with both in stage 1 (`ccmp`, `liga`) lookup 0 runs first
        {
            let (x, y, z) = (1u16, 2u16, 3u16);
            for same_stage in [false, true] {
                let mut spec = FontSpec::basic(ng);
                spec.gsub = Some(Layout::with_features(
                    vec![(if same_stage { *b"ccmp" } else { *b"rvrn" }, vec![1]), (*b"liga", vec![0])],
                    vec![sub(y, z), sub(x, y)],
                ));
                let mut q = req_of(&text);
                q.level = level;
                let want: Vec<(u32, u32)> = text
                    .iter()
                    .enumerate()
                    .map(|(i, t)| {
                        let v = if same_stage {
                            // lookup 0 (y->z) then lookup 1 (x->y)
                            let a = if *t == y { z } else { *t };
                            if a == x { y } else { a }
                        } else {
                            let a = if *t == x { y } else { *t };
                            if a == y { z } else { a }
                        };
                        (v as u32, i as u32)
                    })
                    .collect();
                evals += 1;
                match shape_spec(&spec, &q) {
                    Ok(gs) => {
                        let got = ids_clusters(&gs);
                        if got != want {
                            bad += 1;
                            oracle_fail(if same_stage { "same-stage-order" } else { "stage-order" }, &spec, &q, &format!("{:?}", want), &format!("{:?}", got));
                        }
                        if text.contains(&x) {
                            nontrivial += 1;
                        }
                    }
                    Err(e) => {
                        bad += 1;
                        oracle_fail("stage-order", &spec, &q, "no panic", &e);
                    }
                }
            }
        }
    }
    println!("oracle-summary evaluations={} nontrivial={} bad={}", evals, nontrivial, bad);
}

fn shape_b64(args: &[String]) {
    let reqs = arg_str(args, "--req").unwrap_or("");
    let mut s = String::new();
    std::io::stdin().read_to_string(&mut s).ok();
    let data = b64_decode(&s);
    let req = parse_req(reqs);
    for f in features_of(&req) {
        println!("uf 0 {} {} {} {}", f.tag.0, f.value, f.start, f.end);
    }
    let res = catch(move || rustybuzz::Face::from_slice(&data, 0).map(|face| shape_req(&face, &req)));
    match res {
        Ok(Some(gs)) => println!("out 0 {}", fmt_out(&gs)),
        Ok(None) => println!("out 0 panic noface"),
        Err(c) => println!("out 0 panic {}", c),
    }
}
