//! C07: GPOS / kern geometry.  Generated fonts (fontgen) shaped through the PUBLIC API.
//! Sub-commands (line oriented):
//!   cases  --seed S --n N [--first K]   fonts K..K+N: one `font` line (Coq term) per font, `case` lines
//!          (request -> glyphs) for the model correspondence, `geo` lines for the implementation-level
//!          geometric predicate (evaluated against the font's own anchors / records, independent of
//!          the Gallina model), `fired` lines (which lookup kinds changed the result), `stat` lines
//!   font   --seed S --index K           Debug print + hex bytes of font K (for replays)
//!   one    --seed S --index K --req R   one request on font K: case + geo lines
//!   kernoff-corpus                      kern on/off on the repository's fonts that have a kern table
//!   deep-chain --n N [--rtl-flag 0|1]   cursive chain of N glyphs (child precedes parent when the
//!          RightToLeft flag is set): run in a child process, a stack overflow aborts it
use crate::fontgen::coq::ToCoq;
use crate::fontgen::*;
use crate::shp::{self, Req, G};
use crate::util::*;
use rustybuzz::Direction;
use std::collections::BTreeMap;

pub fn run(args: &[String]) {
    quiet_panics();
    match args.get(0).map(|s| s.as_str()) {
        Some("cases") => cases_cmd(args),
        Some("font") => font_cmd(args),
        Some("one") => one_cmd(args),
        Some("kernoff-corpus") => kernoff_corpus_cmd(),
        Some("xstream") => xstream_cmd(args),
        Some("liglig") => liglig_cmd(args),
        Some("anchors") => anchors_cmd(args),
        Some("kernoff-bytes") => kernoff_bytes_cmd(args),
        Some("deep-chain") => deep_chain_cmd(args),
        Some("vf2-probe") => vf2_probe_cmd(),
        Some("multmark") => multmark_cmd(),
        Some("kerx-probe") => kerx_probe_cmd(),
        _ => {
            eprintln!("c07 cases|font|one|kernoff-corpus|deep-chain");
            std::process::exit(2)
        }
    }
}

// ------------------------------------------------------------------------------------------------
// alphabet: glyph 0 .notdef; 1..=6 bases; 7,8 ligatures; 9..=12 marks; 13,14 unclassified; 15,16 bases

const NG: u16 = 17;
const BASES: &[u16] = &[1, 2, 3, 4, 5, 6, 15, 16];
const LIGS: &[u16] = &[7, 8];
const MARKS: &[u16] = &[9, 10, 11, 12];
const OTHERS: &[u16] = &[13, 14];

#[derive(Clone, Copy, Debug, PartialEq, Eq)]
pub enum Profile {
    Adjust,  // single + pair adjustments (each under its own feature), no attachments
    Kern,    // legacy kern table (format 0), optionally a GPOS without a kern feature
    Cursive, // one cursive lookup
    Marks,   // mark-to-base / mark-to-ligature / mark-to-mark, optional GSUB ligature
    Mixed,   // anything (model correspondence only)
    LigLig,  // a ligature built from a ligature, marks on every component
}

fn profile_of(k: u64) -> Profile {
    match k % 5 {
        0 => Profile::Adjust,
        1 => Profile::Kern,
        2 => Profile::Cursive,
        3 => Profile::Marks,
        _ => Profile::Mixed,
    }
}

fn gdef_class(spec: &FontSpec, g: u16) -> u16 {
    match &spec.gdef {
        Some(gd) if !gd.glyph_classes.is_empty() => gd.glyph_classes.iter().find(|(x, _)| *x == g).map(|x| x.1).unwrap_or(0),
        // no class definition: every PUA glyph is synthesized as a base glyph
        _ => 1,
    }
}

fn mark_attach_class(spec: &FontSpec, g: u16) -> u16 {
    match &spec.gdef {
        Some(gd) => gd.mark_attach_classes.iter().find(|(x, _)| *x == g).map(|x| x.1).unwrap_or(0),
        None => 0,
    }
}

fn has_classes(spec: &FontSpec) -> bool {
    matches!(&spec.gdef, Some(gd) if !gd.glyph_classes.is_empty())
}

/// Spec-level reading of the lookup flags: is glyph `g` ignored by a lookup with these flags?
fn ignored(spec: &FontSpec, flags: u16, set: Option<u16>, g: u16) -> bool {
    let class = gdef_class(spec, g);
    if class == 1 && flags & lookup_flags::IGNORE_BASE_GLYPHS != 0 {
        return true;
    }
    if class == 2 && flags & lookup_flags::IGNORE_LIGATURES != 0 {
        return true;
    }
    if class == 3 {
        if flags & lookup_flags::IGNORE_MARKS != 0 {
            return true;
        }
        if let Some(s) = set {
            let inset = spec.gdef.as_ref().and_then(|gd| gd.mark_glyph_sets.get(s as usize)).map_or(false, |v| v.contains(&g));
            return !inset;
        }
        let mat = flags & lookup_flags::MARK_ATTACHMENT_TYPE_MASK;
        if mat != 0 {
            return (mat >> 8) != mark_attach_class(spec, g);
        }
    }
    false
}

// ------------------------------------------------------------------------------------------------
// generators

fn subset(r: &mut Rng, xs: &[u16], num: u64, den: u64) -> Vec<u16> {
    let mut v: Vec<u16> = xs.iter().copied().filter(|_| r.chance(num, den)).collect();
    if v.is_empty() {
        v.push(*r.pick(xs));
    }
    v.sort();
    v.dedup();
    v
}

fn coverage(r: &mut Rng, gs: &[u16]) -> Coverage {
    if r.chance(1, 3) {
        // ranges: maximal runs
        let mut rs: Vec<(u16, u16)> = Vec::new();
        for &g in gs {
            match rs.last_mut() {
                Some(l) if l.1 + 1 == g => l.1 = g,
                _ => rs.push((g, g)),
            }
        }
        Coverage::Ranges(rs)
    } else {
        Coverage::Glyphs(gs.to_vec())
    }
}

fn small(r: &mut Rng) -> i16 {
    match r.below(6) {
        0 | 1 => 0,
        2 => r.range(1, 40) as i16,
        3 => -(r.range(1, 40) as i16),
        4 => r.range(1, 300) as i16 - 150,
        _ => *r.pick(&[-1, 1, 2, -3, 7, 255, -256, 1000, -1000]),
    }
}

fn value_record(r: &mut Rng) -> ValueRecord {
    match r.below(5) {
        0 => ValueRecord::ZERO,
        1 => ValueRecord::xadv(small(r)),
        _ => ValueRecord::new(small(r), small(r), small(r), small(r)),
    }
}

fn nonzero_record(r: &mut Rng) -> ValueRecord {
    loop {
        let v = value_record(r);
        if v != ValueRecord::ZERO {
            return v;
        }
    }
}

fn vfmt(r: &mut Rng) -> ValueFormat {
    if r.chance(1, 2) { ValueFormat::All } else { ValueFormat::NonZero }
}

fn anchor(r: &mut Rng) -> Anchor {
    Anchor { x: r.range(0, 1200) as i16 - 300, y: r.range(0, 1400) as i16 - 400 }
}

fn opt_anchor(r: &mut Rng, none_num: u64, den: u64) -> Option<Anchor> {
    if r.chance(none_num, den) { None } else { Some(anchor(r)) }
}

fn all_glyphs() -> Vec<u16> {
    (1..NG).collect()
}

/// lookup flags for a positioning lookup; `marks_ok`: may ignore marks / filter marks
fn rand_flags(r: &mut Rng, spec: &FontSpec, plain: (u64, u64)) -> (u16, Option<u16>) {
    if r.chance(plain.0, plain.1) || r.chance(1, 2) {
        return (0, None);
    }
    let mut f = 0u16;
    let mut set = None;
    match r.below(10) {
        9 => f |= lookup_flags::IGNORE_BASE_GLYPHS | lookup_flags::IGNORE_LIGATURES,
        7 | 8 => {
            // mark filtering set AND mark attachment type in one flag word: the set decides which marks count, the
            // attachment class is not consulted for them
            let nsets = spec.gdef.as_ref().map_or(0, |g| g.mark_glyph_sets.len());
            f |= (r.range(1, 2) as u16) << 8;
            if nsets > 0 {
                set = Some(r.below(nsets as u64) as u16);
            }
        }
        0 => f |= lookup_flags::IGNORE_MARKS,
        1 => f |= lookup_flags::IGNORE_BASE_GLYPHS,
        2 => f |= lookup_flags::IGNORE_LIGATURES,
        3 => {
            let nsets = spec.gdef.as_ref().map_or(0, |g| g.mark_glyph_sets.len());
            if nsets > 0 {
                set = Some(r.below(nsets as u64) as u16);
            } else {
                f |= lookup_flags::IGNORE_MARKS;
            }
        }
        4 => f |= (r.range(1, 2) as u16) << 8,
        5 => f |= lookup_flags::IGNORE_MARKS | lookup_flags::IGNORE_LIGATURES,
        _ => f |= lookup_flags::IGNORE_BASE_GLYPHS | ((r.range(1, 2) as u16) << 8),
    }
    (f, set)
}

fn gen_gdef(r: &mut Rng) -> Option<Gdef> {
    if r.chance(1, 10) {
        return None;
    }
    let mut classes: Vec<(u16, u16)> = Vec::new();
    for &g in BASES {
        classes.push((g, 1));
    }
    for &g in LIGS {
        classes.push((g, 2));
    }
    for &g in MARKS {
        classes.push((g, 3));
    }
    if r.chance(1, 3) {
        classes.push((13, 4));
    }
    classes.sort();
    let mut mac = Vec::new();
    for &g in MARKS {
        let c = r.below(3) as u16;
        if c != 0 {
            mac.push((g, c));
        }
    }
    let nsets = r.below(3);
    let mut sets = Vec::new();
    for _ in 0..nsets {
        sets.push(subset(r, MARKS, 1, 2));
    }
    Some(Gdef { glyph_classes: classes, mark_attach_classes: mac, mark_glyph_sets: sets })
}

fn gen_single(r: &mut Rng) -> PosSubtable {
    let gs = subset(r, &all_glyphs(), 1, 3);
    if r.chance(1, 2) {
        PosSubtable::Single1 { coverage: coverage(r, &gs), value: nonzero_record(r), vf: vfmt(r) }
    } else {
        let values = gs.iter().map(|_| value_record(r)).collect();
        PosSubtable::Single2 { coverage: coverage(r, &gs), values, vf: vfmt(r) }
    }
}

/// A record that is empty or touches exactly one field: whether a non-empty record has an effect then
/// depends on the direction (an x-advance does nothing in vertical text, a y-advance nothing in horizontal).
fn axis_record(r: &mut Rng) -> ValueRecord {
    let v = loop { let v = small(r); if v != 0 { break v } };
    match r.below(7) {
        0 => ValueRecord::ZERO,
        1 | 2 => ValueRecord::xadv(v),
        3 | 4 => ValueRecord::new(0, 0, 0, v),
        5 => ValueRecord::new(v, 0, 0, 0),
        _ => ValueRecord::new(0, v, 0, 0),
    }
}

const DENSE_POOL: &[u16] = &[1, 2, 3, 4, 7];

fn gen_pair(r: &mut Rng) -> PosSubtable {
    if r.chance(2, 5) {
        // dense pairs over the small pool the texts favour: chains X Y Z where (X,Y) and (Y,Z) are both pairs
        let mut firsts = subset(r, DENSE_POOL, 3, 4);
        if firsts.is_empty() {
            firsts.push(1);
        }
        let mut sets = Vec::new();
        for _ in &firsts {
            let mut seconds = subset(r, DENSE_POOL, 3, 4);
            if seconds.is_empty() {
                seconds.push(2);
            }
            sets.push(seconds.iter().map(|g| (*g, axis_record(r), axis_record(r))).collect::<Vec<(u16, ValueRecord, ValueRecord)>>());
        }
        return PosSubtable::Pair1 { coverage: coverage(r, &firsts), pair_sets: sets, vf: vfmt(r) };
    }
    let firsts = subset(r, &all_glyphs(), 1, 3);
    if r.chance(1, 2) {
        let mut sets = Vec::new();
        for _ in &firsts {
            let seconds = subset(r, &all_glyphs(), 1, 3);
            let set: Vec<(u16, ValueRecord, ValueRecord)> = seconds
                .iter()
                .map(|g| (*g, value_record(r), if r.chance(1, 2) { ValueRecord::ZERO } else { value_record(r) }))
                .collect();
            sets.push(set);
        }
        PosSubtable::Pair1 { coverage: coverage(r, &firsts), pair_sets: sets, vf: vfmt(r) }
    } else {
        let n1 = r.range(1, 3) as u16;
        let n2 = r.range(1, 3) as u16;
        let cd = |r: &mut Rng, n: u16| -> ClassDef {
            let pairs: Vec<(u16, u16)> = all_glyphs().into_iter().filter_map(|g| {
                let c = r.below(n as u64 + 1) as u16; // may produce class n (out of the matrix)
                if c == 0 { None } else { Some((g, c)) }
            }).collect();
            if r.chance(1, 2) {
                ClassDef::from_pairs(&pairs)
            } else {
                let start = 1u16;
                let mut classes = vec![0u16; (NG - 1) as usize];
                for (g, c) in &pairs {
                    classes[(*g - start) as usize] = *c;
                }
                ClassDef::Format1 { start, classes }
            }
        };
        let class_def1 = cd(r, n1);
        let class_def2 = cd(r, n2);
        let mut records = Vec::new();
        for _ in 0..n1 {
            let mut row = Vec::new();
            for _ in 0..n2 {
                row.push((value_record(r), if r.chance(1, 2) { ValueRecord::ZERO } else { value_record(r) }));
            }
            records.push(row);
        }
        PosSubtable::Pair2 { coverage: coverage(r, &firsts), class_def1, class_def2, records, vf: vfmt(r) }
    }
}

fn gen_cursive(r: &mut Rng) -> PosSubtable {
    let pool: Vec<u16> = BASES.iter().chain(LIGS.iter()).chain(OTHERS.iter()).copied().chain(if r.chance(1, 4) { vec![9u16] } else { vec![] }).collect();
    let gs = subset(r, &pool, 2, 3);
    let ee = gs.iter().map(|_| (opt_anchor(r, 1, 5), opt_anchor(r, 1, 5))).collect();
    PosSubtable::Cursive { coverage: coverage(r, &gs), entry_exit: ee }
}

fn gen_mark_array(r: &mut Rng, marks: &[u16], class_count: u16, wild: bool) -> Vec<(u16, Anchor)> {
    marks
        .iter()
        .map(|_| {
            let c = if wild && r.chance(1, 12) { class_count } else { r.below(class_count as u64) as u16 };
            (c, anchor(r))
        })
        .collect()
}

/// the glyphs a mark lookup covers as marks: the GDEF marks, sometimes also glyph 14, which GDEF does
/// not classify (it keeps its advance: the advance terms of propagate_attachment_offsets matter)
fn mark_pool(r: &mut Rng) -> Vec<u16> {
    let mut v = MARKS.to_vec();
    if r.chance(1, 3) {
        v.push(14);
    }
    v
}

fn gen_mark_base(r: &mut Rng, wild: bool) -> PosSubtable {
    let pool = mark_pool(r);
    let marks = subset(r, &pool, 3, 4);
    let pool: Vec<u16> = BASES.iter().chain(LIGS.iter()).chain(OTHERS.iter()).copied().collect();
    let bases = subset(r, &pool, 3, 4);
    let cc = r.range(1, 3) as u16;
    let arr = gen_mark_array(r, &marks, cc, wild);
    let rows = bases.iter().map(|_| (0..cc).map(|_| opt_anchor(r, 1, 6)).collect()).collect();
    PosSubtable::MarkBase { mark_coverage: coverage(r, &marks), base_coverage: coverage(r, &bases), class_count: cc, marks: arr, bases: rows }
}

fn gen_mark_lig(r: &mut Rng, wild: bool) -> PosSubtable {
    let pool = mark_pool(r);
    let marks = subset(r, &pool, 3, 4);
    let ligs = subset(r, LIGS, 3, 4);
    let cc = r.range(1, 2) as u16;
    let arr = gen_mark_array(r, &marks, cc, wild);
    let ligatures = ligs
        .iter()
        .map(|_| {
            let ncomp = r.range(1, 3);
            (0..ncomp).map(|_| (0..cc).map(|_| opt_anchor(r, 1, 8)).collect()).collect()
        })
        .collect();
    PosSubtable::MarkLig { mark_coverage: coverage(r, &marks), lig_coverage: coverage(r, &ligs), class_count: cc, marks: arr, ligatures }
}

fn gen_mark_mark(r: &mut Rng, wild: bool) -> PosSubtable {
    let m1 = subset(r, MARKS, 3, 4);
    let m2 = subset(r, MARKS, 3, 4);
    let cc = r.range(1, 2) as u16;
    let arr = gen_mark_array(r, &m1, cc, wild);
    let rows = m2.iter().map(|_| (0..cc).map(|_| opt_anchor(r, 1, 8)).collect()).collect();
    PosSubtable::MarkMark { mark1_coverage: coverage(r, &m1), mark2_coverage: coverage(r, &m2), class_count: cc, marks: arr, mark2s: rows }
}

fn gen_kern(r: &mut Rng, allow_cross: bool) -> Vec<KernSubtable> {
    let n = r.range(1, 3);
    let mut v = Vec::new();
    for _ in 0..n {
        let mut pairs: Vec<(u16, u16, i16)> = Vec::new();
        let np = r.range(1, 14);
        for _ in 0..np {
            let l = if r.chance(2, 3) { *r.pick(&[1u16, 2, 3, 4, 7]) } else { r.range(1, (NG - 1) as u64) as u16 };
            let rr = if r.chance(2, 3) { *r.pick(&[1u16, 2, 3, 4, 7]) } else { r.range(1, (NG - 1) as u64) as u16 };
            let mut val = small(r);
            if val == 0 {
                val = -33;
            }
            pairs.push((l, rr, val));
        }
        pairs.sort_by_key(|p| (p.0, p.1));
        pairs.dedup_by_key(|p| (p.0, p.1));
        v.push(KernSubtable {
            horizontal: !r.chance(1, 6),
            minimum: r.chance(1, 8),
            cross_stream: allow_cross && r.chance(1, 4),
            override_: r.chance(1, 8),
            pairs,
        });
    }
    v
}

fn gen_liga(r: &mut Rng, spec: &FontSpec) -> Lookup<SubstSubtable> {
    // ligatures of bases: 1 2 -> 7, 1 2 3 -> 8, 3 4 -> 7/8 (longest first within a set)
    let mut sets: BTreeMap<u16, Vec<Ligature>> = BTreeMap::new();
    if r.chance(2, 3) {
        sets.entry(1).or_default().push(Ligature { glyph: 8, components: vec![2, 3] });
    }
    sets.entry(1).or_default().push(Ligature { glyph: 7, components: vec![2] });
    if r.chance(1, 2) {
        sets.entry(3).or_default().push(Ligature { glyph: *r.pick(LIGS), components: vec![4] });
    }
    let cov: Vec<u16> = sets.keys().copied().collect();
    let flags = if has_classes(spec) && r.chance(3, 4) { lookup_flags::IGNORE_MARKS } else { 0 };
    Lookup::with_flags(flags, vec![SubstSubtable::Ligature { coverage: Coverage::Glyphs(cov), ligature_sets: sets.into_values().collect() }])
}

const HV_TAGS: &[&[u8; 4]] = &[b"mark", b"mkmk", b"abvm", b"blwm"];

/// Assemble a GPOS from (tag, lookup) pairs: one feature record per distinct tag, in first-use order.
fn assemble(lookups: Vec<(Tag, Lookup<PosSubtable>)>) -> Layout<PosSubtable> {
    let mut feats: Vec<(Tag, Vec<u16>)> = Vec::new();
    let mut lks = Vec::new();
    for (i, (t, l)) in lookups.into_iter().enumerate() {
        match feats.iter_mut().find(|f| f.0 == t) {
            Some(f) => f.1.push(i as u16),
            None => feats.push((t, vec![i as u16])),
        }
        lks.push(l);
    }
    Layout::with_features(feats, lks)
}

fn mk_lookup(r: &mut Rng, spec: &FontSpec, plain: (u64, u64), subtables: Vec<PosSubtable>) -> Lookup<PosSubtable> {
    let (flags, set) = rand_flags(r, spec, plain);
    Lookup { flags, mark_filtering_set: set, subtables, use_extension: r.chance(1, 10) }
}

/// Font indices >= XSTREAM_BASE: the Marks-profile font `index - XSTREAM_BASE` plus a legacy kern table
/// whose first horizontal subtable is cross-stream (known-finding class kern_cross_stream_resets_attachments).
pub const XSTREAM_BASE: u64 = 1_000_000;

/// Font indices >= LIGLIG_BASE: two GSUB ligature lookups, the second of which ligates the first one's result with
/// another glyph (or with itself), and mark-to-ligature anchors for every component.  Judged by the model
/// correspondence (Model/PosPipe.v `ligate` keeps the full component bookkeeping) and by the geometric predicate.
pub const LIGLIG_BASE: u64 = 2_000_000;

fn gen_liglig(seed: u64, index: u64) -> (FontSpec, Profile) {
    let mut r = Rng::new(seed.wrapping_mul(0x9E37_79B9).wrapping_add(index.wrapping_mul(104729)).wrapping_add(0x116));
    let r = &mut r;
    let mut spec = FontSpec::basic(NG);
    spec.hadv = (0..NG).map(|g| if g == 0 { 500 } else if MARKS.contains(&g) { 0 } else { r.range(300, 1200) as u16 }).collect();
    let mut classes: Vec<(u16, u16)> = Vec::new();
    for &g in BASES { classes.push((g, 1)); }
    for &g in LIGS { classes.push((g, 2)); }
    for &g in MARKS { classes.push((g, 3)); }
    classes.sort();
    spec.gdef = Some(Gdef { glyph_classes: classes, mark_attach_classes: vec![], mark_glyph_sets: vec![] });
    // lookup 0: 1 2 -> 7; lookup 1: one of 4 7 -> 8 (base + ligature), 7 3 -> 8 (ligature + base), 7 7 -> 8 (two ligatures)
    let l0 = Lookup::with_flags(lookup_flags::IGNORE_MARKS, vec![SubstSubtable::Ligature { coverage: Coverage::Glyphs(vec![1]), ligature_sets: vec![vec![Ligature { glyph: 7, components: vec![2] }]] }]);
    let shape = r.below(3);
    let (first, comps, total) = match shape { 0 => (4u16, vec![7u16], 3usize), 1 => (7, vec![3], 3), _ => (7, vec![7], 4) };
    let l1 = Lookup::with_flags(lookup_flags::IGNORE_MARKS, vec![SubstSubtable::Ligature { coverage: Coverage::Glyphs(vec![first]), ligature_sets: vec![vec![Ligature { glyph: 8, components: comps }]] }]);
    spec.gsub = Some(Layout::single_feature(if r.chance(1, 2) { *b"liga" } else { *b"ccmp" }, vec![l0, l1]));
    // every component of both ligatures has its own, distinct anchor for the single mark class
    let marks: Vec<u16> = MARKS.to_vec();
    let arr: Vec<(u16, Anchor)> = marks.iter().map(|_| (0u16, anchor(r))).collect();
    let comp_anchors = |r: &mut Rng, n: usize| -> Vec<Vec<Option<Anchor>>> { (0..n).map(|k| vec![Some(Anchor { x: 100 + 400 * k as i16 + r.range(0, 50) as i16, y: 600 + 10 * k as i16 })]).collect() };
    // the anchor table of a ligature may have FEWER component records than the ligature has components (the two counts
    // are independent in OpenType): a mark on a later component then goes to the last record
    let rows7 = if r.chance(1, 4) { 1 } else { 2 };
    let rows8 = if r.chance(1, 3) { r.range(1, total as u64 - 1) as usize } else { total };
    let ligatures = vec![comp_anchors(r, rows7), comp_anchors(r, rows8)];
    let ml = PosSubtable::MarkLig { mark_coverage: Coverage::Glyphs(marks.clone()), lig_coverage: Coverage::Glyphs(vec![7, 8]), class_count: 1, marks: arr.clone(), ligatures };
    let bases: Vec<u16> = BASES.to_vec();
    let mb = PosSubtable::MarkBase { mark_coverage: Coverage::Glyphs(marks), base_coverage: Coverage::Glyphs(bases.clone()), class_count: 1, marks: arr, bases: bases.iter().map(|_| vec![Some(anchor(r))]).collect() };
    spec.gpos = Some(assemble(vec![(*b"mark", Lookup::one(mb)), (*b"mark", Lookup::one(ml))]));
    (spec, Profile::LigLig)
}

pub fn gen_font(seed: u64, index: u64) -> (FontSpec, Profile) {
    if index >= LIGLIG_BASE {
        return gen_liglig(seed, index);
    }
    if index >= XSTREAM_BASE {
        let k = index - XSTREAM_BASE;
        let (mut spec, _) = gen_font_plain(seed, k - k % 5 + 3);
        let mut r = Rng::new(seed ^ index);
        let mut kern = gen_kern(&mut r, false);
        kern.insert(0, KernSubtable { horizontal: true, minimum: false, cross_stream: true, override_: false, pairs: vec![(1, 2, 50), (2, 1, -20)] });
        spec.kern = Some(kern);
        return (spec, Profile::Marks);
    }
    gen_font_plain(seed, index)
}

fn gen_font_plain(seed: u64, index: u64) -> (FontSpec, Profile) {
    let mut r = Rng::new(seed.wrapping_mul(0x9E37_79B9).wrapping_add(index.wrapping_mul(7919)).wrapping_add(0xC07));
    let r = &mut r;
    let profile = profile_of(index);
    let mut spec = FontSpec::basic(NG);
    spec.hadv = (0..NG).map(|g| if g == 0 { 500 } else { match r.below(8) { 0 => 0, 1 => 1, _ => r.range(100, 1200) as u16 } }).collect();
    spec.ascender = r.range(500, 1000) as i16;
    spec.descender = -(r.range(0, 400) as i16);
    if r.chance(2, 3) {
        spec.vmetrics = Some(VMetrics {
            ascender: r.range(300, 700) as i16,
            descender: -(r.range(300, 700) as i16),
            line_gap: 0,
            vadv: (0..NG).map(|_| r.range(0, 1500) as u16).collect(),
        });
    }
    spec.gdef = gen_gdef(r);
    let tag = |r: &mut Rng, h: &'static [u8; 4]| -> Tag {
        // half of the lookups get a tag that is also applied in vertical text
        if r.chance(1, 2) { *h } else { **r.pick(HV_TAGS) }
    };
    match profile {
        Profile::LigLig => unreachable!("generated by gen_liglig"),
        Profile::Adjust => {
            let mut lks = Vec::new();
            let t1 = if r.chance(1, 2) { *b"dist" } else { *b"abvm" };
            let sub = gen_single(r);
            lks.push((t1, mk_lookup(r, &spec, (1, 2), vec![sub])));
            let t2 = if r.chance(2, 3) { *b"kern" } else { *b"blwm" };
            let n = r.range(1, 2);
            let subs: Vec<PosSubtable> = (0..n).map(|_| gen_pair(r)).collect();
            lks.push((t2, mk_lookup(r, &spec, (1, 2), subs)));
            spec.gpos = Some(assemble(lks));
        }
        Profile::Kern => {
            spec.kern = Some(gen_kern(r, true));
            if r.chance(1, 3) {
                // a GPOS without a kern feature: both GPOS and the kern table apply
                let sub = gen_single(r);
                spec.gpos = Some(assemble(vec![(*b"dist", mk_lookup(r, &spec, (1, 1), vec![sub]))]));
            }
        }
        Profile::Cursive => {
            let t = if r.chance(1, 2) { *b"curs" } else { *b"abvm" };
            let (mut flags, set) = rand_flags(r, &spec, (1, 2));
            if r.chance(1, 2) {
                flags |= lookup_flags::RIGHT_TO_LEFT;
            }
            let sub = gen_cursive(r);
            spec.gpos = Some(assemble(vec![(t, Lookup { flags, mark_filtering_set: set, subtables: vec![sub], use_extension: false })]));
        }
        Profile::Marks => {
            if r.chance(2, 3) {
                let t = if r.chance(1, 2) { *b"liga" } else { *b"ccmp" };
                let l = gen_liga(r, &spec);
                spec.gsub = Some(Layout::single_feature(t, vec![l]));
            }
            let mut lks = Vec::new();
            let sub = gen_mark_base(r, false);
            lks.push((*b"mark", mk_lookup(r, &spec, (1, 1), vec![sub])));
            let sub = gen_mark_lig(r, false);
            lks.push((*b"mark", mk_lookup(r, &spec, (1, 1), vec![sub])));
            if r.chance(2, 3) {
                let sub = gen_mark_mark(r, false);
                lks.push((*b"mkmk", mk_lookup(r, &spec, (1, 3), vec![sub])));
            }
            if r.chance(1, 6) {
                // every anchor of the font at the same point: each attachment has offset (0, 0) before the advances of
                // the glyphs in between are taken back - what remains to be done is exactly the propagation pass
                let a0 = Anchor { x: 300, y: 500 };
                for (_, lk) in lks.iter_mut() {
                    for st in lk.subtables.iter_mut() {
                        match st {
                            PosSubtable::MarkBase { marks, bases, .. } => {
                                marks.iter_mut().for_each(|m| m.1 = a0);
                                bases.iter_mut().for_each(|row| row.iter_mut().for_each(|c| if c.is_some() { *c = Some(a0) }));
                            }
                            PosSubtable::MarkLig { marks, ligatures, .. } => {
                                marks.iter_mut().for_each(|m| m.1 = a0);
                                ligatures.iter_mut().for_each(|l| l.iter_mut().for_each(|row| row.iter_mut().for_each(|c| if c.is_some() { *c = Some(a0) })));
                            }
                            PosSubtable::MarkMark { marks, mark2s, .. } => {
                                marks.iter_mut().for_each(|m| m.1 = a0);
                                mark2s.iter_mut().for_each(|row| row.iter_mut().for_each(|c| if c.is_some() { *c = Some(a0) }));
                            }
                            _ => {}
                        }
                    }
                }
            }
            spec.gpos = Some(assemble(lks));
        }
        Profile::Mixed => {
            if r.chance(1, 2) {
                let t = if r.chance(1, 2) { *b"liga" } else { *b"ccmp" };
                let l = gen_liga(r, &spec);
                spec.gsub = Some(Layout::single_feature(t, vec![l]));
            }
            let n = r.range(1, 6);
            let mut lks = Vec::new();
            for _ in 0..n {
                let (t, subs): (Tag, Vec<PosSubtable>) = match r.below(7) {
                    0 => (tag(r, b"dist"), vec![gen_single(r)]),
                    1 => (tag(r, b"kern"), (0..r.range(1, 2)).map(|_| gen_pair(r)).collect()),
                    2 => (tag(r, b"curs"), (0..r.range(1, 2)).map(|_| gen_cursive(r)).collect()),
                    3 => (*b"mark", (0..r.range(1, 2)).map(|_| gen_mark_base(r, true)).collect()),
                    4 => (*b"mark", vec![gen_mark_lig(r, true)]),
                    5 => (*b"mkmk", vec![gen_mark_mark(r, true)]),
                    _ => (tag(r, b"dist"), vec![gen_single(r)]),
                };
                let mut l = mk_lookup(r, &spec, (0, 1), subs);
                if matches!(l.subtables[0], PosSubtable::Cursive { .. }) && r.chance(1, 2) {
                    l.flags |= lookup_flags::RIGHT_TO_LEFT;
                }
                lks.push((t, l));
            }
            spec.gpos = Some(assemble(lks));
            if r.chance(1, 3) {
                // cross-stream subtables reset every attachment (see kerning.rs); kept out of fonts with
                // attachment lookups here and exercised by the Kern profile
                let has_attach = lks_have_attachment(spec.gpos.as_ref().unwrap());
                spec.kern = Some(gen_kern(r, !has_attach));
            }
        }
    }
    (spec, profile)
}

fn lks_have_attachment(l: &Layout<PosSubtable>) -> bool {
    l.lookups.iter().any(|lk| {
        lk.subtables.iter().any(|s| matches!(s, PosSubtable::Cursive { .. } | PosSubtable::MarkBase { .. } | PosSubtable::MarkLig { .. } | PosSubtable::MarkMark { .. }))
    })
}

// ------------------------------------------------------------------------------------------------
// texts and requests

fn gen_text_liglig(r: &mut Rng) -> Vec<u16> {
    // component sequences x l k / l k x / l k l k with an optional mark after every letter
    let mut t: Vec<u16> = Vec::new();
    let words = r.range(1, 2);
    for _ in 0..words {
        let letters: Vec<u16> = match r.below(5) { 0 => vec![4, 1, 2], 1 => vec![1, 2, 3], 2 => vec![1, 2, 1, 2], 3 => vec![1, 2], _ => vec![4, 1, 2, 3] };
        for l in letters {
            t.push(l);
            let nm = match r.below(4) { 0 | 1 => 0, 2 => 1, _ => 2 };
            for _ in 0..nm {
                t.push(*r.pick(MARKS));
            }
        }
        if r.chance(1, 3) {
            t.push(5);
        }
    }
    t
}

fn gen_text(r: &mut Rng, profile: Profile) -> Vec<u16> {
    if profile == Profile::LigLig {
        return gen_text_liglig(r);
    }
    let len = match r.below(10) {
        0 => 1,
        1 => r.range(9, 24),
        2 if profile == Profile::Cursive || profile == Profile::Mixed => r.range(25, 64),
        3 if profile == Profile::Cursive => r.range(65, 150), // attachment chains beyond the nesting limit
        _ => r.range(2, 8),
    } as usize;
    let mut t: Vec<u16> = Vec::new();
    while t.len() < len {
        if (profile == Profile::Kern && r.chance(1, 2)) || ((profile == Profile::Adjust || profile == Profile::Mixed) && r.chance(2, 5)) {
            t.push(*r.pick(&[1u16, 2, 3, 4, 7]));
            continue;
        }
        match r.below(10) {
            0 | 1 | 2 | 3 => t.push(*r.pick(BASES)),
            4 | 5 => t.push(*r.pick(MARKS)),
            6 => t.push(*r.pick(LIGS)),
            7 => t.push(*r.pick(OTHERS)),
            8 => {
                // ligature component sequence, marks in between
                t.push(1);
                if r.chance(1, 2) {
                    t.push(*r.pick(MARKS));
                }
                t.push(2);
                if r.chance(1, 3) {
                    if r.chance(1, 2) {
                        t.push(*r.pick(MARKS));
                    }
                    t.push(3);
                }
            }
            _ => {
                t.push(*r.pick(BASES));
                let n = r.range(1, 3);
                for _ in 0..n {
                    t.push(*r.pick(MARKS));
                }
            }
        }
    }
    t.truncate(if profile == Profile::Cursive { 150 } else { 64 });
    t
}

fn dirs() -> [Direction; 4] {
    [Direction::LeftToRight, Direction::RightToLeft, Direction::TopToBottom, Direction::BottomToTop]
}

fn req_of(text: &[u16], dir: Direction, script: Option<&str>, feats: &[String]) -> Req {
    Req {
        text: text.iter().enumerate().map(|(i, g)| (pua(*g as u32 - 1), i as u32)).collect(),
        dir: Some(dir),
        script: script.map(|s| s.to_string()),
        features: feats.to_vec(),
        ..Req::default()
    }
}

fn shape_spec(bytes: &[u8], req: &Req) -> Result<Vec<G>, String> {
    let b = bytes.to_vec();
    let rq = req.clone();
    catch(move || {
        let face = rustybuzz::Face::from_slice(&b, 0).expect("face");
        shp::shape_req(&face, &rq)
    })
}

fn gpos_tags(spec: &FontSpec) -> Vec<Tag> {
    spec.gpos.as_ref().map_or(vec![], |l| l.features.iter().map(|f| f.tag).collect())
}

fn tag_str(t: &Tag) -> String {
    String::from_utf8_lossy(t).to_string()
}

fn kind_name(s: &PosSubtable) -> &'static str {
    match s {
        PosSubtable::Single1 { .. } | PosSubtable::Single2 { .. } => "single",
        PosSubtable::Pair1 { .. } => "pair1",
        PosSubtable::Pair2 { .. } => "pair2",
        PosSubtable::Cursive { .. } => "cursive",
        PosSubtable::MarkBase { .. } => "markbase",
        PosSubtable::MarkLig { .. } => "marklig",
        PosSubtable::MarkMark { .. } => "markmark",
        _ => "context",
    }
}

struct Stats(BTreeMap<String, u64>);
impl Stats {
    fn add(&mut self, k: &str, n: u64) {
        *self.0.entry(k.to_string()).or_insert(0) += n;
    }
}

// ------------------------------------------------------------------------------------------------
// the run over one font

fn run_font(seed: u64, index: u64, only_req: Option<&str>, stats: &mut Stats) {
    let (spec, profile) = gen_font(seed, index);
    let problems = check(&spec);
    if !problems.is_empty() {
        println!("genbug {} {}", index, problems.join("; "));
        return;
    }
    let bytes = build(&spec);
    println!("font {} profile={:?} coq={}", index, profile, spec.coq());
    stats.add(&format!("fonts.{:?}", profile), 1);
    let mut r = Rng::new(seed.wrapping_mul(31).wrapping_add(index).wrapping_add(0x7E57));
    let mut reqs: Vec<Req> = Vec::new();
    if let Some(rs) = only_req {
        reqs.push(shp::parse_req(rs));
    } else {
        let ntexts = 3;
        for ti in 0..ntexts {
            let text = gen_text(&mut r, profile);
            for d in dirs() {
                let script = match r.below(8) {
                    0 => Some("Phnx"), // natively right-to-left, default shaper
                    1 => Some("Latn"),
                    _ => None,
                };
                reqs.push(req_of(&text, d, script, &[]));
                let off = if r.chance(1, 2) { "kern=0" } else { "-kern" };
                reqs.push(req_of(&text, d, script, &[off.to_string()]));
            }
            // one request per GPOS feature of the font with that feature switched off (LTR and TTB)
            if ti == 0 {
                for t in gpos_tags(&spec) {
                    for d in [Direction::LeftToRight, Direction::TopToBottom, Direction::RightToLeft] {
                        reqs.push(req_of(&text, d, None, &[format!("-{}", tag_str(&t))]));
                    }
                }
                // vertical text with the horizontal-only features switched on by the user
                reqs.push(req_of(&text, Direction::TopToBottom, None, &["kern".to_string(), "curs".to_string(), "dist".to_string()]));
            }
        }
    }
    for (ci, req) in reqs.iter().enumerate() {
        let out = shape_spec(&bytes, req);
        match &out {
            Ok(gs) => println!("case {} {} {} -> {}", index, ci, shp::fmt_req(req), shp::fmt_g(gs)),
            Err(c) => println!("case {} {} {} -> panic {}", index, ci, shp::fmt_req(req), c),
        }
        stats.add("shapes", 1);
        if let Ok(gs) = &out {
            geo::evaluate(&spec, &bytes, profile, req, gs, index, ci, stats);
            // which features fire (change the result when switched off): measured on the implementation
            if req.features.is_empty() && req.dir == Some(Direction::LeftToRight) {
                for t in gpos_tags(&spec) {
                    let mut r2 = req.clone();
                    r2.features = vec![format!("-{}", tag_str(&t))];
                    if let Ok(g2) = shape_spec(&bytes, &r2) {
                        if &g2 != gs {
                            let l = spec.gpos.as_ref().unwrap();
                            let f = l.features.iter().find(|f| f.tag == t).unwrap();
                            let mut kinds: Vec<&str> = f.lookup_indices.iter().flat_map(|li| l.lookups[*li as usize].subtables.iter().map(kind_name)).collect();
                            kinds.sort();
                            kinds.dedup();
                            for k in kinds {
                                stats.add(&format!("fired.{}", k), 1);
                            }
                        }
                    }
                }
            }
        }
    }
}

fn cases_cmd(args: &[String]) {
    let seed = arg_u64(args, "--seed", 1);
    let n = arg_u64(args, "--n", 10);
    let first = arg_u64(args, "--first", 0);
    let mut stats = Stats(BTreeMap::new());
    for k in first..first + n {
        run_font(seed, k, None, &mut stats);
    }
    for (k, v) in &stats.0 {
        println!("stat {} {}", k, v);
    }
}

/// Known-finding probe: Marks fonts + a cross-stream kern subtable (font / case / geo lines as `cases`).
fn xstream_cmd(args: &[String]) {
    let seed = arg_u64(args, "--seed", 1);
    let n = arg_u64(args, "--n", 4);
    let mut stats = Stats(BTreeMap::new());
    for k in 0..n {
        run_font(seed, XSTREAM_BASE + 5 * k + 3, None, &mut stats);
    }
    for (k, v) in &stats.0 {
        println!("stat {} {}", k, v);
    }
}

fn liglig_cmd(args: &[String]) {
    let seed = arg_u64(args, "--seed", 1);
    let n = arg_u64(args, "--n", 4);
    let mut stats = Stats(BTreeMap::new());
    for k in 0..n {
        run_font(seed, LIGLIG_BASE + k, None, &mut stats);
    }
    for (k, v) in &stats.0 {
        println!("stat {} {}", k, v);
    }
}

/// Self-contained replay of an attachment fact on stored font bytes:
/// --check "oi,oj,ax,ay,bx,by,axes": anchor (ax,ay) of output glyph oi must coincide with anchor (bx,by)
/// of output glyph oj on the given axes ("xy", "x" or "y") in pen coordinates.
fn anchors_cmd(args: &[String]) {
    let font = arg_str(args, "--font").expect("--font");
    let req = shp::parse_req(arg_str(args, "--req").unwrap_or(""));
    let chk: Vec<String> = arg_str(args, "--check").unwrap_or("").split(',').map(|s| s.to_string()).collect();
    let data = std::fs::read(font).expect("read font");
    match shape_spec(&data, &req) {
        Err(c) => println!("anchors panic {}", c),
        Ok(gs) => {
            let num = |k: usize| chk.get(k).and_then(|s| s.parse::<i64>().ok()).unwrap_or(0);
            let (oi, oj) = (num(0) as usize, num(1) as usize);
            let axes = chk.get(6).map(|s| s.as_str()).unwrap_or("xy");
            if oi >= gs.len() || oj >= gs.len() {
                println!("anchors FAIL index out of range; output {}", shp::fmt_g(&gs));
                return;
            }
            let (mut x, mut y) = (0i64, 0i64);
            let mut org = Vec::new();
            for g in &gs {
                org.push((x + g.xo as i64, y + g.yo as i64));
                x += g.xa as i64;
                y += g.ya as i64;
            }
            let a = (org[oi].0 + num(2), org[oi].1 + num(3));
            let b = (org[oj].0 + num(4), org[oj].1 + num(5));
            let ok = (!axes.contains('x') || a.0 == b.0) && (!axes.contains('y') || a.1 == b.1);
            println!("anchors {} glyph[{}] anchor at ({},{}) glyph[{}] anchor at ({},{}) axes={} output {}", if ok { "ok" } else { "FAIL" }, oi, a.0, a.1, oj, b.0, b.1, axes, shp::fmt_g(&gs));
        }
    }
}

/// Self-contained replay of "kerning off changes nothing but the kern amounts": glyph ids and clusters
/// with the request as given and with its kern switches removed must be the same sequence.
fn kernoff_bytes_cmd(args: &[String]) {
    let font = arg_str(args, "--font").expect("--font");
    let req = shp::parse_req(arg_str(args, "--req").unwrap_or(""));
    let data = std::fs::read(font).expect("read font");
    let mut on = req.clone();
    on.features.retain(|f| !(f == "kern=0" || f == "-kern"));
    match (shape_spec(&data, &req), shape_spec(&data, &on)) {
        (Ok(a), Ok(b)) => {
            let ka: Vec<(u32, u32)> = a.iter().map(|g| (g.gid, g.cluster)).collect();
            let kb: Vec<(u32, u32)> = b.iter().map(|g| (g.gid, g.cluster)).collect();
            println!("kernoff {} off={} on={}", if ka == kb { "ok" } else { "FAIL" }, shp::fmt_g(&a), shp::fmt_g(&b));
        }
        _ => println!("kernoff panic"),
    }
}

/// Probe of the known finding `pairpos_second_glyph_by_value_not_format`: PairPos format 1 whose ValueFormat2 is
/// non-zero (0x000F) while the second records of both pairs are all zero.  OpenType ("if valueFormat2 is 0 the
/// second glyph is the next first glyph") and HarfBuzz (`if (len2) pos++`) decide on the FORMAT: in A B C the pair
/// (A,B) consumes B and (B,C) is not applied.  The library decides on the record's VALUES (ttf-parser does not
/// expose the format): (B,C) is applied too.  Prints `vf2 opentype|by-value|other <advances>`.
fn vf2_probe_cmd() {
    let mut spec = FontSpec::basic(4);
    spec.hadv = vec![500, 600, 600, 600];
    let sub = PosSubtable::Pair1 {
        coverage: Coverage::Glyphs(vec![1, 2]),
        pair_sets: vec![vec![(2, ValueRecord::xadv(-50), ValueRecord::ZERO)], vec![(3, ValueRecord::xadv(-100), ValueRecord::ZERO)]],
        vf: ValueFormat::All,
    };
    spec.gpos = Some(Layout::single_feature(*b"kern", vec![Lookup::one(sub)]));
    let bytes = build(&spec);
    let req = req_of(&[1, 2, 3], Direction::LeftToRight, None, &[]);
    match shape_spec(&bytes, &req) {
        Ok(out) => {
            let adv: Vec<i32> = out.iter().map(|g| g.xa).collect();
            let verdict = if adv == [550, 600, 600] { "opentype" } else if adv == [550, 500, 600] { "by-value" } else { "other" };
            println!("vf2 {} {:?}", verdict, adv);
        }
        Err(e) => println!("vf2 other panic {}", e),
    }
}

fn hex(b: &[u8]) -> String {
    let mut s = String::with_capacity(b.len() * 2);
    for x in b {
        s.push_str(&format!("{:02x}", x));
    }
    s
}

fn font_cmd(args: &[String]) {
    let seed = arg_u64(args, "--seed", 1);
    let index = arg_u64(args, "--index", 0);
    let (spec, profile) = gen_font(seed, index);
    println!("profile {:?}", profile);
    println!("debug {:?}", spec);
    println!("coq {}", spec.coq());
    println!("hex {}", hex(&build(&spec)));
}

fn one_cmd(args: &[String]) {
    let seed = arg_u64(args, "--seed", 1);
    let index = arg_u64(args, "--index", 0);
    let req = arg_str(args, "--req").unwrap_or("");
    let mut stats = Stats(BTreeMap::new());
    run_font(seed, index, Some(req), &mut stats);
}

// ------------------------------------------------------------------------------------------------
// kern on/off on corpus fonts with a kern table (implementation-level predicate: glyph order and
// clusters are identical with kerning on and off)

fn kernoff_corpus_cmd() {
    let repo = shp::repo_root();
    let mut n = 0u64;
    let mut nontrivial = 0u64;
    for path in shp::corpus_fonts(&repo) {
        let Ok(data) = std::fs::read(&path) else { continue };
        let d2 = data.clone();
        let has_kern = catch(move || rustybuzz::Face::from_slice(&d2, 0).map_or(false, |f| f.tables().kern.is_some())).unwrap_or(false);
        if !has_kern {
            continue;
        }
        let d3 = data.clone();
        let chars = catch(move || rustybuzz::Face::from_slice(&d3, 0).map(|f| shp::cmap_chars(&f, 40)).unwrap_or_default()).unwrap_or_default();
        let mut texts: Vec<Vec<u32>> = vec![vec![0x5D0, 0x5D1, 0x5D2], vec![0x41, 0x56, 0x41], vec![0x627, 0x644, 0x645]];
        if chars.len() >= 3 {
            texts.push(chars.iter().take(6).copied().collect());
        }
        for t in &texts {
            for d in dirs() {
                let mk = |feats: Vec<String>| Req { text: t.iter().enumerate().map(|(i, c)| (*c, i as u32)).collect(), dir: Some(d), features: feats, ..Req::default() };
                let on = shape_spec(&data, &mk(vec![]));
                let off = shape_spec(&data, &mk(vec!["kern=0".to_string()]));
                n += 1;
                if let (Ok(a), Ok(b)) = (&on, &off) {
                    let ka: Vec<(u32, u32)> = a.iter().map(|g| (g.gid, g.cluster)).collect();
                    let kb: Vec<(u32, u32)> = b.iter().map(|g| (g.gid, g.cluster)).collect();
                    if a != b {
                        nontrivial += 1;
                    }
                    if ka != kb {
                        println!("kernoff-order-differs font={} {} on={} off={}", path, shp::fmt_req(&mk(vec!["kern=0".to_string()])), shp::fmt_g(a), shp::fmt_g(b));
                    }
                }
            }
        }
    }
    println!("kernoff-corpus-summary shapes={} nontrivial={}", n, nontrivial);
}

// ------------------------------------------------------------------------------------------------
// deep attachment chain (run in a child process by the driver)

fn deep_chain_cmd(args: &[String]) {
    let n = arg_u64(args, "--n", 1000) as usize;
    let rtl_flag = arg_u64(args, "--rtl-flag", 1) != 0;
    let mut spec = FontSpec::basic(4);
    spec.gpos = Some(Layout::single_feature(
        *b"curs",
        vec![Lookup::with_flags(
            if rtl_flag { lookup_flags::RIGHT_TO_LEFT } else { 0 },
            vec![PosSubtable::Cursive { coverage: Coverage::Glyphs(vec![1]), entry_exit: vec![(Some(Anchor { x: 0, y: 0 }), Some(Anchor { x: 100, y: 10 }))] }],
        )],
    ));
    let bytes = build(&spec);
    let face = rustybuzz::Face::from_slice(&bytes, 0).expect("face");
    let text: Vec<u16> = vec![1; n];
    let req = req_of(&text, Direction::LeftToRight, None, &[]);
    let out = shp::shape_req(&face, &req);
    // y offsets: with the flag every glyph is the child of its successor
    let first = out.first().map(|g| g.yo).unwrap_or(0);
    let last = out.last().map(|g| g.yo).unwrap_or(0);
    let mid = out.get(n / 2).map(|g| g.yo).unwrap_or(0);
    println!("deep-chain ok n={} len={} yo_first={} yo_mid={} yo_last={}", n, out.len(), first, mid, last);
}

// ------------------------------------------------------------------------------------------------
// implementation-level geometric predicate (independent of the Gallina model)

mod geo {
    use super::*;

    #[derive(Clone, Copy, PartialEq, Eq, Debug)]
    enum D {
        Ltr,
        Rtl,
        Ttb,
        Btt,
    }

    fn horizontal(d: D) -> bool {
        matches!(d, D::Ltr | D::Rtl)
    }
    fn forward(d: D) -> bool {
        matches!(d, D::Ltr | D::Ttb)
    }

    /// (processing direction, text reversed before shaping, output reversed at the end)
    fn directions(req: &Req) -> (D, bool, bool) {
        let dir = match req.dir {
            Some(Direction::RightToLeft) => D::Rtl,
            Some(Direction::TopToBottom) => D::Ttb,
            Some(Direction::BottomToTop) => D::Btt,
            _ => D::Ltr,
        };
        let native = match req.script.as_deref() {
            Some("Phnx") => Some(D::Rtl),
            Some("Latn") => Some(D::Ltr),
            _ => None,
        };
        let (proc_dir, flipped) = match dir {
            D::Ltr | D::Rtl => match native {
                Some(h) if h != dir => (if dir == D::Ltr { D::Rtl } else { D::Ltr }, true),
                _ => (dir, false),
            },
            D::Ttb => (D::Ttb, false),
            D::Btt => (D::Ttb, true),
        };
        (proc_dir, flipped, !forward(proc_dir))
    }

    /// Is the feature applied: OpenType defaults of the default shaper per direction, overridden by the request.
    fn feature_active(tag: &Tag, horizontal: bool, feats: &[String]) -> bool {
        let t = tag_str(tag);
        let mut on = ["abvm", "blwm", "ccmp", "locl", "mark", "mkmk", "rlig"].contains(&t.as_str())
            || (horizontal && ["calt", "clig", "curs", "dist", "kern", "liga", "rclt"].contains(&t.as_str()));
        for f in feats {
            let (name, val) = if let Some(x) = f.strip_prefix('-') {
                (x.to_string(), false)
            } else if let Some((n, v)) = f.split_once('=') {
                (n.to_string(), v != "0")
            } else {
                (f.trim_start_matches('+').to_string(), true)
            };
            if name == t {
                on = val;
            }
        }
        on
    }

    fn kern_requested(horizontal: bool, feats: &[String]) -> bool {
        horizontal && feature_active(b"kern", true, feats)
    }

    #[derive(Clone, Debug)]
    struct OG {
        gid: u16,
        lig: Option<usize>, // ligature instance this glyph belongs to (the ligature itself or a mark inside it)
        comp: u8,           // for marks inside a ligature: the component they follow (1-based); 0 otherwise
        ncomp: u8,          // number of components this glyph stands for (1, or k for a ligature of k components)
    }

    /// Spec-level ligature formation, processing order: every active GSUB lookup in turn (ligature subtables only).
    /// A ligature may be built from glyphs that are ligatures already: `ncomp` is the number of components a glyph
    /// stands for, and a mark inside the new ligature is numbered by the components in front of it.
    fn liga_oracle(spec: &FontSpec, seq: &[u16], horizontal_dir: bool, feats: &[String]) -> Vec<OG> {
        let plain: Vec<OG> = seq.iter().map(|g| OG { gid: *g, lig: None, comp: 0, ncomp: 1 }).collect();
        let Some(gsub) = &spec.gsub else { return plain };
        let mut active: Vec<u16> = gsub.features.iter().filter(|f| feature_active(&f.tag, horizontal_dir, feats)).flat_map(|f| f.lookup_indices.clone()).collect();
        active.sort();
        active.dedup();
        let mut cur = plain;
        let mut inst = 0usize;
        for li in active {
            let lk = &gsub.lookups[li as usize];
            let ign = |g: u16| ignored(spec, lk.flags, lk.mark_filtering_set, g);
            let mut out: Vec<OG> = Vec::new();
            let mut p = 0usize;
            while p < cur.len() {
                let g = cur[p].gid;
                let mut done = false;
                if !ign(g) {
                    'sub: for st in &lk.subtables {
                        let SubstSubtable::Ligature { coverage, ligature_sets } = st else { continue };
                        let Some(ci) = coverage.index_of(g) else { continue };
                        let Some(set) = ligature_sets.get(ci as usize) else { continue };
                        for lig in set {
                            let mut q = p;
                            let mut positions = vec![p];
                            let mut ok = true;
                            for c in &lig.components {
                                let mut n = q + 1;
                                while n < cur.len() && ign(cur[n].gid) {
                                    n += 1;
                                }
                                if n >= cur.len() || cur[n].gid != *c {
                                    ok = false;
                                    break;
                                }
                                positions.push(n);
                                q = n;
                            }
                            if !ok {
                                continue;
                            }
                            let total: u32 = positions.iter().map(|m| cur[*m].ncomp as u32).sum();
                            out.push(OG { gid: lig.glyph, lig: Some(inst), comp: 0, ncomp: total.min(255) as u8 });
                            // components in front of the glyph being looked at, and the matched glyph they end with
                            let mut so_far = cur[p].ncomp as u32;
                            let mut last_n = cur[p].ncomp as u32;
                            let mut last_lig = cur[p].lig;
                            let renumber = |m: &OG, so_far: u32, last_n: u32, last_lig: Option<usize>| -> u8 {
                                // a mark that already sat on component c of the matched ligature in front of it keeps that
                                // place, shifted by the components before that ligature; any other mark follows the last component
                                let c = if m.comp > 0 && m.lig.is_some() && m.lig == last_lig { (m.comp as u32).min(last_n) } else { last_n };
                                (so_far - last_n + c).min(255) as u8
                            };
                            for k in p + 1..=q {
                                if positions.contains(&k) {
                                    last_n = cur[k].ncomp as u32;
                                    last_lig = cur[k].lig;
                                    so_far += last_n;
                                } else {
                                    out.push(OG { gid: cur[k].gid, lig: Some(inst), comp: renumber(&cur[k], so_far, last_n, last_lig), ncomp: 1 });
                                }
                            }
                            // marks behind the last component that belonged to it when it was a ligature of its own
                            let mut t = q + 1;
                            while t < cur.len() && cur[t].comp > 0 && cur[t].lig.is_some() && cur[t].lig == last_lig {
                                out.push(OG { gid: cur[t].gid, lig: Some(inst), comp: renumber(&cur[t], so_far, last_n, last_lig), ncomp: 1 });
                                t += 1;
                            }
                            inst += 1;
                            p = t;
                            done = true;
                            break 'sub;
                        }
                    }
                }
                if !done {
                    out.push(cur[p].clone());
                    p += 1;
                }
            }
            cur = out;
        }
        cur
    }

    fn active_lookups<'a>(spec: &'a FontSpec, horizontal_dir: bool, feats: &[String]) -> Vec<&'a Lookup<PosSubtable>> {
        let Some(gpos) = &spec.gpos else { return vec![] };
        let mut idx: Vec<u16> = gpos.features.iter().filter(|f| feature_active(&f.tag, horizontal_dir, feats)).flat_map(|f| f.lookup_indices.clone()).collect();
        idx.sort();
        idx.dedup();
        idx.iter().map(|i| &gpos.lookups[*i as usize]).collect()
    }

    fn matrix_get(rows: &[Vec<Option<Anchor>>], cols: u16, row: usize, col: u16) -> Option<Anchor> {
        if col >= cols {
            return None; // generated fonts of the geometric profiles never have a class outside the matrix
        }
        rows.get(row).and_then(|r| r.get(col as usize)).copied().flatten()
    }

    struct Pen {
        ox: Vec<i64>, // origin of each glyph in output order
        oy: Vec<i64>,
    }

    fn pen_of(gs: &[G]) -> Pen {
        let mut x = 0i64;
        let mut y = 0i64;
        let mut ox = Vec::new();
        let mut oy = Vec::new();
        for g in gs {
            ox.push(x + g.xo as i64);
            oy.push(y + g.yo as i64);
            x += g.xa as i64;
            y += g.ya as i64;
        }
        Pen { ox, oy }
    }

    fn fail(index: u64, ci: usize, kind: &str, detail: String, req: &Req) {
        println!("geo {} {} {} FAIL {} req=[{}]", index, ci, kind, detail, shp::fmt_req(req));
    }

    pub fn evaluate(spec: &FontSpec, bytes: &[u8], profile: Profile, req: &Req, gs: &[G], index: u64, ci: usize, stats: &mut Stats) {
        let (pd, flipped, final_rev) = directions(req);
        let n = gs.len();
        // processing-order view of the output
        let pidx = |i: usize| if final_rev { n - 1 - i } else { i };
        let mut seq: Vec<u16> = req.text.iter().map(|(c, _)| (*c - 0xE000 + 1) as u16).collect();
        if flipped {
            seq.reverse();
        }
        let og = liga_oracle(spec, &seq, horizontal(pd), &req.features);
        let gids_match = og.len() == n && (0..n).all(|i| gs[pidx(i)].gid == og[i].gid as u32);

        // ---- kerning off == the same font with every kern value zero (and nothing else changes);
        //      kerning on differs from it by exactly the stored amounts on the selected pairs
        if let Some(kern) = &spec.kern {
            let mut z = spec.clone();
            z.kern = Some(kern.iter().map(|s| KernSubtable { pairs: s.pairs.iter().map(|p| (p.0, p.1, 0)).collect(), ..s.clone() }).collect());
            let zb = build(&z);
            // baseline: all kern values zero AND kerning requested (user kern switches dropped): with zero
            // values the kerning pass changes nothing, so this is "the font without those amounts"
            let mut req_on = req.clone();
            req_on.features.retain(|f| !(f == "kern=0" || f == "-kern"));
            if let Ok(base) = shape_spec(&zb, &req_on) {
                let requested = kern_requested(horizontal(pd), &req.features);
                let gpos_has_kern = spec.gpos.as_ref().map_or(false, |l| l.features.iter().any(|f| &f.tag == b"kern"));
                let key = |v: &[G]| v.iter().map(|g| (g.gid, g.cluster, g.xa, g.ya, g.xo, g.yo)).collect::<Vec<_>>();
                if gpos_has_kern {
                    // the user's kern switch also switches the GPOS kern lookups: not comparable this way
                    stats.add("geo.kern_off.skipped_gpos_kern_feature", 1);
                } else if !requested || !horizontal(pd) {
                    stats.add("geo.kern_off.checked", 1);
                    if key(&base) != key(gs) {
                        let order = base.iter().map(|g| (g.gid, g.cluster)).collect::<Vec<_>>() != gs.iter().map(|g| (g.gid, g.cluster)).collect::<Vec<_>>();
                        fail(index, ci, if order { "kern-off-order" } else { "kern-off-positions" },
                             format!("with kerning off the result differs from the same font with all kern values zero: got {} expected {}", shp::fmt_g(gs), shp::fmt_g(&base)), req);
                    } else if final_rev {
                        stats.add("geo.kern_off.backward", 1);
                    }
                } else if profile == Profile::Kern && gids_match && base.len() == n {
                    kern_on(spec, kern, &base, gs, &og, pd, final_rev, index, ci, req, stats);
                }
            }
        }
        if !gids_match {
            if matches!(profile, Profile::Marks | Profile::Cursive | Profile::Adjust | Profile::LigLig) {
                stats.add("geo.skipped.oracle_glyphs_differ", 1);
                println!("geo {} {} oracle SKIP glyph sequence of the spec-level ligature oracle differs from the output", index, ci);
            }
            return;
        }
        let pen = pen_of(gs);
        let lks = active_lookups(spec, horizontal(pd), &req.features);
        match profile {
            Profile::Marks | Profile::LigLig => marks(spec, &lks, &og, gs, &pen, &pidx, index, ci, req, stats),
            Profile::Cursive => cursive(spec, &lks, &og, gs, &pen, &pidx, pd, index, ci, req, stats),
            Profile::Adjust => adjust(spec, bytes, &lks, &og, gs, &pidx, pd, index, ci, req, stats),
            _ => {}
        }
    }

    // ---------------------------------------------------------------- marks
    #[allow(clippy::too_many_arguments)]
    fn marks(spec: &FontSpec, lks: &[&Lookup<PosSubtable>], og: &[OG], gs: &[G], pen: &Pen, pidx: &dyn Fn(usize) -> usize, index: u64, ci: usize, req: &Req, stats: &mut Stats) {
        let n = og.len();
        let is_mark = |g: u16| gdef_class(spec, g) == 3;
        // att[i] = (target, mark anchor, target anchor, kind): the LAST lookup that applies wins
        let mut att: Vec<Option<(usize, Anchor, Anchor, &'static str)>> = vec![None; n];
        for lk in lks {
            for i in 0..n {
                let g = og[i].gid;
                if ignored(spec, lk.flags, lk.mark_filtering_set, g) {
                    continue;
                }
                for st in &lk.subtables {
                    let hit = match st {
                        PosSubtable::MarkBase { mark_coverage, base_coverage, class_count, marks, bases } => (|| {
                            let mi = mark_coverage.index_of(g)?;
                            let j = (0..i).rev().find(|j| !is_mark(og[*j].gid))?;
                            let bi = base_coverage.index_of(og[j].gid)?;
                            let (cls, ma) = *marks.get(mi as usize)?;
                            let ba = matrix_get(bases, *class_count, bi as usize, cls)?;
                            Some((j, ma, ba, "markbase"))
                        })(),
                        PosSubtable::MarkLig { mark_coverage, lig_coverage, class_count, marks, ligatures } => (|| {
                            let mi = mark_coverage.index_of(g)?;
                            let j = (0..i).rev().find(|j| !is_mark(og[*j].gid))?;
                            let li = lig_coverage.index_of(og[j].gid)?;
                            let comps = ligatures.get(li as usize)?;
                            if comps.is_empty() {
                                return None;
                            }
                            // the component the mark belongs to: marks inside a ligature formed by GSUB follow
                            // that component; every other mark goes to the last component
                            let same = og[i].lig.is_some() && og[i].lig == og[j].lig && og[j].comp == 0 && og[i].comp > 0;
                            let comp = if same { (og[i].comp as usize).min(comps.len()) } else { comps.len() } - 1;
                            let (cls, ma) = *marks.get(mi as usize)?;
                            let la = matrix_get(comps, *class_count, comp, cls)?;
                            Some((j, ma, la, "marklig"))
                        })(),
                        PosSubtable::MarkMark { mark1_coverage, mark2_coverage, class_count, marks, mark2s } => (|| {
                            let m1 = mark1_coverage.index_of(g)?;
                            let j = (0..i).rev().find(|j| !ignored(spec, lk.flags & !0x000E, lk.mark_filtering_set, og[*j].gid))?;
                            if !is_mark(og[j].gid) {
                                return None;
                            }
                            // same base, or same component of the same ligature
                            let (a, b) = (&og[i], &og[j]);
                            let compatible = match (a.lig.filter(|_| a.comp > 0), b.lig.filter(|_| b.comp > 0)) {
                                (None, None) => true,
                                (Some(x), Some(y)) => x == y && a.comp == b.comp,
                                _ => false,
                            };
                            if !compatible {
                                return None;
                            }
                            let m2 = mark2_coverage.index_of(og[j].gid)?;
                            let (cls, ma) = *marks.get(m1 as usize)?;
                            let ta = matrix_get(mark2s, *class_count, m2 as usize, cls)?;
                            Some((j, ma, ta, "markmark"))
                        })(),
                        _ => None,
                    };
                    if let Some(h) = hit {
                        att[i] = Some(h);
                        break;
                    }
                }
            }
        }
        for i in 0..n {
            if let Some((j, ma, ta, kind)) = att[i] {
                let (oi, oj) = (pidx(i), pidx(j));
                let mx = pen.ox[oi] + ma.x as i64;
                let my = pen.oy[oi] + ma.y as i64;
                let tx = pen.ox[oj] + ta.x as i64;
                let ty = pen.oy[oj] + ta.y as i64;
                stats.add(&format!("geo.{}.attachments", kind), 1);
                if mx != tx || my != ty {
                    fail(index, ci, kind, format!("chk={},{},{},{},{},{},xy mark glyph {} (output index {}) anchor at ({},{}) but target glyph {} (output index {}) anchor at ({},{}); output {}",
                        oi, oj, ma.x, ma.y, ta.x, ta.y, og[i].gid, oi, mx, my, og[j].gid, oj, tx, ty, shp::fmt_g(gs)), req);
                    return;
                }
            }
        }
        stats.add("geo.marks.checked", 1);
    }

    // ---------------------------------------------------------------- cursive
    #[allow(clippy::too_many_arguments)]
    fn cursive(spec: &FontSpec, lks: &[&Lookup<PosSubtable>], og: &[OG], gs: &[G], pen: &Pen, pidx: &dyn Fn(usize) -> usize, pd: D, index: u64, ci: usize, req: &Req, stats: &mut Stats) {
        let n = og.len();
        for lk in lks {
            let Some(PosSubtable::Cursive { coverage, entry_exit }) = lk.subtables.first() else { continue };
            let ign = |g: u16| ignored(spec, lk.flags, lk.mark_filtering_set, g);
            let ee = |g: u16| coverage.index_of(g).and_then(|k| entry_exit.get(k as usize)).copied();
            for i in 0..n {
                if ign(og[i].gid) {
                    continue;
                }
                let Some((Some(entry), _)) = ee(og[i].gid) else { continue };
                let Some(p) = (0..i).rev().find(|j| !ign(og[*j].gid)) else { continue };
                let Some((_, Some(exit))) = ee(og[p].gid) else { continue };
                let (oi, op) = (pidx(i), pidx(p));
                let ex = pen.ox[oi] + entry.x as i64;
                let ey = pen.oy[oi] + entry.y as i64;
                let xx = pen.ox[op] + exit.x as i64;
                let xy = pen.oy[op] + exit.y as i64;
                // the glyphs strictly between the two (skipped by the lookup) must not advance the pen
                let (lo, hi) = (oi.min(op), oi.max(op));
                let between_zero = (lo + 1..hi).all(|k| gs[k].xa == 0 && gs[k].ya == 0);
                // glyphs that GDEF classifies as marks get their advance zeroed after GPOS (default shaper:
                // zero_width_marks BY_GDEF_LATE), which is where cursive keeps the main-axis alignment
                let has_mark = has_classes(spec) && (gdef_class(spec, og[i].gid) == 3 || gdef_class(spec, og[p].gid) == 3);
                let between_zero = between_zero && !has_mark;
                let (cross_ok, main_ok) = if horizontal(pd) { (ey == xy, ex == xx) } else { (ex == xx, ey == xy) };
                stats.add("geo.cursive.connections", 1);
                if lk.flags & lookup_flags::RIGHT_TO_LEFT != 0 {
                    stats.add("geo.cursive.connections_rtl_flag", 1);
                }
                if !cross_ok || (between_zero && !main_ok) {
                    let axes = if between_zero { "xy" } else if horizontal(pd) { "y" } else { "x" };
                    fail(index, ci, "cursive", format!("chk={},{},{},{},{},{},{} entry anchor of glyph {} (output index {}) at ({},{}) but exit anchor of glyph {} (output index {}) at ({},{}); RightToLeft flag {}; output {}",
                        oi, op, entry.x, entry.y, exit.x, exit.y, axes, og[i].gid, oi, ex, ey, og[p].gid, op, xx, xy, lk.flags & 1, shp::fmt_g(gs)), req);
                    return;
                }
                if between_zero {
                    stats.add("geo.cursive.both_axes", 1);
                }
            }
        }
        stats.add("geo.cursive.checked", 1);
    }

    // ---------------------------------------------------------------- single / pair adjustments
    fn add_vr(h: bool, v: &ValueRecord, d: &mut [i64; 4]) {
        if h {
            d[0] += v.x_advance as i64;
        } else {
            d[1] -= v.y_advance as i64;
        }
        d[2] += v.x_placement as i64;
        d[3] += v.y_placement as i64;
    }

    fn pair_records(st: &PosSubtable, g1: u16, g2: u16) -> Option<(ValueRecord, ValueRecord)> {
        match st {
            PosSubtable::Pair1 { coverage, pair_sets, .. } => {
                let k = coverage.index_of(g1)?;
                pair_sets.get(k as usize)?.iter().find(|p| p.0 == g2).map(|p| (p.1, p.2))
            }
            PosSubtable::Pair2 { coverage, class_def1, class_def2, records, .. } => {
                coverage.index_of(g1)?;
                let row = records.get(class_def1.class_of(g1) as usize)?;
                row.get(class_def2.class_of(g2) as usize).copied()
            }
            _ => None,
        }
    }

    #[allow(clippy::too_many_arguments)]
    fn adjust(spec: &FontSpec, bytes: &[u8], lks: &[&Lookup<PosSubtable>], og: &[OG], gs: &[G], pidx: &dyn Fn(usize) -> usize, pd: D, index: u64, ci: usize, req: &Req, stats: &mut Stats) {
        let n = og.len();
        let h = horizontal(pd);
        // baseline: the same request with every GPOS feature of the font switched off
        let mut r0 = req.clone();
        for t in gpos_tags(spec) {
            r0.features.push(format!("-{}", tag_str(&t)));
        }
        let Ok(base) = shape_spec(bytes, &r0) else { return };
        if base.len() != n {
            fail(index, ci, "adjust", "glyph count changes when GPOS features are switched off".to_string(), req);
            return;
        }
        let mut delta = vec![[0i64; 4]; n];
        let mut singles = 0u64;
        let mut pairs = 0u64;
        for lk in lks {
            let ign = |g: u16| ignored(spec, lk.flags, lk.mark_filtering_set, g);
            let is_pair = matches!(lk.subtables.first(), Some(PosSubtable::Pair1 { .. } | PosSubtable::Pair2 { .. }));
            if !is_pair {
                for i in 0..n {
                    if ign(og[i].gid) {
                        continue;
                    }
                    for st in &lk.subtables {
                        let v = match st {
                            PosSubtable::Single1 { coverage, value, .. } => coverage.index_of(og[i].gid).map(|_| *value),
                            PosSubtable::Single2 { coverage, values, .. } => coverage.index_of(og[i].gid).and_then(|k| values.get(k as usize).copied()),
                            _ => None,
                        };
                        if let Some(v) = v {
                            add_vr(h, &v, &mut delta[i]);
                            singles += 1;
                            break;
                        }
                    }
                }
            } else {
                let mut i = 0usize;
                while i < n {
                    let mut next = i + 1;
                    if !ign(og[i].gid) {
                        if let Some(j) = (i + 1..n).find(|j| !ign(og[*j].gid)) {
                            for st in &lk.subtables {
                                if let Some((v1, v2)) = pair_records(st, og[i].gid, og[j].gid) {
                                    add_vr(h, &v1, &mut delta[i]);
                                    add_vr(h, &v2, &mut delta[j]);
                                    pairs += 1;
                                    next = if v2 != ValueRecord::ZERO { j + 1 } else { j };
                                    break;
                                }
                            }
                        }
                    }
                    i = next;
                }
            }
        }
        stats.add("geo.adjust.checked", 1);
        stats.add("geo.adjust.singles", singles);
        stats.add("geo.adjust.pairs", pairs);
        for i in 0..n {
            let o = pidx(i);
            let (a, b) = (&gs[o], &base[o]);
            let got = [(a.xa - b.xa) as i64, (a.ya - b.ya) as i64, (a.xo - b.xo) as i64, (a.yo - b.yo) as i64];
            // marks lose their advance afterwards (zero_mark_widths_by_gdef): only offsets are comparable there
            let mark = gdef_class(spec, og[i].gid) == 3 && has_classes(spec);
            let ok = if mark { got[2] == delta[i][2] && got[3] == delta[i][3] } else { got == delta[i] };
            if a.gid != b.gid || a.cluster != b.cluster || !ok {
                fail(index, ci, "adjust", format!("glyph {} (output index {}): change of (xa,ya,xo,yo) relative to GPOS off is {:?}, the font's records give {:?}; output {} baseline {}",
                    og[i].gid, o, got, delta[i], shp::fmt_g(gs), shp::fmt_g(&base)), req);
                return;
            }
        }
    }

    // ---------------------------------------------------------------- legacy kern, kerning on
    #[allow(clippy::too_many_arguments)]
    fn kern_on(spec: &FontSpec, kern: &[KernSubtable], base: &[G], gs: &[G], og: &[OG], pd: D, final_rev: bool, index: u64, ci: usize, req: &Req, stats: &mut Stats) {
        let n = og.len();
        if n == 0 || spec.gpos.is_some() {
            stats.add("geo.kern_on.skipped_gpos", 1);
            return;
        }
        let is_mark = |g: u16| has_classes(spec) && gdef_class(spec, g) == 3;
        // machine_kern works on the visual order for backward text: arrays in OUTPUT order
        let gid_out: Vec<u16> = (0..n).map(|o| gs[o].gid as u16).collect();
        if is_mark(gid_out[0]) {
            stats.add("geo.kern_on.skipped_leading_mark", 1);
            return;
        }
        let _ = final_rev;
        let mut dxa = vec![0i64; n];
        let mut dxo = vec![0i64; n];
        let mut own_y: Vec<Option<i64>> = vec![None; n];
        let mut any_cross = false;
        let mut applied = 0u64;
        for st in kern.iter().filter(|s| s.horizontal) {
            let mut i = 0usize;
            while i < n {
                let Some(j) = (i + 1..n).find(|j| !is_mark(gid_out[*j])) else {
                    i += 1;
                    continue;
                };
                let k = st.pairs.iter().find(|p| p.0 == gid_out[i] && p.1 == gid_out[j]).map_or(0, |p| p.2 as i64);
                if k != 0 {
                    applied += 1;
                    if st.cross_stream {
                        own_y[j] = Some(k);
                        any_cross = true;
                    } else {
                        let k1 = k >> 1;
                        dxa[i] += k1;
                        dxa[j] += k - k1;
                        dxo[j] += k - k1;
                    }
                }
                i = j;
            }
        }
        stats.add("geo.kern_on.checked", 1);
        stats.add("geo.kern_on.pairs", applied);
        // cross-stream shifts persist: every glyph inherits the shift of the glyph before it in
        // processing order (= output order for forward text, reverse output order for backward text)
        let mut exp_yo: Vec<i64> = (0..n).map(|o| own_y[o].unwrap_or(base[o].yo as i64)).collect();
        if any_cross {
            if forward(pd) {
                for o in 1..n {
                    exp_yo[o] += exp_yo[o - 1];
                }
            } else {
                // processing order is the reverse of the output order and the chain points at the NEXT
                // glyph in processing order = the previous one in output order
                for o in 1..n {
                    exp_yo[o] += exp_yo[o - 1];
                }
            }
        }
        for o in 0..n {
            let mark = is_mark(gid_out[o]);
            let exp_xa = if mark { 0 } else { base[o].xa as i64 + dxa[o] };
            let exp_xo = base[o].xo as i64 + dxo[o];
            if gs[o].gid != base[o].gid || gs[o].cluster != base[o].cluster || gs[o].xa as i64 != exp_xa || gs[o].xo as i64 != exp_xo || gs[o].yo as i64 != exp_yo[o] || gs[o].ya != base[o].ya {
                fail(index, ci, "kern-on", format!("output index {} glyph {}: got xa={} xo={} yo={}, the kern pairs give xa={} xo={} yo={}; output {} zero-kern baseline {}",
                    o, gid_out[o], gs[o].xa, gs[o].xo, gs[o].yo, exp_xa, exp_xo, exp_yo[o], shp::fmt_g(gs), shp::fmt_g(base)), req);
                return;
            }
        }
    }
}

/// Marks behind the outputs of a MultipleSubst sequence, with a MarkToLigature and a MarkToBase lookup in one feature (both
/// orders): MarkToBase attaches to the FIRST glyph of the sequence (the later ones are passed over, unless a mark stands
/// directly before them or the lookup covers them as bases themselves), MarkToLigature to the nearest non-mark glyph when that is a covered ligature; each lookup makes
/// its own search.  Exhaustive over all texts of length 2..4 over {x (-> P Q), b, L, M} with a mark, both directions, both
/// lookup orders, Q in or out of the base coverage.  Judged geometrically (the mark's anchor meets the target's anchor).
fn multmark_cmd() {
    // glyphs: 1 x, 2 b, 3 L, 4 M, 5 P, 6 Q
    let (mut cases, mut attached, mut bad) = (0u64, 0u64, 0u64);
    for order in 0..2u32 {
        for q_covered in [false, true] {
            let mut spec = FontSpec::basic(8);
            spec.hadv = vec![500, 510, 520, 700, 0, 430, 450, 500];
            spec.gdef = Some(Gdef { glyph_classes: vec![(1, 1), (2, 1), (3, 2), (4, 3), (5, 1), (6, 1)], mark_attach_classes: vec![], mark_glyph_sets: vec![] });
            spec.gsub = Some(Layout::single_feature(*b"ccmp", vec![Lookup::one(SubstSubtable::Multiple { coverage: Coverage::Glyphs(vec![1]), sequences: vec![vec![5, 6]] })]));
            let mark_anchor = Anchor { x: 20, y: 30 };
            let lig_anchors = vec![vec![Some(Anchor { x: 100, y: 600 })], vec![Some(Anchor { x: 450, y: 620 })]];
            let mut bases: Vec<u16> = vec![2, 5];
            if q_covered {
                bases.push(6);
            }
            let base_anchor = |g: u16| Anchor { x: 200 + 10 * g as i16, y: 500 + 7 * g as i16 };
            let ml = Lookup::one(PosSubtable::MarkLig { mark_coverage: Coverage::Glyphs(vec![4]), lig_coverage: Coverage::Glyphs(vec![3]), class_count: 1, marks: vec![(0, mark_anchor)], ligatures: vec![lig_anchors.clone()] });
            let mb = Lookup::one(PosSubtable::MarkBase { mark_coverage: Coverage::Glyphs(vec![4]), base_coverage: Coverage::Glyphs(bases.clone()), class_count: 1, marks: vec![(0, mark_anchor)], bases: bases.iter().map(|g| vec![Some(base_anchor(*g))]).collect() });
            spec.gpos = Some(Layout::single_feature(*b"mark", if order == 0 { vec![ml, mb] } else { vec![mb, ml] }));
            let data = build(&spec);
            for len in 2..=4u32 {
                for code in 0..4u32.pow(len) {
                    let t: Vec<u16> = (0..len).map(|i| 1 + ((code / 4u32.pow(i)) % 4) as u16).collect();
                    if !t.contains(&4) {
                        continue;
                    }
                    for dir in [Direction::LeftToRight, Direction::RightToLeft] {
                        // the glyph string after GSUB, in logical order: (glyph, multiplied, component)
                        let mut g: Vec<(u16, bool, u8)> = Vec::new();
                        for x in &t {
                            if *x == 1 {
                                g.push((5, true, 0));
                                g.push((6, true, 1));
                            } else {
                                g.push((*x, false, 0));
                            }
                        }
                        // expected target of every mark: (index, anchor) or None
                        let mut want: Vec<Option<(usize, Anchor)>> = vec![None; g.len()];
                        for i in 0..g.len() {
                            if g[i].0 != 4 {
                                continue;
                            }
                            let prev_nonmark = |from: usize| -> Option<usize> { (0..from).rev().find(|j| g[*j].0 != 4) };
                            let lig_t = prev_nonmark(i).filter(|j| g[*j].0 == 3).map(|j| (j, lig_anchors[1][0].unwrap()));
                            let mut j = prev_nonmark(i);
                            while let Some(k) = j {
                                // a later glyph of the sequence is passed over - unless the lookup covers it as a base itself
                                let reject = g[k].1 && g[k].2 != 0 && k != 0 && g[k - 1].0 != 4 && g[k - 1].1 && g[k].2 == g[k - 1].2 + 1 && !bases.contains(&g[k].0);
                                if !reject {
                                    break;
                                }
                                j = prev_nonmark(k);
                            }
                            let base_t = j.filter(|k| bases.contains(&g[*k].0)).map(|k| (k, base_anchor(g[k].0)));
                            // at most one of the two applies here (L is never a base, a base never a ligature)
                            want[i] = lig_t.or(base_t);
                        }
                        let req = Req { text: t.iter().enumerate().map(|(i, x)| (pua(*x as u32 - 1), i as u32)).collect(), dir: Some(dir), script: Some(if dir == Direction::RightToLeft { "Phnx" } else { "Latn" }.to_string()), flags: 3, level: 2, ..Default::default() };
                        cases += 1;
                        let d2 = data.clone();
                        let rq = req.clone();
                        let out = match catch(move || { let f = rustybuzz::Face::from_slice(&d2, 0).unwrap(); crate::shp::shape_req(&f, &rq) }) {
                            Ok(o) => o,
                            Err(e) => {
                                bad += 1;
                                println!("multmark-fail panic {} order={} q_covered={} req=[{}]", e, order, q_covered, crate::shp::fmt_req(&req));
                                continue;
                            }
                        };
                        if out.len() != g.len() {
                            bad += 1;
                            println!("multmark-fail glyph-count {}!={} order={} q_covered={} req=[{}]", out.len(), g.len(), order, q_covered, crate::shp::fmt_req(&req));
                            continue;
                        }
                        // visual order -> logical index
                        let logical = |v: usize| if dir == Direction::RightToLeft { g.len() - 1 - v } else { v };
                        let mut pen = vec![(0i64, 0i64); out.len()];
                        let mut x = 0i64;
                        for v in 0..out.len() {
                            pen[logical(v)] = (x + out[v].xo as i64, out[v].yo as i64);
                            x += out[v].xa as i64;
                        }
                        let mut msg = None;
                        for i in 0..g.len() {
                            if g[i].0 != 4 {
                                continue;
                            }
                            let v = logical(i);
                            match want[i] {
                                Some((j, a)) => {
                                    attached += 1;
                                    let (mx, my) = (pen[i].0 + mark_anchor.x as i64, pen[i].1 + mark_anchor.y as i64);
                                    let (tx, ty) = (pen[j].0 + a.x as i64, pen[j].1 + a.y as i64);
                                    if (mx, my) != (tx, ty) {
                                        msg = Some(format!("mark {} anchor at ({},{}) target glyph {} anchor at ({},{})", i, mx, my, j, tx, ty));
                                    }
                                }
                                None => {
                                    if out[v].xo != 0 || out[v].yo != 0 {
                                        msg = Some(format!("mark {} has no target but offset ({},{})", i, out[v].xo, out[v].yo));
                                    }
                                }
                            }
                        }
                        if let Some(m) = msg {
                            bad += 1;
                            if bad <= 8 {
                                println!("multmark-fail {} order={} q_covered={} req=[{}] out={}", m, order, q_covered, crate::shp::fmt_req(&req), crate::shp::fmt_g(&out));
                            }
                        }
                    }
                }
            }
        }
    }
    println!("multmark-summary cases={} attached_marks={} bad={}", cases, attached, bad);
}

/// Which table positions the text when a font has both kerx and GPOS: kerx unless the font has GSUB and GPOS (then
/// GPOS); with kerning switched off, neither.  Four fonts (with / without an empty GSUB) x kerning on / off; the kerx
/// table is written byte by byte (one format-0 pair), the amounts are split as for every pair kerning (k >> 1 on the first
/// glyph, the rest on the second glyph's advance and offset).
fn kerx_probe_cmd() {
    let kerx = |k: i16| -> Vec<u8> {
        let mut v: Vec<u8> = Vec::new();
        v.extend_from_slice(&2u16.to_be_bytes());
        v.extend_from_slice(&0u16.to_be_bytes());
        v.extend_from_slice(&1u32.to_be_bytes());
        v.extend_from_slice(&(12u32 + 16 + 6).to_be_bytes());
        v.push(0);
        v.extend_from_slice(&0u16.to_be_bytes());
        v.push(0);
        v.extend_from_slice(&0u32.to_be_bytes());
        for x in [1u32, 6, 0, 0] {
            v.extend_from_slice(&x.to_be_bytes());
        }
        v.extend_from_slice(&1u16.to_be_bytes());
        v.extend_from_slice(&2u16.to_be_bytes());
        v.extend_from_slice(&k.to_be_bytes());
        v
    };
    let (kx, gp) = (-101i16, -300i16);
    let mut bad = 0;
    let mut n = 0;
    for with_gsub in [false, true] {
        let mut spec = FontSpec::basic(4);
        spec.hadv = vec![500, 1000, 1000, 1000];
        // a GDEF that classifies .notdef only: the letters stay unclassified, the kerning machine never skips them
        spec.gdef = Some(Gdef { glyph_classes: vec![(0, 1)], mark_attach_classes: vec![], mark_glyph_sets: vec![] });
        spec.gpos = Some(Layout::single_feature(*b"kern", vec![Lookup::one(PosSubtable::Pair1 { coverage: Coverage::Glyphs(vec![1]), pair_sets: vec![vec![(2, ValueRecord::xadv(gp), ValueRecord::default())]], vf: ValueFormat::NonZero })]));
        if with_gsub {
            spec.gsub = Some(Layout::single_feature(*b"liga", vec![Lookup::one(SubstSubtable::Single2 { coverage: Coverage::Glyphs(vec![3]), substitutes: vec![3] })]));
        }
        spec.raw_tables = vec![(*b"kerx", kerx(kx))];
        let data = build(&spec);
        for kerning in [true, false] {
            let req = Req { text: vec![(pua(0), 0), (pua(1), 1), (pua(0), 2)], dir: Some(Direction::LeftToRight), script: Some("Latn".to_string()), flags: 3, features: if kerning { vec![] } else { vec!["-kern".to_string()] }, ..Default::default() };
            let want: Vec<(i32, i32)> = if !kerning {
                vec![(1000, 0), (1000, 0), (1000, 0)]
            } else if with_gsub {
                vec![(1000 + gp as i32, 0), (1000, 0), (1000, 0)]
            } else {
                let k1 = (kx as i32) >> 1;
                let k2 = kx as i32 - k1;
                vec![(1000 + k1, 0), (1000 + k2, k2), (1000, 0)]
            };
            let d2 = data.clone();
            let rq = req.clone();
            n += 1;
            match catch(move || { let f = rustybuzz::Face::from_slice(&d2, 0).unwrap(); crate::shp::shape_req(&f, &rq) }) {
                Ok(o) => {
                    let got: Vec<(i32, i32)> = o.iter().map(|g| (g.xa, g.xo)).collect();
                    if got != want {
                        bad += 1;
                        println!("kerx-probe-fail with_gsub={} kerning={} want={:?} got={:?}", with_gsub, kerning, want, got);
                    }
                }
                Err(e) => {
                    bad += 1;
                    println!("kerx-probe-fail with_gsub={} kerning={} panic {}", with_gsub, kerning, e);
                }
            }
        }
    }
    println!("kerx-probe-summary cases={} bad={}", n, bad);
}
