//! C07: harness commands for property C07 (stub).

pub fn run(_args: &[String]) {
    eprintln!("c07: not implemented");
    std::process::exit(2);
}
