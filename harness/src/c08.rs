//! C08: cmap-only fonts — no character is lost, duplicated or moved across clusters.
//!
//!   rbv c08 search --maxlen L --random N --rlen R --seed S --variants full|rot --sample K --threads T  < spec
//!   rbv c08 one    < spec          (spec additionally has `case` lines: shapes exactly those; used by replays)
//!
//! spec (stdin), produced by props/C08.py from CPython `unicodedata` (the independent Unicode source):
//!   nf <cp> <cp> ...        normal form of <cp>: full canonical decomposition (Hangul included) with the
//!                           documented shaper decompositions applied first; only for cps where it differs
//!   di <cp> ...             Default_Ignorable_Code_Point members that occur in any pool
//!   pool <name> <iso|-> text=<cp,..> font=<cp,..>
//!                           text: the characters strings are drawn from; font: text + closure (decomposition
//!                           products, U+0020); U+25CC is added by the harness for the `with dotted circle`
//!                           variant only.  glyph id = 1 + index in the sorted font list, advance 600.
//!   case <pool> f25=<0|1> <fmt_req>
//!
//! Every shape: cluster level 0, cluster = index of the character.  The oracle (see `judge`):
//!   * output cluster values C; input character i is owned by max{c in C : c <= i};
//!     an input character with no owner must be a removable default ignorable;
//!   * per owner: multiset nf(output chars) vs multiset nf(owned input chars):
//!       missing  only default ignorables, when REMOVE (0x8) is set, or hidden as the space glyph when
//!                neither REMOVE nor PRESERVE (0x4) is set (an extra U+0020 pays for each);
//!       extra    only U+25CC, when DO_NOT_INSERT_DOTTED_CIRCLE (0x10) is clear (on the font without U+25CC
//!                glyph 0 is read as the inserted U+25CC character, see `judge`);
//!   * glyph 0 (.notdef) on the font WITH U+25CC, or a panic, is a violation.
//! Output: `viol ...`, `case ...` (sample for the Python re-check), `stat ...` per pool, `done`.
use crate::fontgen::{self, FontSpec};
use crate::shp::{dir_name, fmt_req, level_of, parse_req, Req};
use crate::util::*;
use rustybuzz::{ttf_parser, BufferFlags, Direction, Face, Script, UnicodeBuffer};
use std::collections::HashMap;
use std::io::Read;
use std::sync::Arc;

#[derive(Clone, Default)]
struct Pool {
    name: String,
    script: Option<String>,
    text: Vec<u32>,
    font: Vec<u32>,
    shaper: String,
    extra: Vec<Vec<u32>>,
    virama: Vec<u32>,
    cons: Vec<u32>,
}

#[derive(Default)]
struct Spec {
    nf: HashMap<u32, Vec<u32>>,
    doc: HashMap<u32, Vec<u32>>,
    di: Vec<u32>,
    pools: Vec<Pool>,
    cases: Vec<(String, bool, Req)>,
}

fn hexlist(s: &str) -> Vec<u32> {
    s.split(',').filter(|x| !x.is_empty()).filter_map(|x| u32::from_str_radix(x, 16).ok()).collect()
}

fn read_spec() -> Spec {
    let mut s = String::new();
    std::io::stdin().read_to_string(&mut s).unwrap();
    let mut sp = Spec::default();
    for line in s.lines() {
        let mut it = line.split_whitespace();
        match it.next() {
            Some("nf") => {
                let v: Vec<u32> = it.filter_map(|x| u32::from_str_radix(x, 16).ok()).collect();
                if v.len() >= 2 {
                    sp.nf.insert(v[0], v[1..].to_vec());
                }
            }
            Some("doc") => {
                let v: Vec<u32> = it.filter_map(|x| u32::from_str_radix(x, 16).ok()).collect();
                if v.len() >= 2 {
                    sp.doc.insert(v[0], v[1..].to_vec());
                }
            }
            Some("di") => sp.di.extend(it.filter_map(|x| u32::from_str_radix(x, 16).ok())),
            Some("pool") => {
                let mut p = Pool::default();
                p.name = it.next().unwrap_or("?").to_string();
                let sc = it.next().unwrap_or("-");
                p.script = if sc == "-" { None } else { Some(sc.to_string()) };
                for tok in it {
                    if let Some(v) = tok.strip_prefix("text=") {
                        p.text = hexlist(v);
                    } else if let Some(v) = tok.strip_prefix("font=") {
                        p.font = hexlist(v);
                    } else if let Some(v) = tok.strip_prefix("shaper=") {
                        p.shaper = v.to_string();
                    } else if let Some(v) = tok.strip_prefix("virama=") {
                        p.virama = hexlist(v);
                    } else if let Some(v) = tok.strip_prefix("cons=") {
                        p.cons = hexlist(v);
                    }
                }
                sp.pools.push(p);
            }
            Some("str") => {
                // `str <pool> <cp,cp,...>`: an additional string for that pool (grammar-generated syllables)
                let pool = it.next().unwrap_or("?");
                let t = hexlist(it.next().unwrap_or(""));
                if let Some(p) = sp.pools.iter_mut().find(|p| p.name == pool) {
                    if !t.is_empty() {
                        p.extra.push(t);
                    }
                }
            }
            Some("case") => {
                let pool = it.next().unwrap_or("?").to_string();
                let f25 = it.next().map(|x| x == "f25=1").unwrap_or(true);
                let rest: Vec<&str> = it.collect();
                sp.cases.push((pool, f25, parse_req(&rest.join(" "))));
            }
            _ => {}
        }
    }
    sp.di.sort();
    sp
}

struct Font {
    data: Vec<u8>,
    chars: Vec<u32>, // gid-1 -> char
    has25cc: bool,
}

fn make_font(pool: &Pool, with25cc: bool) -> Font {
    let mut chars: Vec<u32> = pool.font.iter().cloned().filter(|c| *c != 0x25CC).collect();
    if with25cc {
        chars.push(0x25CC);
    }
    chars.sort();
    chars.dedup();
    let n = chars.len() as u16 + 1;
    let mut spec = FontSpec::basic(n);
    spec.cmap = chars.iter().enumerate().map(|(i, c)| (*c, i as u16 + 1)).collect();
    spec.hadv = (0..n).map(|_| 600u16).collect();
    Font { data: fontgen::build(&spec), chars, has25cc: with25cc }
}

struct Ctx {
    nf: HashMap<u32, Vec<u32>>,
    doc: HashMap<u32, Vec<u32>>,
    di: Vec<u32>,
}

impl Ctx {
    fn is_di(&self, c: u32) -> bool {
        self.di.binary_search(&c).is_ok()
    }
    fn push_nf(&self, c: u32, out: &mut Vec<u32>) {
        match self.nf.get(&c) {
            Some(v) => out.extend_from_slice(v),
            None => out.push(c),
        }
    }
    /// input side: the documented shaper decomposition first (a part equal to the character itself is terminal)
    fn push_nf_in(&self, c: u32, use_doc: bool, out: &mut Vec<u32>) {
        match self.doc.get(&c) {
            Some(parts) if use_doc => {
                for p in parts {
                    if *p == c {
                        out.push(c);
                    } else {
                        self.push_nf(*p, out);
                    }
                }
            }
            _ => self.push_nf(c, out),
        }
    }
}

fn shape(face: &Face, req: &Req) -> Result<Vec<(u32, u32)>, String> {
    let req = req.clone();
    // Face is not UnwindSafe by declaration only
    let face = std::panic::AssertUnwindSafe(face);
    catch(move || {
        let mut b = UnicodeBuffer::new();
        for (cp, cl) in &req.text {
            if let Some(c) = char::from_u32(*cp) {
                b.add(c, *cl);
            }
        }
        if let Some(d) = req.dir {
            b.set_direction(d);
        }
        if let Some(s) = &req.script {
            if let Some(sc) = Script::from_iso15924_tag(ttf_parser::Tag::from_bytes_lossy(s.as_bytes())) {
                b.set_script(sc);
            }
        }
        b.set_flags(BufferFlags::from_bits_truncate(req.flags));
        b.set_cluster_level(level_of(req.level));
        let gb = rustybuzz::shape(&face, &[], b);
        gb.glyph_infos().iter().map(|g| (g.glyph_id, g.cluster)).collect::<Vec<_>>()
    })
}

#[derive(Default, Clone)]
struct Stat {
    strings: u64,
    shapes: u64,
    dotted: u64,
    reordered: u64,
    decomposed: u64,
    composed: u64,
    merged: u64,
    removed: u64,
    hidden: u64,
    notdef_dotted: u64,
    known_forced: u64,
    known_zwnj: u64,
    level1: u64,
    viol: u64,
}

struct Verdict {
    why: Option<String>,
    dotted: bool,
    reordered: bool,
    decomposed: bool,
    composed: bool,
    merged: bool,
    removed: bool,
    hidden: bool,
    notdef_dotted: bool,
}

/// The per-cluster content oracle.  `out`: (recovered char, cluster), 0 = .notdef.
fn judge(cx: &Ctx, req: &Req, has25cc: bool, out: &[(u32, u32)]) -> Verdict {
    let mut v = Verdict { why: None, dotted: false, reordered: false, decomposed: false, composed: false, merged: false, removed: false, hidden: false, notdef_dotted: false };
    let flags = req.flags;
    let remove = flags & 0x8 != 0;
    let preserve = flags & 0x4 != 0;
    // U+25CC is inserted as a CHARACTER before cmap mapping by preprocess_text_vowel_constraints (no font test
    // there, as in HarfBuzz): on a font without U+25CC it surfaces as .notdef.  Every other character the
    // shapers can produce is mapped by construction, so glyph 0 is read as U+25CC in that font variant.
    let dotted_ok = flags & 0x10 == 0;
    if has25cc && out.iter().any(|(c, _)| *c == 0) {
        v.why = Some("notdef-in-output".into());
        return v;
    }
    let out_owned: Vec<(u32, u32)> = out.iter().map(|(c, k)| (if *c == 0 { 0x25CC } else { *c }, *k)).collect();
    v.notdef_dotted = out.iter().any(|(c, _)| *c == 0);
    let out = &out_owned[..];
    let mut owners: Vec<u32> = out.iter().map(|(_, k)| *k).collect();
    owners.sort();
    owners.dedup();
    let n = req.text.len();
    if owners.len() < n {
        v.merged = true;
    }
    // clusters must be input clusters
    for c in &owners {
        if *c as usize >= n {
            v.why = Some(format!("cluster-{}-not-an-input-cluster", c));
            return v;
        }
    }
    // orphans: input characters before the first owner
    let first = owners.first().cloned().unwrap_or(u32::MAX);
    for (cp, cl) in &req.text {
        if *cl < first {
            if cx.is_di(*cp) && !preserve {
                v.removed = true;
                if !remove {
                    // without REMOVE an ignorable may only vanish when the font has no invisible glyph; ours has U+0020
                    v.why = Some(format!("ignorable-{:X}-deleted-without-REMOVE", cp));
                    return v;
                }
            } else {
                v.why = Some(format!("input-{:X}@{}-has-no-owning-cluster", cp, cl));
                return v;
            }
        }
    }
    let compare = |use_doc: bool| -> (Option<String>, (bool, bool, bool)) {
        let mut why: Option<String> = None;
        let mut fl = (false, false, false);
        let mut exp: Vec<u32> = Vec::new();
        let mut act: Vec<u32> = Vec::new();
        for (oi, c) in owners.iter().enumerate() {
            let hi = owners.get(oi + 1).cloned().unwrap_or(u32::MAX);
            exp.clear();
            act.clear();
            for (cp, cl) in &req.text {
                if *cl >= *c && *cl < hi {
                    cx.push_nf_in(*cp, use_doc, &mut exp);
                }
            }
            for (ch, k) in out {
                if *k == *c {
                    cx.push_nf(*ch, &mut act);
                }
            }
            exp.sort();
            act.sort();
            // multiset differences
            let mut missing: Vec<u32> = Vec::new();
            let mut extra: Vec<u32> = Vec::new();
            let (mut i, mut j) = (0, 0);
            while i < exp.len() || j < act.len() {
                if j >= act.len() || (i < exp.len() && exp[i] < act[j]) {
                    missing.push(exp[i]);
                    i += 1;
                } else if i >= exp.len() || act[j] < exp[i] {
                    extra.push(act[j]);
                    j += 1;
                } else {
                    i += 1;
                    j += 1;
                }
            }
            let mut spaces = extra.iter().filter(|x| **x == 0x20).count();
            for m in &missing {
                if cx.is_di(*m) && remove && !preserve {
                    fl.0 = true;
                } else if cx.is_di(*m) && !remove && !preserve && spaces > 0 {
                    spaces -= 1;
                    fl.1 = true;
                } else {
                    why = Some(format!("cluster-{}-lost-{:X}", c, m));
                    return (why, fl);
                }
            }
            let hidden_spaces = extra.iter().filter(|x| **x == 0x20).count() - spaces;
            let mut skip = hidden_spaces;
            for x in &extra {
                if *x == 0x20 && skip > 0 {
                    skip -= 1;
                } else if *x == 0x25CC && dotted_ok {
                    fl.2 = true;
                } else {
                    why = Some(format!("cluster-{}-gained-{:X}", c, x));
                    return (why, fl);
                }
            }
        }
        let _ = &mut why;
        (why, fl)
    };
    let (mut why, mut fl) = compare(true);
    if why.is_some() && !cx.doc.is_empty() {
        let (w2, f2) = compare(false);
        if w2.is_none() {
            why = None;
            fl = f2;
        }
    }
    v.removed |= fl.0;
    v.hidden = fl.1;
    v.dotted = fl.2;
    if why.is_some() {
        v.why = why;
        return v;
    }
    // statistics: decomposition / composition / reordering
    let mut inm: Vec<u32> = req.text.iter().map(|(c, _)| *c).collect();
    let mut outm: Vec<u32> = out.iter().map(|(c, _)| *c).collect();
    let seq_in: Vec<u32> = {
        let mut s = Vec::new();
        for c in &inm {
            if !cx.is_di(*c) && *c != 0x25CC && *c != 0x20 {
                cx.push_nf_in(*c, true, &mut s);
            }
        }
        s
    };
    let seq = |rev: bool| -> Vec<u32> {
        let mut s = Vec::new();
        let it: Box<dyn Iterator<Item = &u32>> = if rev { Box::new(outm.iter().rev()) } else { Box::new(outm.iter()) };
        for c in it {
            if !cx.is_di(*c) && *c != 0x25CC && *c != 0x20 {
                // a decomposed character's parts appear in output order; reverse them back when reading reversed
                let mut p = Vec::new();
                cx.push_nf(*c, &mut p);
                s.extend(p);
            }
        }
        s
    };
    let inc = out.windows(2).all(|w| w[0].1 <= w[1].1);
    let dec = out.windows(2).all(|w| w[0].1 >= w[1].1);
    let same_fwd = seq(false) == seq_in;
    let same_bwd = seq(true) == seq_in;
    v.reordered = if inc && !dec {
        !same_fwd
    } else if dec && !inc {
        !same_bwd
    } else {
        !same_fwd && !same_bwd
    };
    inm.sort();
    outm.sort();
    for c in &inm {
        if outm.binary_search(c).is_err() && (cx.nf.get(c).map(|x| x.len() > 1).unwrap_or(false) || cx.doc.contains_key(c)) {
            v.decomposed = true;
        }
    }
    for c in &outm {
        if inm.binary_search(c).is_err() && *c != 0x25CC && *c != 0x20 && cx.nf.get(c).map(|x| x.len() > 1).unwrap_or(false) {
            v.composed = true;
        }
    }
    v
}

fn fmt_out(out: &[(u32, u32)]) -> String {
    let v: Vec<String> = out.iter().map(|(c, k)| format!("{:X}:{}", c, k)).collect();
    if v.is_empty() { "-".to_string() } else { v.join(",") }
}

fn opposite(script: &Option<String>) -> Direction {
    // forced direction: the opposite of the script's native horizontal direction
    let rtl = matches!(script.as_deref(), Some("Arab") | Some("Hebr") | Some("Syrc") | Some("Thaa") | Some("Nkoo") | Some("Mand"));
    if rtl { Direction::LeftToRight } else { Direction::RightToLeft }
}

struct Runner<'a> {
    cx: &'a Ctx,
    pool: &'a Pool,
    fonts: [Font; 2],
    stat: Stat,
    lines: Vec<String>,
    sample_every: u64,
    viol_limit: u64,
    per_class: HashMap<String, u64>,
}

impl<'a> Runner<'a> {
    fn one(&mut self, req: &Req, f25: bool) {
        let data = self.fonts[f25 as usize].data.clone();
        let face = match Face::from_slice(&data, 0) {
            Some(f) => f,
            None => {
                self.lines.push(format!("viol pool={} f25={} {} out=- why=font-rejected", self.pool.name, f25 as u8, fmt_req(req)));
                return;
            }
        };
        self.one_face(&face, req, f25);
    }

    fn passes(&self, face: &Face, req: &Req, f25: bool) -> bool {
        let font = &self.fonts[f25 as usize];
        match shape(face, req) {
            Ok(gs) => {
                let out: Vec<(u32, u32)> = gs
                    .iter()
                    .map(|(g, k)| (if *g == 0 || *g as usize > font.chars.len() { 0 } else { font.chars[*g as usize - 1] }, *k))
                    .collect();
                judge(self.cx, req, font.has25cc, &out).why.is_none()
            }
            Err(_) => false,
        }
    }

    fn one_face(&mut self, face: &Face, req: &Req, f25: bool) {
        let font = &self.fonts[f25 as usize];
        self.stat.shapes += 1;
        let (out, why) = match shape(face, req) {
            Ok(gs) => {
                let out: Vec<(u32, u32)> = gs
                    .iter()
                    .map(|(g, k)| (if *g == 0 || *g as usize > font.chars.len() { 0 } else { font.chars[*g as usize - 1] }, *k))
                    .collect();
                let v = judge(self.cx, req, font.has25cc, &out);
                self.stat.dotted += v.dotted as u64;
                self.stat.reordered += v.reordered as u64;
                self.stat.decomposed += v.decomposed as u64;
                self.stat.composed += v.composed as u64;
                self.stat.merged += v.merged as u64;
                self.stat.removed += v.removed as u64;
                self.stat.hidden += v.hidden as u64;
                self.stat.notdef_dotted += v.notdef_dotted as u64;
                (out, v.why)
            }
            Err(e) => (Vec::new(), Some(format!("panic-{}", e))),
        };
        if let Some(w) = why {
            // known-finding classes, decided on the INPUT (see props/C08.py KNOWN_CLASSES):
            //  forced_direction_regrouping: the direction is forced and the same request with the direction left
            //    to the script passes;
            //  indic_zwnj_cluster_split: Indic-shaper script, the text contains a MISPLACED joiner (not directly after
            //    <consonant or nukta, virama>) (U+200C, or U+200D: seen once
            //    in 167M shapes, Bengali <09CD 200D 09DD 09C8 0983 09CD 09A1 09CB>) and the same request with every
            //    joiner removed passes.
            let mut known: Option<&str> = None;
            if !w.starts_with("panic") {
                if req.dir.is_some() {
                    let mut r2 = req.clone();
                    r2.dir = None;
                    if self.passes(face, &r2, f25) {
                        known = Some("forced_direction_regrouping");
                    }
                }
                // a joiner is well placed directly after <consonant or nukta, virama>; the class is about the others
                let t: Vec<u32> = req.text.iter().map(|(c, _)| *c).collect();
                let misplaced = (0..t.len()).any(|i| {
                    (t[i] == 0x200C || t[i] == 0x200D) && !(i >= 2 && self.pool.virama.contains(&t[i - 1]) && self.pool.cons.contains(&t[i - 2]))
                });
                // ... or the text is ill-formed for the syllable machine: on the font WITH U+25CC the shaper repairs a
                // broken cluster with a dotted circle the input does not contain (flag DO_NOT_INSERT cleared for the probe)
                let has_joiner = t.iter().any(|c| *c == 0x200C || *c == 0x200D);
                let broken = has_joiner && self.pool.shaper == "indic" && !misplaced && !t.contains(&0x25CC) && {
                    let f1 = &self.fonts[1];
                    let dc = f1.chars.iter().position(|c| *c == 0x25CC).map(|i| i as u32 + 1);
                    let mut rq = req.clone();
                    rq.flags &= !0x10;
                    match (dc, Face::from_slice(&f1.data, 0)) {
                        (Some(dc), Some(face1)) => shape(&face1, &rq).map(|gs| gs.iter().any(|(g, _)| *g == dc)).unwrap_or(false),
                        _ => false,
                    }
                };
                let zwnj = self.pool.shaper == "indic" && (misplaced || broken);
                if known.is_none() && zwnj {
                    let mut r2 = req.clone();
                    r2.text = req.text.iter().filter(|(c, _)| *c != 0x200C && *c != 0x200D).enumerate().map(|(i, (c, _))| (*c, i as u32)).collect();
                    if self.passes(face, &r2, f25) {
                        known = Some("indic_zwnj_cluster_split");
                    } else if req.dir.is_some() {
                        // both triggers present (forced direction AND U+200C in an Indic text): inside the union of the
                        // two classes when removing both makes the request pass
                        r2.dir = None;
                        if self.passes(face, &r2, f25) {
                            known = Some("indic_zwnj_cluster_split");
                        }
                    }
                }
            }
            let tag = match known {
                Some("forced_direction_regrouping") => {
                    self.stat.known_forced += 1;
                    "known class=forced_direction_regrouping"
                }
                Some(_) => {
                    self.stat.known_zwnj += 1;
                    "known class=indic_zwnj_cluster_split"
                }
                None => {
                    self.stat.viol += 1;
                    "viol"
                }
            };
            // keep a few examples per (reason class, native/forced direction, joiner), shortest first by construction
            let class: String = w.chars().filter(|c| !c.is_ascii_digit() && !('A'..='F').contains(c)).collect();
            let joiner = req.text.iter().map(|(c, _)| *c).find(|c| *c == 0x200C || *c == 0x200D).unwrap_or(0);
            let key = format!("{}|{}|{}|{:X}", tag, class, req.dir.is_none(), joiner);
            let n = self.per_class.entry(key).or_insert(0);
            *n += 1;
            if *n <= self.viol_limit {
                self.lines.push(format!("{} pool={} f25={} {} out={} why={}", tag, self.pool.name, f25 as u8, fmt_req(req), fmt_out(&out), w));
            }
        } else if self.sample_every > 0 && self.stat.shapes % self.sample_every == 0 {
            self.lines.push(format!("case pool={} f25={} {} out={}", self.pool.name, f25 as u8, fmt_req(req), fmt_out(&out)));
        }
    }

    fn variants(&mut self, faces: &[Face; 2], text: &[u32], full: bool, salt: u64) {
        self.stat.strings += 1;
        let mut req = Req::default();
        req.text = text.iter().enumerate().map(|(i, c)| (*c, i as u32)).collect();
        let scripts = [self.pool.script.clone(), None];
        let dirs = [None, Some(opposite(&self.pool.script))];
        let flags = [0u32, 0x10, 0x8, 0x4];
        let mut k = 0u64;
        for f25 in [true, false] {
            for fl in flags {
                for (si, sc) in scripts.iter().enumerate() {
                    for (di, d) in dirs.iter().enumerate() {
                        k += 1;
                        // rot: the plain variant of each font always, plus a rotating quarter of the rest
                        let plain = fl == 0 && si == 0 && di == 0;
                        if !full && !plain && (k + salt) % 5 != 0 {
                            continue;
                        }
                        req.flags = fl;
                        req.script = sc.clone();
                        req.dir = *d;
                        self.one_face(&faces[f25 as usize], &req, f25);
                    }
                }
            }
            // beyond the property's cluster level: MonotoneCharacters (level 1), plain variant.  The same ownership
            // rule applies; this is what makes cluster merging in the normalizer / shapers observable (at level 0
            // marks already share their base's cluster before any shaper runs).
            // Only on the font WITH U+25CC: without it the Indic shaper leaves broken clusters un-repaired and its
            // matra move gives non-monotone clusters at level 1 (e.g. Malayalam <0D46 0D3E 0D3E> -> clusters 1,0,0),
            // the level-1 face of the listed class indic_zwnj_cluster_split (reported to the lead for C02).
            // and not for the Indic shaper, whose matra move is non-monotone at level 1 also with U+25CC
            // (Oriya <0B47 0B4D 200D 0B48> -> clusters 0,1,0,0,0,0).
            if f25 && self.pool.shaper != "indic" {
                req.flags = 0;
                req.script = self.pool.script.clone();
                req.dir = None;
                req.level = 1;
                self.one_face(&faces[f25 as usize], &req, f25);
                self.stat.level1 += 1;
                req.level = 0;
            }
        }
    }
}

fn run_pool(cx: &Ctx, pool: &Pool, maxlen: usize, nrandom: u64, rlen: u64, seed: u64, full_upto: usize, sample: u64) -> (Stat, Vec<String>) {
    let fonts = [make_font(pool, false), make_font(pool, true)];
    let datas = [fonts[0].data.clone(), fonts[1].data.clone()];
    let (Some(f0), Some(f1)) = (Face::from_slice(&datas[0], 0), Face::from_slice(&datas[1], 0)) else {
        return (Stat::default(), vec![format!("viol pool={} f25=- - out=- why=font-rejected", pool.name)]);
    };
    let faces = [f0, f1];
    // expected number of shapes, for the sampling stride
    let n = pool.text.len() as u64;
    let mut total: u64 = 0;
    let mut pw = 1u64;
    for l in 1..=maxlen {
        pw *= n;
        total += pw * if l <= full_upto { 32 } else { 8 };
    }
    total += (nrandom + pool.extra.len() as u64) * 8;
    let mut r = Runner { cx, pool, fonts, stat: Stat::default(), lines: Vec::new(), sample_every: if sample == 0 { 0 } else { (total / sample).max(1) }, viol_limit: 6, per_class: HashMap::new() };
    // exhaustive
    let mut idx: Vec<usize> = Vec::new();
    for l in 1..=maxlen {
        idx.clear();
        idx.resize(l, 0);
        let mut text: Vec<u32> = vec![0; l];
        let mut salt = 0u64;
        'odo: loop {
            for i in 0..l {
                text[i] = pool.text[idx[i]];
            }
            salt += 1;
            r.variants(&faces, &text, l <= full_upto, salt);
            let mut p = l;
            loop {
                if p == 0 {
                    break 'odo;
                }
                p -= 1;
                idx[p] += 1;
                if idx[p] < pool.text.len() {
                    break;
                }
                idx[p] = 0;
            }
        }
    }
    // grammar-generated strings supplied by the driver
    for (k, t) in pool.extra.iter().enumerate() {
        r.variants(&faces, t, false, k as u64);
    }
    // seeded random longer strings
    let mut rng = Rng::new(seed ^ (pool.name.bytes().fold(0u64, |a, b| a.wrapping_mul(131).wrapping_add(b as u64))));
    for k in 0..nrandom {
        let l = rng.range(maxlen as u64 + 1, rlen.max(maxlen as u64 + 1)) as usize;
        let text: Vec<u32> = (0..l).map(|_| *rng.pick(&pool.text)).collect();
        r.variants(&faces, &text, false, k);
    }
    (r.stat, r.lines)
}

pub fn run(args: &[String]) {
    quiet_panics();
    match args.get(0).map(|s| s.as_str()) {
        Some("search") => search(args),
        Some("one") => one(),
        _ => {
            eprintln!("c08 search|one");
            std::process::exit(2)
        }
    }
}

fn one() {
    let sp = read_spec();
    let cx = Ctx { nf: sp.nf.clone(), doc: sp.doc.clone(), di: sp.di.clone() };
    for (pname, f25, req) in &sp.cases {
        let Some(pool) = sp.pools.iter().find(|p| &p.name == pname) else {
            println!("viol pool={} f25={} {} out=- why=unknown-pool", pname, *f25 as u8, fmt_req(req));
            continue;
        };
        let mut r = Runner { cx: &cx, pool, fonts: [make_font(pool, false), make_font(pool, true)], stat: Stat::default(), lines: Vec::new(), sample_every: 1, viol_limit: 1000, per_class: HashMap::new() };
        r.one(req, *f25);
        for l in &r.lines {
            println!("{}", l);
        }
    }
    println!("done");
}

fn search(args: &[String]) {
    let sp = read_spec();
    let maxlen = arg_u64(args, "--maxlen", 2) as usize;
    let nrandom = arg_u64(args, "--random", 200);
    let rlen = arg_u64(args, "--rlen", 8);
    let seed = arg_u64(args, "--seed", 1);
    let full_upto = arg_u64(args, "--full-upto", 2) as usize;
    let sample = arg_u64(args, "--sample", 40);
    let threads = arg_u64(args, "--threads", 8).max(1) as usize;
    let cx = Arc::new(Ctx { nf: sp.nf.clone(), doc: sp.doc.clone(), di: sp.di.clone() });
    let pools = Arc::new(sp.pools.clone());
    let next = Arc::new(std::sync::atomic::AtomicUsize::new(0));
    let mut hs = Vec::new();
    for _ in 0..threads {
        let (cx, pools, next) = (cx.clone(), pools.clone(), next.clone());
        hs.push(std::thread::spawn(move || {
            let mut res = Vec::new();
            loop {
                let i = next.fetch_add(1, std::sync::atomic::Ordering::SeqCst);
                if i >= pools.len() {
                    break;
                }
                let t0 = std::time::Instant::now();
                let (st, lines) = run_pool(&cx, &pools[i], maxlen, nrandom, rlen, seed, full_upto, sample);
                res.push((i, st, lines, t0.elapsed().as_millis()));
            }
            res
        }));
    }
    let mut all = Vec::new();
    for h in hs {
        match h.join() {
            Ok(v) => all.extend(v),
            Err(_) => println!("viol pool=? f25=- - out=- why=worker-thread-died"),
        }
    }
    all.sort_by_key(|x| x.0);
    for (i, st, lines, ms) in &all {
        for l in lines {
            println!("{}", l);
        }
        println!(
            "stat pool={} strings={} shapes={} dotted={} reordered={} decomposed={} composed={} merged={} removed={} hidden={} notdef_dotted={} known_forced={} known_zwnj={} level1={} viol={} ms={}",
            pools[*i].name, st.strings, st.shapes, st.dotted, st.reordered, st.decomposed, st.composed, st.merged, st.removed, st.hidden, st.notdef_dotted, st.known_forced, st.known_zwnj, st.level1, st.viol, ms
        );
    }
    let _ = dir_name(None);
    println!("done pools={}", all.len());
}
