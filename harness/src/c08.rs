//! C08: harness commands for property C08 (stub).

pub fn run(_args: &[String]) {
    eprintln!("c08: not implemented");
    std::process::exit(2);
}
