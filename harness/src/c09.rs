//! C09: harness commands for property C09 (stub).

pub fn run(_args: &[String]) {
    eprintln!("c09: not implemented");
    std::process::exit(2);
}
