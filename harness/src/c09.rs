//! C09: normalization follows font support.
//!   rbv c09 props              exhaustive over all scalar values: `d ab a b` for every decomposable character,
//!                              `p c is_mark mcc is_space space_fallback` where any of them is non-zero
//!   rbv c09 compose  < pairs   one `a b` pair (hex) per line -> `c a b r` (r = `-` for None)
//!   rbv c09 shape    < cases   one case `rep;text` per line (hex code points separated by blanks):
//!                              builds a cmap-only font for `rep` (glyph id = 1 + index in the sorted repertoire),
//!                              shapes `text` (script Latn, LTR, cluster level 0, no features) and prints
//!                              `r ch:cluster ...` with ch = the character of the output glyph (0 = .notdef)
use crate::util::*;
use rustybuzz::verif::normalize as hook;
use rustybuzz::{ttf_parser, Direction, Face, Script, UnicodeBuffer};
use std::io::{BufRead, Write};

pub fn run(args: &[String]) {
    quiet_panics();
    match args.get(0).map(|s| s.as_str()) {
        Some("props") => props(),
        Some("compose") => compose(),
        Some("shape") => shape(),
        _ => {
            eprintln!("c09 props|compose|shape");
            std::process::exit(2)
        }
    }
}

fn props() {
    let out = std::io::stdout();
    let mut w = std::io::BufWriter::new(out.lock());
    for u in 0..0x110000u32 {
        let Some(c) = char::from_u32(u) else { continue };
        match catch(move || hook::decompose(c)) {
            Ok(Some((a, b))) => writeln!(w, "d {:X} {:X} {:X}", u, a as u32, b as u32).unwrap(),
            Ok(None) => {}
            Err(e) => writeln!(w, "d {:X} panic {}", u, e).unwrap(),
        }
        match catch(move || (hook::info_props(c), hook::modified_combining_class(c))) {
            Ok(((m, cc, sp, fb), raw)) => {
                if m || cc != 0 || sp || fb || raw != 0 {
                    writeln!(w, "p {:X} {} {} {} {} {}", u, m as u8, cc, sp as u8, fb as u8, raw).unwrap();
                }
            }
            Err(e) => writeln!(w, "p {:X} panic {}", u, e).unwrap(),
        }
    }
    writeln!(w, "props-done max_combining_marks={}", hook::MAX_COMBINING_MARKS).unwrap();
}

fn hexes(s: &str) -> Vec<u32> {
    s.split_whitespace().filter_map(|x| u32::from_str_radix(x, 16).ok()).collect()
}

fn compose() {
    let stdin = std::io::stdin();
    let out = std::io::stdout();
    let mut w = std::io::BufWriter::new(out.lock());
    for line in stdin.lock().lines() {
        let line = line.unwrap();
        let v = hexes(&line);
        if v.len() != 2 {
            continue;
        }
        let (Some(a), Some(b)) = (char::from_u32(v[0]), char::from_u32(v[1])) else {
            writeln!(w, "c {:X} {:X} notchar", v[0], v[1]).unwrap();
            continue;
        };
        match catch(move || hook::compose(a, b)) {
            Ok(Some(r)) => writeln!(w, "c {:X} {:X} {:X}", v[0], v[1], r as u32).unwrap(),
            Ok(None) => writeln!(w, "c {:X} {:X} -", v[0], v[1]).unwrap(),
            Err(e) => writeln!(w, "c {:X} {:X} panic {}", v[0], v[1], e).unwrap(),
        }
    }
}

// ---------------------------------------------------------------- tiny cmap-only sfnt writer (local to C09)

fn be16(v: &mut Vec<u8>, x: u16) {
    v.extend_from_slice(&x.to_be_bytes());
}
fn be32(v: &mut Vec<u8>, x: u32) {
    v.extend_from_slice(&x.to_be_bytes());
}

/// Font with glyph 0 = .notdef and glyph 1 + i for the i-th character of the sorted, deduplicated repertoire.
pub fn cmap_font(rep_sorted: &[u32]) -> Vec<u8> {
    let ng = rep_sorted.len() as u16 + 1;
    let mut head = Vec::new();
    be32(&mut head, 0x0001_0000); // version
    be32(&mut head, 0x0001_0000); // fontRevision
    be32(&mut head, 0); // checkSumAdjustment
    be32(&mut head, 0x5F0F_3CF5); // magic
    be16(&mut head, 0); // flags
    be16(&mut head, 1000); // unitsPerEm
    head.extend_from_slice(&[0u8; 16]); // created, modified
    for x in [0i16, -200, 600, 800] {
        be16(&mut head, x as u16);
    }
    be16(&mut head, 0); // macStyle
    be16(&mut head, 8); // lowestRecPPEM
    be16(&mut head, 2); // fontDirectionHint
    be16(&mut head, 0); // indexToLocFormat
    be16(&mut head, 0); // glyphDataFormat
    let mut hhea = Vec::new();
    be32(&mut hhea, 0x0001_0000);
    be16(&mut hhea, 800);
    be16(&mut hhea, (-200i16) as u16);
    be16(&mut hhea, 0);
    be16(&mut hhea, 600); // advanceWidthMax
    for _ in 0..11 {
        be16(&mut hhea, 0); // minLSB, minRSB, xMaxExtent, caret rise/run/offset, 4 reserved, metricDataFormat
    }
    be16(&mut hhea, ng); // numberOfHMetrics
    let mut maxp = Vec::new();
    be32(&mut maxp, 0x0000_5000);
    be16(&mut maxp, ng);
    let mut hmtx = Vec::new();
    for _ in 0..ng {
        be16(&mut hmtx, 600);
        be16(&mut hmtx, 0);
    }
    // cmap: one format 12 subtable under platform 3 / encoding 10, one group per run of consecutive characters
    let mut groups: Vec<(u32, u32, u32)> = Vec::new();
    for (i, &c) in rep_sorted.iter().enumerate() {
        let gid = i as u32 + 1;
        match groups.last_mut() {
            Some(g) if g.1 + 1 == c => g.1 = c,
            _ => groups.push((c, c, gid)),
        }
    }
    let mut cmap = Vec::new();
    be16(&mut cmap, 0);
    be16(&mut cmap, 1);
    be16(&mut cmap, 3);
    be16(&mut cmap, 10);
    be32(&mut cmap, 12);
    be16(&mut cmap, 12);
    be16(&mut cmap, 0);
    be32(&mut cmap, 16 + 12 * groups.len() as u32);
    be32(&mut cmap, 0);
    be32(&mut cmap, groups.len() as u32);
    for g in &groups {
        be32(&mut cmap, g.0);
        be32(&mut cmap, g.1);
        be32(&mut cmap, g.2);
    }
    let mut tables: Vec<(&[u8; 4], Vec<u8>)> =
        vec![(b"cmap", cmap), (b"head", head), (b"hhea", hhea), (b"hmtx", hmtx), (b"maxp", maxp)];
    tables.sort_by(|a, b| a.0.cmp(b.0));
    let n = tables.len() as u16;
    let mut f = Vec::new();
    be32(&mut f, 0x0001_0000);
    be16(&mut f, n);
    let es = 2u16; // floor(log2(5))
    be16(&mut f, 16 << es);
    be16(&mut f, es);
    be16(&mut f, n * 16 - (16 << es));
    let mut off = 12 + 16 * tables.len() as u32;
    for (tag, data) in &tables {
        f.extend_from_slice(&tag[..]);
        let mut sum = 0u32;
        let mut padded = data.clone();
        while padded.len() % 4 != 0 {
            padded.push(0);
        }
        for ch in padded.chunks(4) {
            sum = sum.wrapping_add(u32::from_be_bytes([ch[0], ch[1], ch[2], ch[3]]));
        }
        be32(&mut f, sum);
        be32(&mut f, off);
        be32(&mut f, data.len() as u32);
        off += padded.len() as u32;
    }
    for (_, data) in &tables {
        f.extend_from_slice(data);
        while f.len() % 4 != 0 {
            f.push(0);
        }
    }
    f
}

fn shape() {
    let stdin = std::io::stdin();
    let out = std::io::stdout();
    let mut w = std::io::BufWriter::new(out.lock());
    let latn = Script::from_iso15924_tag(ttf_parser::Tag::from_bytes(b"Latn")).unwrap();
    let mut last_rep: Vec<u32> = Vec::new();
    let mut font: Vec<u8> = Vec::new();
    for line in stdin.lock().lines() {
        let line = line.unwrap();
        let Some((r, t)) = line.split_once(';') else { continue };
        let mut rep = hexes(r);
        rep.sort();
        rep.dedup();
        let text = hexes(t);
        if rep != last_rep || font.is_empty() {
            font = cmap_font(&rep);
            last_rep = rep.clone();
        }
        let fb = font.clone();
        let rp = rep.clone();
        let res = catch(move || {
            let face = Face::from_slice(&fb, 0).expect("generated font does not parse");
            let mut b = UnicodeBuffer::new();
            for (i, cp) in text.iter().enumerate() {
                b.add(char::from_u32(*cp).expect("not a scalar value"), i as u32);
            }
            b.set_direction(Direction::LeftToRight);
            b.set_script(latn);
            let gb = rustybuzz::shape(&face, &[], b);
            let mut s = String::new();
            for (k, gi) in gb.glyph_infos().iter().enumerate() {
                let ch = if gi.glyph_id == 0 {
                    0
                } else {
                    *rp.get(gi.glyph_id as usize - 1).unwrap_or(&0xFFFF_FFFF)
                };
                if k > 0 {
                    s.push(' ');
                }
                s.push_str(&format!("{:X}:{}", ch, gi.cluster));
            }
            s
        });
        match res {
            Ok(s) => writeln!(w, "r {}", s).unwrap(),
            Err(e) => writeln!(w, "r panic {}", e).unwrap(),
        }
    }
}
