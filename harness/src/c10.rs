//! C10: digest correspondence. Runs the real `hb_set_digest_t` through the verif hook.
use crate::util::*;
use rustybuzz::ttf_parser::GlyphId;
use rustybuzz::verif::set_digest::*;

fn masks(d: &hb_set_digest_t) -> [u64; 3] {
    [
        d.verif_head().verif_mask(),
        d.verif_tail().verif_head().verif_mask(),
        d.verif_tail().verif_tail().verif_mask(),
    ]
}

fn from_masks(m: [u64; 3]) -> hb_set_digest_t {
    hb_set_digest_combiner_t::verif_from_parts(
        hb_set_digest_bits_pattern_t::verif_from_mask(m[0]),
        hb_set_digest_combiner_t::verif_from_parts(
            hb_set_digest_bits_pattern_t::verif_from_mask(m[1]),
            hb_set_digest_bits_pattern_t::verif_from_mask(m[2]),
        ),
    )
}

fn rand_mask(r: &mut Rng) -> u64 {
    match r.below(6) {
        0 => 0,
        1 => u64::MAX,
        2 => 1u64 << r.below(64),
        3 => u64::MAX ^ (1u64 << r.below(64)),
        4 => r.next() & r.next(),
        _ => r.next(),
    }
}

fn rand_gid(r: &mut Rng) -> u16 {
    match r.below(8) {
        0 => 0,
        1 => 0xFFFF,
        2 => (1u32 << r.below(16)) as u16,
        3 => ((1u32 << r.below(17)) - 1) as u16,
        4 => r.below(1024) as u16,
        _ => r.below(65536) as u16,
    }
}

pub fn run(args: &[String]) {
    quiet_panics();
    match args.get(0).map(|s| s.as_str()) {
        Some("pos") => pos(),
        Some("ops") => ops(args),
        Some("ranges") => ranges(args),
        Some("sound") => sound(args),
        Some("prefilter") => prefilter(args),
        _ => {
            eprintln!("c10 pos|ops|ranges");
            std::process::exit(2)
        }
    }
}

/// For every glyph id: bit position set by `add` in each of the three patterns (exhaustive).
fn pos() {
    let mut lines = [String::new(), String::new(), String::new()];
    for g in 0..=0xFFFFu32 {
        let mut d = hb_set_digest_t::new();
        d.add(GlyphId(g as u16));
        let m = masks(&d);
        for k in 0..3 {
            if m[k].count_ones() != 1 {
                println!("bad popcount {} {} {}", g, k, m[k]);
            }
            lines[k].push_str(&format!("{} ", m[k].trailing_zeros()));
        }
        // may_have_glyph of the very glyph added must hold on the implementation
        if !d.may_have_glyph(GlyphId(g as u16)) {
            println!("unsound add {}", g);
        }
    }
    for k in 0..3 {
        println!("pos {} {}", k, lines[k].trim_end());
    }
}

/// add_range on (mask, a, b) triples: structured classes + random. One line per case:
/// `range m0 m1 m2 a b -> ret r0 r1 r2` or `... -> panic <class>`.
fn ranges(args: &[String]) {
    let seed = arg_u64(args, "--seed", 1);
    let n = arg_u64(args, "--n", 2000);
    let mut r = Rng::new(seed);
    let mut cases: Vec<([u64; 3], u16, u16)> = Vec::new();
    // structured: boundaries of each pattern's bit position window
    for &a in &[0u16, 1, 15, 16, 63, 64, 511, 512, 1007, 1008, 1023, 1024, 32255, 32256, 32767, 32768, 65535] {
        for &d in &[0u32, 1, 15, 16, 61, 62, 63, 64, 991, 992, 1007, 1008, 1009, 31743, 31744, 32255, 32256, 65535] {
            let b = a as u32 + d;
            if b <= 0xFFFF {
                cases.push(([0, 0, 0], a, b as u16));
            }
        }
    }
    for _ in 0..n {
        let a = rand_gid(&mut r);
        let b = match r.below(4) {
            0 => a.saturating_add(r.below(70) as u16),
            1 => a.saturating_add(r.below(1100) as u16),
            2 => a.saturating_add(r.below(33000) as u16),
            _ => rand_gid(&mut r),
        };
        // a > b only in a small share of cases (empty range: arithmetic in checked builds may trap)
        let (a, b) = if a > b && !r.chance(1, 10) { (b, a) } else { (a, b) };
        let m = if r.chance(1, 2) { [0, 0, 0] } else { [rand_mask(&mut r), rand_mask(&mut r), rand_mask(&mut r)] };
        cases.push((m, a, b));
    }
    for (m, a, b) in cases {
        let res = catch(move || {
            let mut d = from_masks(m);
            let ret = d.add_range(GlyphId(a), GlyphId(b));
            (ret, masks(&d))
        });
        match res {
            Ok((ret, o)) => println!("range {} {} {} {} {} -> {} {} {} {}", m[0], m[1], m[2], a, b, ret as u8, o[0], o[1], o[2]),
            Err(c) => println!("range {} {} {} {} {} -> panic {}", m[0], m[1], m[2], a, b, c),
        }
    }
}

/// Random op sequences over the combined digest with queries; one line per step.
fn ops(args: &[String]) {
    let seed = arg_u64(args, "--seed", 1);
    let n = arg_u64(args, "--n", 300);
    let mut r = Rng::new(seed);
    for case in 0..n {
        let init = match r.below(4) {
            0 => masks(&hb_set_digest_t::full()),
            1 => [rand_mask(&mut r), rand_mask(&mut r), rand_mask(&mut r)],
            _ => masks(&hb_set_digest_t::new()),
        };
        println!("case {} {} {} {}", case, init[0], init[1], init[2]);
        let mut d = from_masks(init);
        let steps = r.range(1, 12);
        for _ in 0..steps {
            match r.below(6) {
                0 => {
                    let g = rand_gid(&mut r);
                    d.add(GlyphId(g));
                    let m = masks(&d);
                    println!("add {} -> {} {} {}", g, m[0], m[1], m[2]);
                }
                1 => {
                    let k = r.below(6);
                    let gs: Vec<u16> = (0..k).map(|_| rand_gid(&mut r)).collect();
                    d.add_array(gs.iter().map(|g| GlyphId(*g)));
                    let m = masks(&d);
                    let s: Vec<String> = gs.iter().map(|g| g.to_string()).collect();
                    println!("array {} -> {} {} {}", s.join(","), m[0], m[1], m[2]);
                }
                2 => {
                    let a = rand_gid(&mut r);
                    let b = a.saturating_add(match r.below(3) { 0 => r.below(40), 1 => r.below(1200), _ => r.below(40000) } as u16);
                    let ret = d.add_range(GlyphId(a), GlyphId(b));
                    let m = masks(&d);
                    println!("addrange {} {} -> {} {} {} {}", a, b, ret as u8, m[0], m[1], m[2]);
                }
                3 => {
                    let g = rand_gid(&mut r);
                    println!("qglyph {} -> {}", g, d.may_have_glyph(GlyphId(g)) as u8);
                }
                _ => {
                    let o = [rand_mask(&mut r), rand_mask(&mut r), rand_mask(&mut r)];
                    let od = from_masks(o);
                    println!("qmay {} {} {} -> {}", o[0], o[1], o[2], d.may_have(&od) as u8);
                }
            }
        }
    }
}

/// Implementation-level predicate search (no model involved): after add / add_array / add_range the
/// digest must answer `may_have_glyph` for every member. `--stride k` visits every k-th start glyph.
/// Prints `unsound <what>` lines and a final `sound-summary evaluations=<n> nontrivial=<m>`.
fn sound(args: &[String]) {
    let stride = arg_u64(args, "--stride", 1).max(1) as u32;
    let seed = arg_u64(args, "--seed", 1);
    let mut evals: u64 = 0;
    let mut wraps: u64 = 0;
    let mut bad: u64 = 0;
    let mut a: u32 = 0;
    while a <= 0xFFFF {
        for d in 0..=70u32 {
            let b = a + d;
            if b > 0xFFFF {
                break;
            }
            let mut dg = hb_set_digest_t::new();
            dg.add_range(GlyphId(a as u16), GlyphId(b as u16));
            let m = masks(&dg);
            // non-trivial: the shift-0 window wraps around bit 63
            if (b & 63) < (a & 63) {
                wraps += 1;
            }
            for g in a..=b {
                evals += 1;
                if !dg.may_have_glyph(GlyphId(g as u16)) {
                    bad += 1;
                    if bad <= 20 {
                        println!("unsound range a={} b={} g={} masks={},{},{}", a, b, g, m[0], m[1], m[2]);
                    }
                }
            }
        }
        a += stride;
    }
    // long ranges: ends, pattern-window boundaries and random interior points
    let mut r = Rng::new(seed);
    for _ in 0..200_000u32 {
        let a = rand_gid(&mut r) as u32;
        let len = match r.below(4) { 0 => r.below(1100), 1 => r.below(33000), 2 => r.below(700), _ => r.below(65536) } as u32;
        let b = (a + len).min(0xFFFF);
        let init = if r.chance(1, 2) { [0, 0, 0] } else { [rand_mask(&mut r), rand_mask(&mut r), rand_mask(&mut r)] };
        let mut dg = from_masks(init);
        dg.add_range(GlyphId(a as u16), GlyphId(b as u16));
        let m = masks(&dg);
        for k in 0..8u32 {
            let g = match k { 0 => a, 1 => b, 2 => (a + 1).min(b), 3 => b.saturating_sub(1).max(a), _ => a + r.below((b - a + 1) as u64) as u32 };
            evals += 1;
            if !dg.may_have_glyph(GlyphId(g as u16)) {
                bad += 1;
                if bad <= 20 {
                    println!("unsound range a={} b={} g={} init={},{},{} masks={},{},{}", a, b, g, init[0], init[1], init[2], m[0], m[1], m[2]);
                }
            }
        }
        // bits are never removed
        for k in 0..3 {
            if init[k] & !m[k] != 0 {
                bad += 1;
                println!("unsound removed-bits a={} b={} init={},{},{} masks={},{},{}", a, b, init[0], init[1], init[2], m[0], m[1], m[2]);
            }
        }
    }
    // add_array / may_have between two digests sharing a glyph
    for _ in 0..100_000u32 {
        let k = r.range(1, 6);
        let gs: Vec<u16> = (0..k).map(|_| rand_gid(&mut r)).collect();
        let mut d1 = hb_set_digest_t::new();
        d1.add_array(gs.iter().map(|g| GlyphId(*g)));
        let mut d2 = hb_set_digest_t::new();
        let shared = *r.pick(&gs);
        d2.add(GlyphId(rand_gid(&mut r)));
        d2.add(GlyphId(shared));
        evals += 1;
        if !d1.may_have(&d2) || !d2.may_have(&d1) || gs.iter().any(|g| !d1.may_have_glyph(GlyphId(*g))) {
            bad += 1;
            if bad <= 20 {
                println!("unsound array gs={:?} shared={}", gs, shared);
            }
        }
    }
    println!("sound-summary evaluations={} nontrivial={} bad={}", evals, wraps, bad);
}

/// (b) prefilter on vs off on corpus fonts: shape the same requests with the three prefilter tests
/// answering normally and answering "maybe"; print `diff ...` lines for differences.
fn prefilter(args: &[String]) {
    use crate::shp::*;
    use std::sync::atomic::Ordering;
    let seed = arg_u64(args, "--seed", 1);
    let per_font = arg_u64(args, "--per-font", 4);
    let max_fonts = arg_u64(args, "--max-fonts", 1000) as usize;
    let mut r = Rng::new(seed);
    let fonts = corpus_fonts(&repo_root());
    let mut shapes = 0u64;
    let mut nontrivial = 0u64; // results in which some glyph differs from plain cmap mapping count (layout fired)
    let mut diffs = 0u64;
    let mut stale = 0u64; // shapes in which a skip decision saw a digest missing a buffer glyph
    let mut used = 0usize;
    let mut order: Vec<usize> = (0..fonts.len()).collect();
    // deterministic shuffle so that a font budget still spreads over the corpus
    for i in (1..order.len()).rev() {
        let j = r.below((i + 1) as u64) as usize;
        order.swap(i, j);
    }
    for fi in order {
        if used >= max_fonts {
            break;
        }
        let path = &fonts[fi];
        let Ok(data) = std::fs::read(path) else { continue };
        let data2 = data.clone();
        let Ok(Some(chars)) = catch(move || rustybuzz::Face::from_slice(&data2, 0).map(|f| {
            let has_layout = f.tables().gsub.is_some() || f.tables().gpos.is_some();
            if has_layout { cmap_chars(&f, 400) } else { Vec::new() }
        })) else { continue };
        if chars.len() < 2 {
            continue;
        }
        used += 1;
        for _ in 0..per_font {
            let n = r.range(1, 12) as usize;
            // texts: runs of neighbouring code points (same script) are likelier to trigger lookups
            let base = r.below(chars.len() as u64) as usize;
            let mut text = Vec::new();
            for i in 0..n {
                let idx = if r.chance(3, 4) { (base + r.below(24) as usize) % chars.len() } else { r.below(chars.len() as u64) as usize };
                text.push((chars[idx], i as u32));
            }
            // a third of the texts: ill-formed / mark-heavy sequences over the font's characters (broken
            // clusters make the syllabic shapers insert dotted circles in a pause between GSUB stages)
            if r.chance(1, 3) {
                text = crate::e2e::gen_text_structured(&mut r, &chars, 12).into_iter().enumerate().map(|(i, c)| (c, i as u32)).collect();
            }
            let req = Req {
                text,
                dir: if r.chance(1, 4) { Some(*r.pick(&[rustybuzz::Direction::LeftToRight, rustybuzz::Direction::RightToLeft, rustybuzz::Direction::TopToBottom])) } else { None },
                flags: if r.chance(1, 3) { 0x40 } else { 0 } | 3,
                level: r.below(3) as u8,
                // feature values > 0 reach alternate substitutions (aalt / salt / cvNN), whose outputs must enter the digest too
                features: match r.below(10) {
                    0 | 1 => vec!["liga=0".to_string()],
                    2 | 3 => vec!["smcp".to_string(), "ss01".to_string()],
                    4 => vec!["aalt=1".to_string()],
                    5 => vec![format!("aalt={}", 1 + r.below(4)), "salt=1".to_string()],
                    6 => vec!["salt=2".to_string(), "cv01=1".to_string(), "ss02".to_string()],
                    _ => vec![],
                },
                ..Default::default()
            };
            let d1 = data.clone();
            let rq = req.clone();
            VERIF_PREFILTER_OFF.store(false, Ordering::SeqCst);
            // monitor: every skip decision must be taken with a digest that covers the buffer's glyphs
            VERIF_DIGEST_STALE.store(0, Ordering::SeqCst);
            VERIF_DIGEST_MONITOR.store(true, Ordering::SeqCst);
            let on = catch(move || { let f = rustybuzz::Face::from_slice(&d1, 0).unwrap(); shape_req(&f, &rq) });
            VERIF_DIGEST_MONITOR.store(false, Ordering::SeqCst);
            let stale_n = VERIF_DIGEST_STALE.load(Ordering::SeqCst);
            if stale_n > 0 {
                stale += 1;
                if stale <= 10 {
                    println!("stale font={} req=[{}] decisions={}", path, fmt_req(&req), stale_n);
                }
            }
            let d2 = data.clone();
            let rq = req.clone();
            VERIF_PREFILTER_OFF.store(true, Ordering::SeqCst);
            let off = catch(move || { let f = rustybuzz::Face::from_slice(&d2, 0).unwrap(); shape_req(&f, &rq) });
            VERIF_PREFILTER_OFF.store(false, Ordering::SeqCst);
            shapes += 1;
            if let Ok(o) = &off {
                if o.len() != req.text.len() || o.iter().any(|g| g.xo != 0 || g.yo != 0) {
                    nontrivial += 1;
                }
            }
            if on != off {
                diffs += 1;
                if diffs <= 10 {
                    println!("diff font={} req=[{}] on={} off={}", path, fmt_req(&req),
                        match &on { Ok(g) => fmt_g(g), Err(e) => format!("panic {}", e) },
                        match &off { Ok(g) => fmt_g(g), Err(e) => format!("panic {}", e) });
                }
            }
        }
    }
    // Generated fonts for the pause functions of the syllabic shapers: a broken cluster makes a pause insert the
    // dotted circle between two GSUB stages, and a later single substitution acts on that glyph only.  The dotted
    // circle's glyph id (100) differs from every other glyph of the buffer in the digest's second pattern, so a
    // digest that was not refreshed after the insertion makes the prefilter skip the lookup.
    {
        use crate::fontgen::*;
        const SCRIPTS: &[(&[u32], &[u32])] = &[
            (&[0x1B13, 0x1B2C], &[0x1B35, 0x1B36, 0x1B38, 0x1B44, 0x1B00]),
            (&[0x1780, 0x1781], &[0x17B6, 0x17B7, 0x17D2, 0x17C6]),
            (&[0x1000, 0x1001], &[0x102D, 0x102F, 0x1031, 0x1039, 0x103A]),
            (&[0x0915, 0x0928], &[0x093F, 0x0940, 0x094D, 0x0902]),
            (&[0x0995, 0x09A8], &[0x09BF, 0x09C0, 0x09CD]),
            (&[0xA98F, 0xA9AA], &[0xA9B4, 0xA9B6, 0xA9C0, 0xA981]),
            (&[0x0D9A, 0x0DBB], &[0x0DCF, 0x0DD2, 0x0DCA]),
            (&[0x1A20, 0x1A21], &[0x1A62, 0x1A65, 0x1A60]),
        ];
        const TAGS: &[&[u8; 4]] = &[b"pres", b"abvs", b"blws", b"psts", b"haln", b"liga", b"calt", b"clig", b"rlig", b"ccmp", b"locl"];
        let mut gen_shapes = 0u64;
        for (si, (letters, marks)) in SCRIPTS.iter().enumerate() {
            for (ti, tag) in TAGS.iter().enumerate() {
                for extra_lookup in [false, true] {
                    let mut spec = FontSpec::basic(210);
                    let mut cmap: Vec<(u32, u16)> = Vec::new();
                    for (i, c) in letters.iter().chain(marks.iter()).enumerate() {
                        cmap.push((*c, 1 + i as u16));
                    }
                    cmap.push((0x25CC, 100));
                    cmap.push((0x20, 20));
                    cmap.sort();
                    spec.cmap = cmap;
                    let mut feats: Vec<(Tag, Vec<u16>)> = vec![(**tag, vec![0])];
                    let mut lookups = vec![Lookup::one(SubstSubtable::Single2 { coverage: Coverage::Glyphs(vec![100]), substitutes: vec![200] })];
                    if extra_lookup {
                        // an unrelated lookup in an earlier stage of the same table
                        lookups.push(Lookup::one(SubstSubtable::Single2 { coverage: Coverage::Glyphs(vec![30]), substitutes: vec![31] }));
                        feats.push((if **tag == *b"ccmp" { *b"locl" } else { *b"ccmp" }, vec![1]));
                        feats.sort();
                    }
                    spec.gsub = Some(Layout::with_features(feats, lookups));
                    let data = build(&spec);
                    let texts: Vec<Vec<u32>> = vec![
                        vec![marks[0]],
                        vec![marks[marks.len() - 1]],
                        vec![marks[0], letters[0]],
                        vec![letters[0], marks[0], marks[1 % marks.len()]],
                        vec![letters[1], 0x20, marks[(si + ti) % marks.len()], letters[0]],
                        vec![marks[1 % marks.len()], marks[0], letters[1]],
                        vec![0x25CC, marks[0]],
                    ];
                    for t in texts {
                        let req = Req { text: t.iter().enumerate().map(|(i, c)| (*c, i as u32)).collect(), flags: 3, ..Default::default() };
                        let d1 = data.clone();
                        let rq = req.clone();
                        VERIF_PREFILTER_OFF.store(false, Ordering::SeqCst);
                        VERIF_DIGEST_STALE.store(0, Ordering::SeqCst);
                        VERIF_DIGEST_MONITOR.store(true, Ordering::SeqCst);
                        let on = catch(move || { let f = rustybuzz::Face::from_slice(&d1, 0).unwrap(); shape_req(&f, &rq) });
                        VERIF_DIGEST_MONITOR.store(false, Ordering::SeqCst);
                        let stale_n = VERIF_DIGEST_STALE.load(Ordering::SeqCst);
                        let name = format!("generated:pause-font-script{}-{}{}", si, String::from_utf8_lossy(&tag[..]), if extra_lookup { "-x" } else { "" });
                        if stale_n > 0 {
                            stale += 1;
                            if stale <= 10 {
                                println!("stale font={} req=[{}] decisions={}", name, fmt_req(&req), stale_n);
                            }
                        }
                        let d2 = data.clone();
                        let rq = req.clone();
                        VERIF_PREFILTER_OFF.store(true, Ordering::SeqCst);
                        let off = catch(move || { let f = rustybuzz::Face::from_slice(&d2, 0).unwrap(); shape_req(&f, &rq) });
                        VERIF_PREFILTER_OFF.store(false, Ordering::SeqCst);
                        shapes += 1;
                        gen_shapes += 1;
                        if let Ok(o) = &off {
                            if o.iter().any(|g| g.gid == 200) {
                                nontrivial += 1;
                            }
                        }
                        if on != off {
                            diffs += 1;
                            if diffs <= 10 {
                                println!("diff font={} req=[{}] on={} off={}", name, fmt_req(&req),
                                    match &on { Ok(g) => fmt_g(g), Err(e) => format!("panic {}", e) },
                                    match &off { Ok(g) => fmt_g(g), Err(e) => format!("panic {}", e) });
                            }
                        }
                    }
                }
            }
        }
        // Fonts whose format-1 coverage arrays are NOT in ascending order (out of spec, but accepted by the parser and by
        // HarfBuzz): the binary search of the coverage still finds some of the glyphs, so the lookup's digest must contain
        // every listed glyph, whatever the order - otherwise the prefilter skips a lookup that applies without it.
        for (oi, order) in [vec![5u16, 3, 9], vec![9, 5, 3], vec![3, 9, 5], vec![5, 3], vec![9, 3, 5, 7], vec![3, 5, 9]].iter().enumerate() {
            for two_subtables in [false, true] {
                let mut spec = FontSpec::basic(80);
                let subs: Vec<u16> = order.iter().map(|g| g + 60).collect();
                let mut sts = vec![SubstSubtable::Single2 { coverage: Coverage::Glyphs(order.clone()), substitutes: subs }];
                if two_subtables {
                    sts.insert(0, SubstSubtable::Single2 { coverage: Coverage::Glyphs(vec![40, 20]), substitutes: vec![41, 21] });
                }
                spec.gsub = Some(Layout::single_feature(*b"liga", vec![Lookup::new(sts)]));
                let data = build(&spec);
                for t in [vec![3u16], vec![5], vec![9], vec![3, 3], vec![9, 3], vec![5, 9, 3, 7], vec![7, 7], vec![20, 3], vec![40, 9, 5]] {
                    let req = Req { text: t.iter().enumerate().map(|(i, g)| (pua(*g as u32 - 1), i as u32)).collect(), flags: 3, ..Default::default() };
                    let d1 = data.clone();
                    let rq = req.clone();
                    VERIF_PREFILTER_OFF.store(false, Ordering::SeqCst);
                    let on = catch(move || { let f = rustybuzz::Face::from_slice(&d1, 0).unwrap(); shape_req(&f, &rq) });
                    let d2 = data.clone();
                    let rq = req.clone();
                    VERIF_PREFILTER_OFF.store(true, Ordering::SeqCst);
                    let off = catch(move || { let f = rustybuzz::Face::from_slice(&d2, 0).unwrap(); shape_req(&f, &rq) });
                    VERIF_PREFILTER_OFF.store(false, Ordering::SeqCst);
                    shapes += 1;
                    gen_shapes += 1;
                    if let Ok(o) = &off {
                        if o.iter().any(|g| g.gid >= 60) {
                            nontrivial += 1;
                        }
                    }
                    if on != off {
                        diffs += 1;
                        if diffs <= 10 {
                            println!("diff font=generated:unsorted-coverage-{}{} req=[{}] on={} off={}", oi, if two_subtables { "-2" } else { "" }, fmt_req(&req),
                                match &on { Ok(g) => fmt_g(g), Err(e) => format!("panic {}", e) },
                                match &off { Ok(g) => fmt_g(g), Err(e) => format!("panic {}", e) });
                        }
                    }
                }
            }
        }
        // Class-based (chain) context lookups whose input class is WIDER than the subtable's coverage: the coverage
        // test of the subtable, not the digest, decides whether the subtable applies.  A glyph of the class that is not
        // covered but whose id agrees with a covered one in all three digest patterns passes the prefilter; its twin
        // that does not collide is filtered out.  With the prefilter off both reach the subtable: any subtable that
        // relies on the digest for the coverage test shows as an on/off difference.
        {
            let mut r2 = Rng::new(seed ^ 0xC0DE_10);
            for fk in 0..120u32 {
                let ng = 200u16;
                let mut spec = FontSpec::basic(ng);
                let ncov = r2.range(1, 3) as usize;
                let mut covered: Vec<u16> = (0..ncov).map(|_| r2.range(2, 120) as u16).collect();
                covered.sort();
                covered.dedup();
                // uncovered members of class 1: digest twins of covered glyphs (same low bits in every pattern: +64 keeps
                // bits 0..5, shift-4 and shift-9 patterns mostly differ - so take +512k variants too) and unrelated glyphs
                let mut class1: Vec<u16> = covered.clone();
                for c in &covered {
                    for d in [64u16, 128, 1, 16] {
                        if c + d < ng - 1 && r2.chance(2, 3) {
                            class1.push(c + d);
                        }
                    }
                }
                class1.push(r2.range(121, ng as u64 - 2) as u16);
                class1.sort();
                class1.dedup();
                let cd = ClassDef::from_pairs(&class1.iter().map(|g| (*g, 1u16)).collect::<Vec<_>>());
                let target = 199u16;
                let nested = Lookup::one(SubstSubtable::Single2 { coverage: Coverage::Glyphs(class1.clone()), substitutes: class1.iter().map(|_| target).collect() });
                let rule_sets_ctx = vec![None, Some(vec![SeqRule { input: vec![], lookups: vec![SeqLookup { sequence_index: 0, lookup_index: 1 }] }])];
                let rule_sets_chain = vec![None, Some(vec![ChainRule { backtrack: vec![], input: vec![], lookahead: vec![], lookups: vec![SeqLookup { sequence_index: 0, lookup_index: 1 }] }])];
                let st = if fk % 2 == 0 {
                    SubstSubtable::ChainContext2 { coverage: Coverage::Glyphs(covered.clone()), backtrack_classes: cd.clone(), input_classes: cd.clone(), lookahead_classes: cd.clone(), rule_sets: rule_sets_chain }
                } else {
                    SubstSubtable::Context2 { coverage: Coverage::Glyphs(covered.clone()), class_def: cd.clone(), rule_sets: rule_sets_ctx }
                };
                spec.gsub = Some(Layout::with_features(vec![(*b"calt", vec![0])], vec![Lookup::one(st), nested]));
                let data = build(&spec);
                let mut texts: Vec<Vec<u16>> = class1.iter().map(|g| vec![*g]).collect();
                texts.push(class1.clone());
                texts.push(vec![3, *class1.last().unwrap(), class1[0], 4]);
                for t in texts {
                    let req = Req { text: t.iter().enumerate().map(|(i, g)| (pua(*g as u32 - 1), i as u32)).collect(), flags: 3, ..Default::default() };
                    let d1 = data.clone();
                    let rq = req.clone();
                    VERIF_PREFILTER_OFF.store(false, Ordering::SeqCst);
                    let on = catch(move || { let f = rustybuzz::Face::from_slice(&d1, 0).unwrap(); shape_req(&f, &rq) });
                    let d2 = data.clone();
                    let rq = req.clone();
                    VERIF_PREFILTER_OFF.store(true, Ordering::SeqCst);
                    let off = catch(move || { let f = rustybuzz::Face::from_slice(&d2, 0).unwrap(); shape_req(&f, &rq) });
                    VERIF_PREFILTER_OFF.store(false, Ordering::SeqCst);
                    shapes += 1;
                    gen_shapes += 1;
                    if let Ok(o) = &off {
                        if o.iter().any(|g| g.gid == target as u32) {
                            nontrivial += 1;
                        }
                        // the subtable applies to covered glyphs only, whatever the class says
                        for (g, inp) in o.iter().zip(t.iter()) {
                            if o.len() == t.len() && (g.gid == target as u32) != covered.contains(inp) {
                                diffs += 1;
                                if diffs <= 10 {
                                    println!("diff font=generated:class-wider-than-coverage-{} req=[{}] covered={:?} class1={:?} on=- off={}", fk, fmt_req(&req), covered, class1, fmt_g(o));
                                }
                                break;
                            }
                        }
                    }
                    if on != off {
                        diffs += 1;
                        if diffs <= 10 {
                            println!("diff font=generated:class-wider-than-coverage-{} req=[{}] on={} off={}", fk, fmt_req(&req),
                                match &on { Ok(g) => fmt_g(g), Err(e) => format!("panic {}", e) },
                                match &off { Ok(g) => fmt_g(g), Err(e) => format!("panic {}", e) });
                        }
                    }
                }
            }
        }
        // One lookup referenced from two STAGES of the plan (rvrn + liga in the default shaper; ccmp + calt around the
        // positional stages of the Arabic shaper) whose target glyph only appears after the first stage: the decision
        // "this lookup cannot apply" is valid for the glyph set of its own stage only.
        {
            for (early, late, producer_tag, script, cp) in [(*b"rvrn", *b"liga", *b"liga", None, pua(0)), (*b"ccmp", *b"calt", *b"isol", Some("Arab"), 0x0628u32), (*b"rvrn", *b"calt", *b"ccmp", None, pua(0)), (*b"ccmp", *b"rlig", *b"fina", Some("Arab"), 0x0628)] {
                for dup in [false, true] {
                    let mut spec = FontSpec::basic(60);
                    spec.cmap = vec![(cp, 1)];
                    // lookup 0: 1 -> 40 (producer); lookup 1: 40 -> 41 (shared between the early and the late feature);
                    // `dup`: the early feature points at an identical COPY (lookup 2) instead - must give the same result
                    let l0 = Lookup::one(SubstSubtable::Single2 { coverage: Coverage::Glyphs(vec![1]), substitutes: vec![40] });
                    let l1 = Lookup::one(SubstSubtable::Single2 { coverage: Coverage::Glyphs(vec![40]), substitutes: vec![41] });
                    let mut feats: Vec<(Tag, Vec<u16>)> = vec![(early, vec![if dup { 2 } else { 1 }]), (late, vec![1])];
                    if producer_tag == late { feats[1].1.insert(0, 0); } else { feats.push((producer_tag, vec![0])); }
                    feats.sort();
                    let mut layout = Layout::with_features(feats, vec![l0, l1.clone(), l1]);
                    if script.is_some() {
                        let all = layout.scripts[0].default_langsys.clone();
                        layout.scripts = vec![ScriptRecord { tag: *b"DFLT", default_langsys: all.clone(), langsys: vec![] }, ScriptRecord { tag: *b"arab", default_langsys: all, langsys: vec![] }];
                    }
                    spec.gsub = Some(layout);
                    let data = build(&spec);
                    let req = Req { text: vec![(cp, 0)], script: script.map(|x| x.to_string()), flags: 3, ..Default::default() };
                    let d1 = data.clone();
                    let rq = req.clone();
                    VERIF_PREFILTER_OFF.store(false, Ordering::SeqCst);
                    let on = catch(move || { let f = rustybuzz::Face::from_slice(&d1, 0).unwrap(); shape_req(&f, &rq) });
                    let d2 = data.clone();
                    let rq = req.clone();
                    VERIF_PREFILTER_OFF.store(true, Ordering::SeqCst);
                    let off = catch(move || { let f = rustybuzz::Face::from_slice(&d2, 0).unwrap(); shape_req(&f, &rq) });
                    VERIF_PREFILTER_OFF.store(false, Ordering::SeqCst);
                    shapes += 1;
                    gen_shapes += 1;
                    if let Ok(o) = &off {
                        if o.iter().any(|g| g.gid == 41) {
                            nontrivial += 1;
                        }
                    }
                    if on != off {
                        diffs += 1;
                        if diffs <= 10 {
                            println!("diff font=generated:lookup-in-two-stages-{}-{}{} req=[{}] on={} off={}", String::from_utf8_lossy(&early), String::from_utf8_lossy(&late), if dup { "-copy" } else { "" }, fmt_req(&req),
                                match &on { Ok(g) => fmt_g(g), Err(e) => format!("panic {}", e) },
                                match &off { Ok(g) => fmt_g(g), Err(e) => format!("panic {}", e) });
                        }
                    }
                }
            }
        }
        // One top-level pass that both GROWS and, in total, SHRINKS the buffer (a context lookup nesting a multiple
        // substitution and a ligature), followed by lookups on the glyphs created in that pass: whatever the pass does to the
        // working digest, it must still cover the glyphs it produced.
        {
            let ids: [u16; 9] = [9, 21, 77, 130, 300, 700, 1234, 2500, 4000];
            for k in 0..60u64 {
                let mut spec = FontSpec::basic(4100);
                spec.cmap = (0..6u32).map(|i| (pua(i), 1 + i as u16)).collect();
                let pickid = |r: &mut Rng| ids[r.below(ids.len() as u64) as usize];
                let (x, y, l) = (pickid(&mut r), pickid(&mut r) + 1, pickid(&mut r) + 2);
                let (mx, my, ml) = (pickid(&mut r) + 3, pickid(&mut r) + 4, pickid(&mut r) + 5);
                let ncomp = 2 + r.below(2) as usize; // ligature of 3 or 4 glyphs: B C D [E]
                let lig_at = 1 + r.below(2) as u16;
                let mult = Lookup::one(SubstSubtable::Multiple { coverage: Coverage::Glyphs(vec![1]), sequences: vec![vec![x, y]] });
                let lig = Lookup::one(SubstSubtable::Ligature { coverage: Coverage::Glyphs(vec![2]), ligature_sets: vec![vec![Ligature { glyph: l, components: (3..3 + ncomp as u16).collect() }]] });
                let covs: Vec<Coverage> = (1..=(2 + ncomp as u16)).map(|g| Coverage::Glyphs(vec![g])).collect();
                // the ligature record comes second: after A -> X Y the sequence positions behind A have moved by one
                let records = if k % 3 == 0 { vec![SeqLookup { sequence_index: 1, lookup_index: 2 }, SeqLookup { sequence_index: 0, lookup_index: 1 }] } else { vec![SeqLookup { sequence_index: 0, lookup_index: 1 }, SeqLookup { sequence_index: lig_at + 1, lookup_index: 2 }, SeqLookup { sequence_index: lig_at, lookup_index: 2 }] };
                let ctx = Lookup::one(SubstSubtable::Context3 { coverages: covs, lookups: records });
                let single = |a: u16, b: u16| Lookup::one(SubstSubtable::Single2 { coverage: Coverage::Glyphs(vec![a]), substitutes: vec![b] });
                let mut lookups = vec![ctx, mult, lig.clone(), lig, single(l, ml), single(x, mx), single(y, my)];
                if k % 2 == 0 {
                    lookups.swap(4, 6);
                }
                spec.gsub = Some(Layout::single_feature(*b"calt", lookups));
                let data = build(&spec);
                for t in [vec![0u32, 1, 2, 3, 4], vec![1, 2, 3, 4], vec![5, 0, 1, 2, 3, 4, 5], vec![0, 1, 2, 3, 4, 0, 1, 2, 3, 4], vec![0, 1, 2, 3]] {
                    let req = Req { text: t.iter().enumerate().map(|(i, c)| (pua(*c), i as u32)).collect(), flags: 3, dir: Some(rustybuzz::Direction::LeftToRight), ..Default::default() };
                    let d1 = data.clone();
                    let rq = req.clone();
                    VERIF_PREFILTER_OFF.store(false, Ordering::SeqCst);
                    let on = catch(move || { let f = rustybuzz::Face::from_slice(&d1, 0).unwrap(); shape_req(&f, &rq) });
                    let d2 = data.clone();
                    let rq = req.clone();
                    VERIF_PREFILTER_OFF.store(true, Ordering::SeqCst);
                    let off = catch(move || { let f = rustybuzz::Face::from_slice(&d2, 0).unwrap(); shape_req(&f, &rq) });
                    VERIF_PREFILTER_OFF.store(false, Ordering::SeqCst);
                    shapes += 1;
                    gen_shapes += 1;
                    if let Ok(o) = &off {
                        if o.iter().any(|g| g.gid == ml as u32) && o.iter().any(|g| g.gid == mx as u32) {
                            nontrivial += 1;
                        }
                    }
                    if on != off {
                        diffs += 1;
                        if diffs <= 10 {
                            println!("diff font=generated:grow-and-shrink-in-one-pass-{} req=[{}] on={} off={}", k, fmt_req(&req),
                                match &on { Ok(g) => fmt_g(g), Err(e) => format!("panic {}", e) },
                                match &off { Ok(g) => fmt_g(g), Err(e) => format!("panic {}", e) });
                        }
                    }
                }
            }
        }
        // A buffer recycled from an earlier shaping: the context digest of a call is built from the glyphs of THAT call.
        // GSUB-only font (nothing after GSUB consumes anything): "xy" first, then "fi" in the recycled buffer.
        {
            let mut spec = FontSpec::basic(210);
            spec.cmap = vec![(0x66, 100), (0x69, 101), (0x78, 30), (0x79, 31)];
            spec.gsub = Some(Layout::single_feature(*b"liga", vec![Lookup::one(SubstSubtable::Ligature { coverage: Coverage::Glyphs(vec![100]), ligature_sets: vec![vec![Ligature { glyph: 200, components: vec![101] }]] })]));
            let data = build(&spec);
            for (first, second) in [("xy", "fi"), ("fi", "xy"), ("xyxy", "fifi"), ("", "fi")] {
                let d1 = data.clone();
                let res = catch(move || {
                    let f = rustybuzz::Face::from_slice(&d1, 0).unwrap();
                    let mut b = rustybuzz::UnicodeBuffer::new();
                    b.push_str(first);
                    let g1 = rustybuzz::shape(&f, &[], b);
                    let mut b = g1.clear();
                    b.push_str(second);
                    let g2 = rustybuzz::shape(&f, &[], b);
                    let recycled: Vec<u32> = g2.glyph_infos().iter().map(|i| i.glyph_id).collect();
                    let mut b = rustybuzz::UnicodeBuffer::new();
                    b.push_str(second);
                    let g3 = rustybuzz::shape(&f, &[], b);
                    let fresh: Vec<u32> = g3.glyph_infos().iter().map(|i| i.glyph_id).collect();
                    (recycled, fresh)
                });
                shapes += 1;
                gen_shapes += 1;
                match res {
                    Ok((recycled, fresh)) => {
                        if fresh.contains(&200) {
                            nontrivial += 1;
                        }
                        if recycled != fresh {
                            diffs += 1;
                            println!("diff font=generated:gsub-only-recycled-buffer req=[text={:?} after {:?}] on={:?} off={:?}", second, first, recycled, fresh);
                        }
                    }
                    Err(e) => {
                        diffs += 1;
                        println!("diff font=generated:gsub-only-recycled-buffer req=[text={:?} after {:?}] on=panic {} off=-", second, first, e);
                    }
                }
            }
        }
        println!("prefilter-generated shapes={}", gen_shapes);
    }
    println!("prefilter-summary fonts={} shapes={} nontrivial={} diffs={} stale={}", used, shapes, nontrivial, diffs, stale);
}
