//! C11: joining scripts. Runs the real `arabic_joining`, `get_joining_type`, `setup_masks_inner` through the
//! verif hooks (`rustybuzz::verif::joining`) and prints what they computed, line oriented.
//!
//!   rbv c11 reps                         representative characters of the 8 classes and the class the code gives them
//!   rbv c11 feat                         ARABIC_FEATURES[action] for action 0..8
//!   rbv c11 exh --maxlen L [--minlen M] [--chunk C] [--nctx 9|73]
//!                                        exhaustive: every sequence of length M..L over the representatives, with every
//!                                        pre-/post-context of length 0 or 1; actions packed 20 per word (3 bits each)
//!   rbv c11 random --seed S --n N        random longer sequences / contexts over many characters
//!   rbv c11 masks --seed S --n N         setup_masks_inner with random mask arrays
//!   rbv c11 types                        every code point: table type, gc flag, final joining type, as runs
//!   rbv c11 run PRE TEXT POST            one sequence (comma separated hex code points, `-` for empty)
//!   rbv c11 api --script arab|syrc --maxlen L [--nctx 9|73]
//!                                        the same enumeration through the PUBLIC API (`rustybuzz::shape`) on a generated
//!                                        font whose isol/fina/fin2/fin3/medi/med2/init features map every representative
//!                                        to a distinct glyph per form; the form index read off the glyph ids is packed
//!                                        like the actions of `exh` (7 = nominal glyph, no feature applied)
//!   rbv c11 apirun SCRIPT PRE TEXT POST  one sequence through the public API
use crate::util::*;
use rustybuzz::verif::joining as hook;

/// Representatives in the order of `alphabet` of coq/Model/Joining.v: U L R D C T ALAPH DALATH_RISH.
pub const REPS: [(char, &str); 8] = [
    ('\u{0621}', "U"),  // ARABIC LETTER HAMZA
    ('\u{A872}', "L"),  // PHAGS-PA SUPERFIXED LETTER RA
    ('\u{0627}', "R"),  // ARABIC LETTER ALEF
    ('\u{0628}', "D"),  // ARABIC LETTER BEH
    ('\u{0640}', "C"),  // ARABIC TATWEEL
    ('\u{064B}', "T"),  // ARABIC FATHATAN
    ('\u{0710}', "A"),  // SYRIAC LETTER ALAPH
    ('\u{0715}', "DR"), // SYRIAC LETTER DALATH
];
/// more characters per class, used by the random generator
const MORE: [char; 14] = [
    '\u{200D}', '\u{200C}', '\u{0722}', '\u{072A}', '\u{072F}', '\u{0716}', '\u{0646}', '\u{0648}', '\u{07CA}', '\u{180A}',
    '\u{1820}', '\u{0670}', '\u{070F}', '\u{10AC0}',
];

pub fn run(args: &[String]) {
    quiet_panics();
    match args.get(0).map(|s| s.as_str()) {
        Some("reps") => reps(),
        Some("feat") => feat(),
        Some("exh") => exh(args),
        Some("random") => random(args),
        Some("masks") => masks(args),
        Some("types") => types(),
        Some("run") => run_one(args),
        Some("api") => api(args),
        Some("use-scripts") => use_scripts(args),
        Some("apirun") => api_run(args),
        _ => {
            eprintln!("c11 reps|feat|exh|random|masks|types|run|api|apirun");
            std::process::exit(2)
        }
    }
}

fn reps() {
    for (i, (c, name)) in REPS.iter().enumerate() {
        println!("rep {} {} {} {}", i, name, *c as u32, hook::joining_type(*c));
    }
    println!("context_capacity {}", hook::context_capacity());
}

fn feat() {
    for a in 0..=8u8 {
        match hook::action_feature(a) {
            Some(t) => println!("feat {} {}", a, u32::from_be_bytes(t)),
            None => println!("feat {} none", a),
        }
    }
}

/// context index: 0 = none, 1..=8 = one representative, 9..=72 = two representatives (logical order)
fn ctx(k: usize) -> Vec<char> {
    if k == 0 {
        vec![]
    } else if k <= 8 {
        vec![REPS[k - 1].0]
    } else {
        vec![REPS[(k - 9) / 8].0, REPS[(k - 9) % 8].0]
    }
}

fn seq_of(n: usize, mut idx: u64) -> Vec<char> {
    let mut v = vec![' '; n];
    for j in (0..n).rev() {
        v[j] = REPS[(idx % 8) as usize].0;
        idx /= 8;
    }
    v
}

/// One block: sequences start..start+count of length n with contexts (pre, post). Returns the output lines.
fn block(n: usize, pre: usize, post: usize, start: u64, count: u64) -> (String, u64) {
    let p = ctx(pre);
    let q = ctx(post);
    let mut out = String::new();
    let mut words: Vec<u64> = Vec::with_capacity(((count as usize) * n + 19) / 20);
    let mut cur: u64 = 0;
    let mut fill = 0;
    let mut joined = 0u64;
    for idx in start..start + count {
        let t = seq_of(n, idx);
        let (p2, t2, q2) = (p.clone(), t.clone(), q.clone());
        let acts = match catch(move || hook::arabic_actions(&p2, &t2, &q2)) {
            Ok(a) => a,
            Err(cls) => {
                out.push_str(&format!("panic {} {} {} {} {}\n", n, pre, post, idx, cls));
                vec![0; n]
            }
        };
        if acts.len() != n || acts.iter().any(|&a| a > 7) {
            out.push_str(&format!("anomaly {} {} {} {} {:?}\n", n, pre, post, idx, acts));
        }
        if acts.iter().any(|&a| (1..=6).contains(&a)) {
            joined += 1;
        }
        for j in 0..n {
            let a = (*acts.get(j).unwrap_or(&0) & 7) as u64;
            cur |= a << (3 * fill);
            fill += 1;
            if fill == 20 {
                words.push(cur);
                cur = 0;
                fill = 0;
            }
        }
    }
    if fill > 0 {
        words.push(cur);
    }
    out.push_str(&format!("blk {} {} {} {} {}", n, pre, post, start, count));
    for w in words {
        out.push(' ');
        out.push_str(&w.to_string());
    }
    out.push('\n');
    (out, joined)
}

fn exh(args: &[String]) {
    let maxlen = arg_u64(args, "--maxlen", 4) as usize;
    let minlen = arg_u64(args, "--minlen", 0) as usize;
    let chunk = arg_u64(args, "--chunk", 65536).max(20);
    let nctx = arg_u64(args, "--nctx", 9) as usize; // 9: contexts of length 0/1; 73: also length 2
    let mut jobs: Vec<(usize, usize, usize, u64, u64)> = Vec::new();
    for n in minlen..=maxlen {
        let total = 8u64.pow(n as u32);
        for pre in 0..nctx {
            for post in 0..nctx {
                let mut s = 0;
                while s < total {
                    let c = chunk.min(total - s);
                    jobs.push((n, pre, post, s, c));
                    s += c;
                }
            }
        }
    }
    let nthreads = std::thread::available_parallelism().map(|x| x.get()).unwrap_or(4).min(16);
    let jobs = std::sync::Arc::new(jobs);
    let next = std::sync::Arc::new(std::sync::atomic::AtomicUsize::new(0));
    let results = std::sync::Arc::new(std::sync::Mutex::new(vec![(String::new(), 0u64); jobs.len()]));
    let mut hs = Vec::new();
    for _ in 0..nthreads {
        let (jobs, next, results) = (jobs.clone(), next.clone(), results.clone());
        hs.push(std::thread::spawn(move || loop {
            let k = next.fetch_add(1, std::sync::atomic::Ordering::SeqCst);
            if k >= jobs.len() {
                break;
            }
            let (n, pre, post, s, c) = jobs[k];
            let r = block(n, pre, post, s, c);
            results.lock().unwrap()[k] = r;
        }));
    }
    for h in hs {
        let _ = h.join();
    }
    let res = results.lock().unwrap();
    let mut total = 0u64;
    let mut joined = 0u64;
    for (k, r) in res.iter().enumerate() {
        print!("{}", r.0);
        total += jobs[k].4;
        joined += r.1;
    }
    println!("exh-summary cases={} joined={}", total, joined);
}

fn rand_char(r: &mut Rng) -> char {
    loop {
        let cp: u32 = match r.below(100) {
            0..=39 => REPS[r.below(8) as usize].0 as u32,
            40..=54 => MORE[r.below(MORE.len() as u64) as usize] as u32,
            55..=79 => {
                let ranges: [(u32, u32); 11] = [
                    (0x0600, 0x08FF), (0x0600, 0x077F), (0x0700, 0x074F), (0x1806, 0x18AA), (0x200C, 0x200F), (0x2066, 0x2069),
                    (0xA840, 0xA873), (0x10AC0, 0x10AEF), (0x10B80, 0x10BAF), (0x10D00, 0x10D23), (0x1E900, 0x1E94B),
                ];
                let (lo, hi) = ranges[r.below(ranges.len() as u64) as usize];
                r.range(lo as u64, hi as u64) as u32
            }
            80..=89 => *r.pick(&[0x064Bu32, 0x0651, 0x0300, 0x034F, 0x00AD, 0xFE0F, 0x20DD, 0x0730, 0x08F0, 0xE0100]),
            90..=95 => *r.pick(&[0x20u32, 0x61, 0x2E, 0x30, 0x05D0, 0x0915, 0x4E00]),
            _ => r.below(0x110000) as u32,
        };
        if let Some(c) = char::from_u32(cp) {
            return c;
        }
    }
}

fn cps(v: &[char]) -> String {
    v.iter().map(|c| (*c as u32).to_string()).collect::<Vec<_>>().join(" ")
}
fn cls(v: &[char]) -> String {
    v.iter().map(|c| hook::joining_type(*c).to_string()).collect::<Vec<_>>().join(" ")
}

/// `rand <pre cps> ; <text cps> ; <post cps> ; <pre classes> ; <text classes> ; <post classes> ; <actions|panic X>`
fn random(args: &[String]) {
    let seed = arg_u64(args, "--seed", 1);
    let n = arg_u64(args, "--n", 2000);
    let maxctx = arg_u64(args, "--maxctx", 5);
    let mut r = Rng::new(seed ^ 0xC11);
    for _ in 0..n {
        let tl = if r.chance(1, 10) { r.below(4) } else { r.range(5, 14) } as usize;
        let pl = r.below(maxctx + 1) as usize;
        let ql = r.below(maxctx + 1) as usize;
        let pre: Vec<char> = (0..pl).map(|_| rand_char(&mut r)).collect();
        let text: Vec<char> = (0..tl).map(|_| rand_char(&mut r)).collect();
        let post: Vec<char> = (0..ql).map(|_| rand_char(&mut r)).collect();
        let (a, b, c) = (pre.clone(), text.clone(), post.clone());
        let res = catch(move || hook::arabic_actions(&a, &b, &c));
        let obs = match res {
            Ok(v) => v.iter().map(|x| x.to_string()).collect::<Vec<_>>().join(" "),
            Err(c) => format!("panic {}", c),
        };
        println!("rand {} ; {} ; {} ; {} ; {} ; {} ; {}", cps(&pre), cps(&text), cps(&post), cls(&pre), cls(&text), cls(&post), obs);
    }
}

/// `mask <8 mask_array values> ; <pre classes> ; <text classes> ; <post classes> ; <init masks> ; <masks after|panic X> ; <text cps>`
fn masks(args: &[String]) {
    let seed = arg_u64(args, "--seed", 1);
    let n = arg_u64(args, "--n", 500);
    let mut r = Rng::new(seed ^ 0x3A5C);
    for _ in 0..n {
        // distinct single bits above the glyph-flag bits for the 7 features, 0 for NONE (as data_create_arabic
        // leaves it); now and then a feature the font lacks (mask 0)
        let mut bits: Vec<u32> = (4..31).collect();
        let mut marr = [0u32; 8];
        for i in 0..7 {
            let k = r.below(bits.len() as u64) as usize;
            marr[i] = if r.chance(1, 8) { 0 } else { 1u32 << bits[k] };
            bits.remove(k);
        }
        let global = 1u32 << 31;
        let tl = r.range(1, 10) as usize;
        let pre: Vec<char> = (0..r.below(3)).map(|_| rand_char(&mut r)).collect();
        let text: Vec<char> = (0..tl).map(|_| rand_char(&mut r)).collect();
        let post: Vec<char> = (0..r.below(3)).map(|_| rand_char(&mut r)).collect();
        let init = if r.chance(1, 2) { global } else { 0 };
        let (a, b, c) = (pre.clone(), text.clone(), post.clone());
        let res = catch(move || hook::arabic_masks(&a, &b, &c, marr, init, false));
        let obs = match res {
            // bits 0..2 are the glyph flags (unsafe-to-break etc., property C04) that arabic_joining also sets
            Ok(v) => v.iter().map(|x| (x & !7u32).to_string()).collect::<Vec<_>>().join(" "),
            Err(c) => format!("panic {}", c),
        };
        let ms = marr.iter().map(|x| x.to_string()).collect::<Vec<_>>().join(" ");
        let inits = vec![init.to_string(); tl].join(" ");
        println!("mask {} ; {} ; {} ; {} ; {} ; {} ; {}", ms, cls(&pre), cls(&text), cls(&post), inits, obs, cps(&text));
    }
}

/// Every scalar value: (table type, gc is Mn/Me/Cf, final joining type) as maximal runs `type lo hi raw flag final`.
fn types() {
    let mut cur: Option<(u32, u32, u8, bool, u8)> = None;
    let mut n = 0u64;
    let mut runs = 0u64;
    for cp in 0..0x110000u32 {
        let c = match char::from_u32(cp) {
            Some(c) => c,
            None => {
                if let Some((lo, hi, a, b, f)) = cur.take() {
                    println!("type {} {} {} {} {}", lo, hi, a, b as u8, f);
                    runs += 1;
                }
                continue;
            }
        };
        n += 1;
        let t = (hook::raw_joining_type(c), hook::gc_mark_or_format(c), hook::joining_type(c));
        match cur {
            Some((lo, hi, a, b, f)) if hi + 1 == cp && (a, b, f) == t => cur = Some((lo, cp, a, b, f)),
            Some((lo, hi, a, b, f)) => {
                println!("type {} {} {} {} {}", lo, hi, a, b as u8, f);
                runs += 1;
                cur = Some((cp, cp, t.0, t.1, t.2));
            }
            None => cur = Some((cp, cp, t.0, t.1, t.2)),
        }
    }
    if let Some((lo, hi, a, b, f)) = cur {
        println!("type {} {} {} {} {}", lo, hi, a, b as u8, f);
        runs += 1;
    }
    println!("types-summary chars={} runs={}", n, runs);
}

fn parse_cps(s: &str) -> Vec<char> {
    if s == "-" || s.is_empty() {
        return vec![];
    }
    s.split(',').filter_map(|x| u32::from_str_radix(x.trim_start_matches("U+"), 16).ok()).filter_map(char::from_u32).collect()
}

/// `run PRE TEXT POST` -> `ran <pre classes> ; <text classes> ; <post classes> ; <actions|panic X> ; <feature tag per char>`
fn run_one(args: &[String]) {
    let pre = parse_cps(args.get(1).map(|s| s.as_str()).unwrap_or("-"));
    let text = parse_cps(args.get(2).map(|s| s.as_str()).unwrap_or("-"));
    let post = parse_cps(args.get(3).map(|s| s.as_str()).unwrap_or("-"));
    let (a, b, c) = (pre.clone(), text.clone(), post.clone());
    let res = catch(move || hook::arabic_actions(&a, &b, &c));
    let (obs, feats) = match res {
        Ok(v) => (
            v.iter().map(|x| x.to_string()).collect::<Vec<_>>().join(" "),
            v.iter()
                .map(|x| match hook::action_feature(*x) {
                    Some(t) => String::from_utf8_lossy(&t).to_string(),
                    None => "-".to_string(),
                })
                .collect::<Vec<_>>()
                .join(" "),
        ),
        Err(c) => (format!("panic {}", c), String::new()),
    };
    println!("ran {} ; {} ; {} ; {} ; {}", cls(&pre), cls(&text), cls(&post), obs, feats);
}

// ------------------------------------------------------------------------------------------------
// public API on a generated font

/// Feature order of the generated font: form index f <-> API_TAGS[f]; glyph of (representative i, form f) = 9 + 7*i + f,
/// nominal glyph of representative i = 1 + i.
pub const API_TAGS: [[u8; 4]; 7] = [*b"isol", *b"fina", *b"fin2", *b"fin3", *b"medi", *b"med2", *b"init"];

fn api_font() -> Vec<u8> {
    api_font_scripts(&[*b"DFLT", *b"arab", *b"syrc"])
}

/// The same font with its features registered under the given script records only.  Arabic text keeps the joining shaper
/// when the font has no `arab` record and its positional features sit under `DFLT` (Syriac text does not: not used there).
fn api_font_scripts(scripts: &[[u8; 4]]) -> Vec<u8> {
    use crate::fontgen::*;
    let mut spec = FontSpec::basic(9 + 56);
    let mut cmap: Vec<(u32, u16)> = REPS.iter().enumerate().map(|(i, (c, _))| (*c as u32, 1 + i as u16)).collect();
    cmap.sort();
    spec.cmap = cmap;
    let lookups: Vec<Lookup<SubstSubtable>> = (0..7u16)
        .map(|f| {
            Lookup::one(SubstSubtable::Single2 {
                coverage: Coverage::Glyphs((1..=8).collect()),
                substitutes: (0..8u16).map(|i| 9 + 7 * i + f).collect(),
            })
        })
        .collect();
    // feature records sorted by tag, each pointing at the lookup of its form
    let mut feats: Vec<(Tag, Vec<u16>)> = (0..7).map(|f| (API_TAGS[f], vec![f as u16])).collect();
    feats.sort();
    let mut layout = Layout::with_features(feats, lookups);
    let all = LangSys { required_feature: None, feature_indices: (0..7).collect() };
    layout.scripts = scripts
        .iter()
        .map(|t| ScriptRecord { tag: *t, default_langsys: Some(all.clone()), langsys: Vec::new() })
        .collect();
    spec.gsub = Some(layout);
    let problems = check(&spec);
    if !problems.is_empty() {
        eprintln!("c11 api: font spec problems: {:?}", problems);
    }
    build(&spec)
}

fn rep_index(c: char) -> Option<usize> {
    REPS.iter().position(|(r, _)| *r == c)
}

/// Shape through the public API; per character of `text` the form index (0..6, 7 = nominal glyph) or an error text.
/// `variant` selects HOW the same request is put to the library (the expected forms do not depend on it):
///   0  fresh buffer, characters added one by one, both contexts set explicitly (also when empty), no features
///   1  the buffer recycled from this thread's previous shaping (GlyphBuffer::clear), text added with push_str,
///      a context set only when it is non-empty: whatever context the previous text had must be gone
///   2  as 0 with user features that have nothing to do with joining (values beyond 8 bits, switched-off kerning)
fn api_forms_v(
    face: &rustybuzz::Face,
    script: rustybuzz::Script,
    pre: &[char],
    text: &[char],
    post: &[char],
    variant: u64,
    recycled: &mut Option<rustybuzz::UnicodeBuffer>,
) -> Result<Vec<u8>, String> {
    use std::str::FromStr;
    let mut b = match (variant, recycled.take()) {
        (1, prev) => {
            // history: a text with both contexts set (dual-joining letters), shaped and cleared
            let mut d = prev.unwrap_or_else(rustybuzz::UnicodeBuffer::new);
            d.push_str("\u{0628}\u{0628}");
            d.set_pre_context("\u{0628}\u{0640}");
            d.set_post_context("\u{0640}\u{0628}");
            d.set_direction(rustybuzz::Direction::RightToLeft);
            d.set_script(script);
            rustybuzz::shape(face, &[], d).clear()
        }
        _ => rustybuzz::UnicodeBuffer::new(),
    };
    // cluster value -> index of the character
    let mut index_of: std::collections::BTreeMap<u32, usize> = std::collections::BTreeMap::new();
    if variant == 1 {
        let s: String = text.iter().collect();
        b.push_str(&s);
        let mut off = 0u32;
        for (i, c) in text.iter().enumerate() {
            index_of.insert(off, i);
            off += c.len_utf8() as u32;
        }
        if !pre.is_empty() {
            b.set_pre_context(&pre.iter().collect::<String>());
        }
        if !post.is_empty() {
            b.set_post_context(&post.iter().collect::<String>());
        }
    } else {
        for (i, c) in text.iter().enumerate() {
            b.add(*c, i as u32);
            index_of.insert(i as u32, i);
        }
        b.set_pre_context(&pre.iter().collect::<String>());
        b.set_post_context(&post.iter().collect::<String>());
    }
    // variant 3: script and direction are GUESSED, behind a leading private-use character (script Unknown, joining type
    // U, not part of `text`): characters without a script of their own never decide the guess, and the letters behind a
    // non-joining character take the forms they take at the start of a text
    let mut skip_cluster = None;
    if variant == 3 {
        let mut probe = rustybuzz::UnicodeBuffer::new();
        probe.push_str(&text.iter().collect::<String>());
        probe.guess_segment_properties();
        if probe.script() == script && pre.is_empty() {
            let mut b2 = rustybuzz::UnicodeBuffer::new();
            b2.add('\u{E000}', 1_000_000);
            for (i, c) in text.iter().enumerate() {
                b2.add(*c, i as u32);
            }
            b2.set_post_context(&post.iter().collect::<String>());
            b = b2;
            skip_cluster = Some(1_000_000u32);
        } else {
            b.set_direction(rustybuzz::Direction::RightToLeft);
            b.set_script(script);
        }
    } else {
        b.set_direction(rustybuzz::Direction::RightToLeft);
        b.set_script(script);
    }
    b.set_cluster_level(rustybuzz::BufferClusterLevel::Characters);
    // paragraph-boundary flags in every combination: they decide about the dotted circle only (switched off here), never
    // about whether the text contexts take part in joining
    let fl = [
        rustybuzz::BufferFlags::empty(),
        rustybuzz::BufferFlags::BEGINNING_OF_TEXT,
        rustybuzz::BufferFlags::END_OF_TEXT,
        rustybuzz::BufferFlags::BEGINNING_OF_TEXT | rustybuzz::BufferFlags::END_OF_TEXT,
    ][(text.len() + pre.len() + 3 * post.len() + variant as usize) % 4];
    b.set_flags(fl | rustybuzz::BufferFlags::DO_NOT_INSERT_DOTTED_CIRCLE);
    let feats: Vec<rustybuzz::Feature> = if variant == 2 {
        let sets: [&[&str]; 5] = [&["kern=256"], &["liga=300", "calt=256"], &["dlig=65536", "-kern"], &["kern=511", "smcp=1000"], &["ccmp=257", "rlig=256", "mark=4096"]];
        sets[(text.len() + pre.len() * 2 + post.len()) % 5].iter().filter_map(|f| rustybuzz::Feature::from_str(f).ok()).collect()
    } else {
        Vec::new()
    };
    let gb = rustybuzz::shape(face, &feats, b);
    let res = forms_of(&gb, text, &index_of, skip_cluster);
    *recycled = Some(gb.clear());
    res
}

fn api_forms(face: &rustybuzz::Face, script: rustybuzz::Script, pre: &[char], text: &[char], post: &[char]) -> Result<Vec<u8>, String> {
    api_forms_v(face, script, pre, text, post, 0, &mut None)
}

fn forms_of(gb: &rustybuzz::GlyphBuffer, text: &[char], index_of: &std::collections::BTreeMap<u32, usize>, skip_cluster: Option<u32>) -> Result<Vec<u8>, String> {
    let all = gb.glyph_infos();
    let kept: Vec<rustybuzz::GlyphInfo> = all.iter().filter(|i| Some(i.cluster) != skip_cluster).cloned().collect();
    let infos = &kept[..];
    if infos.len() != text.len() {
        return Err(format!("{} glyphs for {} characters", infos.len(), text.len()));
    }
    let mut forms = vec![255u8; text.len()];
    for info in infos {
        let k = match index_of.get(&info.cluster) {
            Some(k) => *k,
            None => return Err(format!("cluster {} unexpected", info.cluster)),
        };
        if k >= text.len() || forms[k] != 255 {
            return Err(format!("cluster {} unexpected", info.cluster));
        }
        let g = info.glyph_id;
        let (rep, form) = if (1..=8).contains(&g) {
            ((g - 1) as usize, 7u8)
        } else if (9..65).contains(&g) {
            (((g - 9) / 7) as usize, ((g - 9) % 7) as u8)
        } else {
            return Err(format!("glyph {} unexpected", g));
        };
        if rep_index(text[k]) != Some(rep) {
            return Err(format!("glyph {} at cluster {} belongs to another character", g, k));
        }
        forms[k] = form;
    }
    Ok(forms)
}

fn script_of(name: &str) -> rustybuzz::Script {
    match name {
        "syrc" => rustybuzz::script::SYRIAC,
        _ => rustybuzz::script::ARABIC,
    }
}

fn api(args: &[String]) {
    let maxlen = arg_u64(args, "--maxlen", 3) as usize;
    let nctx = arg_u64(args, "--nctx", 9) as usize;
    let chunk = arg_u64(args, "--chunk", 32768).max(20);
    let sname = arg_str(args, "--script").unwrap_or("syrc").to_string();
    let bytes = std::sync::Arc::new(api_font());
    let bytes_dflt = std::sync::Arc::new(api_font_scripts(&[*b"DFLT"]));
    if rustybuzz::Face::from_slice(&bytes, 0).is_none() {
        println!("anomaly generated font rejected");
        return;
    }
    for (f, t) in API_TAGS.iter().enumerate() {
        println!("apifeat {} {}", f, u32::from_be_bytes(*t));
    }
    let mut jobs: Vec<(usize, usize, usize, u64, u64)> = Vec::new();
    for n in 0..=maxlen {
        let total = 8u64.pow(n as u32);
        for pre in 0..nctx {
            for post in 0..nctx {
                let mut s = 0;
                while s < total {
                    let c = chunk.min(total - s);
                    jobs.push((n, pre, post, s, c));
                    s += c;
                }
            }
        }
    }
    let nthreads = std::thread::available_parallelism().map(|x| x.get()).unwrap_or(4).min(16);
    let jobs = std::sync::Arc::new(jobs);
    let next = std::sync::Arc::new(std::sync::atomic::AtomicUsize::new(0));
    let results = std::sync::Arc::new(std::sync::Mutex::new(vec![(String::new(), 0u64); jobs.len()]));
    let mut hs = Vec::new();
    for _ in 0..nthreads {
        let (jobs, next, results, bytes, sname) = (jobs.clone(), next.clone(), results.clone(), bytes.clone(), sname.clone());
        let bytes_dflt = bytes_dflt.clone();
        hs.push(std::thread::spawn(move || {
            let face_all = rustybuzz::Face::from_slice(&bytes, 0).unwrap();
            let face_dflt = rustybuzz::Face::from_slice(&bytes_dflt, 0).unwrap();
            let dflt_ok = sname == "arab";
            let script = script_of(&sname);
            let mut recycled: Option<rustybuzz::UnicodeBuffer> = None;
            loop {
                let k = next.fetch_add(1, std::sync::atomic::Ordering::SeqCst);
                if k >= jobs.len() {
                    break;
                }
                let (n, pre, post, start, count) = jobs[k];
                let (p, q) = (ctx(pre), ctx(post));
                let mut out = String::new();
                let mut words: Vec<u64> = Vec::new();
                let (mut cur, mut fill, mut joined) = (0u64, 0, 0u64);
                for idx in start..start + count {
                    let t = seq_of(n, idx);
                    let variant = if p.is_empty() && idx % 4 == 3 { 3 } else { (idx + n as u64 + pre as u64 + post as u64) % 3 };
                    // every fifth Arabic case on the font that registers its features under DFLT only
                    let face = if dflt_ok && idx % 5 == 4 { &face_dflt } else { &face_all };
                    let r = std::panic::catch_unwind(std::panic::AssertUnwindSafe(|| api_forms_v(face, script, &p, &t, &q, variant, &mut recycled)));
                    let forms = match r {
                        Ok(Ok(f)) => f,
                        Ok(Err(e)) => {
                            out.push_str(&format!("anomaly {} {} {} {} {}\n", n, pre, post, idx, e));
                            vec![0; n]
                        }
                        Err(_) => {
                            out.push_str(&format!("panic {} {} {} {}\n", n, pre, post, idx));
                            vec![0; n]
                        }
                    };
                    if forms.iter().any(|&a| (1..=6).contains(&a)) {
                        joined += 1;
                    }
                    for j in 0..n {
                        cur |= ((forms[j] & 7) as u64) << (3 * fill);
                        fill += 1;
                        if fill == 20 {
                            words.push(cur);
                            cur = 0;
                            fill = 0;
                        }
                    }
                }
                if fill > 0 {
                    words.push(cur);
                }
                out.push_str(&format!("blk {} {} {} {} {}", n, pre, post, start, count));
                for w in words {
                    out.push(' ');
                    out.push_str(&w.to_string());
                }
                out.push('\n');
                results.lock().unwrap()[k] = (out, joined);
            }
        }));
    }
    for h in hs {
        let _ = h.join();
    }
    let res = results.lock().unwrap();
    let (mut total, mut joined) = (0u64, 0u64);
    for (k, r) in res.iter().enumerate() {
        print!("{}", r.0);
        total += jobs[k].4;
        joined += r.1;
    }
    println!("exh-summary cases={} joined={}", total, joined);
}

/// Joining scripts shaped by the Universal Shaping Engine (its Arabic-joining pass): script, OpenType script tag,
/// a few letters.  Right-to-left scripts only (the form is read per character through the cluster).
const USE_SCRIPTS: &[(&str, [u8; 4], &[u32])] = &[
    ("Nkoo", *b"nko ", &[0x07CA, 0x07CB, 0x07DE, 0x07EB, 0x07F2, 0x07FA, 0x07C1]),
    ("Mand", *b"mand", &[0x0840, 0x0841, 0x0846, 0x0847, 0x0849, 0x0856, 0x0859]),
    ("Adlm", *b"adlm", &[0x1E900, 0x1E922, 0x1E923, 0x1E944, 0x1E94B, 0x1E950]),
    ("Mani", *b"mani", &[0x10AC0, 0x10AC1, 0x10AC5, 0x10ACD, 0x10AD7, 0x10AE5, 0x10AEB]),
    ("Phlp", *b"phlp", &[0x10B80, 0x10B81, 0x10B82, 0x10B85, 0x10B8A, 0x10BA9]),
    ("Rohg", *b"rohg", &[0x10D00, 0x10D01, 0x10D02, 0x10D22, 0x10D24, 0x10D30]),
    ("Sogd", *b"sogd", &[0x10F30, 0x10F31, 0x10F33, 0x10F34, 0x10F45, 0x10F46, 0x10F51]),
    ("Ougr", *b"ougr", &[0x10F70, 0x10F71, 0x10F74, 0x10F77, 0x10F82, 0x10F86]),
    ("Chrs", *b"chrs", &[0x10FB0, 0x10FB2, 0x10FB4, 0x10FB5, 0x10FB8, 0x10FC5]),
    ("Syrc", *b"syrc", &[0x0712, 0x0715, 0x0718, 0x0721, 0x0730, 0x0640]),
];

/// A font for one script: its letters map to glyphs 1..=n, GSUB under the script's own tag, the four positional
/// features of the USE joining pass (isol, init, medi, fina) map every letter to a distinct glyph per form.
/// `shared`: init and medi reference ONE lookup (medi's); init then adds a second lookup that turns the medial into the
/// initial glyph - the glyph per form is the same as with one private lookup per feature.
fn use_font(tag: [u8; 4], letters: &[u32], shared: bool) -> Vec<u8> {
    use crate::fontgen::*;
    let n = letters.len() as u16;
    let mut spec = FontSpec::basic(2 + 5 * n);
    let mut cmap: Vec<(u32, u16)> = letters.iter().enumerate().map(|(i, c)| (*c, 1 + i as u16)).collect();
    cmap.sort();
    spec.cmap = cmap;
    // form f (0 isol, 1 init, 2 medi, 3 fina) of letter i is glyph 1 + n * (f + 1) + i
    let plain: Vec<u16> = (1..=n).collect();
    let form = |f: u16| -> Vec<u16> { (0..n).map(|i| 1 + n * (f + 1) + i).collect() };
    let single = |from: Vec<u16>, to: Vec<u16>| Lookup::one(SubstSubtable::Single2 { coverage: Coverage::Glyphs(from), substitutes: to });
    let (feats, lookups): (Vec<(Tag, Vec<u16>)>, Vec<Lookup<SubstSubtable>>) = if shared {
        (vec![(*b"fina", vec![3]), (*b"init", vec![1, 2]), (*b"isol", vec![0]), (*b"medi", vec![1])],
         vec![single(plain.clone(), form(0)), single(plain.clone(), form(2)), single(form(2), form(1)), single(plain.clone(), form(3))])
    } else {
        (vec![(*b"fina", vec![3]), (*b"init", vec![1]), (*b"isol", vec![0]), (*b"medi", vec![2])],
         vec![single(plain.clone(), form(0)), single(plain.clone(), form(1)), single(plain.clone(), form(2)), single(plain.clone(), form(3))])
    };
    // a multi-glyph lookup INSIDE a positional feature: medi also lists a ligature <letter0.medi, letter0.fina> -> glyph
    // 1 + 5n.  Its second component is a final letter, which does not carry the medi mask, so the ligature must never form
    // (every glyph of a match must carry the mask of the feature being applied); if it does, the output has an unknown glyph
    let (mut feats, mut lookups) = (feats, lookups);
    lookups.push(Lookup::one(SubstSubtable::Ligature { coverage: Coverage::Glyphs(vec![form(2)[0]]), ligature_sets: vec![vec![Ligature { glyph: 1 + 5 * n, components: vec![form(3)[0]] }]] }));
    let li = (lookups.len() - 1) as u16;
    feats.iter_mut().find(|f| &f.0 == b"medi").unwrap().1.push(li);
    let mut layout = Layout::with_features(feats, lookups);
    let all = LangSys { required_feature: None, feature_indices: (0..4).collect() };
    layout.scripts = vec![ScriptRecord { tag, default_langsys: Some(all), langsys: Vec::new() }];
    spec.gsub = Some(layout);
    build(&spec)
}

/// `use-scripts --seed S --n N`: random sequences (with pre-/post-contexts) per USE joining script, through the public
/// API; prints `use <script> <shared> ; pre cps ; text cps ; post cps ; pre classes ; text classes ; post classes ;
/// observed feature per character as an index into [isol fina fin2 fin3 medi med2 init] (7 = nominal glyph)`
fn use_scripts(args: &[String]) {
    let seed = arg_u64(args, "--seed", 1);
    let n = arg_u64(args, "--n", 300);
    let mut r = Rng::new(seed ^ 0x05E5);
    for t in API_TAGS.iter().enumerate() {
        println!("apifeat {} {}", t.0, u32::from_be_bytes(*t.1));
    }
    // form f of the font -> index into API_TAGS
    let idx_of = |tag: &[u8; 4]| API_TAGS.iter().position(|t| t == tag).unwrap() as u8;
    let form_to_action = [idx_of(b"isol"), idx_of(b"init"), idx_of(b"medi"), idx_of(b"fina")];
    for (si, (iso, tag, letters)) in USE_SCRIPTS.iter().enumerate() {
        for shared in [false, true] {
            let data = use_font(*tag, letters, shared);
            let Some(face) = rustybuzz::Face::from_slice(&data, 0) else {
                println!("anomaly use-font {} rejected", iso);
                continue;
            };
            let script = rustybuzz::Script::from_iso15924_tag(rustybuzz::ttf_parser::Tag::from_bytes_lossy(iso.as_bytes())).unwrap();
            let nl = letters.len() as u32;
            for k in 0..n {
                let tl = 1 + r.below(5) as usize;
                let pick = |r: &mut Rng| char::from_u32(letters[r.below(letters.len() as u64) as usize]).unwrap();
                let pre: Vec<char> = (0..r.below(3)).map(|_| pick(&mut r)).collect();
                let text: Vec<char> = (0..tl).map(|_| pick(&mut r)).collect();
                let post: Vec<char> = (0..r.below(3)).map(|_| pick(&mut r)).collect();
                let (p2, t2, q2) = (pre.clone(), text.clone(), post.clone());
                let f2 = face.clone();
                let res = catch(std::panic::AssertUnwindSafe(move || {
                    let mut b = rustybuzz::UnicodeBuffer::new();
                    for (i, c) in t2.iter().enumerate() {
                        b.add(*c, i as u32);
                    }
                    if !p2.is_empty() { b.set_pre_context(&p2.iter().collect::<String>()); }
                    if !q2.is_empty() { b.set_post_context(&q2.iter().collect::<String>()); }
                    b.set_direction(rustybuzz::Direction::RightToLeft);
                    b.set_script(script);
                    b.set_cluster_level(rustybuzz::BufferClusterLevel::Characters);
                    let gb = rustybuzz::shape(&f2, &[], b);
                    gb.glyph_infos().iter().map(|i| (i.glyph_id, i.cluster)).collect::<Vec<_>>()
                }));
                let obs = match res {
                    Err(c) => format!("panic {}", c),
                    Ok(gs) => {
                        let mut forms = vec![255u8; text.len()];
                        let mut bad = gs.len() != text.len();
                        for (g, cl) in &gs {
                            let k2 = *cl as usize;
                            if k2 >= text.len() || forms[k2] != 255 || *g == 0 {
                                bad = true;
                                break;
                            }
                            let (f, i) = ((g - 1) / nl, (g - 1) % nl);
                            if letters[i as usize] != text[k2] as u32 || f > 4 {
                                bad = true;
                                break;
                            }
                            forms[k2] = if f == 0 { 7 } else { form_to_action[(f - 1) as usize] };
                        }
                        if bad { format!("panic unexpected-output {:?}", gs) } else { forms.iter().map(|x| x.to_string()).collect::<Vec<_>>().join(" ") }
                    }
                };
                println!("use {} {} {} ; {} ; {} ; {} ; {} ; {} ; {} ; {}", iso, shared as u8, si * 100000 + k as usize, cps(&pre), cps(&text), cps(&post), cls(&pre), cls(&text), cls(&post), obs);
            }
        }
    }
}

/// `apirun SCRIPT PRE TEXT POST` -> `apiran <feature tag per character | error>`
fn api_run(args: &[String]) {
    let sname = args.get(1).map(|s| s.as_str()).unwrap_or("syrc");
    let pre = parse_cps(args.get(2).map(|s| s.as_str()).unwrap_or("-"));
    let text = parse_cps(args.get(3).map(|s| s.as_str()).unwrap_or("-"));
    let post = parse_cps(args.get(4).map(|s| s.as_str()).unwrap_or("-"));
    let bytes = api_font();
    let face = rustybuzz::Face::from_slice(&bytes, 0).unwrap();
    match catch(std::panic::AssertUnwindSafe(|| api_forms(&face, script_of(sname), &pre, &text, &post))) {
        Ok(Ok(f)) => {
            let names: Vec<String> = f
                .iter()
                .map(|x| if (*x as usize) < 7 { String::from_utf8_lossy(&API_TAGS[*x as usize]).to_string() } else { "-".to_string() })
                .collect();
            println!("apiran {}", names.join(" "));
        }
        Ok(Err(e)) => println!("apiran error {}", e),
        Err(c) => println!("apiran panic {}", c),
    }
}
