//! C11: harness commands for property C11 (stub).

pub fn run(_args: &[String]) {
    eprintln!("c11: not implemented");
    std::process::exit(2);
}
