//! C12: harness commands for property C12 (stub).

pub fn run(_args: &[String]) {
    eprintln!("c12: not implemented");
    std::process::exit(2);
}
