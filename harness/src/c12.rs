//! C12: Hangul composition / decomposition. Sub-commands:
//!   `rbv c12 preds`            maximal true-ranges of the eight range predicates over 0..0x120000 (hook)
//!   `rbv c12 arith [--full 1]` compose_hangul / decompose_hangul of unicode.rs on grids (hook)
//!   `rbv c12 run`              reads requests on stdin:
//!        `font <kind> <seed> <tone> <dotted>`   switch to the generated font of that variant
//!        `t <level> <nd> <script> <cp:cluster,...>`   run the text; answers one line
//!        `r <hook> | <api>` with hook = `cp:cluster:feature:flags,...` (the real
//!        preprocess_text_hangul on a fresh buffer) and api = `cp:role:cluster:unsafe,...` (public
//!        `shape`, glyph ids decoded back to character and ljmo/vjmo/tjmo role) or `panic:<class>`.
//! Fonts are written by the tiny local sfnt writer below (head, hhea, maxp 0.5, hmtx, cmap 12, GSUB with
//! ljmo/vjmo/tjmo single substitutions that move any glyph g to g + role * N).
use crate::util::*;
use rustybuzz::verif::hangul as hk;
use rustybuzz::{BufferClusterLevel, BufferFlags, Face, UnicodeBuffer};
use std::io::{BufRead, Write};

pub fn run(args: &[String]) {
    quiet_panics();
    match args.get(0).map(|s| s.as_str()) {
        Some("preds") => preds(),
        Some("arith") => arith(args),
        Some("run") => serve(),
        _ => {
            eprintln!("c12 preds|arith|run");
            std::process::exit(2)
        }
    }
}

// ------------------------------------------------------------------ pure hooks

fn preds() {
    let j = hk::jmo_numbers();
    println!("jmo {} {} {}", j[0], j[1], j[2]);
    for k in 0..8u8 {
        let mut line = format!("pred {}", k);
        let mut open: Option<u32> = None;
        let lim = 0x120000u32;
        for u in 0..=lim {
            let v = u < lim && hk::pred(k, u);
            match (v, open) {
                (true, None) => open = Some(u),
                (false, Some(lo)) => {
                    line.push_str(&format!(" {}-{}", lo, u - 1));
                    open = None;
                }
                _ => {}
            }
        }
        // a few values far outside the Unicode range (the functions take u32)
        for &u in &[0x7FFF_FFFFu32, 0x8000_1100, 0xFFFF_AC00, u32::MAX] {
            if hk::pred(k, u) {
                line.push_str(&format!(" {}-{}", u, u));
            }
        }
        println!("{}", line);
    }
}

fn arith(args: &[String]) {
    let full = arg_u64(args, "--full", 0) != 0;
    let (sb, sc) = (0xAC00u32, 11172u32);
    // decompose: every syllable and a margin on both sides
    for s in sb - 64..sb + sc + 64 {
        let c = char::from_u32(s).unwrap();
        match catch(move || hk::decompose_hangul(c)) {
            Ok(Some((a, b))) => println!("dec {} {} {}", s, a as u32, b as u32),
            Ok(None) => println!("dec {} 0 0", s),
            Err(e) => println!("dec {} panic {}", s, e),
        }
    }
    for &s in &[0u32, 0x1100, 0xABFF, 0xD7A4, 0xE000, 0x10FFFF] {
        let c = char::from_u32(s).unwrap();
        match catch(move || hk::decompose_hangul(c)) {
            Ok(Some((a, b))) => println!("dec {} {} {}", s, a as u32, b as u32),
            Ok(None) => println!("dec {} 0 0", s),
            Err(e) => println!("dec {} panic {}", s, e),
        }
    }
    let comp = |a: u32, b: u32| {
        let (ca, cb) = (char::from_u32(a).unwrap(), char::from_u32(b).unwrap());
        match catch(move || hk::compose_hangul(ca, cb)) {
            Ok(Some(r)) => println!("comp {} {} {}", a, b, r as u32),
            Ok(None) => println!("comp {} {} 0", a, b),
            Err(e) => println!("comp {} {} panic {}", a, b, e),
        }
    };
    for l in 0x10F8..0x1120u32 {
        for v in 0x1158..0x1180u32 {
            comp(l, v);
        }
    }
    for s in sb - 8..sb + sc + 8 {
        let lv = s >= sb && s < sb + sc && (s - sb) % 28 == 0;
        let edge = s < sb + 60 || s + 60 >= sb + sc;
        if full || lv || edge {
            for t in 0x11A0..0x11C8u32 {
                comp(s, t);
            }
        }
    }
    comp(0x1100, 0x11A8);
    comp(0x61, 0x1161);
    comp(0xAC00, 0x61);
}

// ------------------------------------------------------------------ font variants

/// kind 0: syllables + jamo; 1: jamo only; 2: syllables only; 3: mixed by a seeded predicate
/// (jamo present with probability 3/4, syllables 1/2). tone 0: tone marks absent, 1: present with
/// advance 1000, 2: present with advance 0. dotted: U+25CC present. Latin a..e always present.
#[derive(Clone, Copy, Debug)]
struct Variant {
    kind: u32,
    seed: u32,
    tone: u32,
    dotted: bool,
    /// GSUB layout 0: one private lookup per feature. Layout 1: vjmo and tjmo SHARE a lookup (role 0 -> 2); tjmo then adds
    /// a second lookup (role 2 -> 3); the glyphs every role shows are the same as in layout 0.
    /// Layouts 2..4: the font has only SOME of the three features (2: tjmo; 3: tjmo + vjmo; 4: ljmo): a role whose
    /// feature is missing shows the plain glyph.
    layout: u32,
}

fn mix(seed: u32, cp: u32) -> u32 {
    let x = cp.wrapping_add(seed.wrapping_mul(7919));
    let x = x.wrapping_mul(2654435761);
    (x >> 20) & 3
}

fn is_jamo(cp: u32) -> bool {
    (0x1100..=0x11FF).contains(&cp) || (0xA960..=0xA97C).contains(&cp) || (0xD7B0..=0xD7C6).contains(&cp) || (0xD7CB..=0xD7FB).contains(&cp)
}

fn is_syl(cp: u32) -> bool {
    (0xAC00..=0xD7A3).contains(&cp)
}

impl Variant {
    fn has(&self, cp: u32) -> bool {
        if (0x61..=0x65).contains(&cp) {
            return true;
        }
        if cp == 0x25CC {
            return self.dotted;
        }
        if cp == 0x302E || cp == 0x302F {
            return self.tone != 0;
        }
        if is_jamo(cp) {
            return match self.kind {
                0 | 1 => true,
                2 => false,
                _ => mix(self.seed, cp) != 0,
            };
        }
        if is_syl(cp) {
            return match self.kind {
                0 | 2 => true,
                1 => false,
                _ => mix(self.seed, cp) & 1 == 0,
            };
        }
        false
    }
    fn repertoire(&self) -> Vec<u32> {
        let mut v = Vec::new();
        for cp in 0x61..=0xD7FFu32 {
            if self.has(cp) {
                v.push(cp);
            }
        }
        v
    }
}

// ------------------------------------------------------------------ sfnt writer

fn be16(v: &mut Vec<u8>, x: u16) {
    v.extend_from_slice(&x.to_be_bytes());
}
fn be32(v: &mut Vec<u8>, x: u32) {
    v.extend_from_slice(&x.to_be_bytes());
}

fn build_font(var: &Variant, rep: &[u32]) -> Vec<u8> {
    let n = rep.len() as u32;
    let num_glyphs = 1 + 4 * n;
    assert!(num_glyphs < 0xFFFF);
    // head
    let mut head = Vec::new();
    be32(&mut head, 0x00010000);
    be32(&mut head, 0x00010000);
    be32(&mut head, 0);
    be32(&mut head, 0x5F0F3CF5);
    be16(&mut head, 0);
    be16(&mut head, 1000);
    head.extend_from_slice(&[0u8; 16]);
    for _ in 0..4 {
        be16(&mut head, 0);
    }
    be16(&mut head, 0);
    be16(&mut head, 8);
    be16(&mut head, 2);
    be16(&mut head, 0);
    be16(&mut head, 0);
    // hhea
    let mut hhea = Vec::new();
    be32(&mut hhea, 0x00010000);
    be16(&mut hhea, 800);
    be16(&mut hhea, (-200i16) as u16);
    be16(&mut hhea, 0);
    be16(&mut hhea, 1000);
    for _ in 0..11 {
        be16(&mut hhea, 0);
    }
    be16(&mut hhea, num_glyphs as u16);
    // maxp 0.5
    let mut maxp = Vec::new();
    be32(&mut maxp, 0x00005000);
    be16(&mut maxp, num_glyphs as u16);
    // hmtx: gid 0 = notdef, then 4 copies of the repertoire (role 0..3)
    let mut hmtx = Vec::new();
    be16(&mut hmtx, 1000);
    be16(&mut hmtx, 0);
    for _role in 0..4 {
        for &cp in rep {
            let adv = if (cp == 0x302E || cp == 0x302F) && var.tone == 2 { 0 } else { 1000 };
            be16(&mut hmtx, adv);
            be16(&mut hmtx, 0);
        }
    }
    // cmap format 12 under (3, 10)
    let mut groups: Vec<(u32, u32, u32)> = Vec::new();
    for (i, &cp) in rep.iter().enumerate() {
        let gid = 1 + i as u32;
        match groups.last_mut() {
            Some(g) if g.1 + 1 == cp && g.2 + (g.1 - g.0) + 1 == gid => g.1 = cp,
            _ => groups.push((cp, cp, gid)),
        }
    }
    let mut cmap = Vec::new();
    be16(&mut cmap, 0);
    be16(&mut cmap, 1);
    be16(&mut cmap, 3);
    be16(&mut cmap, 10);
    be32(&mut cmap, 12);
    be16(&mut cmap, 12);
    be16(&mut cmap, 0);
    be32(&mut cmap, 16 + 12 * groups.len() as u32);
    be32(&mut cmap, 0);
    be32(&mut cmap, groups.len() as u32);
    for g in &groups {
        be32(&mut cmap, g.0);
        be32(&mut cmap, g.1);
        be32(&mut cmap, g.2);
    }
    // GSUB: scripts DFLT + hang -> one default LangSys with features ljmo, tjmo, vjmo (sorted by tag)
    let mut gsub = Vec::new();
    be32(&mut gsub, 0x00010000);
    be16(&mut gsub, 10); // ScriptList
    be16(&mut gsub, 10 + 30); // FeatureList
    be16(&mut gsub, 10 + 30 + 38); // LookupList
    // FeatureList records sorted by tag, with the lookups of each
    let order: Vec<(&[u8; 4], Vec<u16>)> = match var.layout {
        1 => vec![(b"ljmo", vec![0]), (b"tjmo", vec![1, 2]), (b"vjmo", vec![1])],
        2 => vec![(b"tjmo", vec![2])],
        3 => vec![(b"tjmo", vec![2]), (b"vjmo", vec![1])],
        4 => vec![(b"ljmo", vec![0])],
        _ => vec![(b"ljmo", vec![0]), (b"tjmo", vec![2]), (b"vjmo", vec![1])],
    };
    let nf = order.len() as u16;
    let shared = var.layout == 1;
    // ScriptList (24 + 2 nf bytes): count, 2 records, Script table (4), LangSys (6 + 2 nf)
    be16(&mut gsub, 2);
    gsub.extend_from_slice(b"DFLT");
    be16(&mut gsub, 14);
    gsub.extend_from_slice(b"hang");
    be16(&mut gsub, 14);
    be16(&mut gsub, 4); // defaultLangSys
    be16(&mut gsub, 0); // langSysCount
    be16(&mut gsub, 0); // lookupOrder
    be16(&mut gsub, 0xFFFF);
    be16(&mut gsub, nf);
    for i in 0..nf {
        be16(&mut gsub, i);
    }
    let slist_len = 24 + 2 * nf;
    gsub[6..8].copy_from_slice(&(10 + slist_len).to_be_bytes());
    let mut flist = Vec::new();
    be16(&mut flist, nf);
    let mut foff = 2 + 6 * nf;
    for (tag, lks) in order.iter() {
        flist.extend_from_slice(*tag);
        be16(&mut flist, foff);
        foff += 4 + 2 * lks.len() as u16;
    }
    for (_, lks) in order.iter() {
        be16(&mut flist, 0);
        be16(&mut flist, lks.len() as u16);
        for l in lks {
            be16(&mut flist, *l);
        }
    }
    // patch the LookupList offset in the header (FeatureList length depends on the layout)
    let ll = 10 + slist_len + flist.len() as u16;
    gsub[8..10].copy_from_slice(&ll.to_be_bytes());
    gsub.extend_from_slice(&flist);
    // LookupList: count, 3 offsets, 3 single substitutions (format 1: delta) of 8 + 6 + 10 bytes
    // layout 0: lookup r adds (r + 1) * n to the plain glyphs; layout 1: lookup 0 adds n, lookup 1 adds 2n to the plain
    // glyphs, lookup 2 adds n to the role-2 glyphs
    be16(&mut gsub, 3);
    for r in 0..3u16 {
        be16(&mut gsub, 8 + 24 * r);
    }
    for r in 0..3u32 {
        let (delta, first) = if shared && r == 2 { (n, 1 + 2 * n) } else { ((r + 1) * n, 1) };
        be16(&mut gsub, 1); // type: single
        be16(&mut gsub, 0);
        be16(&mut gsub, 1);
        be16(&mut gsub, 8);
        be16(&mut gsub, 1); // format 1
        be16(&mut gsub, 6);
        be16(&mut gsub, (delta & 0xFFFF) as u16);
        be16(&mut gsub, 2); // coverage format 2
        be16(&mut gsub, 1);
        be16(&mut gsub, first as u16);
        be16(&mut gsub, (first + n - 1) as u16);
        be16(&mut gsub, 0);
    }
    let mut tables: Vec<(&[u8; 4], Vec<u8>)> = vec![
        (b"GSUB", gsub),
        (b"cmap", cmap),
        (b"head", head),
        (b"hhea", hhea),
        (b"hmtx", hmtx),
        (b"maxp", maxp),
    ];
    tables.sort_by(|a, b| a.0.cmp(b.0));
    let mut out = Vec::new();
    be32(&mut out, 0x00010000);
    be16(&mut out, tables.len() as u16);
    be16(&mut out, 64);
    be16(&mut out, 2);
    be16(&mut out, (tables.len() as u16) * 16 - 64);
    let mut off = 12 + 16 * tables.len() as u32;
    for (tag, data) in &tables {
        out.extend_from_slice(*tag);
        be32(&mut out, 0);
        be32(&mut out, off);
        be32(&mut out, data.len() as u32);
        off += (data.len() as u32 + 3) & !3;
    }
    for (_, data) in &tables {
        out.extend_from_slice(data);
        while out.len() % 4 != 0 {
            out.push(0);
        }
    }
    out
}

// ------------------------------------------------------------------ the request loop

fn parse_text(s: &str) -> Option<Vec<(char, u32)>> {
    let mut v = Vec::new();
    for it in s.split(',') {
        if it.is_empty() {
            continue;
        }
        let (c, k) = it.split_once(':')?;
        v.push((char::from_u32(c.parse().ok()?)?, k.parse().ok()?));
    }
    Some(v)
}

fn serve() {
    let stdin = std::io::stdin();
    let stdout = std::io::stdout();
    let mut w = std::io::BufWriter::new(stdout.lock());
    let mut font: Vec<u8> = Vec::new();
    let mut rep: Vec<u32> = Vec::new();
    for line in stdin.lock().lines() {
        let Ok(line) = line else { break };
        let p: Vec<&str> = line.split_whitespace().collect();
        if p.is_empty() {
            continue;
        }
        if p[0] == "font" && (p.len() == 5 || p.len() == 6) {
            let var = Variant {
                kind: p[1].parse().unwrap_or(0),
                seed: p[2].parse().unwrap_or(0),
                tone: p[3].parse().unwrap_or(0),
                dotted: p[4] == "1",
                layout: if p.len() == 6 { p[5].parse().unwrap_or(0) } else { 0 },
            };
            rep = var.repertoire();
            font = build_font(&var, &rep);
            // self-check: the face maps exactly the variant's repertoire, with the intended advances
            let mut bad = 0;
            match Face::from_slice(&font, 0) {
                Some(face) => {
                    for cp in 0x20..=0xD7FFu32 {
                        let c = char::from_u32(cp).unwrap();
                        let g = face.glyph_index(c);
                        let want = rep.binary_search(&cp).ok().map(|i| 1 + i as u16);
                        if g.map(|g| g.0) != want {
                            bad += 1;
                        }
                    }
                    let _ = writeln!(w, "font-ok glyphs={} chars={} cmap-mismatches={}", face.number_of_glyphs(), rep.len(), bad);
                }
                None => {
                    let _ = writeln!(w, "font-bad unparsable");
                }
            }
            continue;
        }
        if p[0] == "t" && p.len() == 5 {
            let level: u32 = p[1].parse().unwrap_or(0);
            let nd = p[2] == "1";
            let scr = p[3] == "1";
            let Some(text) = parse_text(p[4]) else {
                let _ = writeln!(w, "r bad-request");
                continue;
            };
            let Some(face) = Face::from_slice(&font, 0) else {
                let _ = writeln!(w, "r no-font");
                continue;
            };
            let t1 = text.clone();
            let hook = catch(std::panic::AssertUnwindSafe(|| hk::preprocess(&face, &t1, level, nd)));
            let hs = match hook {
                Ok(v) => v.iter().map(|x| format!("{}:{}:{}:{}", x.0, x.1, x.2, x.3)).collect::<Vec<_>>().join(","),
                Err(e) => format!("panic:{}", e),
            };
            let n = rep.len() as u32;
            let t2 = text.clone();
            let api = catch(std::panic::AssertUnwindSafe(|| {
                let mut b = UnicodeBuffer::new();
                for (c, k) in &t2 {
                    b.add(*c, *k);
                }
                if scr {
                    b.set_script(rustybuzz::script::HANGUL);
                }
                b.set_cluster_level(match level {
                    0 => BufferClusterLevel::MonotoneGraphemes,
                    1 => BufferClusterLevel::MonotoneCharacters,
                    _ => BufferClusterLevel::Characters,
                });
                if nd {
                    b.set_flags(BufferFlags::DO_NOT_INSERT_DOTTED_CIRCLE);
                }
                let gb = rustybuzz::shape(&face, &[], b);
                gb.glyph_infos()
                    .iter()
                    .map(|i| (i.glyph_id, i.cluster, i.unsafe_to_break()))
                    .collect::<Vec<_>>()
            }));
            let as_ = match api {
                Ok(v) => v
                    .iter()
                    .map(|(g, k, u)| {
                        if *g == 0 || *g > 4 * n {
                            format!("0:{}:{}:{}", g, k, *u as u8)
                        } else {
                            format!("{}:{}:{}:{}", rep[((g - 1) % n) as usize], (g - 1) / n, k, *u as u8)
                        }
                    })
                    .collect::<Vec<_>>()
                    .join(","),
                Err(e) => format!("panic:{}", e),
            };
            let _ = writeln!(w, "r {} | {}", hs, as_);
            continue;
        }
        let _ = writeln!(w, "r bad-request");
    }
    let _ = w.flush();
}
