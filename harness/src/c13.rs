//! C13: harness commands for property C13 (stub).

pub fn run(_args: &[String]) {
    eprintln!("c13: not implemented");
    std::process::exit(2);
}
